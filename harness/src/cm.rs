//! Helpers shared by both families: panic guard, enum<->number maps for the
//! common types, printing of the common `Error`, invariant checks on topics,
//! and the `Fam` trait the generic ops are written against.

use std::cell::RefCell;
use std::io;
use std::panic::{self, AssertUnwindSafe};

use mqtt_proto::{Encodable, Error, PollHeader, Protocol, QoS, TopicFilter, TopicName, VarBytes};
use tokio::io::{AsyncRead, AsyncWrite};

use crate::tok::{self, PResult, Toks};

// ---------------------------------------------------------------- panic guard

thread_local! {
    static LAST_PANIC: RefCell<Option<String>> = const { RefCell::new(None) };
}

pub fn install_panic_hook() {
    panic::set_hook(Box::new(|info| {
        let loc = info
            .location()
            .map(|l| format!("{}:{}", l.file().replace([' ', ';', '='], "_"), l.line()));
        LAST_PANIC.with(|c| *c.borrow_mut() = loc);
    }));
}

/// Location of a caught panic (`file:line`, may be empty).
#[derive(Debug, Clone)]
pub struct Panicked(pub String);

/// Run `f` under `catch_unwind`.
pub fn guard<T>(f: impl FnOnce() -> T) -> Result<T, Panicked> {
    match panic::catch_unwind(AssertUnwindSafe(f)) {
        Ok(v) => Ok(v),
        Err(_payload) => {
            let loc = LAST_PANIC.with(|c| c.borrow_mut().take()).unwrap_or_default();
            Err(Panicked(loc))
        }
    }
}

/// `PANIC` or `PANIC file:line` (only used where the value is a whole field).
pub fn panic_str(out: &mut String, p: &Panicked) {
    out.push_str("PANIC");
    if !p.0.is_empty() {
        out.push(' ');
        out.push_str(&p.0);
    }
}

/// Outcome of a decoder / encoder front-end.
pub enum Res<T, E> {
    Ok(T),
    None,
    Err(E),
    Panic(Panicked),
}

impl<T, E> Res<T, E> {
    pub fn from_guard(r: Result<Result<T, E>, Panicked>) -> Self {
        match r {
            Ok(Ok(v)) => Res::Ok(v),
            Ok(Err(e)) => Res::Err(e),
            Err(p) => Res::Panic(p),
        }
    }
    pub fn from_guard_opt(r: Result<Result<Option<T>, E>, Panicked>) -> Self {
        match r {
            Ok(Ok(Some(v))) => Res::Ok(v),
            Ok(Ok(None)) => Res::None,
            Ok(Err(e)) => Res::Err(e),
            Err(p) => Res::Panic(p),
        }
    }
    pub fn ok(&self) -> Option<&T> {
        match self {
            Res::Ok(v) => Some(v),
            _ => None,
        }
    }
}

// ---------------------------------------------------------------- enum maps

pub fn qos_num(q: QoS) -> u64 {
    match q {
        QoS::Level0 => 0,
        QoS::Level1 => 1,
        QoS::Level2 => 2,
    }
}

pub fn num_qos(n: u64) -> PResult<QoS> {
    match n {
        0 => Ok(QoS::Level0),
        1 => Ok(QoS::Level1),
        2 => Ok(QoS::Level2),
        _ => Err(format!("unknown-qos-{}", n)),
    }
}

pub fn proto_num(p: Protocol) -> u64 {
    match p {
        Protocol::V310 => 3,
        Protocol::V311 => 4,
        Protocol::V500 => 5,
    }
}

pub fn num_proto(n: u64) -> PResult<Protocol> {
    match n {
        3 => Ok(Protocol::V310),
        4 => Ok(Protocol::V311),
        5 => Ok(Protocol::V500),
        _ => Err(format!("unknown-protocol-{}", n)),
    }
}

/// The KIND list of FORMAT.md section 3, in KINDIDX order.
pub const KINDS: [io::ErrorKind; 20] = [
    io::ErrorKind::UnexpectedEof,
    io::ErrorKind::InvalidData,
    io::ErrorKind::WriteZero,
    io::ErrorKind::Interrupted,
    io::ErrorKind::ConnectionReset,
    io::ErrorKind::BrokenPipe,
    io::ErrorKind::TimedOut,
    io::ErrorKind::Other,
    io::ErrorKind::ConnectionAborted,
    io::ErrorKind::NotConnected,
    io::ErrorKind::PermissionDenied,
    io::ErrorKind::WouldBlock,
    io::ErrorKind::InvalidInput,
    io::ErrorKind::NotFound,
    io::ErrorKind::ConnectionRefused,
    io::ErrorKind::AddrInUse,
    io::ErrorKind::AddrNotAvailable,
    io::ErrorKind::AlreadyExists,
    io::ErrorKind::Unsupported,
    io::ErrorKind::OutOfMemory,
];

pub fn kind_name(k: io::ErrorKind) -> &'static str {
    match k {
        io::ErrorKind::UnexpectedEof => "UnexpectedEof",
        io::ErrorKind::InvalidData => "InvalidData",
        io::ErrorKind::WriteZero => "WriteZero",
        io::ErrorKind::Interrupted => "Interrupted",
        io::ErrorKind::ConnectionReset => "ConnectionReset",
        io::ErrorKind::BrokenPipe => "BrokenPipe",
        io::ErrorKind::TimedOut => "TimedOut",
        io::ErrorKind::Other => "Other",
        io::ErrorKind::ConnectionAborted => "ConnectionAborted",
        io::ErrorKind::NotConnected => "NotConnected",
        io::ErrorKind::PermissionDenied => "PermissionDenied",
        io::ErrorKind::WouldBlock => "WouldBlock",
        io::ErrorKind::InvalidInput => "InvalidInput",
        io::ErrorKind::NotFound => "NotFound",
        io::ErrorKind::ConnectionRefused => "ConnectionRefused",
        io::ErrorKind::AddrInUse => "AddrInUse",
        io::ErrorKind::AddrNotAvailable => "AddrNotAvailable",
        io::ErrorKind::AlreadyExists => "AlreadyExists",
        io::ErrorKind::Unsupported => "Unsupported",
        io::ErrorKind::OutOfMemory => "OutOfMemory",
        _ => "Unknown",
    }
}

pub fn kind_by_idx(i: u64) -> PResult<io::ErrorKind> {
    KINDS
        .get(i as usize)
        .copied()
        .ok_or_else(|| format!("unknown-kind-index-{}", i))
}

// ---------------------------------------------------------------- errors

pub fn print_err(out: &mut String, e: &Error) {
    match e {
        Error::InvalidRemainingLength => out.push_str("InvalidRemainingLength"),
        Error::EmptySubscription => out.push_str("EmptySubscription"),
        Error::ZeroPid => out.push_str("ZeroPid"),
        Error::InvalidQos(n) => {
            out.push_str("InvalidQos ");
            tok::num(out, u64::from(*n));
        }
        Error::InvalidConnectFlags(n) => {
            out.push_str("InvalidConnectFlags ");
            tok::num(out, u64::from(*n));
        }
        Error::InvalidConnackFlags(n) => {
            out.push_str("InvalidConnackFlags ");
            tok::num(out, u64::from(*n));
        }
        Error::InvalidConnectReturnCode(n) => {
            out.push_str("InvalidConnectReturnCode ");
            tok::num(out, u64::from(*n));
        }
        Error::InvalidProtocol(s, n) => {
            out.push_str("InvalidProtocol ");
            tok::hex(out, s.as_bytes());
            out.push(' ');
            tok::num(out, u64::from(*n));
        }
        Error::UnexpectedProtocol(p) => {
            out.push_str("UnexpectedProtocol ");
            tok::num(out, proto_num(*p));
        }
        Error::InvalidHeader => out.push_str("InvalidHeader"),
        Error::InvalidVarByteInt => out.push_str("InvalidVarByteInt"),
        Error::InvalidTopicName(s) => {
            out.push_str("InvalidTopicName ");
            tok::hex(out, s.as_bytes());
        }
        Error::InvalidTopicFilter(s) => {
            out.push_str("InvalidTopicFilter ");
            tok::hex(out, s.as_bytes());
        }
        Error::InvalidString => out.push_str("InvalidString"),
        Error::IoError(kind, _) => {
            out.push_str("IoError ");
            out.push_str(kind_name(*kind));
        }
    }
}

pub fn print_io_err(out: &mut String, e: &io::Error) {
    out.push_str("IoError ");
    out.push_str(kind_name(e.kind()));
}

/// The fixed table of FORMAT.md section 4.9.
pub fn err_table(idx: u64) -> PResult<Error> {
    Ok(match idx {
        0 => Error::InvalidRemainingLength,
        1 => Error::EmptySubscription,
        2 => Error::ZeroPid,
        3 => Error::InvalidQos(3),
        4 => Error::InvalidConnectFlags(1),
        5 => Error::InvalidConnackFlags(2),
        6 => Error::InvalidConnectReturnCode(6),
        7 => Error::InvalidProtocol("x".to_owned(), 9),
        8 => Error::UnexpectedProtocol(Protocol::V500),
        9 => Error::InvalidHeader,
        10 => Error::InvalidVarByteInt,
        11 => Error::InvalidTopicName("+".to_owned()),
        12 => Error::InvalidTopicFilter(String::new()),
        13 => Error::InvalidString,
        14..=33 => Error::IoError(KINDS[(idx - 14) as usize], String::new()),
        _ => return Err(format!("unknown-error-index-{}", idx)),
    })
}

// ---------------------------------------------------------------- invariants

pub fn inv_str(what: &str, s: &str) -> Result<(), String> {
    match std::str::from_utf8(s.as_bytes()) {
        Ok(_) => Ok(()),
        Err(_) => Err(format!("{}_not_utf8", what)),
    }
}

pub fn inv_name(what: &str, t: &TopicName) -> Result<(), String> {
    let s: &str = t;
    inv_str(what, s)?;
    if TopicName::is_invalid(s) {
        return Err(format!("{}_invalid_topic_name", what));
    }
    Ok(())
}

pub fn inv_filter(what: &str, f: &TopicFilter) -> Result<(), String> {
    let text: &str = f;
    inv_str(what, text)?;
    let (bad, idx) = TopicFilter::is_invalid(text);
    if bad {
        return Err(format!("{}_invalid_topic_filter", what));
    }
    let idx = idx as usize;
    let group = guard(|| f.shared_group_name().map(str::to_owned))
        .map_err(|_| format!("{}_shared_group_name_panic", what))?;
    let filter = guard(|| f.shared_filter().map(str::to_owned))
        .map_err(|_| format!("{}_shared_filter_panic", what))?;
    let info = guard(|| f.shared_info().map(|(a, b)| (a.to_owned(), b.to_owned())))
        .map_err(|_| format!("{}_shared_info_panic", what))?;
    if idx == 0 {
        if f.is_shared() {
            return Err(format!("{}_is_shared_but_index_0", what));
        }
        if group.is_some() || filter.is_some() || info.is_some() {
            return Err(format!("{}_accessor_some_but_index_0", what));
        }
        return Ok(());
    }
    if !f.is_shared() {
        return Err(format!("{}_not_shared_but_index_{}", what, idx));
    }
    let (group, filter, info) = match (group, filter, info) {
        (Some(g), Some(fl), Some(i)) => (g, fl, i),
        _ => return Err(format!("{}_accessor_none_but_shared", what)),
    };
    let tb = text.as_bytes();
    if idx + 1 > tb.len() || idx < 7 {
        return Err(format!("{}_index_out_of_range", what));
    }
    if group.as_bytes() != &tb[7..idx] || filter.as_bytes() != &tb[idx + 1..] {
        return Err(format!("{}_cached_index_mismatch", what));
    }
    let mut joined = String::from("$share/");
    joined.push_str(&group);
    joined.push('/');
    joined.push_str(&filter);
    if joined != text {
        return Err(format!("{}_shared_join_mismatch", what));
    }
    if info.0 != group || info.1 != filter {
        return Err(format!("{}_shared_info_mismatch", what));
    }
    Ok(())
}

pub fn inv_pid(what: &str, p: mqtt_proto::Pid) -> Result<(), String> {
    if p.value() == 0 {
        Err(format!("{}_zero_pid", what))
    } else {
        Ok(())
    }
}

// ---------------------------------------------------------------- parts

/// `name:HEX:NUM` for one separately encodable part (each call guarded).
pub fn part<E: Encodable>(name: &str, e: &E) -> String {
    let mut s = String::from(name);
    s.push(':');
    match guard(|| {
        let mut v = Vec::new();
        e.encode(&mut v).map(|_| v)
    }) {
        Ok(Ok(v)) => tok::hex(&mut s, &v),
        Ok(Err(_)) => s.push_str("ERR"),
        Err(_) => s.push_str("PANIC"),
    }
    s.push(':');
    match guard(|| e.encode_len()) {
        Ok(n) => tok::num(&mut s, n as u64),
        Err(_) => s.push_str("PANIC"),
    }
    s
}

// ---------------------------------------------------------------- family

pub struct HdrInfo {
    pub ptype: &'static str,
    pub dup: bool,
    pub qos: QoS,
    pub retain: bool,
    pub rl: u32,
}

pub fn print_hdr(out: &mut String, h: &HdrInfo) {
    out.push_str(h.ptype);
    out.push(' ');
    tok::boolean(out, h.dup);
    out.push(' ');
    tok::num(out, qos_num(h.qos));
    out.push(' ');
    tok::boolean(out, h.retain);
    out.push(' ');
    tok::num(out, u64::from(h.rl));
}

#[allow(async_fn_in_trait)]
pub trait Fam {
    type Packet: Clone + PartialEq;
    type Err: From<io::Error> + From<Error>;
    type Hdr: PollHeader<Packet = Self::Packet, Error = Self::Err> + Copy + Unpin;

    fn parse(t: &mut Toks) -> PResult<Self::Packet>;
    fn print(out: &mut String, p: &Self::Packet);
    fn print_err(out: &mut String, e: &Self::Err);
    fn is_eof(e: &Self::Err) -> bool;
    fn inv(p: &Self::Packet) -> Result<(), String>;

    fn decode(bytes: &[u8]) -> Result<Option<Self::Packet>, Self::Err>;
    async fn decode_async<R: AsyncRead + Unpin>(r: &mut R) -> Result<Self::Packet, Self::Err>;
    fn encode(p: &Self::Packet) -> Result<VarBytes, Error>;
    fn encode_len(p: &Self::Packet) -> Result<usize, Self::Err>;
    async fn encode_async<W: AsyncWrite + Unpin>(
        p: &Self::Packet,
        w: &mut W,
    ) -> Result<(), Self::Err>;

    fn header_decode(bytes: &[u8]) -> Result<HdrInfo, Self::Err>;
    async fn header_decode_async<R: AsyncRead + Unpin>(r: &mut R) -> Result<HdrInfo, Self::Err>;
    fn header_new_with(byte: u8, rl: u32) -> Result<HdrInfo, Self::Err>;
    fn hdr_rl(h: &Self::Hdr) -> u32;

    /// `None` for packets without a body struct implementing `Encodable`.
    fn body_encode<W: io::Write>(p: &Self::Packet, w: &mut W) -> Option<io::Result<()>>;
    fn body_len(p: &Self::Packet) -> Option<usize>;
    fn parts(p: &Self::Packet) -> Vec<String>;
}
