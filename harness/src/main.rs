//! Test harness for the mqtt-proto codec. See /verif/FORMAT.md.
//!
//! usage: harness <cases.txt> <results.txt> [skip]

mod cm;
mod ops;
mod pk3;
mod pk5;
mod sio;
mod tok;

use std::fs::{File, OpenOptions};
use std::io::{BufWriter, Write};
use std::process;
use std::sync::{Arc, Mutex};
use std::thread;
use std::time::{Duration, Instant};

/// Largest single allocation request seen while a case runs. The decoders legitimately allocate a buffer of the declared
/// remaining length (< 2^28 bytes) and the `big` op builds payloads of up to 300 MB; anything of 512 MB or more in one
/// request is appended to the case's result as `;ALLOC=<bytes>`.
struct Tracking;
static MAX_REQ: std::sync::atomic::AtomicUsize = std::sync::atomic::AtomicUsize::new(0);
const ALLOC_LIMIT: usize = 1 << 29;

#[inline]
fn note(n: usize) {
    if n >= ALLOC_LIMIT {
        MAX_REQ.fetch_max(n, std::sync::atomic::Ordering::Relaxed);
    }
}

unsafe impl std::alloc::GlobalAlloc for Tracking {
    unsafe fn alloc(&self, l: std::alloc::Layout) -> *mut u8 {
        note(l.size());
        std::alloc::System.alloc(l)
    }
    unsafe fn alloc_zeroed(&self, l: std::alloc::Layout) -> *mut u8 {
        note(l.size());
        std::alloc::System.alloc_zeroed(l)
    }
    unsafe fn realloc(&self, p: *mut u8, l: std::alloc::Layout, n: usize) -> *mut u8 {
        note(n);
        std::alloc::System.realloc(p, l, n)
    }
    unsafe fn dealloc(&self, p: *mut u8, l: std::alloc::Layout) {
        std::alloc::System.dealloc(p, l)
    }
}

#[global_allocator]
static ALLOCATOR: Tracking = Tracking;

const LIMIT_DEFAULT: Duration = Duration::from_secs(20);
const LIMIT_RANGE: Duration = Duration::from_secs(60);

struct Running {
    started: Instant,
    limit: Duration,
}

struct Shared {
    /// `Some` while a case is being executed.
    current: Mutex<Option<Running>>,
    out: Mutex<BufWriter<File>>,
}

fn die(msg: &str) -> ! {
    eprintln!("harness: {}", msg);
    process::exit(2);
}

const MAX_LINE: usize = 96 << 20;

fn main() {
    let args: Vec<String> = std::env::args().collect();
    if args.len() < 3 || args.len() > 4 {
        die("usage: harness <cases.txt> <results.txt> [skip]");
    }
    let skip: usize = match args.get(3) {
        None => 0,
        Some(s) => s
            .parse()
            .unwrap_or_else(|_| die("skip must be a natural number")),
    };
    let raw = std::fs::read(&args[1])
        .unwrap_or_else(|e| die(&format!("cannot read {}: {}", args[1], e)));
    // Cases are ASCII; anything else becomes U+FFFD and ends up as a BADCASE.
    let cases = String::from_utf8_lossy(&raw);
    // skip == 0: start a fresh result file; skip > 0: continue the existing one.
    let file = if skip == 0 {
        File::create(&args[2])
    } else {
        OpenOptions::new().create(true).append(true).open(&args[2])
    }
    .unwrap_or_else(|e| die(&format!("cannot open {}: {}", args[2], e)));

    cm::install_panic_hook();

    let shared = Arc::new(Shared {
        current: Mutex::new(None),
        out: Mutex::new(BufWriter::with_capacity(1 << 16, file)),
    });

    {
        let shared = Arc::clone(&shared);
        thread::spawn(move || watchdog(&shared));
    }

    for line in cases.lines().skip(skip) {
        let limit = if ops::is_range_op(line) {
            LIMIT_RANGE
        } else {
            LIMIT_DEFAULT
        };
        *shared.current.lock().unwrap() = Some(Running {
            started: Instant::now(),
            limit,
        });
        MAX_REQ.store(0, std::sync::atomic::Ordering::Relaxed);
        let mut result = ops::run_case(line);
        let big = MAX_REQ.load(std::sync::atomic::Ordering::Relaxed);
        // No case of the unchanged library prints more than about 30 MB (thorough tier: 2 MB packets, seven hex copies). A changed one may (a decoder
        // that believes a 256 MB body arrived): keep the head of the line, so the run stays bounded.
        if result.len() > MAX_LINE {
            let n = result.len();
            let mut cut = 2000;
            while !result.is_char_boundary(cut) {
                cut -= 1;
            }
            result.truncate(cut);
            result = format!("OVERSIZE len={};{}", n, result);
        }
        if big > 0 {
            result.push_str(&format!(";ALLOC={}", big));
        }
        // Same lock order as the watchdog (current, then out): exactly one of
        // the two writes the line for this case.
        let mut cur = shared.current.lock().unwrap();
        let mut out = shared.out.lock().unwrap();
        let ok = out
            .write_all(result.as_bytes())
            .and_then(|_| out.write_all(b"\n"))
            .and_then(|_| out.flush());
        if let Err(e) = ok {
            die(&format!("write failed: {}", e));
        }
        *cur = None;
    }
    let _cur = shared.current.lock().unwrap();
    if let Err(e) = shared.out.lock().unwrap().flush() {
        die(&format!("flush failed: {}", e));
    }
    process::exit(0);
}

fn watchdog(shared: &Shared) {
    loop {
        thread::sleep(Duration::from_millis(50));
        let cur = shared.current.lock().unwrap();
        if let Some(r) = cur.as_ref() {
            if r.started.elapsed() > r.limit {
                let mut out = shared.out.lock().unwrap();
                let _ = out.write_all(b"TIMEOUT\n");
                let _ = out.flush();
                process::exit(3);
            }
        }
    }
}
