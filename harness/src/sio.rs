//! Scripted transports (AsyncRead / AsyncWrite / io::Write) and a tiny executor.

use std::collections::VecDeque;
use std::future::Future;
use std::io;
use std::mem::MaybeUninit;
use std::pin::{pin, Pin};
use std::task::{Context, Poll, Waker};

use mqtt_proto::{GenericPollPacket, GenericPollPacketState};
use tokio::io::{AsyncRead, AsyncWrite, ReadBuf};

use crate::cm::{self, Fam};
use crate::tok::{parse_num, PResult};

// ---------------------------------------------------------------- executor

/// Busy poll loop with a no-op waker (all our transports are either always
/// ready or wake before returning `Pending`).
pub fn block_on<F: Future>(fut: F) -> F::Output {
    let mut fut = pin!(fut);
    let mut cx = Context::from_waker(Waker::noop());
    loop {
        if let Poll::Ready(v) = fut.as_mut().poll(&mut cx) {
            return v;
        }
    }
}

pub type PollOut<F> = Result<
    (
        usize,
        Vec<MaybeUninit<u8>>,
        <F as Fam>::Packet,
    ),
    <F as Fam>::Err,
>;

/// Build a NEW PollPacket from (state, reader), poll it once, drop it.
pub fn poll_once<F: Fam, R: AsyncRead + Unpin>(
    state: &mut GenericPollPacketState<F::Hdr>,
    reader: &mut R,
) -> Poll<PollOut<F>> {
    let mut cx = Context::from_waker(Waker::noop());
    let mut fut = GenericPollPacket::new(state, reader);
    Pin::new(&mut fut).poll(&mut cx)
}

/// A waker that counts its wake-ups: the scripted transports wake the waker they are handed before returning
/// Pending, so a decoder that passes on some other waker than its caller's shows up as a Pending without a wake-up.
pub struct CountingWaker(pub std::sync::atomic::AtomicUsize);

impl std::task::Wake for CountingWaker {
    fn wake(self: std::sync::Arc<Self>) {
        self.0.fetch_add(1, std::sync::atomic::Ordering::SeqCst);
    }
    fn wake_by_ref(self: &std::sync::Arc<Self>) {
        self.0.fetch_add(1, std::sync::atomic::Ordering::SeqCst);
    }
}

/// poll_once with the caller's waker
pub fn poll_once_with<F: Fam, R: AsyncRead + Unpin>(
    state: &mut GenericPollPacketState<F::Hdr>,
    reader: &mut R,
    waker: &Waker,
) -> Poll<PollOut<F>> {
    let mut cx = Context::from_waker(waker);
    let mut fut = GenericPollPacket::new(state, reader);
    Pin::new(&mut fut).poll(&mut cx)
}

/// Poll (re-creating the future each time) until it is ready.
pub fn poll_until_ready<F: Fam, R: AsyncRead + Unpin>(
    state: &mut GenericPollPacketState<F::Hdr>,
    reader: &mut R,
) -> PollOut<F> {
    loop {
        if let Poll::Ready(r) = poll_once::<F, R>(state, reader) {
            return r;
        }
    }
}

pub fn body_bytes(buf: Vec<MaybeUninit<u8>>) -> Vec<u8> {
    // The decoder only returns the buffer after it has been completely filled.
    buf.into_iter().map(|b| unsafe { b.assume_init() }).collect()
}

// ---------------------------------------------------------------- tail

#[derive(Clone, Copy)]
pub enum Tail {
    Eof,
    Kind(io::ErrorKind),
    /// the same kind delivered the way a socket delivers it: io::Error::from_raw_os_error(errno)
    Os(i32),
}

/// Linux errno whose io::ErrorKind is the kind with this FORMAT.md index
fn errno_of_kind_idx(i: u64) -> Option<i32> {
    Some(match i {
        4 => 104,
        5 => 32,
        6 => 110,
        8 => 103,
        9 => 107,
        10 => 13,
        14 => 111,
        15 => 98,
        16 => 99,
        _ => return None,
    })
}

pub fn parse_tail(t: &str) -> PResult<Tail> {
    if t == "eof" {
        return Ok(Tail::Eof);
    }
    if let Some(n) = t.strip_prefix('o') {
        let i = parse_num(n)?;
        let errno = errno_of_kind_idx(i).ok_or_else(|| "bad-os-kind".to_owned())?;
        // only meaningful where the platform maps the errno to that kind
        if io::Error::from_raw_os_error(errno).kind() != cm::kind_by_idx(i)? {
            return Err("errno-kind".to_owned());
        }
        return Ok(Tail::Os(errno));
    }
    match t.strip_prefix('k') {
        Some(n) => Ok(Tail::Kind(cm::kind_by_idx(parse_num(n)?)?)),
        None => Err("bad-tail".to_owned()),
    }
}

// ---------------------------------------------------------------- slice reader

/// Delivers `data` (at most `chunk` bytes per read), then `tail` forever.
/// With `pend`, returns Pending (after waking) before every second read.
pub struct ScriptReader<'a> {
    data: &'a [u8],
    pub pos: usize,
    chunk: usize,
    tail: Tail,
    pend: bool,
    reads: u64,
    just_pended: bool,
}

impl<'a> ScriptReader<'a> {
    pub fn new(data: &'a [u8], chunk: usize, tail: Tail, pend: bool) -> Self {
        ScriptReader {
            data,
            pos: 0,
            chunk,
            tail,
            pend,
            reads: 0,
            just_pended: false,
        }
    }

    /// Always ready, offers everything, then clean EOF.
    pub fn whole(data: &'a [u8]) -> Self {
        Self::new(data, usize::MAX, Tail::Eof, false)
    }
}

impl AsyncRead for ScriptReader<'_> {
    fn poll_read(
        self: Pin<&mut Self>,
        cx: &mut Context<'_>,
        buf: &mut ReadBuf<'_>,
    ) -> Poll<io::Result<()>> {
        let me = self.get_mut();
        if me.pend && me.reads % 2 == 1 && !me.just_pended {
            me.just_pended = true;
            cx.waker().wake_by_ref();
            return Poll::Pending;
        }
        me.just_pended = false;
        me.reads += 1;
        let rest = &me.data[me.pos..];
        if rest.is_empty() {
            return match me.tail {
                Tail::Eof => Poll::Ready(Ok(())),
                Tail::Kind(k) => Poll::Ready(Err(io::Error::from(k))),
                Tail::Os(n) => Poll::Ready(Err(io::Error::from_raw_os_error(n))),
            };
        }
        let n = rest.len().min(me.chunk).min(buf.remaining());
        buf.put_slice(&rest[..n]);
        me.pos += n;
        Poll::Ready(Ok(()))
    }
}

// ---------------------------------------------------------------- sched reader

#[derive(Clone, Copy, PartialEq, Eq)]
pub enum Atom {
    B(u8),
    C,
    P,
}

pub fn parse_atoms(t: &str) -> PResult<VecDeque<Atom>> {
    let mut out = VecDeque::new();
    if t == "-" {
        return Ok(out);
    }
    for a in t.split('.') {
        let b = a.as_bytes();
        match b {
            [b'c'] => out.push_back(Atom::C),
            [b'p'] => out.push_back(Atom::P),
            [b'b', _, _] => {
                let v = crate::tok::parse_hex(&format!("x{}", &a[1..]))?;
                out.push_back(Atom::B(v[0]));
            }
            _ => return Err("bad-atom".to_owned()),
        }
    }
    Ok(out)
}

pub enum Sz {
    N(usize),
    P,
    T,
}

pub struct SchedReader {
    atoms: VecDeque<Atom>,
    tail: Tail,
    pub used: usize,
    pub rpend: usize,
    pub caps: Vec<usize>,
    pub sizes: Vec<Sz>,
    /// fill the ReadBuf the way adapter-style transports do: `initialize_unfilled()` (which zero-initialises the
    /// whole window), copy, `advance(n)` — instead of `put_slice`
    pub init_mode: bool,
}

impl SchedReader {
    pub fn new(atoms: VecDeque<Atom>, tail: Tail) -> Self {
        SchedReader {
            atoms,
            tail,
            used: 0,
            rpend: 0,
            caps: Vec::new(),
            sizes: Vec::new(),
            init_mode: false,
        }
    }
}

impl AsyncRead for SchedReader {
    fn poll_read(
        self: Pin<&mut Self>,
        cx: &mut Context<'_>,
        buf: &mut ReadBuf<'_>,
    ) -> Poll<io::Result<()>> {
        let me = self.get_mut();
        let cap = buf.remaining();
        me.caps.push(cap);
        while me.atoms.front() == Some(&Atom::C) {
            me.atoms.pop_front();
        }
        match me.atoms.front() {
            None => {
                me.sizes.push(Sz::T);
                match me.tail {
                    Tail::Eof => Poll::Ready(Ok(())),
                    Tail::Kind(k) => Poll::Ready(Err(io::Error::from(k))),
                    Tail::Os(n) => Poll::Ready(Err(io::Error::from_raw_os_error(n))),
                }
            }
            Some(Atom::P) => {
                me.atoms.pop_front();
                me.rpend += 1;
                me.sizes.push(Sz::P);
                cx.waker().wake_by_ref();
                Poll::Pending
            }
            Some(_) => {
                let mut n = 0;
                let mut staged: Vec<u8> = Vec::new();
                while n < cap {
                    match me.atoms.front() {
                        Some(Atom::B(b)) => {
                            if me.init_mode {
                                staged.push(*b);
                            } else {
                                buf.put_slice(&[*b]);
                            }
                            me.atoms.pop_front();
                            n += 1;
                        }
                        Some(Atom::C) => {
                            me.atoms.pop_front();
                            break;
                        }
                        Some(Atom::P) | None => break,
                    }
                }
                if me.init_mode {
                    let dst = buf.initialize_unfilled();
                    dst[..n].copy_from_slice(&staged);
                    buf.advance(n);
                }
                me.used += n;
                me.sizes.push(Sz::N(n));
                Poll::Ready(Ok(()))
            }
        }
    }
}

// ---------------------------------------------------------------- writer

#[derive(Clone, Copy)]
pub enum Step {
    A(usize),
    P,
    Z,
    F(io::ErrorKind),
}

pub fn parse_script(t: &str) -> PResult<Vec<Step>> {
    let mut out = Vec::new();
    if t == "-" {
        return Ok(out);
    }
    for s in t.split('.') {
        if s == "p" {
            out.push(Step::P);
        } else if s == "z" {
            out.push(Step::Z);
        } else if let Some(n) = s.strip_prefix('a') {
            let n = parse_num(n)?;
            if n == 0 {
                return Err("accept-zero".to_owned());
            }
            out.push(Step::A(n as usize));
        } else if let Some(k) = s.strip_prefix('f') {
            out.push(Step::F(cm::kind_by_idx(parse_num(k)?)?));
        } else {
            return Err("bad-step".to_owned());
        }
    }
    Ok(out)
}

pub struct ScriptWriter {
    steps: Vec<Step>,
    next: usize,
    pub written: Vec<u8>,
    pub calls: usize,
}

impl ScriptWriter {
    pub fn new(steps: Vec<Step>) -> Self {
        ScriptWriter {
            steps,
            next: 0,
            written: Vec::new(),
            calls: 0,
        }
    }

    fn step(&mut self, buf: &[u8], cx: Option<&mut Context<'_>>) -> Poll<io::Result<usize>> {
        self.calls += 1;
        let step = self.steps.get(self.next).copied();
        self.next += 1;
        match step {
            None => {
                self.written.extend_from_slice(buf);
                Poll::Ready(Ok(buf.len()))
            }
            Some(Step::A(n)) => {
                let n = n.min(buf.len());
                self.written.extend_from_slice(&buf[..n]);
                Poll::Ready(Ok(n))
            }
            Some(Step::Z) => Poll::Ready(Ok(0)),
            Some(Step::F(k)) => Poll::Ready(Err(io::Error::from(k))),
            Some(Step::P) => match cx {
                Some(cx) => {
                    cx.waker().wake_by_ref();
                    Poll::Pending
                }
                // not reachable: `p` is rejected for the blocking entry point
                None => Poll::Ready(Err(io::Error::from(io::ErrorKind::WouldBlock))),
            },
        }
    }
}

impl AsyncWrite for ScriptWriter {
    fn poll_write(
        self: Pin<&mut Self>,
        cx: &mut Context<'_>,
        buf: &[u8],
    ) -> Poll<io::Result<usize>> {
        self.get_mut().step(buf, Some(cx))
    }
    fn poll_flush(self: Pin<&mut Self>, _cx: &mut Context<'_>) -> Poll<io::Result<()>> {
        Poll::Ready(Ok(()))
    }
    fn poll_shutdown(self: Pin<&mut Self>, _cx: &mut Context<'_>) -> Poll<io::Result<()>> {
        Poll::Ready(Ok(()))
    }
}

impl io::Write for ScriptWriter {
    fn write(&mut self, buf: &[u8]) -> io::Result<usize> {
        match self.step(buf, None) {
            Poll::Ready(r) => r,
            Poll::Pending => Err(io::Error::from(io::ErrorKind::WouldBlock)),
        }
    }
    fn flush(&mut self) -> io::Result<()> {
        Ok(())
    }
}
