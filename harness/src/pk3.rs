//! v3 packets: parse (PKT3), print, invariants walk, family glue.

use std::io;
use std::sync::Arc;

use bytes::Bytes;
use mqtt_proto::v3::{
    Connack, Connect, ConnectReturnCode, Header, LastWill, Packet, PacketType, Publish, Suback,
    Subscribe, SubscribeReturnCode, Unsubscribe,
};
use mqtt_proto::{Encodable, Error, Pid, QosPid, TopicFilter, TopicName, VarBytes};
use tokio::io::{AsyncRead, AsyncWrite};

use crate::cm::{self, Fam, HdrInfo};
use crate::tok::{self, PResult, Toks};

pub struct V3;

// ---------------------------------------------------------------- enum maps

fn crc_num(c: ConnectReturnCode) -> u64 {
    match c {
        ConnectReturnCode::Accepted => 0,
        ConnectReturnCode::UnacceptableProtocolVersion => 1,
        ConnectReturnCode::IdentifierRejected => 2,
        ConnectReturnCode::ServerUnavailable => 3,
        ConnectReturnCode::BadUserNameOrPassword => 4,
        ConnectReturnCode::NotAuthorized => 5,
    }
}

fn num_crc(n: u64) -> PResult<ConnectReturnCode> {
    Ok(match n {
        0 => ConnectReturnCode::Accepted,
        1 => ConnectReturnCode::UnacceptableProtocolVersion,
        2 => ConnectReturnCode::IdentifierRejected,
        3 => ConnectReturnCode::ServerUnavailable,
        4 => ConnectReturnCode::BadUserNameOrPassword,
        5 => ConnectReturnCode::NotAuthorized,
        _ => return Err(format!("unknown-connack-code-{}", n)),
    })
}

fn src_num(c: SubscribeReturnCode) -> u64 {
    match c {
        SubscribeReturnCode::MaxLevel0 => 0,
        SubscribeReturnCode::MaxLevel1 => 1,
        SubscribeReturnCode::MaxLevel2 => 2,
        SubscribeReturnCode::Failure => 128,
    }
}

fn num_src(n: u64) -> PResult<SubscribeReturnCode> {
    Ok(match n {
        0 => SubscribeReturnCode::MaxLevel0,
        1 => SubscribeReturnCode::MaxLevel1,
        2 => SubscribeReturnCode::MaxLevel2,
        128 => SubscribeReturnCode::Failure,
        _ => return Err(format!("unknown-suback-code-{}", n)),
    })
}

pub fn ptype_name(t: PacketType) -> &'static str {
    match t {
        PacketType::Connect => "connect",
        PacketType::Connack => "connack",
        PacketType::Publish => "publish",
        PacketType::Puback => "puback",
        PacketType::Pubrec => "pubrec",
        PacketType::Pubrel => "pubrel",
        PacketType::Pubcomp => "pubcomp",
        PacketType::Subscribe => "subscribe",
        PacketType::Suback => "suback",
        PacketType::Unsubscribe => "unsubscribe",
        PacketType::Unsuback => "unsuback",
        PacketType::Pingreq => "pingreq",
        PacketType::Pingresp => "pingresp",
        PacketType::Disconnect => "disconnect",
    }
}

fn hdr_info(h: Header) -> HdrInfo {
    HdrInfo {
        ptype: ptype_name(h.typ),
        dup: h.dup,
        qos: h.qos,
        retain: h.retain,
        rl: h.remaining_len,
    }
}

// ---------------------------------------------------------------- parse helpers (shared with v5)

pub fn parse_pid(t: &mut Toks) -> PResult<Pid> {
    let n = t.u16()?;
    Pid::try_from(n).map_err(|_| "pid-zero".to_owned())
}

pub fn parse_topic_name(t: &mut Toks) -> PResult<TopicName> {
    let s = t.text()?;
    TopicName::try_from(s).map_err(|_| "invalid-topic-name".to_owned())
}

pub fn parse_topic_filter(t: &mut Toks) -> PResult<TopicFilter> {
    let s = t.text()?;
    TopicFilter::try_from(s).map_err(|_| "invalid-topic-filter".to_owned())
}

pub fn parse_qos_pid(t: &mut Toks) -> PResult<QosPid> {
    let qos = t.num()?;
    let pid = t.u16()?;
    match qos {
        0 => {
            if pid != 0 {
                return Err("qos0-with-pid".to_owned());
            }
            Ok(QosPid::Level0)
        }
        1 => Ok(QosPid::Level1(
            Pid::try_from(pid).map_err(|_| "pid-zero".to_owned())?,
        )),
        2 => Ok(QosPid::Level2(
            Pid::try_from(pid).map_err(|_| "pid-zero".to_owned())?,
        )),
        _ => Err(format!("unknown-qos-{}", qos)),
    }
}

pub fn print_qos_pid(out: &mut String, q: QosPid) {
    match q {
        QosPid::Level0 => out.push_str("0 0"),
        QosPid::Level1(p) => {
            out.push_str("1 ");
            tok::num(out, u64::from(p.value()));
        }
        QosPid::Level2(p) => {
            out.push_str("2 ");
            tok::num(out, u64::from(p.value()));
        }
    }
}

pub fn parse_opt_text(t: &mut Toks) -> PResult<Option<Arc<String>>> {
    if t.opt()? {
        Ok(Some(Arc::new(t.text()?)))
    } else {
        Ok(None)
    }
}

pub fn parse_opt_bytes(t: &mut Toks) -> PResult<Option<Bytes>> {
    if t.opt()? {
        Ok(Some(Bytes::from(t.hex()?)))
    } else {
        Ok(None)
    }
}

pub fn print_opt_hex(out: &mut String, v: Option<&[u8]>) {
    match v {
        None => out.push_str(" -"),
        Some(b) => {
            out.push_str(" + ");
            tok::hex(out, b);
        }
    }
}

// ---------------------------------------------------------------- parse

fn parse(t: &mut Toks) -> PResult<Packet> {
    let kind = t.next()?;
    Ok(match kind {
        "connect" => {
            let protocol = cm::num_proto(t.num()?)?;
            let clean_session = t.boolean()?;
            let keep_alive = t.u16()?;
            let client_id = Arc::new(t.text()?);
            let last_will = if t.opt()? {
                let qos = cm::num_qos(t.num()?)?;
                let retain = t.boolean()?;
                let topic_name = parse_topic_name(t)?;
                let message = Bytes::from(t.hex()?);
                Some(LastWill {
                    qos,
                    retain,
                    topic_name,
                    message,
                })
            } else {
                None
            };
            let username = parse_opt_text(t)?;
            let password = parse_opt_bytes(t)?;
            Packet::Connect(Connect {
                protocol,
                clean_session,
                keep_alive,
                client_id,
                last_will,
                username,
                password,
            })
        }
        "connack" => {
            let session_present = t.boolean()?;
            let code = num_crc(t.num()?)?;
            Packet::Connack(Connack {
                session_present,
                code,
            })
        }
        "publish" => {
            let dup = t.boolean()?;
            let retain = t.boolean()?;
            let qos_pid = parse_qos_pid(t)?;
            let topic_name = parse_topic_name(t)?;
            let payload = Bytes::from(t.hex()?);
            Packet::Publish(Publish {
                dup,
                retain,
                qos_pid,
                topic_name,
                payload,
            })
        }
        "puback" => Packet::Puback(parse_pid(t)?),
        "pubrec" => Packet::Pubrec(parse_pid(t)?),
        "pubrel" => Packet::Pubrel(parse_pid(t)?),
        "pubcomp" => Packet::Pubcomp(parse_pid(t)?),
        "unsuback" => Packet::Unsuback(parse_pid(t)?),
        "subscribe" => {
            let pid = parse_pid(t)?;
            let n = t.num()?;
            let mut topics = Vec::new();
            for _ in 0..n {
                let f = parse_topic_filter(t)?;
                let q = cm::num_qos(t.num()?)?;
                topics.push((f, q));
            }
            Packet::Subscribe(Subscribe { pid, topics })
        }
        "suback" => {
            let pid = parse_pid(t)?;
            let n = t.num()?;
            let mut topics = Vec::new();
            for _ in 0..n {
                topics.push(num_src(t.num()?)?);
            }
            Packet::Suback(Suback { pid, topics })
        }
        "unsubscribe" => {
            let pid = parse_pid(t)?;
            let n = t.num()?;
            let mut topics = Vec::new();
            for _ in 0..n {
                topics.push(parse_topic_filter(t)?);
            }
            Packet::Unsubscribe(Unsubscribe { pid, topics })
        }
        "pingreq" => Packet::Pingreq,
        "pingresp" => Packet::Pingresp,
        "disconnect" => Packet::Disconnect,
        _ => return Err("unknown-v3-packet".to_owned()),
    })
}

// ---------------------------------------------------------------- print

fn print_pid_packet(out: &mut String, name: &str, pid: Pid) {
    out.push_str(name);
    out.push(' ');
    tok::num(out, u64::from(pid.value()));
}

fn print(out: &mut String, p: &Packet) {
    match p {
        Packet::Connect(c) => {
            out.push_str("connect ");
            tok::num(out, cm::proto_num(c.protocol));
            out.push(' ');
            tok::boolean(out, c.clean_session);
            out.push(' ');
            tok::num(out, u64::from(c.keep_alive));
            out.push(' ');
            tok::hex(out, c.client_id.as_bytes());
            match &c.last_will {
                None => out.push_str(" -"),
                Some(w) => {
                    out.push_str(" + ");
                    tok::num(out, cm::qos_num(w.qos));
                    out.push(' ');
                    tok::boolean(out, w.retain);
                    out.push(' ');
                    tok::hex(out, w.topic_name.as_bytes());
                    out.push(' ');
                    tok::hex(out, w.message.as_ref());
                }
            }
            print_opt_hex(out, c.username.as_ref().map(|s| s.as_bytes()));
            print_opt_hex(out, c.password.as_ref().map(|b| b.as_ref()));
        }
        Packet::Connack(c) => {
            out.push_str("connack ");
            tok::boolean(out, c.session_present);
            out.push(' ');
            tok::num(out, crc_num(c.code));
        }
        Packet::Publish(p) => {
            out.push_str("publish ");
            tok::boolean(out, p.dup);
            out.push(' ');
            tok::boolean(out, p.retain);
            out.push(' ');
            print_qos_pid(out, p.qos_pid);
            out.push(' ');
            tok::hex(out, p.topic_name.as_bytes());
            out.push(' ');
            tok::hex(out, p.payload.as_ref());
        }
        Packet::Puback(pid) => print_pid_packet(out, "puback", *pid),
        Packet::Pubrec(pid) => print_pid_packet(out, "pubrec", *pid),
        Packet::Pubrel(pid) => print_pid_packet(out, "pubrel", *pid),
        Packet::Pubcomp(pid) => print_pid_packet(out, "pubcomp", *pid),
        Packet::Unsuback(pid) => print_pid_packet(out, "unsuback", *pid),
        Packet::Subscribe(s) => {
            print_pid_packet(out, "subscribe", s.pid);
            out.push(' ');
            tok::num(out, s.topics.len() as u64);
            for (f, q) in &s.topics {
                out.push(' ');
                tok::hex(out, f.as_bytes());
                out.push(' ');
                tok::num(out, cm::qos_num(*q));
            }
        }
        Packet::Suback(s) => {
            print_pid_packet(out, "suback", s.pid);
            out.push(' ');
            tok::num(out, s.topics.len() as u64);
            for c in &s.topics {
                out.push(' ');
                tok::num(out, src_num(*c));
            }
        }
        Packet::Unsubscribe(s) => {
            print_pid_packet(out, "unsubscribe", s.pid);
            out.push(' ');
            tok::num(out, s.topics.len() as u64);
            for f in &s.topics {
                out.push(' ');
                tok::hex(out, f.as_bytes());
            }
        }
        Packet::Pingreq => out.push_str("pingreq"),
        Packet::Pingresp => out.push_str("pingresp"),
        Packet::Disconnect => out.push_str("disconnect"),
    }
}

// ---------------------------------------------------------------- invariants

fn inv(p: &Packet) -> Result<(), String> {
    match p {
        Packet::Connect(c) => {
            cm::inv_str("client_id", &c.client_id)?;
            if let Some(w) = &c.last_will {
                cm::inv_name("will_topic", &w.topic_name)?;
            }
            if let Some(u) = &c.username {
                cm::inv_str("username", u)?;
            }
            Ok(())
        }
        Packet::Connack(_) => Ok(()),
        Packet::Publish(p) => {
            cm::inv_name("topic_name", &p.topic_name)?;
            if let Some(pid) = p.qos_pid.pid() {
                cm::inv_pid("publish", pid)?;
            }
            Ok(())
        }
        Packet::Puback(pid)
        | Packet::Pubrec(pid)
        | Packet::Pubrel(pid)
        | Packet::Pubcomp(pid)
        | Packet::Unsuback(pid) => cm::inv_pid("pid", *pid),
        Packet::Subscribe(s) => {
            cm::inv_pid("pid", s.pid)?;
            for (f, _) in &s.topics {
                cm::inv_filter("filter", f)?;
            }
            Ok(())
        }
        Packet::Suback(s) => cm::inv_pid("pid", s.pid),
        Packet::Unsubscribe(s) => {
            cm::inv_pid("pid", s.pid)?;
            for f in &s.topics {
                cm::inv_filter("filter", f)?;
            }
            Ok(())
        }
        Packet::Pingreq | Packet::Pingresp | Packet::Disconnect => Ok(()),
    }
}

// ---------------------------------------------------------------- family glue

impl Fam for V3 {
    type Packet = Packet;
    type Err = Error;
    type Hdr = Header;

    fn parse(t: &mut Toks) -> PResult<Packet> {
        parse(t)
    }
    fn print(out: &mut String, p: &Packet) {
        print(out, p)
    }
    fn print_err(out: &mut String, e: &Error) {
        cm::print_err(out, e)
    }
    fn is_eof(e: &Error) -> bool {
        e.is_eof()
    }
    fn inv(p: &Packet) -> Result<(), String> {
        inv(p)
    }

    fn decode(bytes: &[u8]) -> Result<Option<Packet>, Error> {
        Packet::decode(bytes)
    }
    async fn decode_async<R: AsyncRead + Unpin>(r: &mut R) -> Result<Packet, Error> {
        Packet::decode_async(r).await
    }
    fn encode(p: &Packet) -> Result<VarBytes, Error> {
        p.encode()
    }
    fn encode_len(p: &Packet) -> Result<usize, Error> {
        p.encode_len()
    }
    async fn encode_async<W: AsyncWrite + Unpin>(p: &Packet, w: &mut W) -> Result<(), Error> {
        p.encode_async(w).await
    }

    fn header_decode(bytes: &[u8]) -> Result<HdrInfo, Error> {
        Header::decode(bytes).map(hdr_info)
    }
    async fn header_decode_async<R: AsyncRead + Unpin>(r: &mut R) -> Result<HdrInfo, Error> {
        Header::decode_async(r).await.map(hdr_info)
    }
    fn header_new_with(byte: u8, rl: u32) -> Result<HdrInfo, Error> {
        Header::new_with(byte, rl).map(hdr_info)
    }
    fn hdr_rl(h: &Header) -> u32 {
        h.remaining_len
    }

    fn body_encode<W: io::Write>(p: &Packet, w: &mut W) -> Option<io::Result<()>> {
        match p {
            Packet::Connect(b) => Some(b.encode(w)),
            Packet::Publish(b) => Some(b.encode(w)),
            Packet::Subscribe(b) => Some(b.encode(w)),
            Packet::Suback(b) => Some(b.encode(w)),
            Packet::Unsubscribe(b) => Some(b.encode(w)),
            _ => None,
        }
    }
    fn body_len(p: &Packet) -> Option<usize> {
        match p {
            Packet::Connect(b) => Some(b.encode_len()),
            Packet::Publish(b) => Some(b.encode_len()),
            Packet::Subscribe(b) => Some(b.encode_len()),
            Packet::Suback(b) => Some(b.encode_len()),
            Packet::Unsubscribe(b) => Some(b.encode_len()),
            _ => None,
        }
    }
    fn parts(p: &Packet) -> Vec<String> {
        let mut v = Vec::new();
        if let Packet::Connect(c) = p {
            v.push(cm::part("proto", &c.protocol));
            if let Some(w) = &c.last_will {
                v.push(cm::part("will", w));
            }
        }
        v
    }
}

// code tables used by op `code`
pub fn code_crc3(b: u8) -> Result<u8, Error> {
    ConnectReturnCode::from_u8(b).map(|c| c as u8)
}
pub fn code_src3(b: u8) -> Result<u8, Error> {
    SubscribeReturnCode::from_u8(b).map(|c| c as u8)
}
