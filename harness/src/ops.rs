//! The operations of FORMAT.md section 4.

use std::cmp::Ordering;
use std::collections::hash_map::DefaultHasher;
use std::hash::{Hash, Hasher};
use std::io;
use std::panic::{catch_unwind, AssertUnwindSafe};
use std::task::Poll;

use mqtt_proto::v5::{ErrorV5, SubscribeProperties, VarByteInt};
use mqtt_proto::{
    decode_raw_header, header_len, remaining_len, total_len, v3, v5, var_int_len, Encodable,
    Error, GenericPollBodyState, GenericPollPacketState, Pid, PollHeaderState, Protocol, QoS,
    TopicFilter, TopicName, VarBytes,
};

use crate::cm::{self, guard, panic_str, Fam, Panicked, Res};
use crate::pk3::{self, V3};
use crate::pk5::{self, V5};
use crate::sio::{
    block_on, body_bytes, parse_atoms, parse_script, parse_tail,
    poll_until_ready, SchedReader, ScriptReader, ScriptWriter, Step, Sz, Tail,
};
use crate::tok::{self, PResult, Toks};

// ---------------------------------------------------------------- entry

pub fn is_range_op(line: &str) -> bool {
    let op = line.split(' ').next().unwrap_or("");
    op.ends_with("_range")
}

pub fn run_case(line: &str) -> String {
    match guard(|| dispatch(line)) {
        Ok(Ok(s)) => s,
        Ok(Err(why)) => format!("BADCASE {}", why),
        Err(p) => {
            let mut s = String::new();
            panic_str(&mut s, &p);
            s
        }
    }
}

macro_rules! by_fam {
    ($t:expr, $f:ident) => {
        if $t.fam_is_v5()? {
            $f::<V5>($t)
        } else {
            $f::<V3>($t)
        }
    };
}

fn dispatch(line: &str) -> PResult<String> {
    let mut toks = Toks::new(line);
    let t = &mut toks;
    let op = t.next()?;
    match op {
        "pid_add" | "pid_sub" | "pid_addassign" | "pid_subassign" => op_pid_arith(op, t),
        "pid_try" => op_pid_try(t),
        "pid_range" => op_pid_range(t),
        "vi_len" | "vi_total" | "vi_hlen" | "vi_rlen" => op_vi_len(op, t),
        "vi_try" => op_vi_try(t),
        "vi_write" => op_vi_write(t),
        "vi_read" => op_vi_read(t),
        "vi_poll" => by_fam!(t, op_vi_poll),
        "vi_range" => op_vi_range(t),
        "tn" => op_tn(t),
        "tf" => op_tf(t),
        "tfcmp" => op_tfcmp(t),
        "proto" => op_proto(t),
        "protoenc" => op_protoenc(t),
        "hdr" => by_fam!(t, op_hdr),
        "code" => op_code(t),
        "enc" => by_fam!(t, op_enc),
        "rt" => by_fam!(t, op_rt),
        "dec" => by_fam!(t, op_dec),
        "hdrdec" => by_fam!(t, op_hdrdec),
        "willdec" => op_willdec(t),
        "sched" => by_fam!(t, op_sched),
        "schedi" => by_fam!(t, op_schedi),
        "stream" => by_fam!(t, op_stream),
        "faultr" => by_fam!(t, op_faultr),
        "wr" => by_fam!(t, op_wr),
        "errconv" => op_errconv(t),
        "cross" => op_cross(t),
        "big" => op_big(t),
        "kf1" => op_kf1(t),
        "kf3" => op_kf3(t),
        "" => Err("empty-line".to_owned()),
        _ => Err("unknown-op".to_owned()),
    }
}

// ---------------------------------------------------------------- small printers

fn res_simple<T, E>(
    out: &mut String,
    r: &Result<Result<T, E>, Panicked>,
    ok: impl FnOnce(&mut String, &T),
    err: impl FnOnce(&mut String, &E),
) {
    match r {
        Ok(Ok(v)) => {
            out.push_str("ok ");
            ok(out, v);
        }
        Ok(Err(e)) => {
            out.push_str("err ");
            err(out, e);
        }
        Err(p) => panic_str(out, p),
    }
}

fn res_pkt<F: Fam>(out: &mut String, r: &Res<F::Packet, F::Err>) {
    match r {
        Res::Ok(p) => {
            out.push_str("ok ");
            F::print(out, p);
        }
        Res::None => out.push_str("none"),
        Res::Err(e) => {
            out.push_str("err ");
            F::print_err(out, e);
        }
        Res::Panic(p) => panic_str(out, p),
    }
}

fn csv(out: &mut String, items: &[String]) {
    if items.is_empty() {
        out.push('-');
    } else {
        out.push_str(&items.join(","));
    }
}

// ---------------------------------------------------------------- 4.1 Pid

/// The number a Pid stands for, checked against the value built from that number: an identifier that
/// reports n through value() but is not ==, cmp-equal and hash-equal to Pid::try_from(n) yields 0.
fn pid_num(q: Pid, full: bool) -> u16 {
    let v = q.value();
    match Pid::try_from(v) {
        Ok(c) if c == q => {
            if full && (c.cmp(&q) != Ordering::Equal || hash_of(&c) != hash_of(&q) || format!("{:?}", c) != format!("{:?}", q)) {
                0
            } else {
                v
            }
        }
        _ => 0,
    }
}

fn op_pid_arith(op: &str, t: &mut Toks) -> PResult<String> {
    let p = Pid::try_from(t.u16()?).map_err(|_| "pid-zero".to_owned())?;
    let u = t.u16()?;
    t.done()?;
    let r = guard(|| match op {
        "pid_add" => pid_num(p + u, true),
        "pid_sub" => pid_num(p - u, true),
        "pid_addassign" => {
            let mut q = p;
            q += u;
            pid_num(q, true)
        }
        _ => {
            let mut q = p;
            q -= u;
            pid_num(q, true)
        }
    });
    let mut out = String::new();
    match r {
        Ok(n) => tok::num(&mut out, u64::from(n)),
        Err(p) => panic_str(&mut out, &p),
    }
    Ok(out)
}

fn op_pid_try(t: &mut Toks) -> PResult<String> {
    let n = t.u16()?;
    t.done()?;
    let r = guard(|| Pid::try_from(n).map(|p| p.value()));
    let mut out = String::new();
    res_simple(
        &mut out,
        &r,
        |o, v| tok::num(o, u64::from(*v)),
        |o, e| cm::print_err(o, e),
    );
    Ok(out)
}

const FNV_OFFSET: u64 = 0xcbf2_9ce4_8422_2325;
const FNV_PRIME: u64 = 0x0000_0100_0000_01b3;

#[inline(always)]
fn fnv(h: &mut u64, bytes: &[u8]) {
    let mut x = *h;
    for &b in bytes {
        x ^= u64::from(b);
        x = x.wrapping_mul(FNV_PRIME);
    }
    *h = x;
}

#[derive(Clone, Copy)]
struct LineBuf {
    buf: [u8; 192],
    len: usize,
}

impl LineBuf {
    fn new() -> Self {
        LineBuf {
            buf: [0; 192],
            len: 0,
        }
    }
    #[inline(always)]
    fn byte(&mut self, b: u8) {
        self.buf[self.len] = b;
        self.len += 1;
    }
    #[inline(always)]
    fn bytes(&mut self, s: &[u8]) {
        self.buf[self.len..self.len + s.len()].copy_from_slice(s);
        self.len += s.len();
    }
    #[inline(always)]
    fn num(&mut self, mut n: u64) {
        let mut tmp = [0u8; 20];
        let mut i = 20;
        loop {
            i -= 1;
            tmp[i] = b'0' + (n % 10) as u8;
            n /= 10;
            if n == 0 {
                break;
            }
        }
        self.bytes(&tmp[i..]);
    }
    #[inline(always)]
    fn hexbyte(&mut self, b: u8) {
        const D: &[u8; 16] = b"0123456789abcdef";
        self.byte(D[(b >> 4) as usize]);
        self.byte(D[(b & 15) as usize]);
    }
    fn as_slice(&self) -> &[u8] {
        &self.buf[..self.len]
    }
}

#[inline(always)]
fn pid_cell(lb: &mut LineBuf, f: impl FnOnce() -> u16) {
    match catch_unwind(AssertUnwindSafe(f)) {
        Ok(n) => lb.num(u64::from(n)),
        Err(_) => lb.bytes(b"PANIC"),
    }
}

fn op_pid_range(t: &mut Toks) -> PResult<String> {
    let p0 = t.u16()?;
    let p1 = t.u16()?;
    t.done()?;
    if p0 == 0 {
        return Err("pid-zero".to_owned());
    }
    let mut h = FNV_OFFSET;
    for p in p0..=p1 {
        let pid = Pid::try_from(p).map_err(|_| "pid-zero".to_owned())?;
        let mut prefix = LineBuf::new();
        prefix.num(u64::from(p));
        prefix.byte(b' ');
        for u in 0..=u16::MAX {
            let mut lb = prefix;
            lb.num(u64::from(u));
            lb.byte(b' ');
            pid_cell(&mut lb, || pid_num(pid + u, false));
            lb.byte(b' ');
            pid_cell(&mut lb, || pid_num(pid - u, false));
            lb.byte(b' ');
            pid_cell(&mut lb, || {
                let mut q = pid;
                q += u;
                pid_num(q, false)
            });
            lb.byte(b' ');
            pid_cell(&mut lb, || {
                let mut q = pid;
                q -= u;
                pid_num(q, false)
            });
            lb.byte(b'\n');
            fnv(&mut h, lb.as_slice());
        }
    }
    Ok(format!("{:016x}", h))
}

// ---------------------------------------------------------------- 4.2 variable byte integers

fn op_vi_len(op: &str, t: &mut Toks) -> PResult<String> {
    let n = t.num_max((1u64 << 63) - 1)? as usize;
    t.done()?;
    let mut out = String::new();
    match op {
        "vi_len" | "vi_total" => {
            let r = guard(|| {
                if op == "vi_len" {
                    var_int_len(n)
                } else {
                    total_len(n)
                }
            });
            res_simple(
                &mut out,
                &r,
                |o, v| tok::num(o, *v as u64),
                |o, e| cm::print_err(o, e),
            );
        }
        _ => {
            let r = guard(|| {
                if op == "vi_hlen" {
                    header_len(n)
                } else {
                    remaining_len(n)
                }
            });
            match r {
                Ok(v) => tok::num(&mut out, v as u64),
                Err(p) => panic_str(&mut out, &p),
            }
        }
    }
    Ok(out)
}

fn op_vi_try(t: &mut Toks) -> PResult<String> {
    let n = t.u32()?;
    t.done()?;
    let r = guard(|| VarByteInt::try_from(n).map(|v| v.value()));
    let mut out = String::new();
    res_simple(
        &mut out,
        &r,
        |o, v| tok::num(o, u64::from(*v)),
        |o, e| pk5::print_err(o, e),
    );
    Ok(out)
}

/// Bytes `write_var_int` emits for `v`, reached through SubscribeProperties.
fn vi_write_into(v: VarByteInt, buf: &mut Vec<u8>) -> io::Result<()> {
    buf.clear();
    let props = SubscribeProperties {
        subscription_id: Some(v),
        user_properties: Vec::new(),
    };
    props.encode(buf)
}

fn op_vi_write(t: &mut Toks) -> PResult<String> {
    let n = t.num()?;
    t.done()?;
    if n >= 1 << 28 {
        return Err("varint-too-large".to_owned());
    }
    let v = VarByteInt::try_from(n as u32).map_err(|_| "varint-too-large".to_owned())?;
    let r = guard(|| {
        let mut buf = Vec::new();
        vi_write_into(v, &mut buf).map(|_| buf)
    });
    let mut out = String::new();
    match r {
        Ok(Ok(buf)) => tok::hex(&mut out, buf.get(2..).unwrap_or(&[])),
        Ok(Err(e)) => {
            out.push_str("err ");
            cm::print_io_err(&mut out, &e);
        }
        Err(p) => panic_str(&mut out, &p),
    }
    Ok(out)
}

fn op_vi_read(t: &mut Toks) -> PResult<String> {
    let hex = t.hex()?;
    t.done()?;
    let mut bytes = vec![0u8];
    bytes.extend_from_slice(&hex);
    let mut rd: &[u8] = &bytes;
    let r = guard(|| block_on(decode_raw_header(&mut rd)));
    let consumed = (bytes.len() - rd.len()).saturating_sub(1);
    let mut out = String::new();
    res_simple(
        &mut out,
        &r,
        |o, (_typ, v)| {
            tok::num(o, u64::from(*v));
            o.push(' ');
            tok::num(o, consumed as u64);
        },
        |o, e| cm::print_err(o, e),
    );
    Ok(out)
}

fn print_state<F: Fam>(out: &mut String, st: &GenericPollPacketState<F::Hdr>) {
    match st {
        GenericPollPacketState::Header(PollHeaderState {
            control_byte,
            var_idx,
            var_int,
        }) => {
            out.push_str("header ");
            match control_byte {
                None => out.push('-'),
                Some(b) => tok::num(out, u64::from(*b)),
            }
            out.push(' ');
            tok::num(out, u64::from(*var_idx));
            out.push(' ');
            tok::num(out, u64::from(*var_int));
        }
        GenericPollPacketState::Body(GenericPollBodyState {
            header,
            total,
            idx,
            buf,
        }) => {
            out.push_str("body ");
            tok::num(out, u64::from(F::hdr_rl(header)));
            out.push(' ');
            tok::num(out, *total as u64);
            out.push(' ');
            tok::num(out, *idx as u64);
            out.push(' ');
            tok::num(out, buf.len() as u64);
        }
    }
}

fn op_vi_poll<F: Fam>(t: &mut Toks) -> PResult<String> {
    let hex = t.hex()?;
    let tail = parse_tail(t.next()?)?;
    t.done()?;
    let mut bytes = vec![0x30u8];
    bytes.extend_from_slice(&hex);
    let mut rd = ScriptReader::new(&bytes, usize::MAX, tail, false);
    let mut st = GenericPollPacketState::<F::Hdr>::default();
    let r = guard(|| poll_until_ready::<F, _>(&mut st, &mut rd));
    let mut out = String::from("res=");
    res_simple(
        &mut out,
        &r,
        |o, (total, _, _)| tok::num(o, *total as u64),
        |o, e| F::print_err(o, e),
    );
    out.push_str(";state=");
    print_state::<F>(&mut out, &st);
    Ok(out)
}

fn op_vi_range(t: &mut Toks) -> PResult<String> {
    let lo = t.num()?;
    let hi = t.num()?;
    t.done()?;
    if hi > 1 << 28 {
        return Err("range-beyond-2^28".to_owned());
    }
    let mut h = FNV_OFFSET;
    let mut wbuf: Vec<u8> = Vec::with_capacity(16);
    for n in lo..hi {
        let mut lb = LineBuf::new();
        let r = catch_unwind(AssertUnwindSafe(|| {
            let lb = &mut lb;
            let nu = n as usize;
            lb.num(n);
            lb.byte(b' ');
            match var_int_len(nu) {
                Ok(v) => lb.num(v as u64),
                Err(_) => lb.bytes(b"ERR"),
            }
            lb.byte(b' ');
            match total_len(nu) {
                Ok(tot) => {
                    lb.num(tot as u64);
                    lb.byte(b' ');
                    lb.num(header_len(tot) as u64);
                    lb.byte(b' ');
                    lb.num(remaining_len(tot) as u64);
                }
                Err(_) => lb.bytes(b"ERR - -"),
            }
            lb.byte(b' ');
            let written: &[u8] = match VarByteInt::try_from(n as u32) {
                Ok(v) => match vi_write_into(v, &mut wbuf) {
                    Ok(()) => wbuf.get(2..).unwrap_or(&[]),
                    Err(_) => &[],
                },
                Err(_) => &[],
            };
            lb.byte(b'x');
            for &b in written.iter().take(16) {
                lb.hexbyte(b);
            }
            lb.byte(b' ');
            let mut rbuf = [0u8; 17];
            let wl = written.len().min(16);
            rbuf[1..1 + wl].copy_from_slice(&written[..wl]);
            let all = &rbuf[..1 + wl];
            let mut rd: &[u8] = all;
            match block_on(decode_raw_header(&mut rd)) {
                Ok((_typ, v)) => {
                    lb.num(u64::from(v));
                    lb.byte(b' ');
                    lb.num((all.len() - rd.len()).saturating_sub(1) as u64);
                }
                Err(_) => lb.bytes(b"ERR -"),
            }
            lb.byte(b'\n');
        }));
        if r.is_err() {
            lb = LineBuf::new();
            lb.num(n);
            lb.bytes(b" PANIC\n");
        }
        fnv(&mut h, lb.as_slice());
    }
    Ok(format!("{:016x}", h))
}

// ---------------------------------------------------------------- 4.3 topics

fn op_tn(t: &mut Toks) -> PResult<String> {
    let raw = t.hex()?;
    t.done()?;
    let s = match std::str::from_utf8(&raw) {
        Ok(s) => s,
        Err(_) => return Ok("notutf8".to_owned()),
    };
    let mut out = String::from("inv=");
    tok::boolean(&mut out, TopicName::is_invalid(s));
    out.push_str(";try=");
    match TopicName::try_from(s.to_owned()) {
        Ok(tn) => {
            out.push_str("ok;deref=");
            tok::boolean(&mut out, &*tn == s);
            out.push_str(";str=");
            tok::boolean(&mut out, tn.to_string() == s);
            out.push_str(";shared=");
            tok::boolean(&mut out, tn.is_shared());
            out.push_str(";sys=");
            tok::boolean(&mut out, tn.is_sys());
            // a longer and a shorter name overwritten in place (clone_from) read back as this name
            out.push_str(";cf=");
            let r = guard(|| {
                let mut ok = true;
                for o in [format!("{}/0123456789", s), "x".to_owned(), String::new()] {
                    if let Ok(mut other) = TopicName::try_from(o) {
                        other.clone_from(&tn);
                        ok &= &*other == s && other == tn && other.to_string() == s;
                    }
                }
                ok && &*tn.clone() == s
            });
            match r {
                Ok(b) => tok::boolean(&mut out, b),
                Err(_) => out.push_str("PANIC"),
            }
        }
        Err(e) => {
            let exact = matches!(&e, Error::InvalidTopicName(x) if x == s);
            out.push_str(if exact { "err" } else { "bad" });
            out.push_str(";deref=-;str=-;shared=-;sys=-;cf=-");
        }
    }
    Ok(out)
}

fn opthex(out: &mut String, r: Result<Option<String>, Panicked>) {
    match r {
        Ok(None) => out.push('-'),
        Ok(Some(s)) => tok::hex(out, s.as_bytes()),
        Err(_) => out.push_str("PANIC"),
    }
}

fn op_tf(t: &mut Toks) -> PResult<String> {
    let raw = t.hex()?;
    t.done()?;
    let s = match std::str::from_utf8(&raw) {
        Ok(s) => s,
        Err(_) => return Ok("notutf8".to_owned()),
    };
    let (bad, idx) = TopicFilter::is_invalid(s);
    let mut out = String::from("inv=");
    tok::boolean(&mut out, bad);
    out.push(',');
    tok::num(&mut out, u64::from(idx));
    out.push_str(";try=");
    match TopicFilter::try_from(s.to_owned()) {
        Ok(tf) => {
            out.push_str("ok;deref=");
            tok::boolean(&mut out, &*tf == s);
            out.push_str(";str=");
            tok::boolean(&mut out, tf.to_string() == s);
            out.push_str(";shared=");
            tok::boolean(&mut out, tf.is_shared());
            out.push_str(";sys=");
            tok::boolean(&mut out, tf.is_sys());
            out.push_str(";group=");
            opthex(
                &mut out,
                guard(|| tf.shared_group_name().map(str::to_owned)),
            );
            out.push_str(";filter=");
            opthex(&mut out, guard(|| tf.shared_filter().map(str::to_owned)));
            out.push_str(";info=");
            match guard(|| tf.shared_info().map(|(a, b)| (a.to_owned(), b.to_owned()))) {
                Ok(None) => out.push('-'),
                Ok(Some((a, b))) => {
                    tok::hex(&mut out, a.as_bytes());
                    out.push(',');
                    tok::hex(&mut out, b.as_bytes());
                }
                Err(_) => out.push_str("PANIC"),
            }
            // the same filter after a trip through a v3 SUBSCRIBE and a v5 UNSUBSCRIBE (encode, decode): the accessors
            // of the decoded value
            let acc = |o: &mut String, d: Option<TopicFilter>| match d {
                None => o.push_str("lost"),
                Some(d) => {
                    tok::boolean(o, &*d == s && d == tf);
                    tok::boolean(o, d.is_shared());
                    o.push(',');
                    opthex(o, guard(|| d.shared_group_name().map(str::to_owned)));
                    o.push(',');
                    opthex(o, guard(|| d.shared_filter().map(str::to_owned)));
                }
            };
            out.push_str(";d3=");
            let d3 = guard(|| {
                let pid = Pid::try_from(1u16).unwrap();
                let p = mqtt_proto::v3::Packet::Subscribe(mqtt_proto::v3::Subscribe::new(pid, vec![(tf.clone(), mqtt_proto::QoS::Level0)]));
                let b = p.encode().ok()?;
                match mqtt_proto::v3::Packet::decode(b.as_ref()) {
                    Ok(Some(mqtt_proto::v3::Packet::Subscribe(q))) => q.topics.into_iter().next().map(|x| x.0),
                    _ => None,
                }
            });
            match d3 {
                Ok(d) => acc(&mut out, d),
                Err(_) => out.push_str("PANIC"),
            }
            out.push_str(";d5=");
            let d5 = guard(|| {
                let pid = Pid::try_from(1u16).unwrap();
                let p = mqtt_proto::v5::Packet::Unsubscribe(mqtt_proto::v5::Unsubscribe::new(pid, vec![tf.clone()]));
                let b = p.encode().ok()?;
                match mqtt_proto::v5::Packet::decode(b.as_ref()) {
                    Ok(Some(mqtt_proto::v5::Packet::Unsubscribe(q))) => q.topics.into_iter().next(),
                    _ => None,
                }
            });
            match d5 {
                Ok(d) => acc(&mut out, d),
                Err(_) => out.push_str("PANIC"),
            }
        }
        Err(e) => {
            let exact = matches!(&e, Error::InvalidTopicFilter(x) if x == s);
            out.push_str(if exact { "err" } else { "bad" });
            out.push_str(";deref=-;str=-;shared=-;sys=-;group=-;filter=-;info=-;d3=-;d5=-");
        }
    }
    Ok(out)
}

fn hash_of<T: Hash + ?Sized>(v: &T) -> u64 {
    let mut h = DefaultHasher::new();
    v.hash(&mut h);
    h.finish()
}

fn op_tfcmp(t: &mut Toks) -> PResult<String> {
    let a = t.hex()?;
    let b = t.hex()?;
    t.done()?;
    let build = |raw: Vec<u8>| -> Option<TopicFilter> {
        let s = String::from_utf8(raw).ok()?;
        TopicFilter::try_from(s).ok()
    };
    let (a, b) = match (build(a), build(b)) {
        (Some(a), Some(b)) => (a, b),
        _ => return Ok("invalid".to_owned()),
    };
    let mut out = String::from("eq=");
    tok::boolean(&mut out, a == b);
    out.push_str(";cmp=");
    out.push_str(match a.cmp(&b) {
        Ordering::Less => "lt",
        Ordering::Equal => "eq",
        Ordering::Greater => "gt",
    });
    out.push_str(";hasheq=");
    let ha = hash_of(&a) == hash_of::<String>(&a.to_string());
    let hb = hash_of(&b) == hash_of::<String>(&b.to_string());
    tok::boolean(&mut out, ha && hb);
    // the derived-looking relations: != , partial_cmp and the four comparison operators
    out.push_str(";ne=");
    tok::boolean(&mut out, a != b);
    out.push_str(";pcmp=");
    out.push_str(match a.partial_cmp(&b) {
        Some(Ordering::Less) => "lt",
        Some(Ordering::Equal) => "eq",
        Some(Ordering::Greater) => "gt",
        None => "none",
    });
    out.push_str(";rel=");
    tok::boolean(&mut out, a < b);
    tok::boolean(&mut out, a <= b);
    tok::boolean(&mut out, a > b);
    tok::boolean(&mut out, a >= b);
    // a value overwritten in place (clone_from) must be indistinguishable from the source
    out.push_str(";cf=");
    let r = guard(|| {
        let mut c = a.clone();
        c.clone_from(&b);
        let mut o = String::new();
        tok::boolean(&mut o, c == b);
        tok::boolean(&mut o, c.to_string() == b.to_string());
        tok::boolean(&mut o, c.is_shared());
        o.push(',');
        opthex(&mut o, guard(|| c.shared_group_name().map(str::to_owned)));
        o.push(',');
        opthex(&mut o, guard(|| c.shared_filter().map(str::to_owned)));
        o
    });
    match r {
        Ok(o) => out.push_str(&o),
        Err(_) => out.push_str("PANIC"),
    }
    Ok(out)
}

// ---------------------------------------------------------------- 4.4 protocol, header, code tables

fn op_proto(t: &mut Toks) -> PResult<String> {
    let name = t.hex()?;
    let level = t.u8()?;
    t.done()?;
    let r = guard(|| Protocol::new(&name, level));
    let mut out = String::new();
    res_simple(
        &mut out,
        &r,
        |o, p| tok::num(o, cm::proto_num(*p)),
        |o, e| cm::print_err(o, e),
    );
    Ok(out)
}

fn op_protoenc(t: &mut Toks) -> PResult<String> {
    let p = cm::num_proto(t.num()?)?;
    t.done()?;
    let mut out = String::new();
    match guard(|| {
        let mut v = Vec::new();
        p.encode(&mut v).map(|_| v)
    }) {
        Ok(Ok(v)) => tok::hex(&mut out, &v),
        Ok(Err(e)) => {
            out.push_str("err ");
            cm::print_io_err(&mut out, &e);
        }
        Err(_) => out.push_str("PANIC"),
    }
    out.push(' ');
    match guard(|| p.encode_len()) {
        Ok(n) => tok::num(&mut out, n as u64),
        Err(_) => out.push_str("PANIC"),
    }
    Ok(out)
}

fn op_hdr<F: Fam>(t: &mut Toks) -> PResult<String> {
    let byte = t.u8()?;
    let rl = t.u32()?;
    t.done()?;
    let r = guard(|| F::header_new_with(byte, rl));
    let mut out = String::new();
    res_simple(
        &mut out,
        &r,
        |o, h| cm::print_hdr(o, h),
        |o, e| F::print_err(o, e),
    );
    Ok(out)
}

fn op_code(t: &mut Toks) -> PResult<String> {
    let table = t.next()?;
    let b = t.u8()?;
    t.done()?;
    let mut out = String::new();
    match table {
        "qos" | "crc3" | "src3" => {
            let r = guard(|| match table {
                "qos" => QoS::from_u8(b).map(|q| q as u8),
                "crc3" => pk3::code_crc3(b),
                _ => pk3::code_src3(b),
            });
            res_simple(
                &mut out,
                &r,
                |o, v| tok::num(o, u64::from(*v)),
                |o, e| cm::print_err(o, e),
            );
        }
        "propid5" => {
            let r = guard(|| pk5::code_propid(b));
            res_simple(
                &mut out,
                &r,
                |o, v| tok::num(o, u64::from(*v)),
                |o, e| pk5::print_err(o, e),
            );
        }
        _ => match guard(|| pk5::code_table(table, b)) {
            Ok(None) => return Err("unknown-code-table".to_owned()),
            Ok(Some(None)) => out.push_str("none"),
            Ok(Some(Some(v))) => {
                out.push_str("ok ");
                tok::num(&mut out, u64::from(v));
            }
            Err(p) => panic_str(&mut out, &p),
        },
    }
    Ok(out)
}

// ---------------------------------------------------------------- shared: encode + three decoders

/// Prints `enc=RES(VB HEX)`, returns the bytes when encode succeeded.
fn enc_field<F: Fam>(out: &mut String, p: &F::Packet) -> Option<Vec<u8>> {
    out.push_str("enc=");
    let r = guard(|| F::encode(p));
    res_simple(
        out,
        &r,
        |o, vb| {
            o.push_str(match vb {
                VarBytes::Dynamic(_) => "dynamic ",
                VarBytes::Fixed2(_) => "fixed2 ",
                VarBytes::Fixed4(_) => "fixed4 ",
            });
            tok::hex(o, vb.as_ref());
        },
        |o, e| cm::print_err(o, e),
    );
    match r {
        Ok(Ok(vb)) => Some(vb.as_ref().to_vec()),
        _ => None,
    }
}

fn len_res<F: Fam>(out: &mut String, p: &F::Packet) {
    let r = guard(|| F::encode_len(p));
    res_simple(
        out,
        &r,
        |o, n| tok::num(o, *n as u64),
        |o, e| F::print_err(o, e),
    );
}

struct Three<F: Fam> {
    block: Res<F::Packet, F::Err>,
    asy: Res<F::Packet, F::Err>,
    aused: usize,
    poll: Res<F::Packet, F::Err>,
    ptotal: Option<usize>,
    pbody: Option<Vec<u8>>,
    pused: usize,
}

fn three<F: Fam>(bytes: &[u8]) -> Three<F> {
    let block = Res::from_guard_opt(guard(|| F::decode(bytes)));

    let mut rd: &[u8] = bytes;
    let asy = Res::from_guard(guard(|| block_on(F::decode_async(&mut rd))));
    let aused = bytes.len() - rd.len();

    let mut prd = ScriptReader::whole(bytes);
    let mut st = GenericPollPacketState::<F::Hdr>::default();
    let pr = guard(|| poll_until_ready::<F, _>(&mut st, &mut prd));
    let pused = prd.pos;
    let (poll, ptotal, pbody) = match pr {
        Ok(Ok((total, buf, pkt))) => (Res::Ok(pkt), Some(total), Some(body_bytes(buf))),
        Ok(Err(e)) => (Res::Err(e), None, None),
        Err(p) => (Res::Panic(p), None, None),
    };
    Three {
        block,
        asy,
        aused,
        poll,
        ptotal,
        pbody,
        pused,
    }
}

/// `block=..;async=..;aused=..;poll=..;ptotal=..;pbody=..;pused=..`
fn three_fields<F: Fam>(out: &mut String, th: &Option<Three<F>>) {
    match th {
        None => out.push_str("block=-;async=-;aused=-;poll=-;ptotal=-;pbody=-;pused=-"),
        Some(th) => {
            out.push_str("block=");
            res_pkt::<F>(out, &th.block);
            out.push_str(";async=");
            res_pkt::<F>(out, &th.asy);
            out.push_str(";aused=");
            tok::num(out, th.aused as u64);
            out.push_str(";poll=");
            res_pkt::<F>(out, &th.poll);
            out.push_str(";ptotal=");
            match th.ptotal {
                Some(n) => tok::num(out, n as u64),
                None => out.push('-'),
            }
            out.push_str(";pbody=");
            match &th.pbody {
                Some(b) => tok::hex(out, b),
                None => out.push('-'),
            }
            out.push_str(";pused=");
            tok::num(out, th.pused as u64);
        }
    }
}

// ---------------------------------------------------------------- 4.5 enc / rt

fn op_enc<F: Fam>(t: &mut Toks) -> PResult<String> {
    let p = F::parse(t)?;
    t.done()?;
    let mut out = String::new();
    enc_field::<F>(&mut out, &p);
    out.push_str(";len=");
    len_res::<F>(&mut out, &p);

    out.push_str(";body=");
    match guard(|| {
        let mut v = Vec::new();
        F::body_encode(&p, &mut v).map(|r| r.map(|_| v))
    }) {
        Ok(None) => out.push('-'),
        Ok(Some(Ok(v))) => tok::hex(&mut out, &v),
        Ok(Some(Err(e))) => {
            out.push_str("err ");
            cm::print_io_err(&mut out, &e);
        }
        Err(pn) => panic_str(&mut out, &pn),
    }
    out.push_str(";blen=");
    match guard(|| F::body_len(&p)) {
        Ok(None) => out.push('-'),
        Ok(Some(n)) => tok::num(&mut out, n as u64),
        Err(pn) => panic_str(&mut out, &pn),
    }

    out.push_str(";parts=");
    let parts = F::parts(&p);
    if parts.is_empty() {
        out.push('-');
    } else {
        out.push_str(&parts.join(","));
    }

    out.push_str(";async=");
    let r = guard(|| {
        let mut v: Vec<u8> = Vec::new();
        block_on(F::encode_async(&p, &mut v)).map(|_| v)
    });
    res_simple(
        &mut out,
        &r,
        |o, v| tok::hex(o, v),
        |o, e| F::print_err(o, e),
    );
    // the container overwritten in place (clone_from) from a longer, a shorter, and a fixed-size one
    out.push_str(";vbcf=");
    match guard(|| F::encode(&p)) {
        Ok(Ok(vb)) => {
            let n = vb.as_ref().len();
            let mut ok = true;
            for mut other in [
                mqtt_proto::VarBytes::Dynamic(vec![0xAA; n + 7]),
                mqtt_proto::VarBytes::Dynamic(vec![0x55; n / 2]),
                mqtt_proto::VarBytes::Fixed4([9, 9, 9, 9]),
                mqtt_proto::VarBytes::Fixed2([7, 7]),
            ] {
                let same = guard(|| {
                    other.clone_from(&vb);
                    other.as_ref() == vb.as_ref() && vb.clone().as_ref() == vb.as_ref()
                });
                ok &= matches!(same, Ok(true));
            }
            tok::boolean(&mut out, ok);
        }
        _ => out.push('-'),
    }
    Ok(out)
}

fn op_rt<F: Fam>(t: &mut Toks) -> PResult<String> {
    let p = F::parse(t)?;
    t.done()?;
    let mut out = String::new();
    let bytes = enc_field::<F>(&mut out, &p);
    out.push_str(";len=");
    len_res::<F>(&mut out, &p);
    out.push(';');
    let th = bytes.as_deref().map(three::<F>);
    three_fields::<F>(&mut out, &th);
    Ok(out)
}

// ---------------------------------------------------------------- 4.6 dec

fn inv_re_fields<F: Fam>(out: &mut String, x: char, r: &Res<F::Packet, F::Err>) {
    out.push(';');
    out.push(x);
    out.push_str("inv=");
    let p = match r.ok() {
        None => {
            out.push_str("-;");
            out.push(x);
            out.push_str("re=-");
            return;
        }
        Some(p) => p,
    };
    match guard(|| F::inv(p)) {
        Ok(Ok(())) => out.push_str("ok"),
        Ok(Err(why)) => {
            out.push_str("fail:");
            out.push_str(&why.replace([' ', ';', '='], "_"));
        }
        Err(_) => out.push_str("fail:panic_in_walk"),
    }
    out.push(';');
    out.push(x);
    out.push_str("re=");
    let enc = guard(|| F::encode(p));
    match &enc {
        Ok(Ok(vb)) => {
            out.push_str("ok ");
            tok::hex(out, vb.as_ref());
        }
        Ok(Err(e)) => {
            out.push_str("err ");
            cm::print_err(out, e);
        }
        Err(_) => out.push_str("PANIC"),
    }
    out.push(',');
    match guard(|| F::encode_len(p)) {
        Ok(Ok(n)) => {
            out.push_str("ok ");
            tok::num(out, n as u64);
        }
        Ok(Err(e)) => {
            out.push_str("err ");
            F::print_err(out, &e);
        }
        Err(_) => out.push_str("PANIC"),
    }
    out.push(',');
    match enc {
        Ok(Ok(vb)) => {
            let bytes = vb.as_ref();
            let th = three::<F>(bytes);
            let same = |r: &Res<F::Packet, F::Err>| matches!(r, Res::Ok(q) if q == p);
            let rr = same(&th.block)
                && same(&th.asy)
                && same(&th.poll)
                && th.ptotal == Some(bytes.len());
            tok::boolean(out, rr);
        }
        _ => out.push('-'),
    }
}

/// `willdec HEX`: v5 LastWill::decode_async called directly (QoS 1, retain false) on the bytes of a will
/// (will properties, topic, payload) -> res=ok|err ERR|PANIC;inv=ok|fail:..|-;used=NUM
fn op_willdec(t: &mut Toks) -> PResult<String> {
    let bytes = t.hex()?;
    t.done()?;
    let mut rd: &[u8] = &bytes;
    let r = guard(|| block_on(mqtt_proto::v5::LastWill::decode_async(&mut rd, mqtt_proto::QoS::Level1, false)));
    let mut out = String::from("res=");
    let mut inv = String::from("-");
    match r {
        Ok(Ok(w)) => {
            out.push_str("ok");
            // judged as part of a CONNECT carrying it
            let mut c = mqtt_proto::v5::Connect::new(std::sync::Arc::new("c".to_owned()), 10);
            c.last_will = Some(w);
            inv = match <V5 as Fam>::inv(&mqtt_proto::v5::Packet::Connect(c)) {
                Ok(()) => "ok".to_owned(),
                Err(e) => format!("fail:{}", e),
            };
        }
        Ok(Err(e)) => {
            out.push_str("err ");
            pk5::print_err(&mut out, &e);
        }
        Err(p) => panic_str(&mut out, &p),
    }
    out.push_str(";inv=");
    out.push_str(&inv);
    out.push_str(";used=");
    tok::num(&mut out, (bytes.len() - rd.len()) as u64);
    Ok(out)
}

/// `hdrdec FAM HEX`: the bare fixed-header decoders, blocking and async, on the same bytes
fn op_hdrdec<F: Fam>(t: &mut Toks) -> PResult<String> {
    let bytes = t.hex()?;
    t.done()?;
    let mut out = String::from("block=");
    let r = guard(|| F::header_decode(&bytes));
    res_simple(&mut out, &r, |o, h| cm::print_hdr(o, h), |o, e| F::print_err(o, e));
    out.push_str(";async=");
    let mut rd: &[u8] = &bytes;
    let r = guard(|| block_on(F::header_decode_async(&mut rd)));
    res_simple(&mut out, &r, |o, h| cm::print_hdr(o, h), |o, e| F::print_err(o, e));
    Ok(out)
}

fn op_dec<F: Fam>(t: &mut Toks) -> PResult<String> {
    let bytes = t.hex()?;
    t.done()?;
    let mut out = String::from("hdr=");
    let r = guard(|| F::header_decode(&bytes));
    res_simple(
        &mut out,
        &r,
        |o, h| cm::print_hdr(o, h),
        |o, e| F::print_err(o, e),
    );
    out.push(';');
    let th = Some(three::<F>(&bytes));
    three_fields::<F>(&mut out, &th);
    let th = th.unwrap();
    inv_re_fields::<F>(&mut out, 'b', &th.block);
    inv_re_fields::<F>(&mut out, 'a', &th.asy);
    inv_re_fields::<F>(&mut out, 'p', &th.poll);
    Ok(out)
}

// ---------------------------------------------------------------- 4.7 sched

/// `sched` with a transport that fills the read window through initialize_unfilled() + advance()
fn op_schedi<F: Fam>(t: &mut Toks) -> PResult<String> {
    sched_with::<F>(t, true)
}

fn op_sched<F: Fam>(t: &mut Toks) -> PResult<String> {
    sched_with::<F>(t, false)
}

fn sched_with<F: Fam>(t: &mut Toks, init_mode: bool) -> PResult<String> {
    let atoms = parse_atoms(t.next()?)?;
    let tail = parse_tail(t.next()?)?;
    t.done()?;
    let limit = atoms.len() + 8;
    let mut rd = SchedReader::new(atoms, tail);
    rd.init_mode = init_mode;
    let mut st = GenericPollPacketState::<F::Hdr>::default();
    let mut spare = GenericPollPacketState::<F::Hdr>::default();
    let mut pend = 0usize;
    let counter = std::sync::Arc::new(crate::sio::CountingWaker(std::sync::atomic::AtomicUsize::new(0)));
    let waker = std::task::Waker::from(counter.clone());
    let mut lost_wake = false;
    let r = guard(|| loop {
        let before = counter.0.load(std::sync::atomic::Ordering::SeqCst);
        match crate::sio::poll_once_with::<F, _>(&mut st, &mut rd, &waker) {
            Poll::Ready(r) => break Some(r),
            Poll::Pending => {
                pend += 1;
                if counter.0.load(std::sync::atomic::Ordering::SeqCst) == before {
                    // Pending, and nobody holds the caller's waker: a real executor would never poll again
                    lost_wake = true;
                }
                // a copy replaces the original: alternately a fresh clone and a copy made in place (clone_from) over
                // the previous copy, which is in the same phase more often than not
                if pend % 2 == 1 {
                    let cloned = st.clone();
                    spare = std::mem::replace(&mut st, cloned);
                } else {
                    spare.clone_from(&st);
                    std::mem::swap(&mut st, &mut spare);
                }
                if pend > limit {
                    // decoder keeps returning Pending although the script has
                    // no `p` left: not representable in FORMAT.md
                    break None;
                }
            }
        }
    });
    let mut out = String::from("res=");
    let mut total = None;
    let mut body = None;
    match r {
        Ok(Some(Ok((tot, buf, pkt)))) => {
            out.push_str("ok ");
            F::print(&mut out, &pkt);
            total = Some(tot);
            body = Some(body_bytes(buf));
        }
        Ok(Some(Err(e))) => {
            out.push_str("err ");
            F::print_err(&mut out, &e);
        }
        Ok(None) => out.push_str("pending"),
        Err(p) => panic_str(&mut out, &p),
    }
    out.push_str(";total=");
    match total {
        Some(n) => tok::num(&mut out, n as u64),
        None => out.push('-'),
    }
    out.push_str(";body=");
    match body {
        Some(b) => tok::hex(&mut out, &b),
        None => out.push('-'),
    }
    out.push_str(";used=");
    tok::num(&mut out, rd.used as u64);
    out.push_str(";pend=");
    tok::num(&mut out, pend as u64);
    out.push_str(";rpend=");
    tok::num(&mut out, rd.rpend as u64);
    out.push_str(";caps=");
    let caps: Vec<String> = rd.caps.iter().map(|c| c.to_string()).collect();
    csv(&mut out, &caps);
    out.push_str(";sizes=");
    let sizes: Vec<String> = rd
        .sizes
        .iter()
        .map(|s| match s {
            Sz::N(n) => n.to_string(),
            Sz::P => "P".to_owned(),
            Sz::T => "T".to_owned(),
        })
        .collect();
    csv(&mut out, &sizes);
    out.push_str(if lost_wake { ";wake=lost" } else { ";wake=ok" });
    Ok(out)
}

// ---------------------------------------------------------------- 4.8 stream

fn op_stream<F: Fam>(t: &mut Toks) -> PResult<String> {
    let fe = t.next()?;
    let bytes = t.hex()?;
    let k = t.num()?;
    t.done()?;
    if k == 0 {
        return Err("chunk-zero".to_owned());
    }
    let k = usize::try_from(k).unwrap_or(usize::MAX);
    let mut pkts: Vec<String> = Vec::new();
    let mut sizes: Vec<String> = Vec::new();
    let mut fin = String::new();
    let push_pkt = |pkts: &mut Vec<String>, p: &F::Packet| {
        let mut s = String::new();
        F::print(&mut s, p);
        pkts.push(s);
    };
    let non_packet = |fin: &mut String, r: Res<F::Packet, F::Err>| {
        res_pkt::<F>(fin, &r);
    };
    match fe {
        "block" => {
            let mut off = 0usize;
            loop {
                let r = Res::from_guard_opt(guard(|| F::decode(&bytes[off..])));
                match r {
                    Res::Ok(p) => {
                        push_pkt(&mut pkts, &p);
                        match guard(|| F::encode_len(&p)) {
                            Ok(Ok(n)) if n > 0 => {
                                sizes.push(n.to_string());
                                off = off.saturating_add(n).min(bytes.len());
                            }
                            Ok(Ok(_)) => {
                                sizes.push("0".to_owned());
                                fin.push_str("stuck");
                                break;
                            }
                            Ok(Err(e)) => {
                                sizes.push("E".to_owned());
                                fin.push_str("err ");
                                F::print_err(&mut fin, &e);
                                break;
                            }
                            Err(pn) => {
                                sizes.push("E".to_owned());
                                panic_str(&mut fin, &pn);
                                break;
                            }
                        }
                    }
                    other => {
                        non_packet(&mut fin, other);
                        break;
                    }
                }
            }
        }
        "async" => {
            let mut rd = ScriptReader::new(&bytes, k, Tail::Eof, true);
            loop {
                let before = rd.pos;
                let r = Res::from_guard(guard(|| block_on(F::decode_async(&mut rd))));
                match r {
                    Res::Ok(p) => {
                        push_pkt(&mut pkts, &p);
                        sizes.push((rd.pos - before).to_string());
                    }
                    other => {
                        non_packet(&mut fin, other);
                        break;
                    }
                }
            }
        }
        "poll" => {
            let mut rd = ScriptReader::new(&bytes, k, Tail::Eof, true);
            loop {
                let mut st = GenericPollPacketState::<F::Hdr>::default();
                let r = guard(|| poll_until_ready::<F, _>(&mut st, &mut rd));
                match r {
                    Ok(Ok((total, _buf, p))) => {
                        push_pkt(&mut pkts, &p);
                        sizes.push(total.to_string());
                    }
                    Ok(Err(e)) => {
                        non_packet(&mut fin, Res::Err(e));
                        break;
                    }
                    Err(pn) => {
                        non_packet(&mut fin, Res::Panic(pn));
                        break;
                    }
                }
            }
        }
        _ => return Err("bad-front-end".to_owned()),
    }
    let mut out = String::from("n=");
    tok::num(&mut out, pkts.len() as u64);
    out.push_str(";sizes=");
    csv(&mut out, &sizes);
    out.push_str(";final=");
    out.push_str(&fin);
    out.push_str(";pkts=");
    if pkts.is_empty() {
        out.push('-');
    } else {
        out.push_str(&pkts.join("|"));
    }
    Ok(out)
}

// ---------------------------------------------------------------- 4.9 faults, writers, error conversions

fn op_faultr<F: Fam>(t: &mut Toks) -> PResult<String> {
    let fe = t.next()?;
    let bytes = t.hex()?;
    let k = t.num()?;
    let tail = parse_tail(t.next()?)?;
    t.done()?;
    if k > bytes.len() as u64 {
        return Err("k-beyond-length".to_owned());
    }
    let mut rd = ScriptReader::new(&bytes[..k as usize], 1, tail, false);
    let r: Res<F::Packet, F::Err> = match fe {
        "async" => Res::from_guard(guard(|| block_on(F::decode_async(&mut rd)))),
        "poll" => {
            let mut st = GenericPollPacketState::<F::Hdr>::default();
            Res::from_guard(guard(|| {
                poll_until_ready::<F, _>(&mut st, &mut rd).map(|(_, _, p)| p)
            }))
        }
        _ => return Err("bad-front-end".to_owned()),
    };
    let mut out = String::from("res=");
    res_pkt::<F>(&mut out, &r);
    out.push_str(";iseof=");
    match &r {
        Res::Err(e) => tok::boolean(&mut out, F::is_eof(e)),
        _ => out.push('-'),
    }
    Ok(out)
}

fn op_wr<F: Fam>(t: &mut Toks) -> PResult<String> {
    let entry = t.next()?;
    let p = F::parse(t)?;
    let script = parse_script(t.next()?)?;
    t.done()?;
    let mut out = String::from("res=");
    let mut w;
    match entry {
        "async" => {
            w = ScriptWriter::new(script);
            let r = guard(|| block_on(F::encode_async(&p, &mut w)));
            match r {
                Ok(Ok(())) => out.push_str("ok"),
                Ok(Err(e)) => {
                    out.push_str("err ");
                    F::print_err(&mut out, &e);
                }
                Err(pn) => panic_str(&mut out, &pn),
            }
        }
        "stream" => {
            if script.iter().any(|s| matches!(s, Step::P)) {
                return Err("pending-step-in-blocking-script".to_owned());
            }
            w = ScriptWriter::new(script);
            let r = guard(|| F::body_encode(&p, &mut w));
            match r {
                Ok(None) => return Err("bodiless-packet".to_owned()),
                Ok(Some(Ok(()))) => out.push_str("ok"),
                Ok(Some(Err(e))) => {
                    out.push_str("err ");
                    cm::print_io_err(&mut out, &e);
                }
                Err(pn) => panic_str(&mut out, &pn),
            }
        }
        _ => return Err("bad-entry".to_owned()),
    }
    out.push_str(";written=");
    tok::hex(&mut out, &w.written);
    out.push_str(";calls=");
    tok::num(&mut out, w.calls as u64);
    Ok(out)
}

fn op_errconv(t: &mut Toks) -> PResult<String> {
    let sub = t.next()?;
    let idx = t.num()?;
    t.done()?;
    let mut out = String::new();
    match sub {
        "from_io" => {
            let kind = cm::kind_by_idx(idx)?;
            let e3 = Error::from(io::Error::from(kind));
            let e5 = ErrorV5::from(io::Error::from(kind));
            out.push_str("v3=");
            cm::print_err(&mut out, &e3);
            out.push_str(";v5=");
            pk5::print_err(&mut out, &e5);
            out.push_str(";eof3=");
            tok::boolean(&mut out, e3.is_eof());
            out.push_str(";eof5=");
            tok::boolean(&mut out, e5.is_eof());
        }
        "to_io" => {
            let e = cm::err_table(idx)?;
            let eof = e.is_eof();
            let ioe = io::Error::from(e);
            out.push_str(cm::kind_name(ioe.kind()));
            out.push_str(";eof=");
            tok::boolean(&mut out, eof);
        }
        "v5_common" => {
            let e = ErrorV5::from(cm::err_table(idx)?);
            pk5::print_err(&mut out, &e);
            out.push_str(";eof=");
            tok::boolean(&mut out, e.is_eof());
        }
        _ => return Err("bad-errconv".to_owned()),
    }
    Ok(out)
}

// ---------------------------------------------------------------- 4.10 cross

enum Resumed {
    V3(v3::Packet),
    V5(v5::Packet),
}

enum ResumeErr {
    V3(Error),
    V5(ErrorV5),
}

async fn resume(rd: &mut &[u8]) -> Result<Resumed, ResumeErr> {
    let (byte, rl) = decode_raw_header(rd).await.map_err(ResumeErr::V3)?;
    resume_body(rd, byte, rl).await
}

/// the part of `resume` after the fixed header (also used on the body the poll decoder retained in its state)
async fn resume_body(rd: &mut &[u8], byte: u8, rl: u32) -> Result<Resumed, ResumeErr> {
    let proto = Protocol::decode_async(rd).await.map_err(ResumeErr::V3)?;
    match proto {
        Protocol::V310 | Protocol::V311 => {
            let c = v3::Connect::decode_with_protocol(rd, proto)
                .await
                .map_err(ResumeErr::V3)?;
            Ok(Resumed::V3(v3::Packet::Connect(c)))
        }
        Protocol::V500 => {
            let h = v5::Header::new_with(byte, rl).map_err(ResumeErr::V5)?;
            let c = v5::Connect::decode_with_protocol(rd, h, proto)
                .await
                .map_err(ResumeErr::V5)?;
            Ok(Resumed::V5(v5::Packet::Connect(c)))
        }
    }
}

/// the NON-matching family's known-protocol entry point on the bytes after the protocol: it must refuse with
/// UnexpectedProtocol(found) (the version gate lives in decode_with_protocol)
async fn resume_wrong(rd: &mut &[u8]) -> Result<Resumed, ResumeErr> {
    let (byte, rl) = decode_raw_header(rd).await.map_err(ResumeErr::V3)?;
    let proto = Protocol::decode_async(rd).await.map_err(ResumeErr::V3)?;
    match proto {
        Protocol::V500 => {
            let c = v3::Connect::decode_with_protocol(rd, proto)
                .await
                .map_err(ResumeErr::V3)?;
            Ok(Resumed::V3(v3::Packet::Connect(c)))
        }
        Protocol::V310 | Protocol::V311 => {
            let h = v5::Header::new_with(byte, rl).map_err(ResumeErr::V5)?;
            let c = v5::Connect::decode_with_protocol(rd, h, proto)
                .await
                .map_err(ResumeErr::V5)?;
            Ok(Resumed::V5(v5::Packet::Connect(c)))
        }
    }
}

/// Poll front-end of family F on the whole slice; when it refuses, continue with the matching family's
/// known-protocol entry point on the body bytes the decoder retained in the caller-owned state.
fn poll_state_resume<F: Fam>(out: &mut String, bytes: &[u8]) {
    let mut prd = ScriptReader::whole(bytes);
    let mut st = GenericPollPacketState::<F::Hdr>::default();
    let pr = guard(|| poll_until_ready::<F, _>(&mut st, &mut prd));
    if !matches!(pr, Ok(Err(_))) {
        out.push('-');
        return;
    }
    let body: Vec<u8> = match &st {
        GenericPollPacketState::Body(b) if b.idx == b.buf.len() && !b.buf.is_empty() => {
            b.buf.iter().map(|x| unsafe { x.assume_init() }).collect()
        }
        _ => {
            out.push_str("lost");
            return;
        }
    };
    let mut hd: &[u8] = bytes;
    let (byte, rl) = match block_on(decode_raw_header(&mut hd)) {
        Ok(x) => x,
        Err(_) => {
            out.push('-');
            return;
        }
    };
    let mut rd: &[u8] = &body;
    let r = guard(|| block_on(resume_body(&mut rd, byte, rl)));
    print_resumed(out, r);
}

fn print_resumed(out: &mut String, r: Result<Result<Resumed, ResumeErr>, Panicked>) {
    match r {
        Ok(Ok(Resumed::V3(p))) => {
            out.push_str("ok v3 ");
            V3::print(out, &p);
        }
        Ok(Ok(Resumed::V5(p))) => {
            out.push_str("ok v5 ");
            V5::print(out, &p);
        }
        Ok(Err(ResumeErr::V3(e))) => {
            out.push_str("err ");
            cm::print_err(out, &e);
        }
        Ok(Err(ResumeErr::V5(e))) => {
            out.push_str("err ");
            pk5::print_err(out, &e);
        }
        Err(p) => panic_str(out, &p),
    }
}

fn cross_front<F: Fam>(out: &mut String, bytes: &[u8]) {
    let th = three::<F>(bytes);
    out.push_str("block=");
    res_pkt::<F>(out, &th.block);
    out.push_str(";async=");
    res_pkt::<F>(out, &th.asy);
    out.push_str(";aused=");
    tok::num(out, th.aused as u64);
    out.push_str(";poll=");
    res_pkt::<F>(out, &th.poll);
}

fn op_cross(t: &mut Toks) -> PResult<String> {
    let is5 = t.fam_is_v5()?;
    let bytes = t.hex()?;
    t.done()?;
    let mut out = String::new();
    if is5 {
        cross_front::<V5>(&mut out, &bytes);
    } else {
        cross_front::<V3>(&mut out, &bytes);
    }
    out.push_str(";resume=");
    let mut rd: &[u8] = &bytes;
    let r = guard(|| block_on(resume(&mut rd)));
    let rused = bytes.len() - rd.len();
    match r {
        Ok(Ok(Resumed::V3(p))) => {
            out.push_str("ok v3 ");
            V3::print(&mut out, &p);
        }
        Ok(Ok(Resumed::V5(p))) => {
            out.push_str("ok v5 ");
            V5::print(&mut out, &p);
        }
        Ok(Err(ResumeErr::V3(e))) => {
            out.push_str("err ");
            cm::print_err(&mut out, &e);
        }
        Ok(Err(ResumeErr::V5(e))) => {
            out.push_str("err ");
            pk5::print_err(&mut out, &e);
        }
        Err(p) => panic_str(&mut out, &p),
    }
    out.push_str(";rused=");
    tok::num(&mut out, rused as u64);
    out.push_str(";wrong=");
    let mut rd2: &[u8] = &bytes;
    let r2 = guard(|| block_on(resume_wrong(&mut rd2)));
    match r2 {
        Ok(Ok(Resumed::V3(p))) => {
            out.push_str("ok v3 ");
            V3::print(&mut out, &p);
        }
        Ok(Ok(Resumed::V5(p))) => {
            out.push_str("ok v5 ");
            V5::print(&mut out, &p);
        }
        Ok(Err(ResumeErr::V3(e))) => {
            out.push_str("err ");
            cm::print_err(&mut out, &e);
        }
        Ok(Err(ResumeErr::V5(e))) => {
            out.push_str("err ");
            pk5::print_err(&mut out, &e);
        }
        Err(p) => panic_str(&mut out, &p),
    }
    out.push_str(";presume=");
    if is5 {
        poll_state_resume::<V5>(&mut out, &bytes);
    } else {
        poll_state_resume::<V3>(&mut out, &bytes);
    }
    Ok(out)
}


// ---------------------------------------------------------------- shape-only ops (C02)

fn big_fields<T, E>(
    out: &mut String,
    len: Result<Result<usize, E>, Panicked>,
    enc: Result<Result<T, mqtt_proto::Error>, Panicked>,
    size: impl Fn(&T) -> usize,
    perr: impl Fn(&mut String, &E),
) {
    out.push_str("len=");
    res_simple(out, &len, |o, v| tok::num(o, *v as u64), |o, e| perr(o, e));
    out.push_str(";enc=");
    res_simple(
        out,
        &enc,
        |o, v| tok::num(o, size(v) as u64),
        |o, e| cm::print_err(o, e),
    );
}

/// `big FAM publish TOPICLEN QOS PAYLOADLEN`: a PUBLISH given by field lengths only.
/// -> len=RES(NUM);enc=RES(NUM bytes produced)
fn op_big(t: &mut Toks) -> PResult<String> {
    let v5 = t.fam_is_v5()?;
    let kind = t.next()?;
    if kind != "publish" {
        return Err("big-kind".to_owned());
    }
    let tl = t.num()? as usize;
    let q = t.num()?;
    let pl = t.num()? as usize;
    t.done()?;
    if tl > 65535 || pl > (1usize << 30) {
        return Err("big-size".to_owned());
    }
    let topic = mqtt_proto::TopicName::try_from("a".repeat(tl)).map_err(|_| "topic".to_owned())?;
    let pid = mqtt_proto::Pid::try_from(7u16).unwrap();
    let qp = match q {
        0 => mqtt_proto::QosPid::Level0,
        1 => mqtt_proto::QosPid::Level1(pid),
        2 => mqtt_proto::QosPid::Level2(pid),
        _ => return Err("qos".to_owned()),
    };
    let payload = bytes::Bytes::from(vec![0u8; pl]);
    let mut out = String::new();
    if v5 {
        let p = mqtt_proto::v5::Packet::Publish(mqtt_proto::v5::Publish::new(qp, topic, payload));
        let len = guard(|| p.encode_len());
        let enc = guard(|| p.encode());
        big_fields(&mut out, len, enc, |v| v.as_ref().len(), |o, e| pk5::print_err(o, e));
    } else {
        let p = mqtt_proto::v3::Packet::Publish(mqtt_proto::v3::Publish::new(qp, topic, payload));
        let len = guard(|| p.encode_len());
        let enc = guard(|| p.encode());
        big_fields(&mut out, len, enc, |v| v.as_ref().len(), |o, e| cm::print_err(o, e));
    }
    Ok(out)
}

/// `kf1 N`: v5 Puback with N user properties sharing one 65535-byte Arc<String> as name and value.
/// -> len=RES(NUM);enc=RES(NUM)
/// `kf3 N`: v3 Subscribe with N entries sharing one 65535-byte filter (Arc): bodies up to and beyond 2^32 bytes
/// cost no memory.  -> len=RES(NUM);enc=RES(NUM)   (encode only attempted when encode_len fails or is small)
fn op_kf3(t: &mut Toks) -> PResult<String> {
    let n = t.num()? as usize;
    t.done()?;
    if n == 0 || n > 70000 {
        return Err("kf3-size".to_owned());
    }
    let f = mqtt_proto::TopicFilter::try_from("a".repeat(65535)).map_err(|_| "filter".to_owned())?;
    let sub = mqtt_proto::v3::Subscribe::new(
        mqtt_proto::Pid::try_from(1u16).unwrap(),
        vec![(f, mqtt_proto::QoS::Level1); n],
    );
    let p = mqtt_proto::v3::Packet::Subscribe(sub);
    let len = guard(|| p.encode_len());
    let big = n as u64 * 65538 + 2;
    // encode() is attempted when it must refuse (>= 2^28) or is small; never a successful multi-GB encode
    let enc = if big >= (1u64 << 28) || big < (1 << 24) {
        guard(|| p.encode())
    } else {
        guard(|| -> Result<mqtt_proto::VarBytes, mqtt_proto::Error> { panic!("skipped") })
    };
    let mut out = String::new();
    big_fields(&mut out, len, enc, |v| v.as_ref().len(), |o, e| cm::print_err(o, e));
    Ok(out)
}

fn op_kf1(t: &mut Toks) -> PResult<String> {
    let n = t.num()? as usize;
    t.done()?;
    if n > 5000 {
        return Err("kf1-size".to_owned());
    }
    let s = std::sync::Arc::new("a".repeat(65535));
    let up = mqtt_proto::v5::UserProperty {
        name: s.clone(),
        value: s,
    };
    let mut pa = mqtt_proto::v5::Puback::new(
        mqtt_proto::Pid::try_from(1u16).unwrap(),
        mqtt_proto::v5::PubackReasonCode::UnspecifiedError,
    );
    pa.properties.user_properties = vec![up; n];
    let p = mqtt_proto::v5::Packet::Puback(pa);
    let len = guard(|| p.encode_len());
    let mut out = String::new();
    // encode() of a 275 MB property section is only attempted when encode_len did not panic
    let enc = if len.is_err() {
        guard(|| -> Result<mqtt_proto::VarBytes, mqtt_proto::Error> { panic!("skipped") })
    } else {
        guard(|| p.encode())
    };
    big_fields(&mut out, len, enc, |v| v.as_ref().len(), |o, e| pk5::print_err(o, e));
    Ok(out)
}
