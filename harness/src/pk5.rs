//! v5 packets: parse (PKT5 / PROPS), print, invariants walk, family glue.

use std::io;
use std::sync::Arc;

use bytes::Bytes;
use mqtt_proto::v5::{
    Auth, AuthProperties, AuthReasonCode, Connack, ConnackProperties, Connect, ConnectProperties,
    ConnectReasonCode, Disconnect, DisconnectProperties, DisconnectReasonCode, ErrorV5, Header,
    LastWill, Packet, PacketType, Puback, PubackProperties, PubackReasonCode, Pubcomp,
    PubcompProperties, PubcompReasonCode, Publish, PublishProperties, Pubrec, PubrecProperties,
    PubrecReasonCode, Pubrel, PubrelProperties, PubrelReasonCode, RetainHandling, Suback,
    SubackProperties, Subscribe, SubscribeProperties, SubscribeReasonCode, SubscriptionOptions,
    Unsuback, UnsubackProperties, Unsubscribe, UnsubscribeProperties, UnsubscribeReasonCode,
    UserProperty, VarByteInt,
};
use mqtt_proto::{Encodable, Error, QoS, TopicName, VarBytes};
use tokio::io::{AsyncRead, AsyncWrite};

use crate::cm::{self, Fam, HdrInfo};
use crate::pk3::{
    parse_opt_bytes, parse_opt_text, parse_pid, parse_qos_pid, parse_topic_filter,
    parse_topic_name, print_opt_hex, print_qos_pid,
};
use crate::tok::{self, PResult, Toks};

pub struct V5;

// ---------------------------------------------------------------- enum maps (by name, both ways)

macro_rules! code_map {
    ($to_num:ident, $from_num:ident, $ty:ident, $what:expr, { $($var:ident = $num:expr),* $(,)? }) => {
        pub fn $to_num(c: $ty) -> u64 {
            match c { $($ty::$var => $num,)* }
        }
        pub fn $from_num(n: u64) -> PResult<$ty> {
            match n {
                $($num => Ok($ty::$var),)*
                _ => Err(format!("unknown-{}-code-{}", $what, n)),
            }
        }
    };
}

code_map!(connect_rc_num, num_connect_rc, ConnectReasonCode, "connack", {
    Success = 0x00,
    UnspecifiedError = 0x80,
    MalformedPacket = 0x81,
    ProtocolError = 0x82,
    ImplementationSpecificError = 0x83,
    UnsupportedProtocolVersion = 0x84,
    ClientIdentifierNotValid = 0x85,
    BadUserNameOrPassword = 0x86,
    NotAuthorized = 0x87,
    ServerUnavailable = 0x88,
    ServerBusy = 0x89,
    Banned = 0x8A,
    BadAuthMethod = 0x8C,
    TopicNameInvalid = 0x90,
    PacketTooLarge = 0x95,
    QuotaExceeded = 0x97,
    PayloadFormatInvalid = 0x99,
    RetainNotSupported = 0x9A,
    QoSNotSupported = 0x9B,
    UseAnotherServer = 0x9C,
    ServerMoved = 0x9D,
    ConnectionRateExceeded = 0x9F,
});

code_map!(disconnect_rc_num, num_disconnect_rc, DisconnectReasonCode, "disconnect", {
    NormalDisconnect = 0x00,
    DisconnectWithWillMessage = 0x04,
    UnspecifiedError = 0x80,
    MalformedPacket = 0x81,
    ProtocolError = 0x82,
    ImplementationSpecificError = 0x83,
    NotAuthorized = 0x87,
    ServerBusy = 0x89,
    ServerShuttingDown = 0x8B,
    KeepAliveTimeout = 0x8D,
    SessionTakenOver = 0x8E,
    TopicFilterInvalid = 0x8F,
    TopicNameInvalid = 0x90,
    ReceiveMaximumExceeded = 0x93,
    TopicAliasInvalid = 0x94,
    PacketTooLarge = 0x95,
    MessageRateTooHigh = 0x96,
    QuotaExceeded = 0x97,
    AdministrativeAction = 0x98,
    PayloadFormatInvalid = 0x99,
    RetainNotSupported = 0x9A,
    QoSNotSupported = 0x9B,
    UserAnotherServer = 0x9C,
    ServerMoved = 0x9D,
    SharedSubscriptionNotSupported = 0x9E,
    ConnectionRateExceeded = 0x9F,
    MaximumConnectTime = 0xA0,
    SubscriptionIdentifiersNotSupported = 0xA1,
    WildcardSubscriptionsNotSupported = 0xA2,
});

code_map!(auth_rc_num, num_auth_rc, AuthReasonCode, "auth", {
    Success = 0x00,
    ContinueAuthentication = 0x18,
    ReAuthentication = 0x19,
});

code_map!(puback_rc_num, num_puback_rc, PubackReasonCode, "puback", {
    Success = 0x00,
    NoMatchingSubscribers = 0x10,
    UnspecifiedError = 0x80,
    ImplementationSpecificError = 0x83,
    NotAuthorized = 0x87,
    TopicNameInvalid = 0x90,
    PacketIdentifierInUse = 0x91,
    QuotaExceeded = 0x97,
    PayloadFormatInvalid = 0x99,
});

code_map!(pubrec_rc_num, num_pubrec_rc, PubrecReasonCode, "pubrec", {
    Success = 0x00,
    NoMatchingSubscribers = 0x10,
    UnspecifiedError = 0x80,
    ImplementationSpecificError = 0x83,
    NotAuthorized = 0x87,
    TopicNameInvalid = 0x90,
    PacketIdentifierInUse = 0x91,
    QuotaExceeded = 0x97,
    PayloadFormatInvalid = 0x99,
});

code_map!(pubrel_rc_num, num_pubrel_rc, PubrelReasonCode, "pubrel", {
    Success = 0x00,
    PacketIdentifierNotFound = 0x92,
});

code_map!(pubcomp_rc_num, num_pubcomp_rc, PubcompReasonCode, "pubcomp", {
    Success = 0x00,
    PacketIdentifierNotFound = 0x92,
});

code_map!(subscribe_rc_num, num_subscribe_rc, SubscribeReasonCode, "suback", {
    GrantedQoS0 = 0x00,
    GrantedQoS1 = 0x01,
    GrantedQoS2 = 0x02,
    UnspecifiedError = 0x80,
    ImplementationSpecificError = 0x83,
    NotAuthorized = 0x87,
    TopicFilterInvalid = 0x8F,
    PacketIdentifierInUse = 0x91,
    QuotaExceeded = 0x97,
    SharedSubscriptionNotSupported = 0x9E,
    SubscriptionIdentifiersNotSupported = 0xA1,
    WildcardSubscriptionsNotSupported = 0xA2,
});

code_map!(unsubscribe_rc_num, num_unsubscribe_rc, UnsubscribeReasonCode, "unsuback", {
    Success = 0x00,
    NoSubscriptionExisted = 0x11,
    UnspecifiedError = 0x80,
    ImplementationSpecificError = 0x83,
    NotAuthorized = 0x87,
    TopicFilterInvalid = 0x8F,
    PacketIdentifierInUse = 0x91,
});

code_map!(rh_num, num_rh, RetainHandling, "retain-handling", {
    SendAtSubscribe = 0,
    SendAtSubscribeIfNotExist = 1,
    DoNotSend = 2,
});

pub fn ptype_name(t: PacketType) -> &'static str {
    match t {
        PacketType::Connect => "connect",
        PacketType::Connack => "connack",
        PacketType::Publish => "publish",
        PacketType::Puback => "puback",
        PacketType::Pubrec => "pubrec",
        PacketType::Pubrel => "pubrel",
        PacketType::Pubcomp => "pubcomp",
        PacketType::Subscribe => "subscribe",
        PacketType::Suback => "suback",
        PacketType::Unsubscribe => "unsubscribe",
        PacketType::Unsuback => "unsuback",
        PacketType::Pingreq => "pingreq",
        PacketType::Pingresp => "pingresp",
        PacketType::Disconnect => "disconnect",
        PacketType::Auth => "auth",
    }
}

fn hdr_info(h: Header) -> HdrInfo {
    HdrInfo {
        ptype: ptype_name(h.typ),
        dup: h.dup,
        qos: h.qos,
        retain: h.retain,
        rl: h.remaining_len,
    }
}

// ---------------------------------------------------------------- errors

pub fn print_err(out: &mut String, e: &ErrorV5) {
    match e {
        ErrorV5::Common(e) => cm::print_err(out, e),
        ErrorV5::InvalidReasonCode(pt, n) => {
            out.push_str("InvalidReasonCode ");
            out.push_str(ptype_name(*pt));
            out.push(' ');
            tok::num(out, u64::from(*n));
        }
        ErrorV5::InvalidSubscriptionOption(n) => {
            out.push_str("InvalidSubscriptionOption ");
            tok::num(out, u64::from(*n));
        }
        ErrorV5::InvalidPayloadFormat => out.push_str("InvalidPayloadFormat"),
        ErrorV5::InvalidResponseTopic => out.push_str("InvalidResponseTopic"),
        ErrorV5::InvalidPropertyId(n) => {
            out.push_str("InvalidPropertyId ");
            tok::num(out, u64::from(*n));
        }
        ErrorV5::InvalidPropertyLength(n) => {
            out.push_str("InvalidPropertyLength ");
            tok::num(out, u64::from(*n));
        }
        ErrorV5::InvalidByteProperty(id, v) => {
            out.push_str("InvalidByteProperty ");
            tok::num(out, u64::from(*id as u8));
            out.push(' ');
            tok::num(out, u64::from(*v));
        }
        ErrorV5::DuplicatedProperty(id) => {
            out.push_str("DuplicatedProperty ");
            tok::num(out, u64::from(*id as u8));
        }
        ErrorV5::InvalidProperty(pt, id) => {
            out.push_str("InvalidProperty ");
            out.push_str(ptype_name(*pt));
            out.push(' ');
            tok::num(out, u64::from(*id as u8));
        }
        ErrorV5::InvalidWillProperty(id) => {
            out.push_str("InvalidWillProperty ");
            tok::num(out, u64::from(*id as u8));
        }
    }
}

// ---------------------------------------------------------------- PROPS: parse

enum Val {
    N(u64),
    H(Vec<u8>),
}

/// Some(true) => VAL is HEX, Some(false) => VAL is NUM, None => unknown id.
fn val_is_hex(id: u64) -> Option<bool> {
    match id {
        1 | 2 | 11 | 17 | 19 | 23 | 24 | 25 | 33 | 34 | 35 | 36 | 37 | 39 | 40 | 41 | 42 => {
            Some(false)
        }
        3 | 8 | 9 | 18 | 21 | 22 | 26 | 28 | 31 => Some(true),
        _ => None,
    }
}

struct RawProps {
    items: Vec<(u64, Val)>,
    user: Vec<UserProperty>,
}

fn parse_raw_props(t: &mut Toks) -> PResult<RawProps> {
    let n = t.num()?;
    let mut items: Vec<(u64, Val)> = Vec::new();
    for _ in 0..n {
        let id = t.num()?;
        let is_hex = val_is_hex(id).ok_or_else(|| format!("unknown-property-id-{}", id))?;
        if items.iter().any(|(i, _)| *i == id) {
            return Err(format!("duplicate-property-id-{}", id));
        }
        let v = if is_hex {
            Val::H(t.hex()?)
        } else {
            Val::N(t.num()?)
        };
        items.push((id, v));
    }
    let m = t.num()?;
    let mut user = Vec::new();
    for _ in 0..m {
        let name = Arc::new(t.text()?);
        let value = Arc::new(t.text()?);
        user.push(UserProperty { name, value });
    }
    Ok(RawProps { items, user })
}

impl RawProps {
    fn take(&mut self, id: u64) -> Option<Val> {
        let i = self.items.iter().position(|(i, _)| *i == id)?;
        Some(self.items.remove(i).1)
    }
    fn num(&mut self, id: u64, max: u64) -> PResult<Option<u64>> {
        match self.take(id) {
            None => Ok(None),
            Some(Val::N(n)) if n <= max => Ok(Some(n)),
            Some(_) => Err(format!("property-{}-out-of-range", id)),
        }
    }
    fn u32(&mut self, id: u64) -> PResult<Option<u32>> {
        Ok(self.num(id, 0xffff_ffff)?.map(|n| n as u32))
    }
    fn u16(&mut self, id: u64) -> PResult<Option<u16>> {
        Ok(self.num(id, 0xffff)?.map(|n| n as u16))
    }
    fn boolean(&mut self, id: u64) -> PResult<Option<bool>> {
        Ok(self.num(id, 1)?.map(|n| n == 1))
    }
    fn qos(&mut self, id: u64) -> PResult<Option<QoS>> {
        match self.num(id, 2)? {
            None => Ok(None),
            Some(n) => Ok(Some(cm::num_qos(n)?)),
        }
    }
    fn varint(&mut self, id: u64) -> PResult<Option<VarByteInt>> {
        match self.num(id, 0xffff_ffff)? {
            None => Ok(None),
            Some(n) => VarByteInt::try_from(n as u32)
                .map(Some)
                .map_err(|_| "subscription-id-too-large".to_owned()),
        }
    }
    fn bytes(&mut self, id: u64) -> PResult<Option<Bytes>> {
        match self.take(id) {
            None => Ok(None),
            Some(Val::H(h)) => Ok(Some(Bytes::from(h))),
            Some(Val::N(_)) => Err("property-kind".to_owned()),
        }
    }
    fn text(&mut self, id: u64) -> PResult<Option<Arc<String>>> {
        match self.take(id) {
            None => Ok(None),
            Some(Val::H(h)) => String::from_utf8(h)
                .map(|s| Some(Arc::new(s)))
                .map_err(|_| format!("property-{}-not-utf8", id)),
            Some(Val::N(_)) => Err("property-kind".to_owned()),
        }
    }
    fn topic(&mut self, id: u64) -> PResult<Option<TopicName>> {
        match self.text(id)? {
            None => Ok(None),
            Some(s) => TopicName::try_from((*s).clone())
                .map(Some)
                .map_err(|_| "invalid-response-topic".to_owned()),
        }
    }
    fn finish(self) -> PResult<Vec<UserProperty>> {
        match self.items.first() {
            Some((id, _)) => Err(format!("property-{}-not-in-struct", id)),
            None => Ok(self.user),
        }
    }
}

fn parse_connect_props(t: &mut Toks) -> PResult<ConnectProperties> {
    let mut r = parse_raw_props(t)?;
    let session_expiry_interval = r.u32(17)?;
    let receive_max = r.u16(33)?;
    let max_packet_size = r.u32(39)?;
    let topic_alias_max = r.u16(34)?;
    let request_response_info = r.boolean(25)?;
    let request_problem_info = r.boolean(23)?;
    let auth_method = r.text(21)?;
    let auth_data = r.bytes(22)?;
    Ok(ConnectProperties {
        session_expiry_interval,
        receive_max,
        max_packet_size,
        topic_alias_max,
        request_response_info,
        request_problem_info,
        user_properties: r.finish()?,
        auth_method,
        auth_data,
    })
}

fn parse_will_props(t: &mut Toks) -> PResult<mqtt_proto::v5::WillProperties> {
    let mut r = parse_raw_props(t)?;
    let delay_interval = r.u32(24)?;
    let payload_is_utf8 = r.boolean(1)?;
    let message_expiry_interval = r.u32(2)?;
    let content_type = r.text(3)?;
    let response_topic = r.topic(8)?;
    let correlation_data = r.bytes(9)?;
    Ok(mqtt_proto::v5::WillProperties {
        delay_interval,
        payload_is_utf8,
        message_expiry_interval,
        content_type,
        response_topic,
        correlation_data,
        user_properties: r.finish()?,
    })
}

fn parse_connack_props(t: &mut Toks) -> PResult<ConnackProperties> {
    let mut r = parse_raw_props(t)?;
    let session_expiry_interval = r.u32(17)?;
    let receive_max = r.u16(33)?;
    let max_qos = r.qos(36)?;
    let retain_available = r.boolean(37)?;
    let max_packet_size = r.u32(39)?;
    let assigned_client_id = r.text(18)?;
    let topic_alias_max = r.u16(34)?;
    let reason_string = r.text(31)?;
    let wildcard_subscription_available = r.boolean(40)?;
    let subscription_id_available = r.boolean(41)?;
    let shared_subscription_available = r.boolean(42)?;
    let server_keep_alive = r.u16(19)?;
    let response_info = r.text(26)?;
    let server_reference = r.text(28)?;
    let auth_method = r.text(21)?;
    let auth_data = r.bytes(22)?;
    Ok(ConnackProperties {
        session_expiry_interval,
        receive_max,
        max_qos,
        retain_available,
        max_packet_size,
        assigned_client_id,
        topic_alias_max,
        reason_string,
        user_properties: r.finish()?,
        wildcard_subscription_available,
        subscription_id_available,
        shared_subscription_available,
        server_keep_alive,
        response_info,
        server_reference,
        auth_method,
        auth_data,
    })
}

fn parse_publish_props(t: &mut Toks) -> PResult<PublishProperties> {
    let mut r = parse_raw_props(t)?;
    let payload_is_utf8 = r.boolean(1)?;
    let message_expiry_interval = r.u32(2)?;
    let topic_alias = r.u16(35)?;
    let response_topic = r.topic(8)?;
    let correlation_data = r.bytes(9)?;
    let subscription_id = r.varint(11)?;
    let content_type = r.text(3)?;
    Ok(PublishProperties {
        payload_is_utf8,
        message_expiry_interval,
        topic_alias,
        response_topic,
        correlation_data,
        user_properties: r.finish()?,
        subscription_id,
        content_type,
    })
}

macro_rules! parse_reason_string_props {
    ($fname:ident, $ty:ident) => {
        fn $fname(t: &mut Toks) -> PResult<$ty> {
            let mut r = parse_raw_props(t)?;
            let reason_string = r.text(31)?;
            Ok($ty {
                reason_string,
                user_properties: r.finish()?,
            })
        }
    };
}
parse_reason_string_props!(parse_puback_props, PubackProperties);
parse_reason_string_props!(parse_pubrec_props, PubrecProperties);
parse_reason_string_props!(parse_pubrel_props, PubrelProperties);
parse_reason_string_props!(parse_pubcomp_props, PubcompProperties);
parse_reason_string_props!(parse_suback_props, SubackProperties);
parse_reason_string_props!(parse_unsuback_props, UnsubackProperties);

fn parse_subscribe_props(t: &mut Toks) -> PResult<SubscribeProperties> {
    let mut r = parse_raw_props(t)?;
    let subscription_id = r.varint(11)?;
    Ok(SubscribeProperties {
        subscription_id,
        user_properties: r.finish()?,
    })
}

fn parse_unsubscribe_props(t: &mut Toks) -> PResult<UnsubscribeProperties> {
    let r = parse_raw_props(t)?;
    Ok(UnsubscribeProperties {
        user_properties: r.finish()?,
    })
}

fn parse_disconnect_props(t: &mut Toks) -> PResult<DisconnectProperties> {
    let mut r = parse_raw_props(t)?;
    let session_expiry_interval = r.u32(17)?;
    let reason_string = r.text(31)?;
    let server_reference = r.text(28)?;
    Ok(DisconnectProperties {
        session_expiry_interval,
        reason_string,
        user_properties: r.finish()?,
        server_reference,
    })
}

fn parse_auth_props(t: &mut Toks) -> PResult<AuthProperties> {
    let mut r = parse_raw_props(t)?;
    let auth_method = r.text(21)?;
    let auth_data = r.bytes(22)?;
    let reason_string = r.text(31)?;
    Ok(AuthProperties {
        auth_method,
        auth_data,
        reason_string,
        user_properties: r.finish()?,
    })
}

// ---------------------------------------------------------------- PROPS: print

#[derive(Default)]
struct PP {
    items: Vec<(u64, String)>,
}

impl PP {
    fn n(&mut self, id: u64, v: Option<u64>) {
        if let Some(v) = v {
            self.items.push((id, v.to_string()));
        }
    }
    fn b(&mut self, id: u64, v: Option<bool>) {
        self.n(id, v.map(u64::from));
    }
    fn h(&mut self, id: u64, v: Option<&[u8]>) {
        if let Some(v) = v {
            self.items.push((id, tok::hex_string(v)));
        }
    }
    fn s(&mut self, id: u64, v: &Option<Arc<String>>) {
        self.h(id, v.as_ref().map(|s| s.as_bytes()));
    }
    fn finish(mut self, out: &mut String, user: &[UserProperty]) {
        self.items.sort_by_key(|(id, _)| *id);
        tok::num(out, self.items.len() as u64);
        for (id, v) in &self.items {
            out.push(' ');
            tok::num(out, *id);
            out.push(' ');
            out.push_str(v);
        }
        out.push(' ');
        tok::num(out, user.len() as u64);
        for u in user {
            out.push(' ');
            tok::hex(out, u.name.as_bytes());
            out.push(' ');
            tok::hex(out, u.value.as_bytes());
        }
    }
}

fn print_connect_props(out: &mut String, p: &ConnectProperties) {
    let mut pp = PP::default();
    pp.n(17, p.session_expiry_interval.map(u64::from));
    pp.n(33, p.receive_max.map(u64::from));
    pp.n(39, p.max_packet_size.map(u64::from));
    pp.n(34, p.topic_alias_max.map(u64::from));
    pp.b(25, p.request_response_info);
    pp.b(23, p.request_problem_info);
    pp.s(21, &p.auth_method);
    pp.h(22, p.auth_data.as_ref().map(|b| b.as_ref()));
    pp.finish(out, &p.user_properties);
}

fn print_will_props(out: &mut String, p: &mqtt_proto::v5::WillProperties) {
    let mut pp = PP::default();
    pp.n(24, p.delay_interval.map(u64::from));
    pp.b(1, p.payload_is_utf8);
    pp.n(2, p.message_expiry_interval.map(u64::from));
    pp.s(3, &p.content_type);
    pp.h(8, p.response_topic.as_ref().map(|t| t.as_bytes()));
    pp.h(9, p.correlation_data.as_ref().map(|b| b.as_ref()));
    pp.finish(out, &p.user_properties);
}

fn print_connack_props(out: &mut String, p: &ConnackProperties) {
    let mut pp = PP::default();
    pp.n(17, p.session_expiry_interval.map(u64::from));
    pp.n(33, p.receive_max.map(u64::from));
    pp.n(36, p.max_qos.map(cm::qos_num));
    pp.b(37, p.retain_available);
    pp.n(39, p.max_packet_size.map(u64::from));
    pp.s(18, &p.assigned_client_id);
    pp.n(34, p.topic_alias_max.map(u64::from));
    pp.s(31, &p.reason_string);
    pp.b(40, p.wildcard_subscription_available);
    pp.b(41, p.subscription_id_available);
    pp.b(42, p.shared_subscription_available);
    pp.n(19, p.server_keep_alive.map(u64::from));
    pp.s(26, &p.response_info);
    pp.s(28, &p.server_reference);
    pp.s(21, &p.auth_method);
    pp.h(22, p.auth_data.as_ref().map(|b| b.as_ref()));
    pp.finish(out, &p.user_properties);
}

fn print_publish_props(out: &mut String, p: &PublishProperties) {
    let mut pp = PP::default();
    pp.b(1, p.payload_is_utf8);
    pp.n(2, p.message_expiry_interval.map(u64::from));
    pp.n(35, p.topic_alias.map(u64::from));
    pp.h(8, p.response_topic.as_ref().map(|t| t.as_bytes()));
    pp.h(9, p.correlation_data.as_ref().map(|b| b.as_ref()));
    pp.n(11, p.subscription_id.map(|v| u64::from(v.value())));
    pp.s(3, &p.content_type);
    pp.finish(out, &p.user_properties);
}

fn print_reason_string_props(
    out: &mut String,
    reason_string: &Option<Arc<String>>,
    user: &[UserProperty],
) {
    let mut pp = PP::default();
    pp.s(31, reason_string);
    pp.finish(out, user);
}

fn print_subscribe_props(out: &mut String, p: &SubscribeProperties) {
    let mut pp = PP::default();
    pp.n(11, p.subscription_id.map(|v| u64::from(v.value())));
    pp.finish(out, &p.user_properties);
}

fn print_unsubscribe_props(out: &mut String, p: &UnsubscribeProperties) {
    PP::default().finish(out, &p.user_properties);
}

fn print_disconnect_props(out: &mut String, p: &DisconnectProperties) {
    let mut pp = PP::default();
    pp.n(17, p.session_expiry_interval.map(u64::from));
    pp.s(31, &p.reason_string);
    pp.s(28, &p.server_reference);
    pp.finish(out, &p.user_properties);
}

fn print_auth_props(out: &mut String, p: &AuthProperties) {
    let mut pp = PP::default();
    pp.s(21, &p.auth_method);
    pp.h(22, p.auth_data.as_ref().map(|b| b.as_ref()));
    pp.s(31, &p.reason_string);
    pp.finish(out, &p.user_properties);
}

// ---------------------------------------------------------------- parse

fn parse(t: &mut Toks) -> PResult<Packet> {
    let kind = t.next()?;
    Ok(match kind {
        "connect" => {
            let protocol = cm::num_proto(t.num()?)?;
            let clean_start = t.boolean()?;
            let keep_alive = t.u16()?;
            let properties = parse_connect_props(t)?;
            let client_id = Arc::new(t.text()?);
            let last_will = if t.opt()? {
                let qos = cm::num_qos(t.num()?)?;
                let retain = t.boolean()?;
                let properties = parse_will_props(t)?;
                let topic_name = parse_topic_name(t)?;
                let payload = Bytes::from(t.hex()?);
                Some(LastWill {
                    qos,
                    retain,
                    topic_name,
                    payload,
                    properties,
                })
            } else {
                None
            };
            let username = parse_opt_text(t)?;
            let password = parse_opt_bytes(t)?;
            Packet::Connect(Connect {
                protocol,
                clean_start,
                keep_alive,
                properties,
                client_id,
                last_will,
                username,
                password,
            })
        }
        "connack" => {
            let session_present = t.boolean()?;
            let reason_code = num_connect_rc(t.num()?)?;
            let properties = parse_connack_props(t)?;
            Packet::Connack(Connack {
                session_present,
                reason_code,
                properties,
            })
        }
        "publish" => {
            let dup = t.boolean()?;
            let retain = t.boolean()?;
            let qos_pid = parse_qos_pid(t)?;
            let topic_name = parse_topic_name(t)?;
            let properties = parse_publish_props(t)?;
            let payload = Bytes::from(t.hex()?);
            Packet::Publish(Publish {
                dup,
                retain,
                qos_pid,
                topic_name,
                payload,
                properties,
            })
        }
        "puback" => {
            let pid = parse_pid(t)?;
            let reason_code = num_puback_rc(t.num()?)?;
            let properties = parse_puback_props(t)?;
            Packet::Puback(Puback {
                pid,
                reason_code,
                properties,
            })
        }
        "pubrec" => {
            let pid = parse_pid(t)?;
            let reason_code = num_pubrec_rc(t.num()?)?;
            let properties = parse_pubrec_props(t)?;
            Packet::Pubrec(Pubrec {
                pid,
                reason_code,
                properties,
            })
        }
        "pubrel" => {
            let pid = parse_pid(t)?;
            let reason_code = num_pubrel_rc(t.num()?)?;
            let properties = parse_pubrel_props(t)?;
            Packet::Pubrel(Pubrel {
                pid,
                reason_code,
                properties,
            })
        }
        "pubcomp" => {
            let pid = parse_pid(t)?;
            let reason_code = num_pubcomp_rc(t.num()?)?;
            let properties = parse_pubcomp_props(t)?;
            Packet::Pubcomp(Pubcomp {
                pid,
                reason_code,
                properties,
            })
        }
        "subscribe" => {
            let pid = parse_pid(t)?;
            let properties = parse_subscribe_props(t)?;
            let n = t.num()?;
            let mut topics = Vec::new();
            for _ in 0..n {
                let f = parse_topic_filter(t)?;
                let max_qos = cm::num_qos(t.num()?)?;
                let no_local = t.boolean()?;
                let retain_as_published = t.boolean()?;
                let retain_handling = num_rh(t.num()?)?;
                topics.push((
                    f,
                    SubscriptionOptions {
                        max_qos,
                        no_local,
                        retain_as_published,
                        retain_handling,
                    },
                ));
            }
            Packet::Subscribe(Subscribe {
                pid,
                properties,
                topics,
            })
        }
        "suback" => {
            let pid = parse_pid(t)?;
            let properties = parse_suback_props(t)?;
            let n = t.num()?;
            let mut topics = Vec::new();
            for _ in 0..n {
                topics.push(num_subscribe_rc(t.num()?)?);
            }
            Packet::Suback(Suback {
                pid,
                properties,
                topics,
            })
        }
        "unsubscribe" => {
            let pid = parse_pid(t)?;
            let properties = parse_unsubscribe_props(t)?;
            let n = t.num()?;
            let mut topics = Vec::new();
            for _ in 0..n {
                topics.push(parse_topic_filter(t)?);
            }
            Packet::Unsubscribe(Unsubscribe {
                pid,
                properties,
                topics,
            })
        }
        "unsuback" => {
            let pid = parse_pid(t)?;
            let properties = parse_unsuback_props(t)?;
            let n = t.num()?;
            let mut topics = Vec::new();
            for _ in 0..n {
                topics.push(num_unsubscribe_rc(t.num()?)?);
            }
            Packet::Unsuback(Unsuback {
                pid,
                properties,
                topics,
            })
        }
        "pingreq" => Packet::Pingreq,
        "pingresp" => Packet::Pingresp,
        "disconnect" => {
            let reason_code = num_disconnect_rc(t.num()?)?;
            let properties = parse_disconnect_props(t)?;
            Packet::Disconnect(Disconnect {
                reason_code,
                properties,
            })
        }
        "auth" => {
            let reason_code = num_auth_rc(t.num()?)?;
            let properties = parse_auth_props(t)?;
            Packet::Auth(Auth {
                reason_code,
                properties,
            })
        }
        _ => return Err("unknown-v5-packet".to_owned()),
    })
}

// ---------------------------------------------------------------- print

fn print_ack(
    out: &mut String,
    name: &str,
    pid: mqtt_proto::Pid,
    reason: u64,
    reason_string: &Option<Arc<String>>,
    user: &[UserProperty],
) {
    out.push_str(name);
    out.push(' ');
    tok::num(out, u64::from(pid.value()));
    out.push(' ');
    tok::num(out, reason);
    out.push(' ');
    print_reason_string_props(out, reason_string, user);
}

fn print(out: &mut String, p: &Packet) {
    match p {
        Packet::Connect(c) => {
            out.push_str("connect ");
            tok::num(out, cm::proto_num(c.protocol));
            out.push(' ');
            tok::boolean(out, c.clean_start);
            out.push(' ');
            tok::num(out, u64::from(c.keep_alive));
            out.push(' ');
            print_connect_props(out, &c.properties);
            out.push(' ');
            tok::hex(out, c.client_id.as_bytes());
            match &c.last_will {
                None => out.push_str(" -"),
                Some(w) => {
                    out.push_str(" + ");
                    tok::num(out, cm::qos_num(w.qos));
                    out.push(' ');
                    tok::boolean(out, w.retain);
                    out.push(' ');
                    print_will_props(out, &w.properties);
                    out.push(' ');
                    tok::hex(out, w.topic_name.as_bytes());
                    out.push(' ');
                    tok::hex(out, w.payload.as_ref());
                }
            }
            print_opt_hex(out, c.username.as_ref().map(|s| s.as_bytes()));
            print_opt_hex(out, c.password.as_ref().map(|b| b.as_ref()));
        }
        Packet::Connack(c) => {
            out.push_str("connack ");
            tok::boolean(out, c.session_present);
            out.push(' ');
            tok::num(out, connect_rc_num(c.reason_code));
            out.push(' ');
            print_connack_props(out, &c.properties);
        }
        Packet::Publish(p) => {
            out.push_str("publish ");
            tok::boolean(out, p.dup);
            out.push(' ');
            tok::boolean(out, p.retain);
            out.push(' ');
            print_qos_pid(out, p.qos_pid);
            out.push(' ');
            tok::hex(out, p.topic_name.as_bytes());
            out.push(' ');
            print_publish_props(out, &p.properties);
            out.push(' ');
            tok::hex(out, p.payload.as_ref());
        }
        Packet::Puback(a) => print_ack(
            out,
            "puback",
            a.pid,
            puback_rc_num(a.reason_code),
            &a.properties.reason_string,
            &a.properties.user_properties,
        ),
        Packet::Pubrec(a) => print_ack(
            out,
            "pubrec",
            a.pid,
            pubrec_rc_num(a.reason_code),
            &a.properties.reason_string,
            &a.properties.user_properties,
        ),
        Packet::Pubrel(a) => print_ack(
            out,
            "pubrel",
            a.pid,
            pubrel_rc_num(a.reason_code),
            &a.properties.reason_string,
            &a.properties.user_properties,
        ),
        Packet::Pubcomp(a) => print_ack(
            out,
            "pubcomp",
            a.pid,
            pubcomp_rc_num(a.reason_code),
            &a.properties.reason_string,
            &a.properties.user_properties,
        ),
        Packet::Subscribe(s) => {
            out.push_str("subscribe ");
            tok::num(out, u64::from(s.pid.value()));
            out.push(' ');
            print_subscribe_props(out, &s.properties);
            out.push(' ');
            tok::num(out, s.topics.len() as u64);
            for (f, o) in &s.topics {
                out.push(' ');
                tok::hex(out, f.as_bytes());
                out.push(' ');
                tok::num(out, cm::qos_num(o.max_qos));
                out.push(' ');
                tok::boolean(out, o.no_local);
                out.push(' ');
                tok::boolean(out, o.retain_as_published);
                out.push(' ');
                tok::num(out, rh_num(o.retain_handling));
            }
        }
        Packet::Suback(s) => {
            out.push_str("suback ");
            tok::num(out, u64::from(s.pid.value()));
            out.push(' ');
            print_reason_string_props(
                out,
                &s.properties.reason_string,
                &s.properties.user_properties,
            );
            out.push(' ');
            tok::num(out, s.topics.len() as u64);
            for c in &s.topics {
                out.push(' ');
                tok::num(out, subscribe_rc_num(*c));
            }
        }
        Packet::Unsubscribe(s) => {
            out.push_str("unsubscribe ");
            tok::num(out, u64::from(s.pid.value()));
            out.push(' ');
            print_unsubscribe_props(out, &s.properties);
            out.push(' ');
            tok::num(out, s.topics.len() as u64);
            for f in &s.topics {
                out.push(' ');
                tok::hex(out, f.as_bytes());
            }
        }
        Packet::Unsuback(s) => {
            out.push_str("unsuback ");
            tok::num(out, u64::from(s.pid.value()));
            out.push(' ');
            print_reason_string_props(
                out,
                &s.properties.reason_string,
                &s.properties.user_properties,
            );
            out.push(' ');
            tok::num(out, s.topics.len() as u64);
            for c in &s.topics {
                out.push(' ');
                tok::num(out, unsubscribe_rc_num(*c));
            }
        }
        Packet::Pingreq => out.push_str("pingreq"),
        Packet::Pingresp => out.push_str("pingresp"),
        Packet::Disconnect(d) => {
            out.push_str("disconnect ");
            tok::num(out, disconnect_rc_num(d.reason_code));
            out.push(' ');
            print_disconnect_props(out, &d.properties);
        }
        Packet::Auth(a) => {
            out.push_str("auth ");
            tok::num(out, auth_rc_num(a.reason_code));
            out.push(' ');
            print_auth_props(out, &a.properties);
        }
    }
}

// ---------------------------------------------------------------- invariants

fn inv_opt_str(what: &str, s: &Option<Arc<String>>) -> Result<(), String> {
    match s {
        Some(s) => cm::inv_str(what, s),
        None => Ok(()),
    }
}

fn inv_user(user: &[UserProperty]) -> Result<(), String> {
    for u in user {
        cm::inv_str("user_property_name", &u.name)?;
        cm::inv_str("user_property_value", &u.value)?;
    }
    Ok(())
}

fn inv_varint(what: &str, v: &Option<VarByteInt>) -> Result<(), String> {
    match v {
        Some(v) if v.value() >= 268_435_456 => Err(format!("{}_varint_too_large", what)),
        _ => Ok(()),
    }
}

fn inv_payload(what: &str, flag: Option<bool>, payload: &[u8]) -> Result<(), String> {
    if flag == Some(true) && std::str::from_utf8(payload).is_err() {
        Err(format!("{}_payload_not_utf8", what))
    } else {
        Ok(())
    }
}

fn inv(p: &Packet) -> Result<(), String> {
    match p {
        Packet::Connect(c) => {
            cm::inv_str("client_id", &c.client_id)?;
            inv_opt_str("username", &c.username)?;
            inv_opt_str("auth_method", &c.properties.auth_method)?;
            inv_user(&c.properties.user_properties)?;
            if let Some(w) = &c.last_will {
                cm::inv_name("will_topic", &w.topic_name)?;
                inv_opt_str("will_content_type", &w.properties.content_type)?;
                if let Some(rt) = &w.properties.response_topic {
                    cm::inv_name("will_response_topic", rt)?;
                }
                inv_user(&w.properties.user_properties)?;
                inv_payload("will", w.properties.payload_is_utf8, w.payload.as_ref())?;
            }
            Ok(())
        }
        Packet::Connack(c) => {
            let p = &c.properties;
            inv_opt_str("assigned_client_id", &p.assigned_client_id)?;
            inv_opt_str("reason_string", &p.reason_string)?;
            inv_opt_str("response_info", &p.response_info)?;
            inv_opt_str("server_reference", &p.server_reference)?;
            inv_opt_str("auth_method", &p.auth_method)?;
            inv_user(&p.user_properties)
        }
        Packet::Publish(p) => {
            cm::inv_name("topic_name", &p.topic_name)?;
            if let Some(pid) = p.qos_pid.pid() {
                cm::inv_pid("publish", pid)?;
            }
            if let Some(rt) = &p.properties.response_topic {
                cm::inv_name("response_topic", rt)?;
            }
            inv_opt_str("content_type", &p.properties.content_type)?;
            inv_varint("subscription_id", &p.properties.subscription_id)?;
            inv_user(&p.properties.user_properties)?;
            inv_payload("publish", p.properties.payload_is_utf8, p.payload.as_ref())
        }
        Packet::Puback(a) => {
            cm::inv_pid("pid", a.pid)?;
            inv_opt_str("reason_string", &a.properties.reason_string)?;
            inv_user(&a.properties.user_properties)
        }
        Packet::Pubrec(a) => {
            cm::inv_pid("pid", a.pid)?;
            inv_opt_str("reason_string", &a.properties.reason_string)?;
            inv_user(&a.properties.user_properties)
        }
        Packet::Pubrel(a) => {
            cm::inv_pid("pid", a.pid)?;
            inv_opt_str("reason_string", &a.properties.reason_string)?;
            inv_user(&a.properties.user_properties)
        }
        Packet::Pubcomp(a) => {
            cm::inv_pid("pid", a.pid)?;
            inv_opt_str("reason_string", &a.properties.reason_string)?;
            inv_user(&a.properties.user_properties)
        }
        Packet::Subscribe(s) => {
            cm::inv_pid("pid", s.pid)?;
            inv_varint("subscription_id", &s.properties.subscription_id)?;
            inv_user(&s.properties.user_properties)?;
            for (f, _) in &s.topics {
                cm::inv_filter("filter", f)?;
            }
            Ok(())
        }
        Packet::Suback(s) => {
            cm::inv_pid("pid", s.pid)?;
            inv_opt_str("reason_string", &s.properties.reason_string)?;
            inv_user(&s.properties.user_properties)
        }
        Packet::Unsubscribe(s) => {
            cm::inv_pid("pid", s.pid)?;
            inv_user(&s.properties.user_properties)?;
            for f in &s.topics {
                cm::inv_filter("filter", f)?;
            }
            Ok(())
        }
        Packet::Unsuback(s) => {
            cm::inv_pid("pid", s.pid)?;
            inv_opt_str("reason_string", &s.properties.reason_string)?;
            inv_user(&s.properties.user_properties)
        }
        Packet::Pingreq | Packet::Pingresp => Ok(()),
        Packet::Disconnect(d) => {
            inv_opt_str("reason_string", &d.properties.reason_string)?;
            inv_opt_str("server_reference", &d.properties.server_reference)?;
            inv_user(&d.properties.user_properties)
        }
        Packet::Auth(a) => {
            inv_opt_str("auth_method", &a.properties.auth_method)?;
            inv_opt_str("reason_string", &a.properties.reason_string)?;
            inv_user(&a.properties.user_properties)
        }
    }
}

// ---------------------------------------------------------------- family glue

macro_rules! with_body {
    ($p:expr, $b:ident => $e:expr) => {
        match $p {
            Packet::Connect($b) => Some($e),
            Packet::Connack($b) => Some($e),
            Packet::Publish($b) => Some($e),
            Packet::Puback($b) => Some($e),
            Packet::Pubrec($b) => Some($e),
            Packet::Pubrel($b) => Some($e),
            Packet::Pubcomp($b) => Some($e),
            Packet::Subscribe($b) => Some($e),
            Packet::Suback($b) => Some($e),
            Packet::Unsubscribe($b) => Some($e),
            Packet::Unsuback($b) => Some($e),
            Packet::Disconnect($b) => Some($e),
            Packet::Auth($b) => Some($e),
            Packet::Pingreq | Packet::Pingresp => None,
        }
    };
}

impl Fam for V5 {
    type Packet = Packet;
    type Err = ErrorV5;
    type Hdr = Header;

    fn parse(t: &mut Toks) -> PResult<Packet> {
        parse(t)
    }
    fn print(out: &mut String, p: &Packet) {
        print(out, p)
    }
    fn print_err(out: &mut String, e: &ErrorV5) {
        print_err(out, e)
    }
    fn is_eof(e: &ErrorV5) -> bool {
        e.is_eof()
    }
    fn inv(p: &Packet) -> Result<(), String> {
        inv(p)
    }

    fn decode(bytes: &[u8]) -> Result<Option<Packet>, ErrorV5> {
        Packet::decode(bytes)
    }
    async fn decode_async<R: AsyncRead + Unpin>(r: &mut R) -> Result<Packet, ErrorV5> {
        Packet::decode_async(r).await
    }
    fn encode(p: &Packet) -> Result<VarBytes, Error> {
        p.encode()
    }
    fn encode_len(p: &Packet) -> Result<usize, ErrorV5> {
        p.encode_len()
    }
    async fn encode_async<W: AsyncWrite + Unpin>(p: &Packet, w: &mut W) -> Result<(), ErrorV5> {
        p.encode_async(w).await
    }

    fn header_decode(bytes: &[u8]) -> Result<HdrInfo, ErrorV5> {
        Header::decode(bytes).map(hdr_info)
    }
    async fn header_decode_async<R: AsyncRead + Unpin>(r: &mut R) -> Result<HdrInfo, ErrorV5> {
        Header::decode_async(r).await.map(hdr_info)
    }
    fn header_new_with(byte: u8, rl: u32) -> Result<HdrInfo, ErrorV5> {
        Header::new_with(byte, rl).map(hdr_info)
    }
    fn hdr_rl(h: &Header) -> u32 {
        h.remaining_len
    }

    fn body_encode<W: io::Write>(p: &Packet, w: &mut W) -> Option<io::Result<()>> {
        with_body!(p, b => b.encode(w))
    }
    fn body_len(p: &Packet) -> Option<usize> {
        with_body!(p, b => b.encode_len())
    }
    fn parts(p: &Packet) -> Vec<String> {
        let mut v = Vec::new();
        match p {
            Packet::Connect(c) => {
                v.push(cm::part("proto", &c.protocol));
                v.push(cm::part("props", &c.properties));
                if let Some(w) = &c.last_will {
                    v.push(cm::part("will", w));
                    v.push(cm::part("willprops", &w.properties));
                }
            }
            Packet::Connack(b) => v.push(cm::part("props", &b.properties)),
            Packet::Publish(b) => v.push(cm::part("props", &b.properties)),
            Packet::Puback(b) => v.push(cm::part("props", &b.properties)),
            Packet::Pubrec(b) => v.push(cm::part("props", &b.properties)),
            Packet::Pubrel(b) => v.push(cm::part("props", &b.properties)),
            Packet::Pubcomp(b) => v.push(cm::part("props", &b.properties)),
            Packet::Subscribe(b) => v.push(cm::part("props", &b.properties)),
            Packet::Suback(b) => v.push(cm::part("props", &b.properties)),
            Packet::Unsubscribe(b) => v.push(cm::part("props", &b.properties)),
            Packet::Unsuback(b) => v.push(cm::part("props", &b.properties)),
            Packet::Disconnect(b) => v.push(cm::part("props", &b.properties)),
            Packet::Auth(b) => v.push(cm::part("props", &b.properties)),
            Packet::Pingreq | Packet::Pingresp => {}
        }
        v
    }
}

// ---------------------------------------------------------------- code tables for op `code`
// These deliberately print `variant as u8` of what from_u8 returned (FORMAT 4.4).

pub fn code_table(table: &str, b: u8) -> Option<Option<u8>> {
    Some(match table {
        "connect5" => ConnectReasonCode::from_u8(b).map(|c| c as u8),
        "disconnect5" => DisconnectReasonCode::from_u8(b).map(|c| c as u8),
        "auth5" => AuthReasonCode::from_u8(b).map(|c| c as u8),
        "puback5" => PubackReasonCode::from_u8(b).map(|c| c as u8),
        "pubrec5" => PubrecReasonCode::from_u8(b).map(|c| c as u8),
        "pubrel5" => PubrelReasonCode::from_u8(b).map(|c| c as u8),
        "pubcomp5" => PubcompReasonCode::from_u8(b).map(|c| c as u8),
        "subscribe5" => SubscribeReasonCode::from_u8(b).map(|c| c as u8),
        "unsubscribe5" => UnsubscribeReasonCode::from_u8(b).map(|c| c as u8),
        "rh5" => RetainHandling::from_u8(b).map(|c| c as u8),
        _ => return None,
    })
}

pub fn code_propid(b: u8) -> Result<u8, ErrorV5> {
    mqtt_proto::v5::PropertyId::from_u8(b).map(|c| c as u8)
}
