//! Tokenizer / lexical helpers for case lines (FORMAT.md section 1).

pub type PResult<T> = Result<T, String>;

pub struct Toks<'a> {
    toks: Vec<&'a str>,
    pos: usize,
}

impl<'a> Toks<'a> {
    pub fn new(line: &'a str) -> Self {
        Toks {
            toks: line.split(' ').collect(),
            pos: 0,
        }
    }

    pub fn next(&mut self) -> PResult<&'a str> {
        match self.toks.get(self.pos) {
            Some(t) => {
                self.pos += 1;
                Ok(t)
            }
            None => Err("missing-token".to_owned()),
        }
    }

    pub fn done(&self) -> PResult<()> {
        if self.pos == self.toks.len() {
            Ok(())
        } else {
            Err("trailing-tokens".to_owned())
        }
    }

    /// NUM: decimal natural number, no sign.
    pub fn num(&mut self) -> PResult<u64> {
        parse_num(self.next()?)
    }

    pub fn num_max(&mut self, max: u64) -> PResult<u64> {
        let n = self.num()?;
        if n > max {
            Err(format!("number-out-of-range-{}", n))
        } else {
            Ok(n)
        }
    }

    pub fn u8(&mut self) -> PResult<u8> {
        Ok(self.num_max(0xff)? as u8)
    }

    pub fn u16(&mut self) -> PResult<u16> {
        Ok(self.num_max(0xffff)? as u16)
    }

    pub fn u32(&mut self) -> PResult<u32> {
        Ok(self.num_max(0xffff_ffff)? as u32)
    }

    /// BOOL: `0` or `1`.
    pub fn boolean(&mut self) -> PResult<bool> {
        match self.next()? {
            "0" => Ok(false),
            "1" => Ok(true),
            _ => Err("bad-bool".to_owned()),
        }
    }

    /// HEX: `x` followed by an even number of lowercase hex digits.
    pub fn hex(&mut self) -> PResult<Vec<u8>> {
        parse_hex(self.next()?)
    }

    /// HEX that must be valid UTF-8 text.
    pub fn text(&mut self) -> PResult<String> {
        String::from_utf8(self.hex()?).map_err(|_| "text-not-utf8".to_owned())
    }

    /// OPT(T): `-` => false, `+` => true (the tokens of T follow).
    pub fn opt(&mut self) -> PResult<bool> {
        match self.next()? {
            "-" => Ok(false),
            "+" => Ok(true),
            _ => Err("bad-opt".to_owned()),
        }
    }

    /// FAM: true for v5, false for v3.
    pub fn fam_is_v5(&mut self) -> PResult<bool> {
        match self.next()? {
            "v3" => Ok(false),
            "v5" => Ok(true),
            _ => Err("bad-fam".to_owned()),
        }
    }
}

pub fn parse_num(t: &str) -> PResult<u64> {
    if t.is_empty() || !t.bytes().all(|b| b.is_ascii_digit()) {
        return Err("bad-num".to_owned());
    }
    let mut v: u64 = 0;
    for b in t.bytes() {
        v = v
            .checked_mul(10)
            .and_then(|v| v.checked_add(u64::from(b - b'0')))
            .ok_or_else(|| "num-overflow".to_owned())?;
    }
    Ok(v)
}

fn hexval(b: u8) -> Option<u8> {
    match b {
        b'0'..=b'9' => Some(b - b'0'),
        b'a'..=b'f' => Some(b - b'a' + 10),
        _ => None,
    }
}

pub fn parse_hex(t: &str) -> PResult<Vec<u8>> {
    let b = t.as_bytes();
    if b.first() != Some(&b'x') || (b.len() - 1) % 2 != 0 {
        return Err("bad-hex".to_owned());
    }
    let mut out = Vec::with_capacity((b.len() - 1) / 2);
    for pair in b[1..].chunks(2) {
        match (hexval(pair[0]), hexval(pair[1])) {
            (Some(h), Some(l)) => out.push(h << 4 | l),
            _ => return Err("bad-hex".to_owned()),
        }
    }
    Ok(out)
}

const HEXDIG: &[u8; 16] = b"0123456789abcdef";

/// Append `x` + lowercase hex of `bytes`.
pub fn hex(out: &mut String, bytes: &[u8]) {
    out.reserve(1 + bytes.len() * 2);
    out.push('x');
    for &b in bytes {
        out.push(HEXDIG[(b >> 4) as usize] as char);
        out.push(HEXDIG[(b & 15) as usize] as char);
    }
}

pub fn hex_string(bytes: &[u8]) -> String {
    let mut s = String::new();
    hex(&mut s, bytes);
    s
}

pub fn num(out: &mut String, n: u64) {
    use std::fmt::Write;
    let _ = write!(out, "{}", n);
}

pub fn boolean(out: &mut String, b: bool) {
    out.push(if b { '1' } else { '0' });
}
