(* Properties/C19.v — Packet identifiers cycle through 1..=65535 and never become 0.
   Model: Model/Types.v pid_add / pid_sub / pid_try (common/types.rs 107-170), both build
   profiles (the inner `n + 1` is overflow-checked in Debug, wrapping in Release).
   Only statements; proofs are in Proofs/PidLaws.v. *)
From MQ Require Import Proofs.Tactics Model.Types Spec.SpecTopic Proofs.PidLaws.
Open Scope N_scope.

(* adding u equals stepping u times around the cycle: closed form over the integers *)
Theorem C19_add_cycle : forall prof p u, 1 <= p <= 65535 -> u <= 65535 ->
  exists q, pid_add prof p u = Ok q /\ Z.of_N q = (((Z.of_N p - 1 + Z.of_N u) mod 65535) + 1)%Z.
Proof. exact pid_add_cycle. Qed.
Print Assumptions C19_add_cycle.

Theorem C19_sub_cycle : forall prof p u, 1 <= p <= 65535 -> u <= 65535 ->
  exists q, pid_sub prof p u = Ok q /\ Z.of_N q = (((Z.of_N p - 1 - Z.of_N u) mod 65535) + 1)%Z.
Proof. exact pid_sub_cycle. Qed.
Print Assumptions C19_sub_cycle.

(* one more step is the successor on the cycle (65535 is followed by 1), zero steps is the identity *)
Theorem C19_add_step : forall prof p u, 1 <= p <= 65535 -> u < 65535 ->
  exists q, pid_add prof p u = Ok q /\ pid_add prof p (u + 1) = Ok (if q =? 65535 then 1 else q + 1).
Proof. exact pid_add_step. Qed.
Print Assumptions C19_add_step.
Theorem C19_add_zero : forall prof p, 1 <= p <= 65535 -> pid_add prof p 0 = Ok p.
Proof. exact pid_add_zero. Qed.
Print Assumptions C19_add_zero.

(* never 0, never a panic or a wrapped value, in either profile *)
Theorem C19_add_is_pid : forall prof p u, 1 <= p <= 65535 -> u <= 65535 ->
  exists q, pid_add prof p u = Ok q /\ 1 <= q <= 65535.
Proof. exact pid_add_is_pid. Qed.
Print Assumptions C19_add_is_pid.
Theorem C19_sub_is_pid : forall prof p u, 1 <= p <= 65535 -> u <= 65535 ->
  exists q, pid_sub prof p u = Ok q /\ 1 <= q <= 65535.
Proof. exact pid_sub_is_pid. Qed.
Print Assumptions C19_sub_is_pid.

(* subtraction undoes addition and addition undoes subtraction *)
Theorem C19_add_then_sub : forall prof p u, 1 <= p <= 65535 -> u <= 65535 ->
  exists q, pid_add prof p u = Ok q /\ pid_sub prof q u = Ok p.
Proof. exact pid_add_sub. Qed.
Print Assumptions C19_add_then_sub.
Theorem C19_sub_then_add : forall prof p u, 1 <= p <= 65535 -> u <= 65535 ->
  exists q, pid_sub prof p u = Ok q /\ pid_add prof q u = Ok p.
Proof. exact pid_sub_add. Qed.
Print Assumptions C19_sub_then_add.

(* the in-place operators are the pure ones (`*self = *self + other`) *)
Theorem C19_assign_agree : forall prof p u,
  pid_add_assign prof p u = pid_add prof p u /\ pid_sub_assign prof p u = pid_sub prof p u.
Proof. intros; split; reflexivity. Qed.
Print Assumptions C19_assign_agree.

(* construction from a raw u16 fails exactly for 0 *)
Theorem C19_try_from : forall v, v <= 65535 ->
  (pid_try v = Err ZeroPid <-> v = 0) /\ (v <> 0 -> pid_try v = Ok v).
Proof. exact pid_try_spec. Qed.
Print Assumptions C19_try_from.

(* non-vacuity: the wrap-around cases *)
Example ex_C19 : pid_add Debug 65535 1 = Ok 1 /\ pid_sub Debug 1 1 = Ok 65535 /\
                 pid_add Release 10 65535 = Ok 10 /\ pid_sub Debug 1 65535 = Ok 1.
Proof. repeat split. Qed.
