(* Properties/C18.v — Topic name validation matches the MQTT rule and preserves the text.
   Model: Model/Topic.v name_is_invalid / name_try / name_is_shared / name_is_sys
   (common/types.rs 246-285), Model/Props.v decode_value ResponseTopic (v5/types.rs 284-297).
   That the PUBLISH, will and Response-Topic decoders go through exactly these functions is
   structural in the model (V3.publish_decode, V3.connect_decode_with_protocol, V5.publish_decode,
   V5.will_decode, decode_value) and is tied to the code by the differential run (op dec). *)
From MQ Require Import Proofs.Tactics Model.Props Spec.SpecTopic Proofs.TopicNameEq.
Open Scope N_scope.

(* A string (valid UTF-8, as every Rust &str is) is rejected exactly when it is longer than 65,535
   bytes or contains one of the bytes '+' (43), '#' (35), NUL (0) *)
Theorem C18_name_bytes : forall s, utf8_valid s = true ->
  name_is_invalid s = (65535 <? len s) || existsb (fun b => (b =? 43) || (b =? 35) || (b =? 0)) s.
Proof. exact name_bytes. Qed.
Print Assumptions C18_name_bytes.

(* ... which is the declarative rule of MQTT 4.7 over characters *)
Theorem C18_name_spec : forall s, name_is_invalid s = negb (Spec.topic_name_ok s).
Proof. exact name_spec. Qed.
Print Assumptions C18_name_spec.

(* the constructor accepts exactly the valid strings, keeps the text, and names the offender *)
Theorem C18_try_ok : forall s, name_is_invalid s = false -> name_try s = Ok s.
Proof. exact name_try_ok. Qed.
Print Assumptions C18_try_ok.
Theorem C18_try_err : forall s, name_is_invalid s = true -> name_try s = Err (InvalidTopicName s).
Proof. exact name_try_err. Qed.
Print Assumptions C18_try_err.
Theorem C18_try_inv : forall s s', name_try s = Ok s' -> s' = s /\ name_is_invalid s = false.
Proof. exact name_try_inv. Qed.
Print Assumptions C18_try_inv.

(* '$share/' and '$SYS/' prefixes are reported correctly *)
Theorem C18_is_shared : forall s, name_is_shared s = true <-> exists r, s = [36; 115; 104; 97; 114; 101; 47] ++ r.
Proof. intros s. apply starts_with_spec. Qed.
Print Assumptions C18_is_shared.
Theorem C18_is_sys : forall s, name_is_sys s = true <-> exists r, s = [36; 83; 89; 83; 47] ++ r.
Proof. intros s. apply starts_with_spec. Qed.
Print Assumptions C18_is_sys.

(* the Response Topic property uses the same predicate and reports InvalidResponseTopic *)
Theorem C18_response_topic : forall t d, decode_value ResponseTopic t d =
  match read_string t d with
  | ROk s r => if name_is_invalid s then RErr InvalidResponseTopic else ROk (VB s) r
  | RErr e => RErr e
  | RPanic p => RPanic p
  end.
Proof. exact response_topic_value. Qed.
Print Assumptions C18_response_topic.

Example ex_C18 : name_is_invalid [97; 47; 43] = true /\ name_is_invalid [228; 189; 160; 47; 98] = false
                 /\ name_is_invalid [] = false /\ name_try [36; 83; 89; 83; 47; 120] = Ok [36; 83; 89; 83; 47; 120].
Proof. repeat split. Qed.
