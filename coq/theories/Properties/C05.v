(* Properties/C05.v — Poll decoder is schedule-independent and cancellation-safe.
   Model: Model/Poll.v — GenericPollPacket::poll as the step function pstep over the caller-owned
   state (SHeader cb vidx vint | SBody h total idx buf), driven by prun/poll_drive over a scripted
   transport: atom list (AB byte | ACut: a read stops here | APend: poll_read returns Pending) followed
   by a tail (clean EOF or an I/O error).  Every delivery schedule of a byte stream is such a list;
   bytes_of l is the stream.  The trace records every poll_read (capacity asked, bytes delivered).
   Dropping the future and re-creating it from the caller-held state is "stop prun after k polls and
   start again from rr_state / rr_rest" (the Rust future owns nothing but two borrows; that this is so
   in the implementation is exercised by the harness, which really drops, re-creates and clones).
   All statements hold for well-formed and malformed streams alike and in both build profiles
   (the debug_assert of poll.rs never fires: C03_v*_poll_total in C03.v). *)
From MQ Require Import Proofs.Tactics Model.Valid Model.Stream Proofs.PollSched Proofs.FrontAgree Proofs.FrontAgreeProf.
Open Scope N_scope.

(* same result (packet, total, body — or the same error) and the same bytes left over for every
   two schedules of the same stream *)
Theorem C05_v3_schedule_independent : forall prof l1 l2 t, bytes_of l1 = bytes_of l2 ->
  rr_res V3.packet (F3.poll_drive prof l1 t) = rr_res V3.packet (F3.poll_drive prof l2 t) /\
  bytes_of (rr_rest V3.packet (F3.poll_drive prof l1 t)) = bytes_of (rr_rest V3.packet (F3.poll_drive prof l2 t)).
Proof. exact FrontAgree.C05_v3_schedule_independent. Qed.
Print Assumptions C05_v3_schedule_independent.

(* ... in particular the same as one uninterrupted read *)
Theorem C05_v3_same_as_one_read : forall prof l t,
  rr_res V3.packet (F3.poll_drive prof l t) = rr_res V3.packet (F3.poll1 prof (bytes_of l) t) /\
  bytes_of (rr_rest V3.packet (F3.poll_drive prof l t)) = bytes_of (rr_rest V3.packet (F3.poll1 prof (bytes_of l) t)).
Proof. exact FrontAgree.C05_v3_same_as_one_read. Qed.
Print Assumptions C05_v3_same_as_one_read.

(* ... and across build profiles *)
Theorem C05_v3_profile_independent : forall prof1 prof2 l1 l2 t, bytes_of l1 = bytes_of l2 ->
  rr_res V3.packet (F3.poll_drive prof1 l1 t) = rr_res V3.packet (F3.poll_drive prof2 l2 t) /\
  bytes_of (rr_rest V3.packet (F3.poll_drive prof1 l1 t)) = bytes_of (rr_rest V3.packet (F3.poll_drive prof2 l2 t)).
Proof. exact C05_v3_schedule_profile_independent. Qed.
Print Assumptions C05_v3_profile_independent.

(* it returns not-ready only when the transport did: Pending results = APend atoms consumed *)
Theorem C05_v3_pending : forall prof l t,
  rr_pend V3.packet (F3.poll_drive prof l t) + count_pend (rr_rest V3.packet (F3.poll_drive prof l t)) = count_pend l /\
  rr_pend V3.packet (F3.poll_drive prof l t) = count_pend l - count_pend (rr_rest V3.packet (F3.poll_drive prof l t)) /\
  count_evpend (rr_trace V3.packet (F3.poll_drive prof l t)) = rr_pend V3.packet (F3.poll_drive prof l t).
Proof. exact FrontAgree.C05_v3_pending. Qed.
Print Assumptions C05_v3_pending.

(* on success it has consumed exactly the number of bytes it reports; the body handed back is the
   raw body; total = 1 + length bytes + body *)
Theorem C05_v3_consumed_eq_total : forall prof l t total body p,
  rr_res V3.packet (F3.poll_drive prof l t) = Some (Ok (total, body, p)) ->
  len (bytes_of l) = total + len (bytes_of (rr_rest V3.packet (F3.poll_drive prof l t))) /\
  len (bytes_of l) - len (bytes_of (rr_rest V3.packet (F3.poll_drive prof l t))) = total /\
  (exists cb vbytes v h,
     bytes_of l = cb :: vbytes ++ body ++ bytes_of (rr_rest V3.packet (F3.poll_drive prof l t)) /\
     vbi_of vbytes v /\ V3.header_new_with cb v = Ok h /\ total = 1 + len vbytes + len body /\
     (V3.build_empty_packet h = Some p /\ body = [] \/
      V3.build_empty_packet h = None /\ h_rl h <> 0 /\ len body = h_rl h /\ V3.block_decode prof h TEof body = ROk p [])).
Proof. exact FrontAgree.C05_v3_consumed_eq_total. Qed.
Print Assumptions C05_v3_consumed_eq_total.

(* it never asks the transport for bytes beyond the end of the current frame: every read asks for
   >= 1 byte and receives at most what it asked; the bytes delivered add up to the bytes consumed; on
   success, before every read, position + capacity asked <= total (frame_ok) *)
Theorem C05_v3_never_reads_past_frame : forall prof l t,
  Forall ev_ok (rr_trace V3.packet (F3.poll_drive prof l t)) /\
  data_total (rr_trace V3.packet (F3.poll_drive prof l t)) + len (bytes_of (rr_rest V3.packet (F3.poll_drive prof l t)))
    = len (bytes_of l) /\
  (forall total body p, rr_res V3.packet (F3.poll_drive prof l t) = Some (Ok (total, body, p)) ->
     data_total (rr_trace V3.packet (F3.poll_drive prof l t)) = total /\
     frame_ok 0 (rr_trace V3.packet (F3.poll_drive prof l t)) total).
Proof. exact FrontAgree.C05_v3_never_reads_past_frame. Qed.
Print Assumptions C05_v3_never_reads_past_frame.

(* cancellation safety: stop after k polls (still not Ready), continue from the caller-held state with
   a fresh run (any profile): same final result, same bytes left *)
Theorem C05_v3_drop_recreate : forall prof prof2 k l t,
  let r1 := prun V3.packet V3.header_new_with V3.build_empty_packet (V3.block_decode prof) prof k pinit l t 0 [] in
  rr_res V3.packet r1 = None ->
  let r2 := prun V3.packet V3.header_new_with V3.build_empty_packet (V3.block_decode prof) prof2
              (S (length (rr_rest V3.packet r1))) (rr_state V3.packet r1) (rr_rest V3.packet r1) t
              (rr_pend V3.packet r1) (rev (rr_trace V3.packet r1)) in
  rr_res V3.packet r2 = rr_res V3.packet (F3.poll_drive prof l t) /\
  bytes_of (rr_rest V3.packet r2) = bytes_of (rr_rest V3.packet (F3.poll_drive prof l t)).
Proof. exact FrontAgree.C05_v3_drop_recreate. Qed.
Print Assumptions C05_v3_drop_recreate.

(* ---------------- the same for the v5 family ---------------- *)
(* same result (packet, total, body — or the same error) and the same bytes left over for every
   two schedules of the same stream *)
Theorem C05_v5_schedule_independent : forall prof l1 l2 t, bytes_of l1 = bytes_of l2 ->
  rr_res V5.packet (F5.poll_drive prof l1 t) = rr_res V5.packet (F5.poll_drive prof l2 t) /\
  bytes_of (rr_rest V5.packet (F5.poll_drive prof l1 t)) = bytes_of (rr_rest V5.packet (F5.poll_drive prof l2 t)).
Proof. exact FrontAgree.C05_v5_schedule_independent. Qed.
Print Assumptions C05_v5_schedule_independent.

(* ... in particular the same as one uninterrupted read *)
Theorem C05_v5_same_as_one_read : forall prof l t,
  rr_res V5.packet (F5.poll_drive prof l t) = rr_res V5.packet (F5.poll1 prof (bytes_of l) t) /\
  bytes_of (rr_rest V5.packet (F5.poll_drive prof l t)) = bytes_of (rr_rest V5.packet (F5.poll1 prof (bytes_of l) t)).
Proof. exact FrontAgree.C05_v5_same_as_one_read. Qed.
Print Assumptions C05_v5_same_as_one_read.

(* ... and across build profiles *)
Theorem C05_v5_profile_independent : forall prof1 prof2 l1 l2 t, bytes_of l1 = bytes_of l2 ->
  rr_res V5.packet (F5.poll_drive prof1 l1 t) = rr_res V5.packet (F5.poll_drive prof2 l2 t) /\
  bytes_of (rr_rest V5.packet (F5.poll_drive prof1 l1 t)) = bytes_of (rr_rest V5.packet (F5.poll_drive prof2 l2 t)).
Proof. exact C05_v5_schedule_profile_independent. Qed.
Print Assumptions C05_v5_profile_independent.

(* it returns not-ready only when the transport did: Pending results = APend atoms consumed *)
Theorem C05_v5_pending : forall prof l t,
  rr_pend V5.packet (F5.poll_drive prof l t) + count_pend (rr_rest V5.packet (F5.poll_drive prof l t)) = count_pend l /\
  rr_pend V5.packet (F5.poll_drive prof l t) = count_pend l - count_pend (rr_rest V5.packet (F5.poll_drive prof l t)) /\
  count_evpend (rr_trace V5.packet (F5.poll_drive prof l t)) = rr_pend V5.packet (F5.poll_drive prof l t).
Proof. exact FrontAgree.C05_v5_pending. Qed.
Print Assumptions C05_v5_pending.

(* on success it has consumed exactly the number of bytes it reports; the body handed back is the
   raw body; total = 1 + length bytes + body *)
Theorem C05_v5_consumed_eq_total : forall prof l t total body p,
  rr_res V5.packet (F5.poll_drive prof l t) = Some (Ok (total, body, p)) ->
  len (bytes_of l) = total + len (bytes_of (rr_rest V5.packet (F5.poll_drive prof l t))) /\
  len (bytes_of l) - len (bytes_of (rr_rest V5.packet (F5.poll_drive prof l t))) = total /\
  (exists cb vbytes v h,
     bytes_of l = cb :: vbytes ++ body ++ bytes_of (rr_rest V5.packet (F5.poll_drive prof l t)) /\
     vbi_of vbytes v /\ V5.header_new_with cb v = Ok h /\ total = 1 + len vbytes + len body /\
     (V5.build_empty_packet h = Some p /\ body = [] \/
      V5.build_empty_packet h = None /\ h_rl h <> 0 /\ len body = h_rl h /\ V5.block_decode prof h TEof body = ROk p [])).
Proof. exact FrontAgree.C05_v5_consumed_eq_total. Qed.
Print Assumptions C05_v5_consumed_eq_total.

(* it never asks the transport for bytes beyond the end of the current frame: every read asks for
   >= 1 byte and receives at most what it asked; the bytes delivered add up to the bytes consumed; on
   success, before every read, position + capacity asked <= total (frame_ok) *)
Theorem C05_v5_never_reads_past_frame : forall prof l t,
  Forall ev_ok (rr_trace V5.packet (F5.poll_drive prof l t)) /\
  data_total (rr_trace V5.packet (F5.poll_drive prof l t)) + len (bytes_of (rr_rest V5.packet (F5.poll_drive prof l t)))
    = len (bytes_of l) /\
  (forall total body p, rr_res V5.packet (F5.poll_drive prof l t) = Some (Ok (total, body, p)) ->
     data_total (rr_trace V5.packet (F5.poll_drive prof l t)) = total /\
     frame_ok 0 (rr_trace V5.packet (F5.poll_drive prof l t)) total).
Proof. exact FrontAgree.C05_v5_never_reads_past_frame. Qed.
Print Assumptions C05_v5_never_reads_past_frame.

(* cancellation safety: stop after k polls (still not Ready), continue from the caller-held state with
   a fresh run (any profile): same final result, same bytes left *)
Theorem C05_v5_drop_recreate : forall prof prof2 k l t,
  let r1 := prun V5.packet V5.header_new_with V5.build_empty_packet (V5.block_decode prof) prof k pinit l t 0 [] in
  rr_res V5.packet r1 = None ->
  let r2 := prun V5.packet V5.header_new_with V5.build_empty_packet (V5.block_decode prof) prof2
              (S (length (rr_rest V5.packet r1))) (rr_state V5.packet r1) (rr_rest V5.packet r1) t
              (rr_pend V5.packet r1) (rev (rr_trace V5.packet r1)) in
  rr_res V5.packet r2 = rr_res V5.packet (F5.poll_drive prof l t) /\
  bytes_of (rr_rest V5.packet r2) = bytes_of (rr_rest V5.packet (F5.poll_drive prof l t)).
Proof. exact FrontAgree.C05_v5_drop_recreate. Qed.
Print Assumptions C05_v5_drop_recreate.

(* non-vacuity: PINGREQ delivered as Pend, byte, Cut, Pend, Pend, byte, then a byte of the next packet *)
Example ex_C05 :
  let r := F3.poll_drive Debug [APend; AB 192; ACut; APend; APend; AB 0; AB 7] TEof in
  rr_res V3.packet r = Some (Ok (2, [], V3.Pingreq)) /\ rr_rest V3.packet r = [AB 7] /\ rr_pend V3.packet r = 3.
Proof. vm_compute. repeat split. Qed.
