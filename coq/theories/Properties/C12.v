(* Properties/C12.v — Every decoded packet satisfies the invariants its types promise.
   Model: the decoders of V3/V5 (decode_async, and block_decode / build_empty_packet used by the
   poll front-end) and Model/Valid.v types_inv: every text field valid UTF-8 made of bytes, every
   topic name passes name_is_invalid = false, every topic filter passes the validator AND its cached
   separator index equals the one recomputed from the text (filter_ok), every pid in 1..65535, every
   enum value in its table, every v5 variable-byte-integer property < 2^28, every property only where
   its struct has a field, flagged payloads valid UTF-8.  The hypothesis bytes_okb d (every element
   < 256) is what "a byte string" means in the model.
   That the accessors of a decoded filter do not panic and return the unique split is C17 (filter_ok
   is exactly the premise of C17_accessors_split through C17_reparse). *)
From MQ Require Import Proofs.Tactics Model.Valid Model.Stream Proofs.TopicFilterEq Proofs.DecInv Proofs.Totality Proofs.DecAccessors Proofs.DecParts.
Open Scope N_scope.

Theorem C12_v3_async : forall prof t d p d', bytes_okb d = true -> V3.decode_async prof t d = ROk p d' -> I3.types_inv p = true.
Proof. exact (v3_decoded_inv filter_profile_indep). Qed.
Print Assumptions C12_v3_async.
Theorem C12_v5_async : forall prof t d p d', bytes_okb d = true -> V5.decode_async prof t d = ROk p d' -> I5.types_inv p = true.
Proof. exact (v5_decoded_inv filter_profile_indep). Qed.
Print Assumptions C12_v5_async.

(* blocking front-end = async on a slice *)
Theorem C12_v3_block : forall prof d p, bytes_okb d = true -> F3.dec_block prof d = BOk p -> I3.types_inv p = true.
Proof.
  intros prof d p Hd H. unfold F3.dec_block, map_eof in H.
  destruct (V3.decode_async prof TEof d) as [a r|e|s] eqn:E.
  - inversion H; subst. exact (v3_decoded_inv filter_profile_indep prof TEof d p r Hd E).
  - destruct (is_eof e); discriminate.
  - discriminate.
Qed.
Print Assumptions C12_v3_block.
Theorem C12_v5_block : forall prof d p, bytes_okb d = true -> F5.dec_block prof d = BOk p -> I5.types_inv p = true.
Proof.
  intros prof d p Hd H. unfold F5.dec_block, map_eof in H.
  destruct (V5.decode_async prof TEof d) as [a r|e|s] eqn:E.
  - inversion H; subst. exact (v5_decoded_inv filter_profile_indep prof TEof d p r Hd E).
  - destruct (is_eof e); discriminate.
  - discriminate.
Qed.
Print Assumptions C12_v5_block.

(* poll front-end: the two ways it produces a packet *)
Theorem C12_v3_poll_body : forall prof h t d p d', V3.block_decode prof h t d = ROk p d' -> bytes_okb d = true -> I3.types_inv p = true.
Proof. exact (v3_block_decoded_inv filter_profile_indep). Qed.
Print Assumptions C12_v3_poll_body.
Theorem C12_v5_poll_body : forall prof h t d p d', V5.block_decode prof h t d = ROk p d' -> bytes_okb d = true -> I5.types_inv p = true.
Proof. exact (v5_block_decoded_inv filter_profile_indep). Qed.
Print Assumptions C12_v5_poll_body.
Theorem C12_v3_poll_empty : forall h p, V3.build_empty_packet h = Some p -> I3.types_inv p = true.
Proof. exact v3_empty_inv. Qed.
Print Assumptions C12_v3_poll_empty.
Theorem C12_v5_poll_empty : forall h p, V5.build_empty_packet h = Some p -> I5.types_inv p = true.
Proof. exact v5_empty_inv. Qed.
Print Assumptions C12_v5_poll_empty.

(* every text field handed out has been validated (the condition under which the unsafe
   from_utf8_unchecked in read_string is sound) *)
Theorem C12_strings_validated : forall t d s r, read_string t d = ROk s r -> utf8_valid s = true.
Proof. exact read_string_valid. Qed.
Print Assumptions C12_strings_validated.

(* every topic filter inside a decoded packet has working shared-subscription accessors: no slicing panic, and
   they return the unique '$share/' + name + '/' + filter split of the text (acc_ok, Proofs/DecAccessors.v) *)
Theorem C12_v3_decoded_filters_accessors : forall prof t d p d', bytes_okb d = true ->
  V3.decode_async prof t d = ROk p d' -> Forall (fun f => acc_ok f) (filters3 p).
Proof. exact DecAccessors.C12_v3_decoded_filters_accessors. Qed.
Print Assumptions C12_v3_decoded_filters_accessors.
Theorem C12_v3_poll_decoded_filters_accessors : forall prof h t d p d', bytes_okb d = true ->
  V3.block_decode prof h t d = ROk p d' -> Forall (fun f => acc_ok f) (filters3 p).
Proof. exact DecAccessors.C12_v3_block_decoded_filters_accessors. Qed.
Print Assumptions C12_v3_poll_decoded_filters_accessors.

(* every topic filter inside a decoded packet has working shared-subscription accessors: no slicing panic, and
   they return the unique '$share/' + name + '/' + filter split of the text (acc_ok, Proofs/DecAccessors.v) *)
Theorem C12_v5_decoded_filters_accessors : forall prof t d p d', bytes_okb d = true ->
  V5.decode_async prof t d = ROk p d' -> Forall (fun f => acc_ok f) (filters5 p).
Proof. exact DecAccessors.C12_v5_decoded_filters_accessors. Qed.
Print Assumptions C12_v5_decoded_filters_accessors.
Theorem C12_v5_poll_decoded_filters_accessors : forall prof h t d p d', bytes_okb d = true ->
  V5.block_decode prof h t d = ROk p d' -> Forall (fun f => acc_ok f) (filters5 p).
Proof. exact DecAccessors.C12_v5_block_decoded_filters_accessors. Qed.
Print Assumptions C12_v5_poll_decoded_filters_accessors.

Example ex_C12 :
  exists p r, V5.decode_async Debug TEof
     [130; 18; 0; 5; 2; 11; 5; 0; 10; 36;115;104;97;114;101;47;103;47;116; 1] = ROk p r
     /\ I5.types_inv p = true.
Proof. eexists. eexists. split; [vm_compute; reflexivity | vm_compute; reflexivity]. Qed.

(* the per-part decoder of a will is a public entry point of its own (LastWill::decode_async): whoever calls it, for
   whatever QoS and retain flag a CONNECT can carry, the will it returns satisfies the will's invariants (topic a valid
   topic name, text fields valid UTF-8, properties only those a will has, a payload flagged as UTF-8 valid UTF-8) *)
Theorem C12_v5_will_decode_direct : forall qos retain t d w d', qos < 3 -> bytes_okb d = true ->
  V5.will_decode qos retain t d = ROk w d' -> I5.will_inv w = true.
Proof. exact DecParts.v5_will_decode_direct_inv. Qed.
Print Assumptions C12_v5_will_decode_direct.

Example ex_C12_will_direct :
  exists w r, V5.will_decode 1 false TEof [2; 1; 1; 0; 1; 116; 0; 2; 195; 169] = ROk w r /\ I5.will_inv w = true.
Proof. eexists. eexists. split; [vm_compute; reflexivity | vm_compute; reflexivity]. Qed.
Example ex_C12_will_direct_rejects :
  V5.will_decode 1 false TEof [2; 1; 1; 0; 1; 116; 0; 1; 195] = RErr InvalidPayloadFormat.
Proof. vm_compute. reflexivity. Qed.
