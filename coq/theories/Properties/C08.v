(* Properties/C08.v — Back-to-back packets on a stream are framed without loss or overlap.
   Model: Model/Stream.v — the caller's loops: stream_async (one reader, decode_async again and again,
   size = reader position delta), stream_block (Packet::decode(&bytes[off..]); off += encode_len),
   stream_poll (a fresh default state per packet on one reader; size = reported total).
   encsX prof ps bs: bs are the encodings of the valid packets ps.  For every finite sequence, each loop
   returns exactly the sequence with sizes = encoding lengths (so no decoder consumed bytes of the next
   packet), then reports end of input at a clean boundary; the sizes add up to the stream length.
   Arbitrary chunked delivery of the stream for the poll loop is C05 (poll1 = any schedule); for the
   async loop chunking is invisible by the read_exact contract (Base/Reader.v, trusted base). *)
From MQ Require Import Proofs.Tactics Model.Valid Model.Stream Proofs.FrontRT.
Open Scope N_scope.

Theorem C08_v3_async : forall prof ps bs, encs3 prof ps bs -> forall fuel t, (length ps < fuel)%nat ->
  stream_async V3.packet (F3.dec_async prof) fuel t (concat bs) [] = (combine ps (map len bs), FErr (io_err t)).
Proof. intros prof ps bs H fuel t Hf. exact (FrontRT3.C08_v3_async_fuel prof ps bs H fuel t Hf). Qed.
Print Assumptions C08_v3_async.
Theorem C08_v3_block : forall prof ps bs, encs3 prof ps bs -> forall fuel, (length ps < fuel)%nat ->
  stream_block V3.packet (F3.dec_async prof) V3.encode_len fuel (concat bs) [] = (combine ps (map len bs), FNone).
Proof. intros prof ps bs H fuel Hf. exact (FrontRT3.C08_v3_block_fuel prof ps bs H fuel Hf). Qed.
Print Assumptions C08_v3_block.
Theorem C08_v3_poll : forall prof ps bs, encs3 prof ps bs -> forall fuel t, (length ps < fuel)%nat ->
  stream_poll V3.packet (F3.poll1 prof) fuel t (concat bs) [] = (combine ps (map len bs), FErr (io_err t)).
Proof. intros prof ps bs H fuel t Hf. exact (FrontRT3.C08_v3_poll_fuel prof ps bs H fuel t Hf). Qed.
Print Assumptions C08_v3_poll.
Theorem C08_v3_sizes : forall prof ps bs, encs3 prof ps bs ->
  map fst (combine ps (map len bs)) = ps /\ map snd (combine ps (map len bs)) = map len bs /\
  sizes_sum (combine ps (map len bs)) = len (concat bs).
Proof. exact FrontRT3.C08_v3_sizes. Qed.
Print Assumptions C08_v3_sizes.

(* ---------------- v5 ---------------- *)
Theorem C08_v5_async : forall prof ps bs, encs5 prof ps bs -> forall fuel t, (length ps < fuel)%nat ->
  stream_async V5.packet (F5.dec_async prof) fuel t (concat bs) [] = (combine ps (map len bs), FErr (io_err t)).
Proof. intros prof ps bs H fuel t Hf. exact (FrontRT5.C08_v5_async_fuel prof ps bs H fuel t Hf). Qed.
Print Assumptions C08_v5_async.
Theorem C08_v5_block : forall prof ps bs, encs5 prof ps bs -> forall fuel, (length ps < fuel)%nat ->
  stream_block V5.packet (F5.dec_async prof) V5.encode_len fuel (concat bs) [] = (combine ps (map len bs), FNone).
Proof. intros prof ps bs H fuel Hf. exact (FrontRT5.C08_v5_block_fuel prof ps bs H fuel Hf). Qed.
Print Assumptions C08_v5_block.
Theorem C08_v5_poll : forall prof ps bs, encs5 prof ps bs -> forall fuel t, (length ps < fuel)%nat ->
  stream_poll V5.packet (F5.poll1 prof) fuel t (concat bs) [] = (combine ps (map len bs), FErr (io_err t)).
Proof. intros prof ps bs H fuel t Hf. exact (FrontRT5.C08_v5_poll_fuel prof ps bs H fuel t Hf). Qed.
Print Assumptions C08_v5_poll.
Theorem C08_v5_sizes : forall prof ps bs, encs5 prof ps bs ->
  map fst (combine ps (map len bs)) = ps /\ map snd (combine ps (map len bs)) = map len bs /\
  sizes_sum (combine ps (map len bs)) = len (concat bs).
Proof. exact FrontRT5.C08_v5_sizes. Qed.
Print Assumptions C08_v5_sizes.
