(* Properties/C08.v — Back-to-back packets on a stream are framed without loss or overlap.
   Model: Model/Stream.v — the caller's loops: stream_async (one reader, decode_async again and again,
   size = reader position delta), stream_block (Packet::decode(&bytes[off..]); off += encode_len),
   stream_poll (a fresh default state per packet on one reader; size = reported total).
   encsX prof ps bs: bs are the encodings of the valid packets ps.  For every finite sequence, each loop
   returns exactly the sequence with sizes = encoding lengths (so no decoder consumed bytes of the next
   packet), then reports end of input at a clean boundary; the sizes add up to the stream length.
   Arbitrary chunked delivery of the stream for the poll loop is C05 (poll1 = any schedule); for the
   async loop chunking is invisible by the read_exact contract (Base/Reader.v, trusted base). *)
From MQ Require Import Proofs.Tactics Model.Valid Model.Stream Proofs.FrontRT Proofs.StreamSched Proofs.AsyncChunks.
Open Scope N_scope.

Theorem C08_v3_async : forall prof ps bs, encs3 prof ps bs -> forall fuel t, (length ps < fuel)%nat ->
  stream_async V3.packet (F3.dec_async prof) fuel t (concat bs) [] = (combine ps (map len bs), FErr (io_err t)).
Proof. intros prof ps bs H fuel t Hf. exact (FrontRT3.C08_v3_async_fuel prof ps bs H fuel t Hf). Qed.
Print Assumptions C08_v3_async.
Theorem C08_v3_block : forall prof ps bs, encs3 prof ps bs -> forall fuel, (length ps < fuel)%nat ->
  stream_block V3.packet (F3.dec_async prof) V3.encode_len fuel (concat bs) [] = (combine ps (map len bs), FNone).
Proof. intros prof ps bs H fuel Hf. exact (FrontRT3.C08_v3_block_fuel prof ps bs H fuel Hf). Qed.
Print Assumptions C08_v3_block.
Theorem C08_v3_poll : forall prof ps bs, encs3 prof ps bs -> forall fuel t, (length ps < fuel)%nat ->
  stream_poll V3.packet (F3.poll1 prof) fuel t (concat bs) [] = (combine ps (map len bs), FErr (io_err t)).
Proof. intros prof ps bs H fuel t Hf. exact (FrontRT3.C08_v3_poll_fuel prof ps bs H fuel t Hf). Qed.
Print Assumptions C08_v3_poll.
Theorem C08_v3_sizes : forall prof ps bs, encs3 prof ps bs ->
  map fst (combine ps (map len bs)) = ps /\ map snd (combine ps (map len bs)) = map len bs /\
  sizes_sum (combine ps (map len bs)) = len (concat bs).
Proof. exact FrontRT3.C08_v3_sizes. Qed.
Print Assumptions C08_v3_sizes.

(* ---------------- v5 ---------------- *)
Theorem C08_v5_async : forall prof ps bs, encs5 prof ps bs -> forall fuel t, (length ps < fuel)%nat ->
  stream_async V5.packet (F5.dec_async prof) fuel t (concat bs) [] = (combine ps (map len bs), FErr (io_err t)).
Proof. intros prof ps bs H fuel t Hf. exact (FrontRT5.C08_v5_async_fuel prof ps bs H fuel t Hf). Qed.
Print Assumptions C08_v5_async.
Theorem C08_v5_block : forall prof ps bs, encs5 prof ps bs -> forall fuel, (length ps < fuel)%nat ->
  stream_block V5.packet (F5.dec_async prof) V5.encode_len fuel (concat bs) [] = (combine ps (map len bs), FNone).
Proof. intros prof ps bs H fuel Hf. exact (FrontRT5.C08_v5_block_fuel prof ps bs H fuel Hf). Qed.
Print Assumptions C08_v5_block.
Theorem C08_v5_poll : forall prof ps bs, encs5 prof ps bs -> forall fuel t, (length ps < fuel)%nat ->
  stream_poll V5.packet (F5.poll1 prof) fuel t (concat bs) [] = (combine ps (map len bs), FErr (io_err t)).
Proof. intros prof ps bs H fuel t Hf. exact (FrontRT5.C08_v5_poll_fuel prof ps bs H fuel t Hf). Qed.
Print Assumptions C08_v5_poll.
Theorem C08_v5_sizes : forall prof ps bs, encs5 prof ps bs ->
  map fst (combine ps (map len bs)) = ps /\ map snd (combine ps (map len bs)) = map len bs /\
  sizes_sum (combine ps (map len bs)) = len (concat bs).
Proof. exact FrontRT5.C08_v5_sizes. Qed.
Print Assumptions C08_v5_sizes.

(* ---------------- arbitrary chunked delivery ---------------- *)
(* the poll loop on ONE scripted transport (atoms: bytes, read boundaries, Pendings): after a packet the next
   decode continues on the atoms left, which may begin in the middle of what was a single read.  For every
   delivery schedule of the concatenated encodings the loop returns exactly the sequence. *)
Theorem C08_v3_poll_any_schedule : forall prof ps bs, encs3 prof ps bs -> forall fuel t l, (length ps < fuel)%nat ->
  bytes_of l = concat bs ->
  stream_poll_atoms V3.packet (F3.poll_drive prof) fuel t l [] = (combine ps (map len bs), FErr (io_err t)).
Proof. exact StreamSched.C08_v3_poll_any_schedule. Qed.
Print Assumptions C08_v3_poll_any_schedule.

(* ---------------- arbitrary chunked delivery ---------------- *)
(* the poll loop on ONE scripted transport (atoms: bytes, read boundaries, Pendings): after a packet the next
   decode continues on the atoms left, which may begin in the middle of what was a single read.  For every
   delivery schedule of the concatenated encodings the loop returns exactly the sequence. *)
Theorem C08_v5_poll_any_schedule : forall prof ps bs, encs5 prof ps bs -> forall fuel t l, (length ps < fuel)%nat ->
  bytes_of l = concat bs ->
  stream_poll_atoms V5.packet (F5.poll_drive prof) fuel t l [] = (combine ps (map len bs), FErr (io_err t)).
Proof. exact StreamSched.C08_v5_poll_any_schedule. Qed.
Print Assumptions C08_v5_poll_any_schedule.

(* for the async loop, chunking and Pending are invisible because tokio's read_exact — the only way the async
   decoders touch the transport — returns the same bytes under every schedule (library contract, derived here
   from the obvious implementation loop over the scripted transport: Proofs/AsyncChunks.v) *)
Theorem C08_read_exact_any_schedule : forall n l t,
  exists rest, read_exact_atoms (S (length l)) n [] l t =
    Some (match read_exact n t (bytes_of l) with ROk a _ => ROk a [] | RErr e => RErr e | RPanic s => RPanic s end, rest).
Proof. exact read_exact_any_schedule. Qed.
Print Assumptions C08_read_exact_any_schedule.

Example ex_C08 :
  stream_poll_atoms V3.packet (F3.poll_drive Debug) 5 TEof
    [APend; AB 64; ACut; AB 2; AB 0; ACut; APend; AB 7; AB 192; APend; ACut; AB 0] []
  = ([(V3.Puback 7, 4); (V3.Pingreq, 2)], FErr (IoError KUnexpectedEof)).
Proof. vm_compute. reflexivity. Qed.
