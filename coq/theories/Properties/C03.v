(* Properties/C03.v — Decoders are total on arbitrary bytes (partial: the logical half of memory safety).
   Model: every decoder entry point of Model/V3.v, V5.v, Poll.v, Frontends.v.  In the model every
   place where the Rust code can panic is an explicit RPanic/Panic result (the `site` enumeration of
   Base/Reader.v: expect/unwrap, unreachable!, slice/index, the three debug_asserts, overflow-checked
   arithmetic) and every loop is a fuelled recursion returning RPanic SiteFuel when it runs out.
   The theorems say: for EVERY list of numbers d (not even byte-ness is needed), every tail, both
   profiles, each entry point returns a packet, an error, or (blocking) "incomplete" — never a panic,
   never out of fuel; and the poll decoder finishes under every delivery schedule.
   NOT covered by any theorem (stated in DESIGN.md section 12): undefined behaviour as such — that
   rustc/LLVM treat the transmuted MaybeUninit buffer benignly, allocation failure for a 256 MiB
   declared length.  What IS proved are the logical conditions under which the unsafe blocks are
   sound: strings are validated before from_utf8_unchecked (C03_strings_validated) and the body buffer
   is handed to block_decode only when completely filled (idx = remaining length: invariant wf of
   Proofs/PollSched.v, visible here as C05_v*_consumed_eq_total: len body = h_rl h). *)
From MQ Require Import Proofs.Tactics Model.Valid Model.Stream Proofs.TopicFilterEq Proofs.Stable Proofs.Totality
  Proofs.PollSched Proofs.FrontAgree.
Open Scope N_scope.

Theorem C03_v3_async_total : forall prof t d s, F3.dec_async prof t d <> RPanic s.
Proof. intros prof t d s. exact (v3_decode_total filter_profile_indep prof t d s). Qed.
Print Assumptions C03_v3_async_total.
Theorem C03_v3_block_total : forall prof d s, F3.dec_block prof d <> BPanic s.
Proof. exact (v3_block_total filter_profile_indep). Qed.
Print Assumptions C03_v3_block_total.
Theorem C03_v3_header_total : forall d s, F3.header_dec d <> RPanic s.
Proof. exact v3_header_dec_total. Qed.
Print Assumptions C03_v3_header_total.
Theorem C03_v3_header_async_total : forall t d s, V3.header_decode t d <> RPanic s.
Proof. exact v3_header_total. Qed.
Print Assumptions C03_v3_header_async_total.
(* the poll decoder terminates (fuel never runs out) and never panics, for every schedule *)
Theorem C03_v3_poll_total : forall prof l t,
  exists r, rr_res V3.packet (F3.poll_drive prof l t) = Some r /\ (forall s, r <> Panic s).
Proof. exact FrontAgree.C03_v3_poll_total. Qed.
Print Assumptions C03_v3_poll_total.
(* the model artefact "out of fuel" is unreachable in every loop *)
Theorem C03_v3_loops_terminate : forall prof t d, V3.decode_async prof t d <> RPanic SiteFuel.
Proof. exact nofuel_v3_decode_async. Qed.
Print Assumptions C03_v3_loops_terminate.

(* ---------------- v5 ---------------- *)
Theorem C03_v5_async_total : forall prof t d s, F5.dec_async prof t d <> RPanic s.
Proof. intros prof t d s. exact (v5_decode_total filter_profile_indep prof t d s). Qed.
Print Assumptions C03_v5_async_total.
Theorem C03_v5_block_total : forall prof d s, F5.dec_block prof d <> BPanic s.
Proof. exact (v5_block_total filter_profile_indep). Qed.
Print Assumptions C03_v5_block_total.
Theorem C03_v5_header_total : forall d s, F5.header_dec d <> RPanic s.
Proof. exact v5_header_dec_total. Qed.
Print Assumptions C03_v5_header_total.
Theorem C03_v5_header_async_total : forall t d s, V5.header_decode t d <> RPanic s.
Proof. exact v5_header_total. Qed.
Print Assumptions C03_v5_header_async_total.
(* the poll decoder terminates (fuel never runs out) and never panics, for every schedule *)
Theorem C03_v5_poll_total : forall prof l t,
  exists r, rr_res V5.packet (F5.poll_drive prof l t) = Some r /\ (forall s, r <> Panic s).
Proof. exact FrontAgree.C03_v5_poll_total. Qed.
Print Assumptions C03_v5_poll_total.
(* the model artefact "out of fuel" is unreachable in every loop *)
Theorem C03_v5_loops_terminate : forall prof t d, V5.decode_async prof t d <> RPanic SiteFuel.
Proof. exact nofuel_v5_decode_async. Qed.
Print Assumptions C03_v5_loops_terminate.

Theorem C03_strings_validated : forall t d s r, read_string t d = ROk s r -> utf8_valid s = true.
Proof. exact read_string_valid. Qed.
Print Assumptions C03_strings_validated.

(* declared lengths far larger than the input: a 2^28-1 remaining length on a 12-byte input *)
Example ex_C03 :
  F3.dec_block Debug [16; 255; 255; 255; 127; 0; 4; 77; 81; 84; 84; 4] = BNone
  /\ rr_res V5.packet (F5.poll1 Debug [48; 255; 255; 255; 127; 0; 1] TEof) = Some (Err (IoError KUnexpectedEof))
  /\ F5.dec_async Release TEof [255; 255; 255; 255; 255] = RErr InvalidVarByteInt.
Proof. vm_compute. repeat split. Qed.
