(* Properties/C07.v — Incomplete input is reported as incomplete; trailing bytes are ignored.
   For every valid packet, every strict prefix (firstn k, k < length) of its encoding: the blocking
   decoder returns Ok(None) (BNone), the async decoder and the poll decoder UNDER EVERY DELIVERY SCHEDULE
   return IoError(UnexpectedEof), which is_eof recognises — never another error, never a packet.
   The encoding followed by arbitrary bytes decodes to the same packet (C01 with rest / sfx, restated). *)
From MQ Require Import Proofs.Tactics Model.Valid Model.Stream Proofs.FrontRT.
Open Scope N_scope.

Theorem C07_v3_prefix : forall prof p vb, I3.valid p = true -> V3.encode prof p = Ok vb ->
  forall k, (k < length (as_ref vb))%nat ->
    F3.dec_block prof (firstn k (as_ref vb)) = BNone
 /\ F3.dec_async prof TEof (firstn k (as_ref vb)) = RErr (IoError KUnexpectedEof)
 /\ (forall l, bytes_of l = firstn k (as_ref vb) ->
       rr_res V3.packet (F3.poll_drive prof l TEof) = Some (Err (IoError KUnexpectedEof)))
 /\ is_eof (IoError KUnexpectedEof) = true.
Proof. exact FrontRT3.C07_v3_prefix. Qed.
Print Assumptions C07_v3_prefix.
Theorem C07_v3_suffix : forall prof p vb, I3.valid p = true -> V3.encode prof p = Ok vb ->
  forall sfx t,
    F3.dec_block prof (as_ref vb ++ sfx) = BOk p
 /\ F3.dec_async prof t (as_ref vb ++ sfx) = ROk p sfx
 /\ (forall l, bytes_of l = as_ref vb ++ sfx -> exists body,
       rr_res V3.packet (F3.poll_drive prof l t) = Some (Ok (len (as_ref vb), body, p))).
Proof.
  intros prof p vb Hv He sfx t. split; [|split].
  - exact (FrontRT3.C01_v3_block prof p vb Hv He sfx).
  - exact (FrontRT3.C01_v3_async prof p vb Hv He t sfx).
  - intros l Hl. destruct (FrontRT3.C01_v3_poll prof p vb Hv He l t sfx Hl) as (body & Hr & _). exists body. exact Hr.
Qed.
Print Assumptions C07_v3_suffix.

(* ---------------- v5 ---------------- *)
Theorem C07_v5_prefix : forall prof p vb, I5.valid p = true -> V5.encode prof p = Ok vb ->
  forall k, (k < length (as_ref vb))%nat ->
    F5.dec_block prof (firstn k (as_ref vb)) = BNone
 /\ F5.dec_async prof TEof (firstn k (as_ref vb)) = RErr (IoError KUnexpectedEof)
 /\ (forall l, bytes_of l = firstn k (as_ref vb) ->
       rr_res V5.packet (F5.poll_drive prof l TEof) = Some (Err (IoError KUnexpectedEof)))
 /\ is_eof (IoError KUnexpectedEof) = true.
Proof. exact FrontRT5.C07_v5_prefix. Qed.
Print Assumptions C07_v5_prefix.
Theorem C07_v5_suffix : forall prof p vb, I5.valid p = true -> V5.encode prof p = Ok vb ->
  forall sfx t,
    F5.dec_block prof (as_ref vb ++ sfx) = BOk p
 /\ F5.dec_async prof t (as_ref vb ++ sfx) = ROk p sfx
 /\ (forall l, bytes_of l = as_ref vb ++ sfx -> exists body,
       rr_res V5.packet (F5.poll_drive prof l t) = Some (Ok (len (as_ref vb), body, p))).
Proof.
  intros prof p vb Hv He sfx t. split; [|split].
  - exact (FrontRT5.C01_v5_block prof p vb Hv He sfx).
  - exact (FrontRT5.C01_v5_async prof p vb Hv He t sfx).
  - intros l Hl. destruct (FrontRT5.C01_v5_poll prof p vb Hv He l t sfx Hl) as (body & Hr & _). exists body. exact Hr.
Qed.
Print Assumptions C07_v5_suffix.
