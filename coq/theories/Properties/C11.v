(* Properties/C11.v — Anything a decoder accepts can be re-encoded and decodes to itself.
   Model: the three front-ends of F3/F5, V3.encode / V5.encode.  `consumed d d'` = bytes the decoder
   took from d (d' is what is left).
   KNOWN FINDING KF2 (known-findings.json): the async and blocking front-ends do not compare what they
   consume with the declared remaining length for the packet types that do not track it (CONNECT,
   CONNACK, v3 pid-only packets, v5 ack family / DISCONNECT / AUTH properties; and v5 PUBLISH /
   SUBSCRIBE / SUBACK / UNSUBACK whose property length or subscription identifier is spelled
   non-minimally).  They can accept a frame whose body overruns its declared length; then the canonical
   re-encoding can be longer than the bytes consumed (C11_KF2_witness_a: 164 -> 165 bytes).  The class
   is exactly "frame overrun": consumed > header bytes + declared remaining length; the encodability
   and "no longer" clauses are proved for every accepted input OUTSIDE the class (hypothesis
   `consumed d d' <= k + rl`), in particular for every input of the poll front-end; "in the valid
   domain" and "decodes to itself again" hold inside the class as well. *)
From MQ Require Import Proofs.Tactics Model.Valid Model.Stream Proofs.ReencodeBase Proofs.Reencode3 Proofs.Reencode5.
Open Scope N_scope.

(* 1. whatever any front-end returns is in the encoder's valid domain *)
Theorem C11_v3_decoded_in_domain : forall prof t d p d', bytes_okb d = true ->
  F3.dec_async prof t d = ROk p d' -> I3.valid p = true.
Proof. exact Reencode3.C11_v3_decoded_in_domain. Qed.
Print Assumptions C11_v3_decoded_in_domain.
Theorem C11_v3_decoded_in_domain_block : forall prof d p, bytes_okb d = true ->
  F3.dec_block prof d = BOk p -> I3.valid p = true.
Proof. exact Reencode3.C11_v3_decoded_in_domain_block. Qed.
Print Assumptions C11_v3_decoded_in_domain_block.
Theorem C11_v3_decoded_in_domain_poll : forall prof l t n body p,
  rr_res V3.packet (F3.poll_drive prof l t) = Some (Ok (n, body, p)) -> bytes_okb (bytes_of l) = true -> I3.valid p = true.
Proof. exact Reencode3.C11_v3_decoded_in_domain_poll. Qed.
Print Assumptions C11_v3_decoded_in_domain_poll.

(* 2. a re-encoding decodes to the same packet (async, blocking; poll: C01_v3_poll) — no class hypothesis *)
Theorem C11_v3_redecode : forall prof p vb, I3.valid p = true -> V3.encode prof p = Ok vb ->
  (forall t rest, F3.dec_async prof t (as_ref vb ++ rest) = ROk p rest) /\
  (forall rest, F3.dec_block prof (as_ref vb ++ rest) = BOk p).
Proof. exact Reencode3.C11_v3_redecode. Qed.
Print Assumptions C11_v3_redecode.

(* 3. outside the KF2 class the packet IS encodable and the encoding is no longer than what was consumed *)
Theorem C11_v3_not_longer : forall prof t d p d' cb rl k rest0,
  bytes_okb d = true -> F3.dec_async prof t d = ROk p d' ->
  decode_raw_header t d = ROk (cb, rl) rest0 -> k = len d - len rest0 ->
  consumed d d' <= k + rl ->
  exists vb, V3.encode prof p = Ok vb /\ len (as_ref vb) <= consumed d d'.
Proof. exact Reencode3.C11_v3_not_longer. Qed.
Print Assumptions C11_v3_not_longer.
(* with no class hypothesis an encodable result is at most 3 bytes longer (the header-width slack) *)
Theorem C11_v3_length_any_bound : forall prof t d p d' vb, bytes_okb d = true ->
  F3.dec_async prof t d = ROk p d' -> V3.encode prof p = Ok vb -> len (as_ref vb) <= consumed d d' + 3.
Proof. intros prof t d p d' vb Hd H He. eapply C11_v3_length_any; eauto. Qed.
Print Assumptions C11_v3_length_any_bound.

(* 4. the poll front-end is never in the class *)
Theorem C11_v3_poll_reencode : forall prof l t n body p, bytes_okb (bytes_of l) = true ->
  rr_res V3.packet (F3.poll_drive prof l t) = Some (Ok (n, body, p)) ->
  exists vb, V3.encode prof p = Ok vb /\ len (as_ref vb) <= n.
Proof. exact Reencode3.C11_v3_poll_reencode. Qed.
Print Assumptions C11_v3_poll_reencode.

(* ---------------- v5 ---------------- *)
(* 1. whatever any front-end returns is in the encoder's valid domain *)
Theorem C11_v5_decoded_in_domain : forall prof t d p d', bytes_okb d = true ->
  F5.dec_async prof t d = ROk p d' -> I5.valid p = true.
Proof. exact Reencode5.C11_v5_decoded_in_domain. Qed.
Print Assumptions C11_v5_decoded_in_domain.
Theorem C11_v5_decoded_in_domain_block : forall prof d p, bytes_okb d = true ->
  F5.dec_block prof d = BOk p -> I5.valid p = true.
Proof. exact Reencode5.C11_v5_decoded_in_domain_block. Qed.
Print Assumptions C11_v5_decoded_in_domain_block.
Theorem C11_v5_decoded_in_domain_poll : forall prof l t n body p,
  rr_res V5.packet (F5.poll_drive prof l t) = Some (Ok (n, body, p)) -> bytes_okb (bytes_of l) = true -> I5.valid p = true.
Proof. exact Reencode5.C11_v5_decoded_in_domain_poll. Qed.
Print Assumptions C11_v5_decoded_in_domain_poll.

(* 2. a re-encoding decodes to the same packet (async, blocking; poll: C01_v5_poll) — no class hypothesis *)
Theorem C11_v5_redecode : forall prof p vb, I5.valid p = true -> V5.encode prof p = Ok vb ->
  (forall t rest, F5.dec_async prof t (as_ref vb ++ rest) = ROk p rest) /\
  (forall rest, F5.dec_block prof (as_ref vb ++ rest) = BOk p).
Proof. exact Reencode5.C11_v5_redecode. Qed.
Print Assumptions C11_v5_redecode.

(* 3. outside the KF2 class the packet IS encodable and the encoding is no longer than what was consumed *)
Theorem C11_v5_not_longer : forall prof t d p d' cb rl k rest0,
  bytes_okb d = true -> F5.dec_async prof t d = ROk p d' ->
  decode_raw_header t d = ROk (cb, rl) rest0 -> k = len d - len rest0 ->
  consumed d d' <= k + rl ->
  exists vb, V5.encode prof p = Ok vb /\ len (as_ref vb) <= consumed d d'.
Proof. exact Reencode5.C11_v5_not_longer. Qed.
Print Assumptions C11_v5_not_longer.
(* with no class hypothesis an encodable result is at most 3 bytes longer (the header-width slack) *)
Theorem C11_v5_length_any_bound : forall prof t d p d' vb, bytes_okb d = true ->
  F5.dec_async prof t d = ROk p d' -> V5.encode prof p = Ok vb -> len (as_ref vb) <= consumed d d' + 3.
Proof. intros prof t d p d' vb Hd H He. eapply C11_v5_length_any; eauto. Qed.
Print Assumptions C11_v5_length_any_bound.

(* 4. the poll front-end is never in the class *)
Theorem C11_v5_poll_reencode : forall prof l t n body p, bytes_okb (bytes_of l) = true ->
  rr_res V5.packet (F5.poll_drive prof l t) = Some (Ok (n, body, p)) ->
  exists vb, V5.encode prof p = Ok vb /\ len (as_ref vb) <= n.
Proof. exact Reencode5.C11_v5_poll_reencode. Qed.
Print Assumptions C11_v5_poll_reencode.

(* 5. KF2 witnesses (members of the excluded class on which the length clause fails) *)
Theorem C11_KF2_witness_a : let d := [16; 0; 0; 4; 77; 81; 84; 84; 4; 2; 0; 10; 0; 150] ++ repeat 99 150 in
  exists p d', F3.dec_async Release TEof d = ROk p d' /\ consumed d d' = 164 /\
               exists vb, V3.encode Release p = Ok vb /\ len (as_ref vb) = 165.
Proof. exact Reencode3.C11_KF2_witness_a. Qed.
Print Assumptions C11_KF2_witness_a.
