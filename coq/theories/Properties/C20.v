(* Properties/C20.v — Malformed input is classified with the specific documented error.
   GENERATED from the statements of Proofs/FaultsBase.v, Faults3.v, Faults5.v, Faults.v (every theorem
   there that carries a Print Assumptions), restated in full and closed by `exact`.
   Model: the decoders of V3/V5 and the three front-ends.  Catalogue (DESIGN.md section 9, C20):
   LAYER 1 — one lemma per catalogue row at component level: the exact error variant with its payload
   for every input of the row's shape (header tables as total characterisations of Header::new_with
   for all control bytes, pid 0, QoS / return / reason codes, CONNACK flags, CONNECT flags and the
   point at which each check fires, subscription options, non-UTF-8 strings, topic names, response
   topics, filters, unknown / duplicated / disallowed property, property length, bad boolean
   property, over-long variable byte integers, protocol name / level / other family, empty
   subscription, payload format, remaining length too small, and the poll decoder's leftover / EOF
   mapping to InvalidRemainingLength).
   LAYER 2 — whole frames: `C20_<row>_<fam>` through F.dec_async for any declared remaining length that
   lets the decoder reach the fault, arbitrary trailing bytes and tail; `C20_<row>_<fam>_all` =
   classified3 / classified5: the async, blocking and poll front-ends all return that same error on
   the frame followed by anything.  The documented exception (an inner length running past the end of
   the frame is InvalidRemainingLength for the strict poll decoder and incomplete for the blocking one)
   is C20_truncated_*, C20_poll_extra_byte_*, async_err_to_poll_*.
   Order-of-checks facts that decide which of two simultaneous faults is reported are Examples order_*
   in Proofs/Faults.v (PUBLISH topic validated last; "not allowed here" before "duplicated"). *)
From MQ Require Import Proofs.Tactics Model.Valid Model.Stream Spec.SpecParse Proofs.FaultsBase Proofs.Faults3 Proofs.Faults5 Proofs.Faults.
Open Scope N_scope.


Theorem C20_header3_spec :
  forall cb rl : N, V3.header_new_with cb rl = header3_table (cb / 16) (cb mod 16) rl.
Proof. exact FaultsBase.header3_spec. Qed.
Print Assumptions C20_header3_spec.

Theorem C20_header5_spec :
  forall cb rl : N, V5.header_new_with cb rl = header5_table (cb / 16) (cb mod 16) rl.
Proof. exact FaultsBase.header5_spec. Qed.
Print Assumptions C20_header5_spec.

Theorem C20_header_sweep_3 :
  forall cb rl : N,
       cb < 256 ->
       match expected_header LEGAL_ANY_3 LEGAL_EMPTY_3 cb (rl =? 0) with
       | Some e => V3.header_new_with cb rl = Err e
       | None => exists h : header, V3.header_new_with cb rl = Ok h
       end.
Proof. exact FaultsBase.C20_header_sweep_3. Qed.
Print Assumptions C20_header_sweep_3.

Theorem C20_header_sweep_5 :
  forall cb rl : N,
       cb < 256 ->
       match expected_header LEGAL_ANY_5 LEGAL_EMPTY_5 cb (rl =? 0) with
       | Some e => V5.header_new_with cb rl = Err e
       | None => exists h : header, V5.header_new_with cb rl = Ok h
       end.
Proof. exact FaultsBase.C20_header_sweep_5. Qed.
Print Assumptions C20_header_sweep_5.

Theorem C20_props_duplicated :
  forall (ctx : prop_ctx) (allowed : list prop_id) (plen : N) (t : tail) (r : bytes),
       0 < plen ->
       plen < VarIntLaws.VMAX ->
       forall (id : prop_id) (v : pvalue),
       prop_mem id allowed = true ->
       value_inv (prop_wtype id) v = true ->
       value_valid (prop_wtype id) v = true ->
       1 + value_len (prop_wtype id) v < plen ->
       decode_props_full ctx allowed t
         (write_var_int plen ++ prop_num id :: concat (encode_value (prop_wtype id) v) ++ prop_num id :: r) =
       RErr (DuplicatedProperty (prop_num id)).
Proof. exact FaultsBase.C20_props_duplicated. Qed.
Print Assumptions C20_props_duplicated.

Theorem C20_props_length_minus_one :
  forall (ctx : prop_ctx) (allowed : list prop_id) (id : prop_id) (v : pvalue) (t : tail) (r : list N),
       prop_mem id allowed = true ->
       value_inv (prop_wtype id) v = true ->
       value_valid (prop_wtype id) v = true ->
       decode_props_full ctx allowed t
         (write_var_int (value_len (prop_wtype id) v) ++
          prop_num id :: concat (encode_value (prop_wtype id) v) ++ r) =
       RErr (InvalidPropertyLength (value_len (prop_wtype id) v)).
Proof. exact FaultsBase.C20_props_length_minus_one. Qed.
Print Assumptions C20_props_length_minus_one.

Theorem C20_filter_read :
  forall (prof : profile) (s : bytes) (t : tail) (r : list N),
       len s <= 65535 ->
       utf8_valid s = true ->
       Spec.topic_filter_ok s = false ->
       V3.filter_read prof t (be16 (len s mod 65536) ++ s ++ r) = RErr (InvalidTopicFilter s).
Proof. exact FaultsBase.C20_filter_read. Qed.
Print Assumptions C20_filter_read.

Theorem C20_name_try_bytes :
  forall s : bytes,
       utf8_valid s = true ->
       len s <= 65535 -> In 43 s \/ In 35 s \/ In 0 s -> name_try s = Err (InvalidTopicName s).
Proof. exact FaultsBase.C20_name_try_bytes. Qed.
Print Assumptions C20_name_try_bytes.

Theorem C20_frame_err_to_poll :
  forall (P : Type) (new_with : N -> N -> outcome header) (build_empty : header -> option P)
         (block_decode body_async : header -> reader P) (prof : profile),
       PollSched.new_with_rl new_with ->
       (forall h : header,
        build_empty h = None -> forall (t : tail) (d : bytes), body_async h t d = block_decode h t d) ->
       (forall (h : header) (p : P),
        build_empty h = Some p -> forall (t : tail) (d : bytes), body_async h t d = ROk p d) ->
       (forall (h : header) (e : err),
        build_empty h = None -> block_decode h TEof [] = RErr e -> is_io e = true) ->
       forall (cb : N) (body : bytes) (sfx : list N) (t : tail) (e : err),
       len body < VarIntLaws.VMAX ->
       frame_async P new_with body_async cb (len body) TEof body = RErr e ->
       is_io e = false ->
       rr_res P
         (poll1 P new_with build_empty block_decode prof (cb :: write_var_int (len body) ++ body ++ sfx) t) =
       Some (Err e).
Proof. exact FaultsBase.frame_err_to_poll. Qed.
Print Assumptions C20_frame_err_to_poll.

Theorem C20_async_err_to_poll_weak :
  forall (P : Type) (new_with : N -> N -> outcome header) (build_empty : header -> option P)
         (block_decode body_async : header -> reader P) (prof : profile),
       PollSched.new_with_rl new_with ->
       (forall h : header, Stable.stable (block_decode h)) ->
       (forall h : header,
        build_empty h = None -> forall (t : tail) (d : bytes), body_async h t d = block_decode h t d) ->
       (forall (h : header) (p : P),
        build_empty h = Some p -> forall (t : tail) (d : bytes), body_async h t d = ROk p d) ->
       forall (cb : N) (body : bytes) (sfx : list N) (t t' : tail) (e : err),
       len body < VarIntLaws.VMAX ->
       frame_async P new_with body_async cb (len body) t (body ++ sfx) = RErr e ->
       is_io e = false ->
       rr_res P
         (poll1 P new_with build_empty block_decode prof (cb :: write_var_int (len body) ++ body ++ sfx) t') =
       Some (Err e) \/
       rr_res P
         (poll1 P new_with build_empty block_decode prof (cb :: write_var_int (len body) ++ body ++ sfx) t') =
       Some (Err InvalidRemainingLength).
Proof. exact FaultsBase.async_err_to_poll_weak. Qed.
Print Assumptions C20_async_err_to_poll_weak.

Theorem C20_header_err_to_poll :
  forall (P : Type) (new_with : N -> N -> outcome header) (build_empty : header -> option P)
         (block_decode : header -> reader P) (prof : profile) (cb n : N) (d : list N) 
         (t : tail) (e : err),
       n < VarIntLaws.VMAX ->
       new_with cb n = Err e ->
       rr_res P (poll1 P new_with build_empty block_decode prof (cb :: write_var_int n ++ d) t) =
       Some (Err e).
Proof. exact FaultsBase.header_err_to_poll. Qed.
Print Assumptions C20_header_err_to_poll.

Theorem C20_async_err_to_block_3 :
  forall (prof : profile) (d : bytes) (e : err),
       F3.dec_async prof TEof d = RErr e -> is_eof e = false -> F3.dec_block prof d = BErr e.
Proof. exact Faults3.async_err_to_block_3. Qed.
Print Assumptions C20_async_err_to_block_3.

Theorem C20_async_err_to_poll_3 :
  forall (prof : profile) (cb : N) (body : bytes) (sfx : list N) (t t' : tail) (e : err),
       len body < VarIntLaws.VMAX ->
       F3.dec_async prof t (cb :: write_var_int (len body) ++ body ++ sfx) = RErr e ->
       is_io e = false ->
       rr_res V3.packet (poll3 prof (cb :: write_var_int (len body) ++ body ++ sfx) t') = Some (Err e) \/
       rr_res V3.packet (poll3 prof (cb :: write_var_int (len body) ++ body ++ sfx) t') =
       Some (Err InvalidRemainingLength).
Proof. exact Faults3.async_err_to_poll_3. Qed.
Print Assumptions C20_async_err_to_poll_3.

Theorem C20_async_err_to_poll_exact_3 :
  forall (prof : profile) (cb : N) (body : bytes) (sfx : list N) (t : tail) (e : err),
       len body < VarIntLaws.VMAX ->
       F3.dec_async prof TEof (cb :: write_var_int (len body) ++ body) = RErr e ->
       is_io e = false ->
       rr_res V3.packet (poll3 prof (cb :: write_var_int (len body) ++ body ++ sfx) t) = Some (Err e).
Proof. exact Faults3.async_err_to_poll_exact_3. Qed.
Print Assumptions C20_async_err_to_poll_exact_3.

Theorem C20_header_verdict_3 :
  forall (prof : profile) (cb n : N) (e : err),
       n < VarIntLaws.VMAX ->
       header3_verdict (cb / 16) (cb mod 16) (n =? 0) = HReject e ->
       (forall (t : tail) (rest : list N), F3.dec_async prof t (cb :: write_var_int n ++ rest) = RErr e) /\
       (forall rest : list N, F3.dec_block prof (cb :: write_var_int n ++ rest) = BErr e) /\
       (forall (t : tail) (rest : list N),
        rr_res V3.packet (poll3 prof (cb :: write_var_int n ++ rest) t) = Some (Err e)).
Proof. exact Faults3.C20_header_verdict_3. Qed.
Print Assumptions C20_header_verdict_3.

Theorem C20_header_varint_3 :
  forall (prof : profile) (cb b0 b1 b2 b3 : N),
       128 <= b0 ->
       128 <= b1 ->
       128 <= b2 ->
       128 <= b3 ->
       (forall (t : tail) (rest : list N),
        F3.dec_async prof t (cb :: b0 :: b1 :: b2 :: b3 :: rest) = RErr InvalidVarByteInt) /\
       (forall rest : list N, F3.dec_block prof (cb :: b0 :: b1 :: b2 :: b3 :: rest) = BErr InvalidVarByteInt) /\
       (forall (t : tail) (rest : list N),
        rr_res V3.packet (poll3 prof (cb :: b0 :: b1 :: b2 :: b3 :: rest) t) = Some (Err InvalidVarByteInt)).
Proof. exact Faults3.C20_header_varint_3. Qed.
Print Assumptions C20_header_varint_3.

Theorem C20_pid_zero_3_all :
  forall (prof : profile) (cb : N) (x : list N),
       In cb Faults3.PID_FIRST_CBS ->
       len (0 :: 0 :: x) < VarIntLaws.VMAX ->
       classified3 prof (cb :: write_var_int (len (0 :: 0 :: x)) ++ 0 :: 0 :: x) ZeroPid.
Proof. exact Faults3.C20_pid_zero_3_all. Qed.
Print Assumptions C20_pid_zero_3_all.

Theorem C20_pid_zero_publish_3_all :
  forall (prof : profile) (cb : N) (topic : bytes) (x : list N),
       cb / 16 = 3 ->
       (cb mod 16 / 2) mod 4 = 1 \/ (cb mod 16 / 2) mod 4 = 2 ->
       utf8_valid topic = true ->
       len topic <= 65535 ->
       let body := be16 (len topic mod 65536) ++ topic ++ 0 :: 0 :: x in
       len body < VarIntLaws.VMAX -> classified3 prof (cb :: write_var_int (len body) ++ body) ZeroPid.
Proof. exact Faults3.C20_pid_zero_publish_3_all. Qed.
Print Assumptions C20_pid_zero_publish_3_all.

Theorem C20_connack_flags_3_all :
  forall (prof : profile) (f c : N),
       2 <= f -> classified3 prof (32 :: write_var_int 2 ++ [f; c]) (InvalidConnackFlags f).
Proof. exact Faults3.C20_connack_flags_3_all. Qed.
Print Assumptions C20_connack_flags_3_all.

Theorem C20_connack_code_3_all :
  forall (prof : profile) (f c : N),
       f < 2 -> 6 <= c -> classified3 prof (32 :: write_var_int 2 ++ [f; c]) (InvalidConnectReturnCode c).
Proof. exact Faults3.C20_connack_code_3_all. Qed.
Print Assumptions C20_connack_code_3_all.

Theorem C20_suback_code_3_all :
  forall (prof : profile) (pid : N) (codes : list N) (v : N) (x : list N),
       pid_ok pid = true ->
       forallb suback_code_ok codes = true ->
       suback_code_ok v = false ->
       let body := be16 pid ++ codes ++ v :: x in
       len body < VarIntLaws.VMAX ->
       classified3 prof (144 :: write_var_int (len body) ++ body) (InvalidQos v).
Proof. exact Faults3.C20_suback_code_3_all. Qed.
Print Assumptions C20_suback_code_3_all.

Theorem C20_connect_reserved_flag_3_all :
  forall (prof : profile) (pr : protocol) (flags : N) (x : list N),
       pr <> V500 ->
       bit flags 0 = true ->
       let body := concat (protocol_enc pr) ++ flags :: x in
       len body < VarIntLaws.VMAX ->
       classified3 prof (16 :: write_var_int (len body) ++ body) (InvalidConnectFlags flags).
Proof. exact Faults3.C20_connect_reserved_flag_3_all. Qed.
Print Assumptions C20_connect_reserved_flag_3_all.

Theorem C20_connect_will_qos_without_will_3_all :
  forall (prof : profile) (pr : protocol) (flags ka : N) (cid : bytes) (x : list N),
       pr <> V500 ->
       bit flags 0 = false ->
       ka < 65536 ->
       len cid <= 65535 ->
       utf8_valid cid = true ->
       bit flags 2 = false ->
       (flags / 8) mod 4 <> 0 ->
       let body := concat (protocol_enc pr) ++ flags :: be16 ka ++ be16 (len cid mod 65536) ++ cid ++ x in
       len body < VarIntLaws.VMAX ->
       classified3 prof (16 :: write_var_int (len body) ++ body) (InvalidConnectFlags flags).
Proof. exact Faults3.C20_connect_will_qos_without_will_3_all. Qed.
Print Assumptions C20_connect_will_qos_without_will_3_all.

Theorem C20_connect_will_qos3_3_all :
  forall (prof : profile) (pr : protocol) (flags ka : N) (cid topic msg : bytes) (x : list N),
       pr <> V500 ->
       bit flags 0 = false ->
       ka < 65536 ->
       len cid <= 65535 ->
       utf8_valid cid = true ->
       bit flags 2 = true ->
       (flags / 8) mod 4 = 3 ->
       len topic <= 65535 ->
       utf8_valid topic = true ->
       len msg <= 65535 ->
       let body :=
         concat (protocol_enc pr) ++
         flags
         :: be16 ka ++
            be16 (len cid mod 65536) ++
            cid ++ be16 (len topic mod 65536) ++ topic ++ be16 (len msg mod 65536) ++ msg ++ x in
       len body < VarIntLaws.VMAX -> classified3 prof (16 :: write_var_int (len body) ++ body) (InvalidQos 3).
Proof. exact Faults3.C20_connect_will_qos3_3_all. Qed.
Print Assumptions C20_connect_will_qos3_3_all.

Theorem C20_connect_will_topic_3_all :
  forall (prof : profile) (pr : protocol) (flags ka : N) (cid topic msg : bytes) (x : list N),
       pr <> V500 ->
       bit flags 0 = false ->
       ka < 65536 ->
       len cid <= 65535 ->
       utf8_valid cid = true ->
       bit flags 2 = true ->
       (flags / 8) mod 4 < 3 ->
       len topic <= 65535 ->
       utf8_valid topic = true ->
       len msg <= 65535 ->
       name_is_invalid topic = true ->
       let body :=
         concat (protocol_enc pr) ++
         flags
         :: be16 ka ++
            be16 (len cid mod 65536) ++
            cid ++ be16 (len topic mod 65536) ++ topic ++ be16 (len msg mod 65536) ++ msg ++ x in
       len body < VarIntLaws.VMAX ->
       classified3 prof (16 :: write_var_int (len body) ++ body) (InvalidTopicName topic).
Proof. exact Faults3.C20_connect_will_topic_3_all. Qed.
Print Assumptions C20_connect_will_topic_3_all.

Theorem C20_connect_protocol_3_all :
  forall (prof : profile) (name : bytes) (lvl : N) (x : list N),
       len name <= 65535 ->
       ~ protocol_known name lvl ->
       utf8_valid name = true ->
       let body := be16 (len name) ++ name ++ lvl :: x in
       len body < VarIntLaws.VMAX ->
       classified3 prof (16 :: write_var_int (len body) ++ body) (InvalidProtocol name lvl).
Proof. exact Faults3.C20_connect_protocol_3_all. Qed.
Print Assumptions C20_connect_protocol_3_all.

Theorem C20_connect_protocol_not_utf8_3_frame :
  forall (prof : profile) (n : N) (name : bytes) (lvl : N),
       n < VarIntLaws.VMAX ->
       len name <= 65535 ->
       ~ protocol_known name lvl ->
       utf8_valid name = false ->
       forall (t : tail) (rest : list N),
       F3.dec_async prof t (16 :: write_var_int n ++ be16 (len name) ++ name ++ lvl :: rest) =
       RErr InvalidString.
Proof. exact Faults3.C20_connect_protocol_not_utf8_3_frame. Qed.
Print Assumptions C20_connect_protocol_not_utf8_3_frame.

Theorem C20_connect_other_family_3_all :
  forall (prof : profile) (x : list N),
       let body := concat (protocol_enc V500) ++ x in
       len body < VarIntLaws.VMAX ->
       classified3 prof (16 :: write_var_int (len body) ++ body) (UnexpectedProtocol V500).
Proof. exact Faults3.C20_connect_other_family_3_all. Qed.
Print Assumptions C20_connect_other_family_3_all.

Theorem C20_connect_client_id_not_utf8_3_all :
  forall (prof : profile) (pr : protocol) (flags ka : N) (cid : bytes) (x : list N),
       pr <> V500 ->
       bit flags 0 = false ->
       ka < 65536 ->
       len cid <= 65535 ->
       utf8_valid cid = false ->
       let body := concat (protocol_enc pr) ++ flags :: be16 ka ++ be16 (len cid mod 65536) ++ cid ++ x in
       len body < VarIntLaws.VMAX -> classified3 prof (16 :: write_var_int (len body) ++ body) InvalidString.
Proof. exact Faults3.C20_connect_client_id_not_utf8_3_all. Qed.
Print Assumptions C20_connect_client_id_not_utf8_3_all.

Theorem C20_subscribe_qos_3_all :
  forall (prof : profile) (pid : N) (topics : list (tfilter * N)) (tf : tfilter) (q : N) (x : list N),
       pid_ok pid = true ->
       forallb topic_ok3 topics = true ->
       filter_ok tf = true ->
       3 <= q ->
       let body :=
         be16 pid ++
         concat (flat_map V3RT.sub_item topics) ++ be16 (len (ftext tf) mod 65536) ++ ftext tf ++ q :: x in
       len body < VarIntLaws.VMAX ->
       classified3 prof (130 :: write_var_int (len body) ++ body) (InvalidQos q).
Proof. exact Faults3.C20_subscribe_qos_3_all. Qed.
Print Assumptions C20_subscribe_qos_3_all.

Theorem C20_subscribe_filter_3_all :
  forall (prof : profile) (pid : N) (topics : list (tfilter * N)) (s : bytes) (x : list N),
       pid_ok pid = true ->
       forallb topic_ok3 topics = true ->
       len s <= 65535 ->
       utf8_valid s = true ->
       Spec.topic_filter_ok s = false ->
       let body := be16 pid ++ concat (flat_map V3RT.sub_item topics) ++ be16 (len s mod 65536) ++ s ++ x in
       len body < VarIntLaws.VMAX ->
       classified3 prof (130 :: write_var_int (len body) ++ body) (InvalidTopicFilter s).
Proof. exact Faults3.C20_subscribe_filter_3_all. Qed.
Print Assumptions C20_subscribe_filter_3_all.

Theorem C20_subscribe_filter_not_utf8_3_all :
  forall (prof : profile) (pid : N) (topics : list (tfilter * N)) (s : bytes) (x : list N),
       pid_ok pid = true ->
       forallb topic_ok3 topics = true ->
       len s <= 65535 ->
       utf8_valid s = false ->
       let body := be16 pid ++ concat (flat_map V3RT.sub_item topics) ++ be16 (len s mod 65536) ++ s ++ x in
       len body < VarIntLaws.VMAX -> classified3 prof (130 :: write_var_int (len body) ++ body) InvalidString.
Proof. exact Faults3.C20_subscribe_filter_not_utf8_3_all. Qed.
Print Assumptions C20_subscribe_filter_not_utf8_3_all.

Theorem C20_subscribe_empty_3_all :
  forall (prof : profile) (pid : N),
       pid_ok pid = true -> classified3 prof (130 :: write_var_int 2 ++ be16 pid) EmptySubscription.
Proof. exact Faults3.C20_subscribe_empty_3_all. Qed.
Print Assumptions C20_subscribe_empty_3_all.

Theorem C20_unsubscribe_filter_3_all :
  forall (prof : profile) (pid : N) (topics : list tfilter) (s : bytes) (x : list N),
       pid_ok pid = true ->
       forallb filter_ok topics = true ->
       len s <= 65535 ->
       utf8_valid s = true ->
       Spec.topic_filter_ok s = false ->
       let body := be16 pid ++ concat (flat_map V3RT.unsub_item topics) ++ be16 (len s mod 65536) ++ s ++ x
         in
       len body < VarIntLaws.VMAX ->
       classified3 prof (162 :: write_var_int (len body) ++ body) (InvalidTopicFilter s).
Proof. exact Faults3.C20_unsubscribe_filter_3_all. Qed.
Print Assumptions C20_unsubscribe_filter_3_all.

Theorem C20_unsubscribe_filter_not_utf8_3_all :
  forall (prof : profile) (pid : N) (topics : list tfilter) (s : bytes) (x : list N),
       pid_ok pid = true ->
       forallb filter_ok topics = true ->
       len s <= 65535 ->
       utf8_valid s = false ->
       let body := be16 pid ++ concat (flat_map V3RT.unsub_item topics) ++ be16 (len s mod 65536) ++ s ++ x
         in
       len body < VarIntLaws.VMAX -> classified3 prof (162 :: write_var_int (len body) ++ body) InvalidString.
Proof. exact Faults3.C20_unsubscribe_filter_not_utf8_3_all. Qed.
Print Assumptions C20_unsubscribe_filter_not_utf8_3_all.

Theorem C20_unsubscribe_empty_3_all :
  forall (prof : profile) (pid : N),
       pid_ok pid = true -> classified3 prof (162 :: write_var_int 2 ++ be16 pid) EmptySubscription.
Proof. exact Faults3.C20_unsubscribe_empty_3_all. Qed.
Print Assumptions C20_unsubscribe_empty_3_all.

Theorem C20_publish_topic_not_utf8_3_all :
  forall (prof : profile) (cb : N) (s : bytes) (x : list N),
       cb / 16 = 3 ->
       (cb mod 16 / 2) mod 4 <> 3 ->
       len s <= 65535 ->
       utf8_valid s = false ->
       let body := be16 (len s mod 65536) ++ s ++ x in
       len body < VarIntLaws.VMAX -> classified3 prof (cb :: write_var_int (len body) ++ body) InvalidString.
Proof. exact Faults3.C20_publish_topic_not_utf8_3_all. Qed.
Print Assumptions C20_publish_topic_not_utf8_3_all.

Theorem C20_publish_topic_3_all :
  forall (prof : profile) (cb : N) (topic : bytes) (qp : qospid) (payload : list N),
       cb / 16 = 3 ->
       (cb mod 16 / 2) mod 4 = qospid_qos qp ->
       qospid_ok qp = true ->
       len topic <= 65535 ->
       utf8_valid topic = true ->
       name_is_invalid topic = true ->
       let body := be16 (len topic mod 65536) ++ topic ++ concat (V3.qospid_enc qp) ++ payload in
       len body < VarIntLaws.VMAX ->
       classified3 prof (cb :: write_var_int (len body) ++ body) (InvalidTopicName topic).
Proof. exact Faults3.C20_publish_topic_3_all. Qed.
Print Assumptions C20_publish_topic_3_all.

Theorem C20_short_remaining_length_3 :
  forall (prof : profile) (cb n pid : N),
       In cb [130; 144; 162] ->
       n < 2 ->
       pid_ok pid = true ->
       forall (t : tail) (rest : list N),
       F3.dec_async prof t (cb :: write_var_int n ++ be16 pid ++ rest) = RErr InvalidRemainingLength.
Proof. exact Faults3.C20_short_remaining_length_3. Qed.
Print Assumptions C20_short_remaining_length_3.

Theorem C20_subscribe_item_overrun_3 :
  forall (prof : profile) (f : nat) (rl : N) (acc : list (tfilter * N)) (tf : tfilter) 
         (q : N) (t : tail) (r : list N),
       rl <> 0 ->
       filter_ok tf = true ->
       q < 3 ->
       rl < 3 + len (ftext tf) ->
       V3.subscribe_loop prof (S f) rl acc t (be16 (len (ftext tf) mod 65536) ++ ftext tf ++ q :: r) =
       RErr InvalidRemainingLength.
Proof. exact Faults3.C20_subscribe_item_overrun_3. Qed.
Print Assumptions C20_subscribe_item_overrun_3.

Theorem C20_poll_leftover_3 :
  forall (prof : profile) (cb : N) (body : bytes) (sfx : list N) (h : header) 
         (p : V3.packet) (x : N) (xs : list N) (t : tail),
       len body < VarIntLaws.VMAX ->
       V3.header_new_with cb (len body) = Ok h ->
       V3.build_empty_packet h = None ->
       body <> [] ->
       V3.block_decode prof h TEof body = ROk p (x :: xs) ->
       rr_res V3.packet (poll3 prof (cb :: write_var_int (len body) ++ body ++ sfx) t) =
       Some (Err InvalidRemainingLength).
Proof. exact Faults3.C20_poll_leftover_3. Qed.
Print Assumptions C20_poll_leftover_3.

Theorem C20_poll_eof_inside_3 :
  forall (prof : profile) (cb : N) (body : bytes) (sfx : list N) (h : header) (t : tail),
       len body < VarIntLaws.VMAX ->
       V3.header_new_with cb (len body) = Ok h ->
       V3.build_empty_packet h = None ->
       V3.block_decode prof h TEof body = RErr (io_err TEof) ->
       rr_res V3.packet (poll3 prof (cb :: write_var_int (len body) ++ body ++ sfx) t) =
       Some (Err InvalidRemainingLength) /\
       F3.dec_block prof (cb :: write_var_int (len body) ++ body) = BNone /\
       F3.dec_async prof TEof (cb :: write_var_int (len body) ++ body) = RErr (IoError KUnexpectedEof).
Proof. exact Faults3.C20_poll_eof_inside_3. Qed.
Print Assumptions C20_poll_eof_inside_3.

Theorem C20_poll_extra_byte_3 :
  forall (prof : profile) (p : V3.packet) (x : N) (sfx : list N) (t : tail),
       I3.valid p = true ->
       ignores_rl3 p = true ->
       V3RT.body_len3 p + 1 < VarIntLaws.VMAX ->
       rr_res V3.packet
         (poll3 prof
            (V3.control_byte p
             :: write_var_int (V3RT.body_len3 p + 1) ++ (concat (V3RT.body_chunks3 p) ++ [x]) ++ sfx) t) =
       Some (Err InvalidRemainingLength) /\
       F3.dec_async prof t
         (V3.control_byte p
          :: write_var_int (V3RT.body_len3 p + 1) ++ (concat (V3RT.body_chunks3 p) ++ [x]) ++ sfx) =
       ROk p ([x] ++ sfx).
Proof. exact Faults3.C20_poll_extra_byte_3. Qed.
Print Assumptions C20_poll_extra_byte_3.

Theorem C20_truncated_3 :
  forall (prof : profile) (p : V3.packet) (k : nat) (sfx : list N) (t : tail),
       I3.valid p = true ->
       ignores_rl3 p = true ->
       V3RT.body_len3 p < VarIntLaws.VMAX ->
       (k < length (concat (V3RT.body_chunks3 p)))%nat ->
       let body := firstn k (concat (V3RT.body_chunks3 p)) in
       rr_res V3.packet (poll3 prof (V3.control_byte p :: write_var_int (len body) ++ body ++ sfx) t) =
       Some (Err InvalidRemainingLength) /\
       F3.dec_block prof (V3.control_byte p :: write_var_int (len body) ++ body) = BNone /\
       F3.dec_async prof TEof (V3.control_byte p :: write_var_int (len body) ++ body) =
       RErr (IoError KUnexpectedEof).
Proof. exact Faults3.C20_truncated_3. Qed.
Print Assumptions C20_truncated_3.

Theorem C20_async_err_to_block_5 :
  forall (prof : profile) (d : bytes) (e : err),
       F5.dec_async prof TEof d = RErr e -> is_eof e = false -> F5.dec_block prof d = BErr e.
Proof. exact Faults5.async_err_to_block_5. Qed.
Print Assumptions C20_async_err_to_block_5.

Theorem C20_async_err_to_poll_5 :
  forall (prof : profile) (cb : N) (body : bytes) (sfx : list N) (t t' : tail) (e : err),
       len body < VarIntLaws.VMAX ->
       F5.dec_async prof t (cb :: write_var_int (len body) ++ body ++ sfx) = RErr e ->
       is_io e = false ->
       rr_res V5.packet (poll5 prof (cb :: write_var_int (len body) ++ body ++ sfx) t') = Some (Err e) \/
       rr_res V5.packet (poll5 prof (cb :: write_var_int (len body) ++ body ++ sfx) t') =
       Some (Err InvalidRemainingLength).
Proof. exact Faults5.async_err_to_poll_5. Qed.
Print Assumptions C20_async_err_to_poll_5.

Theorem C20_async_err_to_poll_exact_5 :
  forall (prof : profile) (cb : N) (body : bytes) (sfx : list N) (t : tail) (e : err),
       len body < VarIntLaws.VMAX ->
       F5.dec_async prof TEof (cb :: write_var_int (len body) ++ body) = RErr e ->
       is_io e = false ->
       rr_res V5.packet (poll5 prof (cb :: write_var_int (len body) ++ body ++ sfx) t) = Some (Err e).
Proof. exact Faults5.async_err_to_poll_exact_5. Qed.
Print Assumptions C20_async_err_to_poll_exact_5.

Theorem C20_header_verdict_5 :
  forall (prof : profile) (cb n : N) (e : err),
       n < VarIntLaws.VMAX ->
       header5_verdict (cb / 16) (cb mod 16) (n =? 0) = HReject e ->
       (forall (t : tail) (rest : list N), F5.dec_async prof t (cb :: write_var_int n ++ rest) = RErr e) /\
       (forall rest : list N, F5.dec_block prof (cb :: write_var_int n ++ rest) = BErr e) /\
       (forall (t : tail) (rest : list N),
        rr_res V5.packet (poll5 prof (cb :: write_var_int n ++ rest) t) = Some (Err e)).
Proof. exact Faults5.C20_header_verdict_5. Qed.
Print Assumptions C20_header_verdict_5.

Theorem C20_header_varint_5 :
  forall (prof : profile) (cb b0 b1 b2 b3 : N),
       128 <= b0 ->
       128 <= b1 ->
       128 <= b2 ->
       128 <= b3 ->
       (forall (t : tail) (rest : list N),
        F5.dec_async prof t (cb :: b0 :: b1 :: b2 :: b3 :: rest) = RErr InvalidVarByteInt) /\
       (forall rest : list N, F5.dec_block prof (cb :: b0 :: b1 :: b2 :: b3 :: rest) = BErr InvalidVarByteInt) /\
       (forall (t : tail) (rest : list N),
        rr_res V5.packet (poll5 prof (cb :: b0 :: b1 :: b2 :: b3 :: rest) t) = Some (Err InvalidVarByteInt)).
Proof. exact Faults5.C20_header_varint_5. Qed.
Print Assumptions C20_header_varint_5.

Theorem C20_pid_zero_5_all :
  forall (prof : profile) (cb : N) (x : list N),
       In cb PID_FIRST_CBS ->
       len (0 :: 0 :: x) < VarIntLaws.VMAX ->
       classified5 prof (cb :: write_var_int (len (0 :: 0 :: x)) ++ 0 :: 0 :: x) ZeroPid.
Proof. exact Faults5.C20_pid_zero_5_all. Qed.
Print Assumptions C20_pid_zero_5_all.

Theorem C20_pid_zero_publish_5_all :
  forall (prof : profile) (cb : N) (topic : bytes) (x : list N),
       cb / 16 = 3 ->
       (cb mod 16 / 2) mod 4 = 1 \/ (cb mod 16 / 2) mod 4 = 2 ->
       utf8_valid topic = true ->
       len topic <= 65535 ->
       let body := be16 (len topic mod 65536) ++ topic ++ 0 :: 0 :: x in
       len body < VarIntLaws.VMAX -> classified5 prof (cb :: write_var_int (len body) ++ body) ZeroPid.
Proof. exact Faults5.C20_pid_zero_publish_5_all. Qed.
Print Assumptions C20_pid_zero_publish_5_all.

Theorem C20_connack_flags_5_all :
  forall (prof : profile) (f c : N) (x : list N),
       2 <= f ->
       len (f :: c :: x) < VarIntLaws.VMAX ->
       classified5 prof (32 :: write_var_int (len (f :: c :: x)) ++ f :: c :: x) (InvalidConnackFlags f).
Proof. exact Faults5.C20_connack_flags_5_all. Qed.
Print Assumptions C20_connack_flags_5_all.

Theorem C20_connack_code_5_all :
  forall (prof : profile) (f c : N) (x : list N),
       f < 2 ->
       V5.mem_n c V5.CONNECT_CODES = false ->
       len (f :: c :: x) < VarIntLaws.VMAX ->
       classified5 prof (32 :: write_var_int (len (f :: c :: x)) ++ f :: c :: x)
         (InvalidReasonCode PConnack c).
Proof. exact Faults5.C20_connack_code_5_all. Qed.
Print Assumptions C20_connack_code_5_all.

Theorem C20_ack_code_5_all :
  forall (prof : profile) (cb pid c : N) (x : list N),
       In cb ACK_CBS ->
       pid_ok pid = true ->
       V5.mem_n c (V5.codes_of (ack_ptype_of_cb cb)) = false ->
       let body := be16 pid ++ c :: x in
       len body < VarIntLaws.VMAX ->
       classified5 prof (cb :: write_var_int (len body) ++ body) (InvalidReasonCode (ack_ptype_of_cb cb) c).
Proof. exact Faults5.C20_ack_code_5_all. Qed.
Print Assumptions C20_ack_code_5_all.

Theorem C20_disconnect_code_5_all :
  forall (prof : profile) (c : N) (x : list N),
       V5.mem_n c V5.DISCONNECT_CODES = false ->
       len (c :: x) < VarIntLaws.VMAX ->
       classified5 prof (224 :: write_var_int (len (c :: x)) ++ c :: x) (InvalidReasonCode PDisconnect c).
Proof. exact Faults5.C20_disconnect_code_5_all. Qed.
Print Assumptions C20_disconnect_code_5_all.

Theorem C20_auth_code_5_all :
  forall (prof : profile) (c : N) (x : list N),
       V5.mem_n c V5.AUTH_CODES = false ->
       len (c :: x) < VarIntLaws.VMAX ->
       classified5 prof (240 :: write_var_int (len (c :: x)) ++ c :: x) (InvalidReasonCode PAuth c).
Proof. exact Faults5.C20_auth_code_5_all. Qed.
Print Assumptions C20_auth_code_5_all.

Theorem C20_suback_code_5_all :
  forall (prof : profile) (table : ptype) (pid : N) (ps : props) (codes : list N) (c : N) (x : list N),
       table = PSuback \/ table = PUnsuback ->
       pid_ok pid = true ->
       props_good ACK_PROPS ps ->
       forallb (fun y : N => V5.mem_n y (V5.codes_of table)) codes = true ->
       V5.mem_n c (V5.codes_of table) = false ->
       let body := be16 pid ++ concat (props_enc ACK_PROPS ps) ++ codes ++ c :: x in
       len body < VarIntLaws.VMAX ->
       classified5 prof (suback_cb table :: write_var_int (len body) ++ body) (InvalidReasonCode table c).
Proof. exact Faults5.C20_suback_code_5_all. Qed.
Print Assumptions C20_suback_code_5_all.

Theorem C20_section5_fault :
  forall (prof : profile) (cb : N) (nok : N -> Prop) (pre : bytes) (ctx : prop_ctx) (L : list prop_id),
       section5 cb nok pre ctx L ->
       forall (n : N) (d : bytes) (e : err) (t : tail),
       n < VarIntLaws.VMAX ->
       nok n ->
       decode_props_full ctx L t d = RErr e ->
       F5.dec_async prof t (cb :: write_var_int n ++ pre ++ d) = RErr e.
Proof. exact Faults5.section5_fault. Qed.
Print Assumptions C20_section5_fault.

Theorem C20_prop_unknown_id_5_all :
  forall (prof : profile) (cb : N) (nok : N -> Prop) (pre : bytes) (ctx : prop_ctx) (L : list prop_id),
       section5 cb nok pre ctx L ->
       forall (plen b : N) (x : list N),
       0 < plen < VarIntLaws.VMAX ->
       prop_of_u8 b = None ->
       let body := pre ++ write_var_int plen ++ b :: x in
       len body < VarIntLaws.VMAX ->
       nok (len body) -> classified5 prof (cb :: write_var_int (len body) ++ body) (InvalidPropertyId b).
Proof. exact Faults5.C20_prop_unknown_id_5_all. Qed.
Print Assumptions C20_prop_unknown_id_5_all.

Theorem C20_prop_disallowed_5_all :
  forall (prof : profile) (cb : N) (nok : N -> Prop) (pre : bytes) (ctx : prop_ctx) (L : list prop_id),
       section5 cb nok pre ctx L ->
       forall (plen : N) (id : prop_id) (x : list N),
       0 < plen < VarIntLaws.VMAX ->
       prop_mem id L = false ->
       let body := pre ++ write_var_int plen ++ prop_num id :: x in
       len body < VarIntLaws.VMAX ->
       nok (len body) -> classified5 prof (cb :: write_var_int (len body) ++ body) (ctx_err ctx id).
Proof. exact Faults5.C20_prop_disallowed_5_all. Qed.
Print Assumptions C20_prop_disallowed_5_all.

Theorem C20_prop_duplicated_5_all :
  forall (prof : profile) (cb : N) (nok : N -> Prop) (pre : bytes) (ctx : prop_ctx) (L : list prop_id),
       section5 cb nok pre ctx L ->
       forall (plen : N) (id : prop_id) (v : pvalue) (x : list N),
       plen < VarIntLaws.VMAX ->
       prop_mem id L = true ->
       value_inv (prop_wtype id) v = true ->
       value_valid (prop_wtype id) v = true ->
       1 + value_len (prop_wtype id) v < plen ->
       let body :=
         pre ++
         write_var_int plen ++ prop_num id :: concat (encode_value (prop_wtype id) v) ++ prop_num id :: x in
       len body < VarIntLaws.VMAX ->
       nok (len body) ->
       classified5 prof (cb :: write_var_int (len body) ++ body) (DuplicatedProperty (prop_num id)).
Proof. exact Faults5.C20_prop_duplicated_5_all. Qed.
Print Assumptions C20_prop_duplicated_5_all.

Theorem C20_prop_bad_byte_5_all :
  forall (prof : profile) (cb : N) (nok : N -> Prop) (pre : bytes) (ctx : prop_ctx) (L : list prop_id),
       section5 cb nok pre ctx L ->
       forall (plen : N) (id : prop_id) (v : N) (x : list N),
       0 < plen < VarIntLaws.VMAX ->
       prop_mem id L = true ->
       byte_valued id = true ->
       1 < v ->
       let body := pre ++ write_var_int plen ++ prop_num id :: v :: x in
       len body < VarIntLaws.VMAX ->
       nok (len body) ->
       classified5 prof (cb :: write_var_int (len body) ++ body) (InvalidByteProperty (prop_num id) v).
Proof. exact Faults5.C20_prop_bad_byte_5_all. Qed.
Print Assumptions C20_prop_bad_byte_5_all.

Theorem C20_prop_length_minus_one_5_all :
  forall (prof : profile) (cb : N) (nok : N -> Prop) (pre : bytes) (ctx : prop_ctx) (L : list prop_id),
       section5 cb nok pre ctx L ->
       forall (id : prop_id) (v : pvalue) (x : list N),
       prop_mem id L = true ->
       value_inv (prop_wtype id) v = true ->
       value_valid (prop_wtype id) v = true ->
       let body :=
         pre ++
         write_var_int (value_len (prop_wtype id) v) ++
         prop_num id :: concat (encode_value (prop_wtype id) v) ++ x in
       len body < VarIntLaws.VMAX ->
       nok (len body) ->
       classified5 prof (cb :: write_var_int (len body) ++ body)
         (InvalidPropertyLength (value_len (prop_wtype id) v)).
Proof. exact Faults5.C20_prop_length_minus_one_5_all. Qed.
Print Assumptions C20_prop_length_minus_one_5_all.

Theorem C20_prop_length_varint_5_all :
  forall (prof : profile) (cb : N) (nok : N -> Prop) (pre : bytes) (ctx : prop_ctx) (L : list prop_id),
       section5 cb nok pre ctx L ->
       forall (b0 b1 b2 b3 : N) (x : list N),
       128 <= b0 ->
       128 <= b1 ->
       128 <= b2 ->
       128 <= b3 ->
       let body := pre ++ b0 :: b1 :: b2 :: b3 :: x in
       len body < VarIntLaws.VMAX ->
       nok (len body) -> classified5 prof (cb :: write_var_int (len body) ++ body) InvalidVarByteInt.
Proof. exact Faults5.C20_prop_length_varint_5_all. Qed.
Print Assumptions C20_prop_length_varint_5_all.

Theorem C20_prop_string_not_utf8_5_all :
  forall (prof : profile) (cb : N) (nok : N -> Prop) (pre : bytes) (ctx : prop_ctx) (L : list prop_id),
       section5 cb nok pre ctx L ->
       forall (plen : N) (id : prop_id) (s : bytes) (x : list N),
       0 < plen < VarIntLaws.VMAX ->
       prop_mem id L = true ->
       string_valued id = true ->
       len s <= 65535 ->
       utf8_valid s = false ->
       let body := pre ++ write_var_int plen ++ prop_num id :: be16 (len s mod 65536) ++ s ++ x in
       len body < VarIntLaws.VMAX ->
       nok (len body) -> classified5 prof (cb :: write_var_int (len body) ++ body) InvalidString.
Proof. exact Faults5.C20_prop_string_not_utf8_5_all. Qed.
Print Assumptions C20_prop_string_not_utf8_5_all.

Theorem C20_prop_response_topic_5 :
  forall (prof : profile) (cb : N) (nok : N -> Prop) (pre : bytes) (ctx : prop_ctx) 
         (L : list prop_id) (n plen : N) (s : bytes),
       section5 cb nok pre ctx L ->
       n < VarIntLaws.VMAX ->
       nok n ->
       0 < plen < VarIntLaws.VMAX ->
       prop_mem ResponseTopic L = true ->
       len s <= 65535 ->
       utf8_valid s = true ->
       name_is_invalid s = true ->
       forall (t : tail) (rest : list N),
       F5.dec_async prof t
         (cb :: write_var_int n ++ pre ++ write_var_int plen ++ 8 :: be16 (len s mod 65536) ++ s ++ rest) =
       RErr InvalidResponseTopic.
Proof. exact Faults5.C20_prop_response_topic_5. Qed.
Print Assumptions C20_prop_response_topic_5.

Theorem C20_prop_subscription_id_varint_5 :
  forall (prof : profile) (cb : N) (nok : N -> Prop) (pre : bytes) (ctx : prop_ctx) 
         (L : list prop_id) (n plen b0 b1 b2 b3 : N),
       section5 cb nok pre ctx L ->
       n < VarIntLaws.VMAX ->
       nok n ->
       0 < plen < VarIntLaws.VMAX ->
       prop_mem SubscriptionIdentifier L = true ->
       128 <= b0 ->
       128 <= b1 ->
       128 <= b2 ->
       128 <= b3 ->
       forall (t : tail) (rest : list N),
       F5.dec_async prof t
         (cb :: write_var_int n ++ pre ++ write_var_int plen ++ 11 :: b0 :: b1 :: b2 :: b3 :: rest) =
       RErr InvalidVarByteInt.
Proof. exact Faults5.C20_prop_subscription_id_varint_5. Qed.
Print Assumptions C20_prop_subscription_id_varint_5.

Theorem C20_connect_reserved_flag_5_all :
  forall (prof : profile) (flags : N) (x : list N),
       bit flags 0 = true ->
       let body := concat (protocol_enc V500) ++ flags :: x in
       len body < VarIntLaws.VMAX ->
       classified5 prof (16 :: write_var_int (len body) ++ body) (InvalidConnectFlags flags).
Proof. exact Faults5.C20_connect_reserved_flag_5_all. Qed.
Print Assumptions C20_connect_reserved_flag_5_all.

Theorem C20_connect_will_qos_without_will_5_all :
  forall (prof : profile) (flags ka : N) (ps : props) (cid : bytes) (x : list N),
       bit flags 0 = false ->
       ka < 65536 ->
       props_good CONNECT_PROPS ps ->
       len cid <= 65535 ->
       utf8_valid cid = true ->
       bit flags 2 = false ->
       (flags / 8) mod 4 <> 0 ->
       let body :=
         concat (protocol_enc V500) ++
         flags :: be16 ka ++ concat (props_enc CONNECT_PROPS ps) ++ be16 (len cid mod 65536) ++ cid ++ x in
       len body < VarIntLaws.VMAX ->
       classified5 prof (16 :: write_var_int (len body) ++ body) (InvalidConnectFlags flags).
Proof. exact Faults5.C20_connect_will_qos_without_will_5_all. Qed.
Print Assumptions C20_connect_will_qos_without_will_5_all.

Theorem C20_connect_will_qos3_5_frame :
  forall (prof : profile) (n flags ka : N) (ps : props) (cid : bytes),
       n < VarIntLaws.VMAX ->
       bit flags 0 = false ->
       ka < 65536 ->
       props_good CONNECT_PROPS ps ->
       len cid <= 65535 ->
       utf8_valid cid = true ->
       bit flags 2 = true ->
       (flags / 8) mod 4 = 3 ->
       forall (t : tail) (rest : list N),
       F5.dec_async prof t
         (16
          :: write_var_int n ++
             concat (protocol_enc V500) ++
             flags
             :: be16 ka ++ concat (props_enc CONNECT_PROPS ps) ++ be16 (len cid mod 65536) ++ cid ++ rest) =
       RErr (InvalidQos 3).
Proof. exact Faults5.C20_connect_will_qos3_5_frame. Qed.
Print Assumptions C20_connect_will_qos3_5_frame.

Theorem C20_connect_protocol_5_all :
  forall (prof : profile) (name : bytes) (lvl : N) (x : list N),
       len name <= 65535 ->
       ~ protocol_known name lvl ->
       utf8_valid name = true ->
       let body := be16 (len name) ++ name ++ lvl :: x in
       len body < VarIntLaws.VMAX ->
       classified5 prof (16 :: write_var_int (len body) ++ body) (InvalidProtocol name lvl).
Proof. exact Faults5.C20_connect_protocol_5_all. Qed.
Print Assumptions C20_connect_protocol_5_all.

Theorem C20_connect_protocol_not_utf8_5_frame :
  forall (prof : profile) (n : N) (name : bytes) (lvl : N),
       n < VarIntLaws.VMAX ->
       len name <= 65535 ->
       ~ protocol_known name lvl ->
       utf8_valid name = false ->
       forall (t : tail) (rest : list N),
       F5.dec_async prof t (16 :: write_var_int n ++ be16 (len name) ++ name ++ lvl :: rest) =
       RErr InvalidString.
Proof. exact Faults5.C20_connect_protocol_not_utf8_5_frame. Qed.
Print Assumptions C20_connect_protocol_not_utf8_5_frame.

Theorem C20_connect_other_family_5_all :
  forall (prof : profile) (pr : protocol) (x : list N),
       pr <> V500 ->
       let body := concat (protocol_enc pr) ++ x in
       len body < VarIntLaws.VMAX ->
       classified5 prof (16 :: write_var_int (len body) ++ body) (UnexpectedProtocol pr).
Proof. exact Faults5.C20_connect_other_family_5_all. Qed.
Print Assumptions C20_connect_other_family_5_all.

Theorem C20_connect_client_id_not_utf8_5_all :
  forall (prof : profile) (flags ka : N) (ps : props) (cid : bytes) (x : list N),
       bit flags 0 = false ->
       ka < 65536 ->
       props_good CONNECT_PROPS ps ->
       len cid <= 65535 ->
       utf8_valid cid = false ->
       let body :=
         concat (protocol_enc V500) ++
         flags :: be16 ka ++ concat (props_enc CONNECT_PROPS ps) ++ be16 (len cid mod 65536) ++ cid ++ x in
       len body < VarIntLaws.VMAX -> classified5 prof (16 :: write_var_int (len body) ++ body) InvalidString.
Proof. exact Faults5.C20_connect_client_id_not_utf8_5_all. Qed.
Print Assumptions C20_connect_client_id_not_utf8_5_all.

Theorem C20_connect_will_topic_5_all :
  forall (prof : profile) (flags ka : N) (ps : props) (cid : bytes) (wps : props) 
         (topic : bytes) (x : list N),
       bit flags 0 = false ->
       ka < 65536 ->
       props_good CONNECT_PROPS ps ->
       len cid <= 65535 ->
       utf8_valid cid = true ->
       bit flags 2 = true ->
       (flags / 8) mod 4 < 3 ->
       props_good WILL_PROPS wps ->
       len topic <= 65535 ->
       utf8_valid topic = true ->
       name_is_invalid topic = true ->
       let body :=
         concat (protocol_enc V500) ++
         flags
         :: be16 ka ++
            concat (props_enc CONNECT_PROPS ps) ++
            be16 (len cid mod 65536) ++
            cid ++ concat (props_enc WILL_PROPS wps) ++ be16 (len topic mod 65536) ++ topic ++ x in
       len body < VarIntLaws.VMAX ->
       classified5 prof (16 :: write_var_int (len body) ++ body) (InvalidTopicName topic).
Proof. exact Faults5.C20_connect_will_topic_5_all. Qed.
Print Assumptions C20_connect_will_topic_5_all.

Theorem C20_connect_will_payload_format_5_all :
  forall (prof : profile) (flags ka : N) (ps : props) (cid : bytes) (wps : props)
         (topic payload : bytes) (x : list N),
       bit flags 0 = false ->
       ka < 65536 ->
       props_good CONNECT_PROPS ps ->
       len cid <= 65535 ->
       utf8_valid cid = true ->
       bit flags 2 = true ->
       (flags / 8) mod 4 < 3 ->
       props_good WILL_PROPS wps ->
       len topic <= 65535 ->
       utf8_valid topic = true ->
       name_is_invalid topic = false ->
       pget wps PayloadFormatIndicator = Some (VN 1) ->
       len payload <= 65535 ->
       utf8_valid payload = false ->
       let body :=
         concat (protocol_enc V500) ++
         flags
         :: be16 ka ++
            concat (props_enc CONNECT_PROPS ps) ++
            be16 (len cid mod 65536) ++
            cid ++
            concat (props_enc WILL_PROPS wps) ++
            be16 (len topic mod 65536) ++ topic ++ be16 (len payload mod 65536) ++ payload ++ x in
       len body < VarIntLaws.VMAX ->
       classified5 prof (16 :: write_var_int (len body) ++ body) InvalidPayloadFormat.
Proof. exact Faults5.C20_connect_will_payload_format_5_all. Qed.
Print Assumptions C20_connect_will_payload_format_5_all.

Theorem C20_subscribe_options_5_all :
  forall (prof : profile) (pid : N) (ps : props) (topics : list (tfilter * V5.subopts)) 
         (tf : tfilter) (b : N) (x : list N),
       pid_ok pid = true ->
       props_good SUBSCRIBE_PROPS ps ->
       forallb topic_ok5 topics = true ->
       filter_ok tf = true ->
       64 <= b \/ b mod 4 = 3 \/ (b / 16) mod 4 = 3 ->
       let body :=
         be16 pid ++
         concat (props_enc SUBSCRIBE_PROPS ps) ++
         concat (V5Len.sub_enc5 topics) ++ be16 (len (ftext tf) mod 65536) ++ ftext tf ++ b :: x in
       len body < VarIntLaws.VMAX ->
       classified5 prof (130 :: write_var_int (len body) ++ body) (InvalidSubscriptionOption b).
Proof. exact Faults5.C20_subscribe_options_5_all. Qed.
Print Assumptions C20_subscribe_options_5_all.

Theorem C20_subscribe_filter_5_all :
  forall (prof : profile) (pid : N) (ps : props) (topics : list (tfilter * V5.subopts)) 
         (s : bytes) (x : list N),
       pid_ok pid = true ->
       props_good SUBSCRIBE_PROPS ps ->
       forallb topic_ok5 topics = true ->
       len s <= 65535 ->
       utf8_valid s = true ->
       Spec.topic_filter_ok s = false ->
       let body :=
         be16 pid ++
         concat (props_enc SUBSCRIBE_PROPS ps) ++
         concat (V5Len.sub_enc5 topics) ++ be16 (len s mod 65536) ++ s ++ x in
       len body < VarIntLaws.VMAX ->
       classified5 prof (130 :: write_var_int (len body) ++ body) (InvalidTopicFilter s).
Proof. exact Faults5.C20_subscribe_filter_5_all. Qed.
Print Assumptions C20_subscribe_filter_5_all.

Theorem C20_subscribe_filter_not_utf8_5_all :
  forall (prof : profile) (pid : N) (ps : props) (topics : list (tfilter * V5.subopts)) 
         (s : bytes) (x : list N),
       pid_ok pid = true ->
       props_good SUBSCRIBE_PROPS ps ->
       forallb topic_ok5 topics = true ->
       len s <= 65535 ->
       utf8_valid s = false ->
       let body :=
         be16 pid ++
         concat (props_enc SUBSCRIBE_PROPS ps) ++
         concat (V5Len.sub_enc5 topics) ++ be16 (len s mod 65536) ++ s ++ x in
       len body < VarIntLaws.VMAX -> classified5 prof (130 :: write_var_int (len body) ++ body) InvalidString.
Proof. exact Faults5.C20_subscribe_filter_not_utf8_5_all. Qed.
Print Assumptions C20_subscribe_filter_not_utf8_5_all.

Theorem C20_subscribe_empty_5_all :
  forall (prof : profile) (pid : N) (ps : props),
       pid_ok pid = true ->
       props_good SUBSCRIBE_PROPS ps ->
       let body := be16 pid ++ concat (props_enc SUBSCRIBE_PROPS ps) in
       len body < VarIntLaws.VMAX ->
       classified5 prof (130 :: write_var_int (len body) ++ body) EmptySubscription.
Proof. exact Faults5.C20_subscribe_empty_5_all. Qed.
Print Assumptions C20_subscribe_empty_5_all.

Theorem C20_unsubscribe_filter_5_all :
  forall (prof : profile) (pid : N) (ps : props) (topics : list tfilter) (s : bytes) (x : list N),
       pid_ok pid = true ->
       props_good UNSUBSCRIBE_PROPS ps ->
       forallb filter_ok topics = true ->
       len s <= 65535 ->
       utf8_valid s = true ->
       Spec.topic_filter_ok s = false ->
       let body :=
         be16 pid ++
         concat (props_enc UNSUBSCRIBE_PROPS ps) ++
         concat (V5Len.unsub_enc5 topics) ++ be16 (len s mod 65536) ++ s ++ x in
       len body < VarIntLaws.VMAX ->
       classified5 prof (162 :: write_var_int (len body) ++ body) (InvalidTopicFilter s).
Proof. exact Faults5.C20_unsubscribe_filter_5_all. Qed.
Print Assumptions C20_unsubscribe_filter_5_all.

Theorem C20_unsubscribe_filter_not_utf8_5_all :
  forall (prof : profile) (pid : N) (ps : props) (topics : list tfilter) (s : bytes) (x : list N),
       pid_ok pid = true ->
       props_good UNSUBSCRIBE_PROPS ps ->
       forallb filter_ok topics = true ->
       len s <= 65535 ->
       utf8_valid s = false ->
       let body :=
         be16 pid ++
         concat (props_enc UNSUBSCRIBE_PROPS ps) ++
         concat (V5Len.unsub_enc5 topics) ++ be16 (len s mod 65536) ++ s ++ x in
       len body < VarIntLaws.VMAX -> classified5 prof (162 :: write_var_int (len body) ++ body) InvalidString.
Proof. exact Faults5.C20_unsubscribe_filter_not_utf8_5_all. Qed.
Print Assumptions C20_unsubscribe_filter_not_utf8_5_all.

Theorem C20_unsubscribe_empty_5_all :
  forall (prof : profile) (pid : N) (ps : props),
       pid_ok pid = true ->
       props_good UNSUBSCRIBE_PROPS ps ->
       let body := be16 pid ++ concat (props_enc UNSUBSCRIBE_PROPS ps) in
       len body < VarIntLaws.VMAX ->
       classified5 prof (162 :: write_var_int (len body) ++ body) EmptySubscription.
Proof. exact Faults5.C20_unsubscribe_empty_5_all. Qed.
Print Assumptions C20_unsubscribe_empty_5_all.

Theorem C20_publish_topic_not_utf8_5_all :
  forall (prof : profile) (cb : N) (s : bytes) (x : list N),
       cb / 16 = 3 ->
       (cb mod 16 / 2) mod 4 <> 3 ->
       len s <= 65535 ->
       utf8_valid s = false ->
       let body := be16 (len s mod 65536) ++ s ++ x in
       len body < VarIntLaws.VMAX -> classified5 prof (cb :: write_var_int (len body) ++ body) InvalidString.
Proof. exact Faults5.C20_publish_topic_not_utf8_5_all. Qed.
Print Assumptions C20_publish_topic_not_utf8_5_all.

Theorem C20_publish_topic_5_all :
  forall (prof : profile) (cb : N) (topic : bytes) (qp : qospid) (ps : props) (payload : bytes),
       cb / 16 = 3 ->
       (cb mod 16 / 2) mod 4 = qospid_qos qp ->
       qospid_ok qp = true ->
       len topic <= 65535 ->
       utf8_valid topic = true ->
       props_good PUBLISH_PROPS ps ->
       (if payload_flagged ps then utf8_valid payload else true) = true ->
       name_is_invalid topic = true ->
       len
         (be16 (len topic mod 65536) ++
          topic ++ concat (V3.qospid_enc qp) ++ concat (props_enc PUBLISH_PROPS ps) ++ payload) <
       VarIntLaws.VMAX ->
       classified5 prof
         (cb
          :: write_var_int
               (len
                  (be16 (len topic mod 65536) ++
                   topic ++ concat (V3.qospid_enc qp) ++ concat (props_enc PUBLISH_PROPS ps) ++ payload)) ++
             be16 (len topic mod 65536) ++
             topic ++ concat (V3.qospid_enc qp) ++ concat (props_enc PUBLISH_PROPS ps) ++ payload)
         (InvalidTopicName topic).
Proof. exact Faults5.C20_publish_topic_5_all. Qed.
Print Assumptions C20_publish_topic_5_all.

Theorem C20_publish_payload_format_5_all :
  forall (prof : profile) (cb : N) (topic : bytes) (qp : qospid) (ps : props) (payload : bytes),
       cb / 16 = 3 ->
       (cb mod 16 / 2) mod 4 = qospid_qos qp ->
       qospid_ok qp = true ->
       len topic <= 65535 ->
       utf8_valid topic = true ->
       props_good PUBLISH_PROPS ps ->
       pget ps PayloadFormatIndicator = Some (VN 1) ->
       utf8_valid payload = false ->
       len
         (be16 (len topic mod 65536) ++
          topic ++ concat (V3.qospid_enc qp) ++ concat (props_enc PUBLISH_PROPS ps) ++ payload) <
       VarIntLaws.VMAX ->
       classified5 prof
         (cb
          :: write_var_int
               (len
                  (be16 (len topic mod 65536) ++
                   topic ++ concat (V3.qospid_enc qp) ++ concat (props_enc PUBLISH_PROPS ps) ++ payload)) ++
             be16 (len topic mod 65536) ++
             topic ++ concat (V3.qospid_enc qp) ++ concat (props_enc PUBLISH_PROPS ps) ++ payload)
         InvalidPayloadFormat.
Proof. exact Faults5.C20_publish_payload_format_5_all. Qed.
Print Assumptions C20_publish_payload_format_5_all.

Theorem C20_publish_short_props_5 :
  forall (h : header) (topic : bytes) (qp : qospid) (ps : props) (t : tail) (r : list N),
       h_qos h = qospid_qos qp ->
       qospid_ok qp = true ->
       len topic <= 65535 ->
       utf8_valid topic = true ->
       props_good PUBLISH_PROPS ps ->
       2 + len topic + V3.qospid_len qp <= h_rl h <
       2 + len topic + V3.qospid_len qp + Parses.clen (props_enc PUBLISH_PROPS ps) ->
       V5.publish_decode h t
         (be16 (len topic mod 65536) ++
          topic ++ concat (V3.qospid_enc qp) ++ concat (props_enc PUBLISH_PROPS ps) ++ r) =
       RErr InvalidRemainingLength.
Proof. exact Faults5.C20_publish_short_props_5. Qed.
Print Assumptions C20_publish_short_props_5.

Theorem C20_subscribe_short_5 :
  forall (prof : profile) (h : header) (pid : N) (ps : props) (t : tail) (r : list N),
       pid_ok pid = true ->
       props_good SUBSCRIBE_PROPS ps ->
       h_rl h < 2 + Parses.clen (props_enc SUBSCRIBE_PROPS ps) ->
       V5.subscribe_decode prof h t (be16 pid ++ concat (props_enc SUBSCRIBE_PROPS ps) ++ r) =
       RErr InvalidRemainingLength.
Proof. exact Faults5.C20_subscribe_short_5. Qed.
Print Assumptions C20_subscribe_short_5.

Theorem C20_unsubscribe_short_5 :
  forall (prof : profile) (h : header) (pid : N) (ps : props) (t : tail) (r : list N),
       pid_ok pid = true ->
       props_good UNSUBSCRIBE_PROPS ps ->
       h_rl h < 2 + Parses.clen (props_enc UNSUBSCRIBE_PROPS ps) ->
       V5.unsubscribe_decode prof h t (be16 pid ++ concat (props_enc UNSUBSCRIBE_PROPS ps) ++ r) =
       RErr InvalidRemainingLength.
Proof. exact Faults5.C20_unsubscribe_short_5. Qed.
Print Assumptions C20_unsubscribe_short_5.

Theorem C20_suback_short_5 :
  forall (table : ptype) (h : header) (pid : N) (ps : props) (t : tail) (r : list N),
       pid_ok pid = true ->
       props_good ACK_PROPS ps ->
       h_rl h < 2 + Parses.clen (props_enc ACK_PROPS ps) ->
       V5.suback_decode table h t (be16 pid ++ concat (props_enc ACK_PROPS ps) ++ r) =
       RErr InvalidRemainingLength.
Proof. exact Faults5.C20_suback_short_5. Qed.
Print Assumptions C20_suback_short_5.

Theorem C20_poll_leftover_5 :
  forall (prof : profile) (cb : N) (body : bytes) (sfx : list N) (h : header) 
         (p : V5.packet) (x : N) (xs : list N) (t : tail),
       len body < VarIntLaws.VMAX ->
       V5.header_new_with cb (len body) = Ok h ->
       V5.build_empty_packet h = None ->
       V5.block_decode prof h TEof body = ROk p (x :: xs) ->
       rr_res V5.packet (poll5 prof (cb :: write_var_int (len body) ++ body ++ sfx) t) =
       Some (Err InvalidRemainingLength).
Proof. exact Faults5.C20_poll_leftover_5. Qed.
Print Assumptions C20_poll_leftover_5.

Theorem C20_poll_eof_inside_5 :
  forall (prof : profile) (cb : N) (body : bytes) (sfx : list N) (h : header) (t : tail),
       len body < VarIntLaws.VMAX ->
       V5.header_new_with cb (len body) = Ok h ->
       V5.build_empty_packet h = None ->
       V5.block_decode prof h TEof body = RErr (io_err TEof) ->
       rr_res V5.packet (poll5 prof (cb :: write_var_int (len body) ++ body ++ sfx) t) =
       Some (Err InvalidRemainingLength) /\
       F5.dec_block prof (cb :: write_var_int (len body) ++ body) = BNone /\
       F5.dec_async prof TEof (cb :: write_var_int (len body) ++ body) = RErr (IoError KUnexpectedEof).
Proof. exact Faults5.C20_poll_eof_inside_5. Qed.
Print Assumptions C20_poll_eof_inside_5.

Theorem C20_poll_extra_byte_5 :
  forall (prof : profile) (p : V5.packet) (chunks : list bytes) (n x : N) (sfx : list N) (t : tail),
       I5.valid p = true ->
       ignores_rl5 p = true ->
       V5.body_enc p = Some (chunks, Ok n) ->
       n + 1 < VarIntLaws.VMAX ->
       rr_res V5.packet
         (poll5 prof (V5.control_byte p :: write_var_int (n + 1) ++ (concat chunks ++ [x]) ++ sfx) t) =
       Some (Err InvalidRemainingLength) /\
       F5.dec_async prof t (V5.control_byte p :: write_var_int (n + 1) ++ (concat chunks ++ [x]) ++ sfx) =
       ROk p ([x] ++ sfx).
Proof. exact Faults5.C20_poll_extra_byte_5. Qed.
Print Assumptions C20_poll_extra_byte_5.

Theorem C20_truncated_5 :
  forall (prof : profile) (p : V5.packet) (chunks : list bytes) (n : N) (k : nat) 
         (sfx : list N) (t : tail),
       I5.valid p = true ->
       ignores_rl5 p = true ->
       V5.body_enc p = Some (chunks, Ok n) ->
       n < VarIntLaws.VMAX ->
       (k < length (concat chunks))%nat ->
       let body := firstn k (concat chunks) in
       rr_res V5.packet (poll5 prof (V5.control_byte p :: write_var_int (len body) ++ body ++ sfx) t) =
       Some (Err InvalidRemainingLength) /\
       F5.dec_block prof (V5.control_byte p :: write_var_int (len body) ++ body) = BNone /\
       F5.dec_async prof TEof (V5.control_byte p :: write_var_int (len body) ++ body) =
       RErr (IoError KUnexpectedEof).
Proof. exact Faults5.C20_truncated_5. Qed.
Print Assumptions C20_truncated_5.

Theorem C20_header_every_packet_3 :
  forall (prof : profile) (p : V3.packet) (vb : varbytes) (cb' : N) (e : err),
       I3.valid p = true ->
       V3.encode prof p = Ok vb ->
       header3_verdict (cb' / 16) (cb' mod 16) (V3RT.body_len3 p =? 0) = HReject e ->
       classified3 prof (cb' :: tl (as_ref vb)) e.
Proof. exact Faults.C20_header_every_packet_3. Qed.
Print Assumptions C20_header_every_packet_3.

Theorem C20_header_every_packet_5 :
  forall (prof : profile) (p : V5.packet) (vb : varbytes) (n cb' : N) (e : err),
       I5.valid p = true ->
       V5.encode prof p = Ok vb ->
       V5Len.body_len5 p = Ok n ->
       header5_verdict (cb' / 16) (cb' mod 16) (n =? 0) = HReject e ->
       classified5 prof (cb' :: tl (as_ref vb)) e.
Proof. exact Faults.C20_header_every_packet_5. Qed.
Print Assumptions C20_header_every_packet_5.

(* ---------------- hand-written addendum: every `_all` classification also holds under EVERY delivery
   schedule of the frame followed by anything (C05: the poll result depends on the bytes only) ---------------- *)
From MQ Require Import Proofs.PollSched Proofs.FrontAgree.
Theorem C20_classified3_any_schedule : forall prof frame e, classified3 prof frame e ->
  forall l t sfx, bytes_of l = frame ++ sfx -> rr_res V3.packet (F3.poll_drive prof l t) = Some (Err e).
Proof.
  intros prof frame e (_ & _ & Hp) l t sfx Hl.
  destruct (FrontAgree.C05_v3_same_as_one_read prof l t) as [E _]. rewrite E, Hl. exact (Hp t sfx).
Qed.
Print Assumptions C20_classified3_any_schedule.
Theorem C20_classified5_any_schedule : forall prof frame e, classified5 prof frame e ->
  forall l t sfx, bytes_of l = frame ++ sfx -> rr_res V5.packet (F5.poll_drive prof l t) = Some (Err e).
Proof.
  intros prof frame e (_ & _ & Hp) l t sfx Hl.
  destruct (FrontAgree.C05_v5_same_as_one_read prof l t) as [E _]. rewrite E, Hl. exact (Hp t sfx).
Qed.
Print Assumptions C20_classified5_any_schedule.
