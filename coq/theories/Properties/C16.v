(* Properties/C16.v — Topic filter validation matches MQTT 4.7 / 4.8 exactly.
   Model: Model/Topic.v filter_is_invalid / filter_try (common/types.rs 302-420, with fix F3).
   Spec:  Spec/SpecTopic.v Spec.topic_filter_ok / Spec.share_sep, written from the standard over the
          list of characters (levels split on '/', '#' only as the entire last level, '+' only as an
          entire level, "$share/" + non-empty name without / + # + "/" + non-empty filter, <= 65535
          bytes, non-empty, no U+0000).
   A Rust &str is always well-formed UTF-8, hence the hypothesis utf8_valid s.
   That SUBSCRIBE / UNSUBSCRIBE decoders of both families reach exactly filter_try is structural in
   the model (V3.filter_read is the only constructor of tfilter on the decode path) and tied to the
   code by the differential run (op dec). *)
From MQ Require Import Proofs.Tactics Model.V5 Spec.SpecTopic Proofs.TopicFilterEq.
Open Scope N_scope.

Theorem C16_filter_spec : forall prof s, utf8_valid s = true ->
  filter_is_invalid prof s = Ok (negb (Spec.topic_filter_ok s), Spec.share_sep s).
Proof. exact filter_spec. Qed.
Print Assumptions C16_filter_spec.

Theorem C16_filter_try : forall prof s, utf8_valid s = true ->
  filter_try prof s = if Spec.topic_filter_ok s then Ok {| ftext := s; fsepidx := Spec.share_sep s |}
                      else Err (InvalidTopicFilter s).
Proof. exact filter_try_spec. Qed.
Print Assumptions C16_filter_try.

(* the debug assertion of the validator never fires: both build profiles agree, no panic *)
Theorem C16_profile_independent : forall s, utf8_valid s = true ->
  filter_is_invalid Debug s = filter_is_invalid Release s.
Proof. exact filter_profile_indep. Qed.
Print Assumptions C16_profile_independent.

Theorem C16_no_panic : forall prof s p, utf8_valid s = true -> filter_is_invalid prof s <> Panic p.
Proof. exact filter_no_panic. Qed.
Print Assumptions C16_no_panic.

(* the same decision inside SUBSCRIBE / UNSUBSCRIBE: the packet decoders read a string and hand it
   to filter_try, reporting InvalidTopicFilter with the offending text *)
Theorem C16_same_in_packets : forall prof t d,
  V3.filter_read prof t d =
  match read_string t d with
  | ROk s r => if Spec.topic_filter_ok s then ROk {| ftext := s; fsepidx := Spec.share_sep s |} r
               else RErr (InvalidTopicFilter s)
  | RErr e => RErr e
  | RPanic p => RPanic p
  end.
Proof.
  intros prof t d. unfold V3.filter_read, bind.
  destruct (read_string t d) as [s r|e|p] eqn:E; try reflexivity.
  assert (Hv : utf8_valid s = true).
  { unfold read_string, bind in E. destruct (read_bytes t d) as [s0 r0|e0|p0]; try discriminate.
    destruct (utf8_valid s0) eqn:Hu; [|discriminate]. unfold ret in E. inversion E; subst. exact Hu. }
  rewrite (filter_try_spec prof s Hv). destruct (Spec.topic_filter_ok s); reflexivity.
Qed.
Print Assumptions C16_same_in_packets.

Example ex_C16 :
  Spec.topic_filter_ok [36;115;104;97;114;101;47; 228;189;160; 47; 43; 47; 35] = true      (* "$share/你/+/#" *)
  /\ Spec.share_sep [36;115;104;97;114;101;47; 228;189;160; 47; 43; 47; 35] = 10
  /\ Spec.topic_filter_ok [43; 120] = false                                                   (* "+x" (F3) *)
  /\ Spec.topic_filter_ok [97; 47; 35; 47; 98] = false                                        (* "a/#/b" *)
  /\ filter_is_invalid Debug [36;115;104;97;114;101;47; 228;189;160; 47; 43; 47; 35] = Ok (false, 10).
Proof. vm_compute. repeat split. Qed.
