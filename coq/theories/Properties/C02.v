(* Properties/C02.v — Declared lengths always equal the bytes actually written.
   Model: V3.encode / V3.encode_len / V5.encode / V5.encode_len, common/utils.rs encode_packet
   (Model V3.encode_packet, with its debug_assert_eq as Panic SiteEncodeAssert in the Debug profile),
   every `impl Encodable` as a chunk list X_enc with its X_len, v5/types.rs encode_properties! /
   encode_properties_len! (Props.props_enc / props_len).
   `clen chunks` is the number of bytes a streaming encoder writes; `body_len3/5` is what the packet
   reports for its body.  KF1 (known finding): a property section of 2^28 bytes or more makes
   props_len — hence encode_len and encode — panic (C02_KF1_props_len_panics); every theorem about v5
   therefore speaks about packets whose body length is computable (body_len5 p = Ok n), which is
   equivalent to every property section being below 2^28 bytes (C02_v5_body_len_iff_sections). *)
From MQ Require Import Proofs.Tactics Model.Valid Proofs.VarIntLaws Proofs.Parses Proofs.PropsRT
  Proofs.V3RT Proofs.V5RT.
Open Scope N_scope.

(* ---- bytes emitted = encode_len ---- *)
Theorem C02_v3_encode_len : forall prof p vb, I3.valid p = true -> V3.encode prof p = Ok vb ->
  V3.encode_len p = Ok (len (as_ref vb)).
Proof. exact v3_encode_len. Qed.
Print Assumptions C02_v3_encode_len.
Theorem C02_v5_encode_len : forall prof p vb, I5.valid p = true -> V5.encode prof p = Ok vb ->
  V5.encode_len p = Ok (len (as_ref vb)).
Proof. exact v5_encode_len. Qed.
Print Assumptions C02_v5_encode_len.

(* ---- the remaining-length field equals the number of bytes that follow it; the length field is
        the minimal variable byte integer; the whole is control byte + length + body chunks ---- *)
Theorem C02_v3_header_remaining : forall prof p vb, I3.valid p = true -> V3.encode prof p = Ok vb ->
  exists (h : header) (body : list N),
    as_ref vb = V3.control_byte p :: write_var_int (body_len3 p) ++ body /\
    (forall t rest, V3.header_decode t (as_ref vb ++ rest) = ROk h (body ++ rest)) /\
    h_rl h = len body /\ h_rl h = body_len3 p /\ h_typ h = ptype_of p /\
    len (as_ref vb) = 1 + width (body_len3 p) + body_len3 p.
Proof. exact v3_header_remaining. Qed.
Print Assumptions C02_v3_header_remaining.
Theorem C02_v5_shape : forall prof p vb n, I5.valid p = true -> V5.encode prof p = Ok vb -> body_len5 p = Ok n ->
  exists chunks, (V5.body_enc p = Some (chunks, Ok n) \/ V5.body_enc p = None /\ chunks = []) /\
    as_ref vb = V5.control_byte p :: write_var_int n ++ concat chunks /\ clen chunks = n.
Proof. exact v5_encode_shape. Qed.
Print Assumptions C02_v5_shape.

(* ---- every separately encodable part writes exactly as many bytes as it reports ---- *)
Theorem C02_v3_parts :
  (forall pr, clen (protocol_enc pr) = protocol_len pr) /\
  (forall w, clen (V3.will_enc w) = V3.will_len w) /\
  (forall c, clen (V3.connect_enc c) = V3.connect_len c) /\
  (forall p, clen (V3.publish_enc p) = V3.publish_len p) /\
  (forall s, clen (V3.subscribe_enc s) = V3.subscribe_len s) /\
  (forall s, clen (V3.suback_enc s) = V3.suback_len s) /\
  (forall u, clen (V3.unsubscribe_enc u) = V3.unsubscribe_len u).
Proof. exact v3_parts_len. Qed.
Print Assumptions C02_v3_parts.
Theorem C02_v5_parts : forall p chunks n, I5.valid p = true -> V5.body_enc p = Some (chunks, Ok n) -> clen chunks = n.
Proof. exact v5_parts_len. Qed.
Print Assumptions C02_v5_parts.
Theorem C02_v5_will_part : forall w n, V5.will_len w = Ok n -> clen (V5.will_enc w) = n.
Proof. exact will_parts_len. Qed.
Print Assumptions C02_v5_will_part.
(* every v5 property set: bytes written = body + its length prefix = what props_len reports *)
Theorem C02_props_part : forall allowed p, props_inv allowed p = true -> props_body_len allowed p < 268435456 ->
  clen (props_enc allowed p) = props_body_len allowed p + width (props_body_len allowed p) /\
  props_len allowed p = Ok (clen (props_enc allowed p)).
Proof. exact props_enc_len. Qed.
Print Assumptions C02_props_part.

(* ---- identical with and without debug assertions ---- *)
Theorem C02_v3_profile_independent : forall p, I3.valid p = true -> V3.encode Debug p = V3.encode Release p.
Proof. exact v3_profile_indep. Qed.
Print Assumptions C02_v3_profile_independent.
Theorem C02_v5_profile_independent : forall p, I5.valid p = true -> V5.encode Debug p = V5.encode Release p.
Proof. exact v5_profile_indep. Qed.
Print Assumptions C02_v5_profile_independent.

(* ---- a packet too large for the 4-byte remaining length is refused with an error ---- *)
Theorem C02_v3_too_large : forall prof p, I3.valid p = true -> 268435456 <= body_len3 p ->
  V3.encode prof p = Err InvalidVarByteInt /\ V3.encode_len p = Err InvalidVarByteInt.
Proof. exact v3_too_large. Qed.
Print Assumptions C02_v3_too_large.
Theorem C02_v5_too_large : forall prof p n, I5.valid p = true -> body_len5 p = Ok n -> 268435456 <= n ->
  V5.encode prof p = Err InvalidVarByteInt /\ V5.encode_len p = Err InvalidVarByteInt.
Proof. exact v5_too_large. Qed.
Print Assumptions C02_v5_too_large.
(* ... and everything smaller is encoded *)
Theorem C02_v3_encode_ok : forall prof p, I3.valid p = true -> body_len3 p < 268435456 -> exists vb, V3.encode prof p = Ok vb.
Proof. exact v3_encode_ok. Qed.
Print Assumptions C02_v3_encode_ok.
Theorem C02_v5_encode_ok : forall prof p n, I5.valid p = true -> body_len5 p = Ok n -> n < 268435456 ->
  exists vb, V5.encode prof p = Ok vb.
Proof. exact v5_encode_ok. Qed.
Print Assumptions C02_v5_encode_ok.

(* ---- KF1: the class in which the v5 length computation panics, exactly ---- *)
Theorem C02_v5_body_len_iff_sections : forall p, I5.valid p = true ->
  (sections_small p <-> exists n, body_len5 p = Ok n).
Proof.
  intros p Hv. split.
  - intros Hs. exact (v5_body_len_ok p Hv Hs).
  - intros [n Hn]. exact (v5_body_len_sections p n Hn).
Qed.
Print Assumptions C02_v5_body_len_iff_sections.
Theorem C02_KF1_props_len_panics : forall allowed p, 268435456 <= props_body_len allowed p ->
  props_len allowed p = Panic SitePropsLenExpect.
Proof. exact props_len_too_large. Qed.
Print Assumptions C02_KF1_props_len_panics.
