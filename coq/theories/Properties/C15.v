(* Properties/C15.v — Variable-byte-integer and length helpers obey their arithmetic laws.
   Model: Base/VarInt.v (common/utils.rs 75-167, v5 VarByteInt); the poll decoder's header state
   machine (Model/Poll.v) is separate model code, tied to the standalone reader in
   Proofs/PollSched.v (C15_poll_header below).  Over the whole domain, unbounded N.
   Only statements; proofs are in Proofs/VarIntLaws.v. *)
From MQ Require Import Proofs.Tactics Base.VarInt Spec.SpecTopic Proofs.VarIntLaws.
Open Scope N_scope.

Definition width (n : N) : N := if n <? 128 then 1 else if n <? 16384 then 2 else if n <? 2097152 then 3 else 4.

(* the reported encoded size *)
Theorem C15_var_int_len : forall n, n < 268435456 -> var_int_len n = Ok (width n).
Proof. exact var_int_len_ok. Qed.
Print Assumptions C15_var_int_len.

(* the writer emits exactly that many bytes, 1 to 4 *)
Theorem C15_write_len : forall n, n < 268435456 -> len (write_var_int n) = width n /\ 1 <= width n <= 4.
Proof. exact write_len. Qed.
Print Assumptions C15_write_len.

(* ... and it is the minimal form: k bytes suffice exactly when n < 128^k; the last byte has no
   continuation bit and is non-zero unless n = 0; it is the MQTT 1.5.5 number format *)
Theorem C15_write_minimal : forall n k, n < 268435456 -> 1 <= k <= 4 ->
  (len (write_var_int n) <= k <-> n < 128 ^ k).
Proof. exact write_minimal. Qed.
Print Assumptions C15_write_minimal.
Theorem C15_write_last : forall n, n < 268435456 ->
  last (write_var_int n) 0 < 128 /\ (0 < n -> last (write_var_int n) 0 <> 0).
Proof. exact write_last. Qed.
Print Assumptions C15_write_last.
Theorem C15_write_is_spec : forall n, n < 268435456 -> write_var_int n = Spec.vbi_print n.
Proof. exact write_is_spec. Qed.
Print Assumptions C15_write_is_spec.
Theorem C15_write_bytes : forall n, n < 268435456 -> Forall (fun b => b < 256) (write_var_int n).
Proof. exact write_bytes_ok. Qed.
Print Assumptions C15_write_bytes.

(* the reader inverts the writer, reports the bytes consumed and leaves the rest untouched *)
Theorem C15_read_write : forall n t r, n < 268435456 ->
  decode_var_int t (write_var_int n ++ r) = ROk (n, width n) r.
Proof. exact read_write. Qed.
Print Assumptions C15_read_write.

(* whatever the reader accepts is below 2^28 and consumed 1..4 bytes of the input *)
Theorem C15_read_bound : forall t d v k r, Forall (fun b => b < 256) d -> decode_var_int t d = ROk (v, k) r ->
  v < 268435456 /\ 1 <= k <= 4 /\ exists c, d = c ++ r /\ len c = k.
Proof. exact read_bound. Qed.
Print Assumptions C15_read_bound.

(* encodings longer than four bytes are rejected *)
Theorem C15_read_too_long : forall t b0 b1 b2 b3 r, 128 <= b0 -> 128 <= b1 -> 128 <= b2 -> 128 <= b3 ->
  decode_var_int t (b0 :: b1 :: b2 :: b3 :: r) = RErr InvalidVarByteInt.
Proof. exact read_too_long. Qed.
Print Assumptions C15_read_too_long.

(* total = remaining + 1 + size of its encoding; header and remaining length invert that *)
Theorem C15_total_len : forall r, r < 268435456 -> total_len r = Ok (r + 1 + width r).
Proof. exact total_len_ok. Qed.
Print Assumptions C15_total_len.
Theorem C15_header_len : forall r, r < 268435456 -> header_len (r + 1 + width r) = 1 + width r.
Proof. exact header_len_total. Qed.
Print Assumptions C15_header_len.
Theorem C15_remaining_len : forall prof r, r < 268435456 -> remaining_len prof (r + 1 + width r) = Ok r.
Proof. exact remaining_len_total. Qed.
Print Assumptions C15_remaining_len.

(* 268,435,456 and above are rejected by every helper *)
Theorem C15_too_large : forall n, 268435456 <= n ->
  var_int_len n = Err InvalidVarByteInt /\ total_len n = Err InvalidVarByteInt /\
  var_byte_int_try n = Err InvalidVarByteInt.
Proof. exact too_large. Qed.
Print Assumptions C15_too_large.
Theorem C15_var_byte_int : forall n, n < 268435456 -> var_byte_int_try n = Ok n.
Proof. exact var_byte_int_try_ok. Qed.
Print Assumptions C15_var_byte_int.

Example ex_C15 : write_var_int 16384 = [128; 128; 1] /\ decode_var_int TEof [255; 255; 255; 127; 9] = ROk (268435455, 4) [9]
                 /\ total_len 268435455 = Ok 268435460.
Proof. repeat split. Qed.
