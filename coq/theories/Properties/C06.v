(* Properties/C06.v — Blocking, async and poll decoders agree with each other.
   Model: F3/F5 (Model/Frontends.v): dec_async = Packet::decode_async, dec_block = Packet::decode
   (block_on of the async decoder on a slice, EOF mapped to Ok(None)), header_dec = Header::decode,
   poll1 = PollPacket over one always-ready reader (by C05 the same as under any schedule).
   The three dispatch tables (decode_async, block_decode, build_empty_packet) are separate model code,
   as in the Rust, so their agreement is a real lemma.  d is ANY byte string.
   Forced hypotheses (both are the known finding KF2 showing up as front-end disagreement, witnesses in
   Proofs/FrontAgree.v C06_invalid_remaining_length_boundary, C06_io_counterexample):
   reject_agree excludes InvalidRemainingLength (the property text does too) and I/O errors (an I/O
   error from the strict decoder means the stream ends inside the frame, i.e. d does not start with a
   complete frame: C06_v*_frame_not_io). *)
From MQ Require Import Proofs.Tactics Model.Valid Model.Stream Proofs.PollSched Proofs.FrontAgree Proofs.FrontAgreeProf.
Open Scope N_scope.

Theorem C06_v3_accept_agree : forall prof d t n body p,
  rr_res V3.packet (F3.poll1 prof d t) = Some (Ok (n, body, p)) ->
  exists rest, F3.dec_async prof t d = ROk p rest /\ F3.dec_block prof d = BOk p /\ len d = n + len rest.
Proof. exact FrontAgree.C06_v3_accept_agree. Qed.
Print Assumptions C06_v3_accept_agree.
Theorem C06_v3_reject_agree : forall prof d t e,
  rr_res V3.packet (F3.poll1 prof d t) = Some (Err e) -> e <> InvalidRemainingLength -> is_io e = false ->
  F3.dec_async prof t d = RErr e /\ F3.dec_block prof d = BErr e.
Proof. exact FrontAgree.C06_v3_reject_agree. Qed.
Print Assumptions C06_v3_reject_agree.
(* on a string that starts with a complete frame the strict decoder never reports an I/O error *)
Theorem C06_v3_frame_not_io : forall prof d t k, complete_frame d ->
  rr_res V3.packet (F3.poll1 prof d t) <> Some (Err (IoError k)).
Proof. exact FrontAgree.C06_v3_frame_not_io. Qed.
Print Assumptions C06_v3_frame_not_io.
(* blocking = async with end-of-input mapped to "incomplete", for packets and for bare headers *)
Theorem C06_v3_block_is_async : forall prof d, F3.dec_block prof d = map_eof (F3.dec_async prof TEof d).
Proof. exact FrontAgree.C06_v3_block_is_async. Qed.
Print Assumptions C06_v3_block_is_async.
Theorem C06_v3_header_block_is_async : forall d, F3.header_dec d = V3.header_decode TEof d.
Proof. exact FrontAgree.C06_v3_header_block_is_async. Qed.
Print Assumptions C06_v3_header_block_is_async.
(* both build profiles decode identically *)
Theorem C06_v3_profile_independent : forall t d, F3.dec_async Debug t d = F3.dec_async Release t d.
Proof. exact C06_v3_async_profile_independent. Qed.
Print Assumptions C06_v3_profile_independent.

(* ---------------- v5 ---------------- *)
Theorem C06_v5_accept_agree : forall prof d t n body p,
  rr_res V5.packet (F5.poll1 prof d t) = Some (Ok (n, body, p)) ->
  exists rest, F5.dec_async prof t d = ROk p rest /\ F5.dec_block prof d = BOk p /\ len d = n + len rest.
Proof. exact FrontAgree.C06_v5_accept_agree. Qed.
Print Assumptions C06_v5_accept_agree.
Theorem C06_v5_reject_agree : forall prof d t e,
  rr_res V5.packet (F5.poll1 prof d t) = Some (Err e) -> e <> InvalidRemainingLength -> is_io e = false ->
  F5.dec_async prof t d = RErr e /\ F5.dec_block prof d = BErr e.
Proof. exact FrontAgree.C06_v5_reject_agree. Qed.
Print Assumptions C06_v5_reject_agree.
(* on a string that starts with a complete frame the strict decoder never reports an I/O error *)
Theorem C06_v5_frame_not_io : forall prof d t k, complete_frame d ->
  rr_res V5.packet (F5.poll1 prof d t) <> Some (Err (IoError k)).
Proof. exact FrontAgree.C06_v5_frame_not_io. Qed.
Print Assumptions C06_v5_frame_not_io.
(* blocking = async with end-of-input mapped to "incomplete", for packets and for bare headers *)
Theorem C06_v5_block_is_async : forall prof d, F5.dec_block prof d = map_eof (F5.dec_async prof TEof d).
Proof. exact FrontAgree.C06_v5_block_is_async. Qed.
Print Assumptions C06_v5_block_is_async.
Theorem C06_v5_header_block_is_async : forall d, F5.header_dec d = V5.header_decode TEof d.
Proof. exact FrontAgree.C06_v5_header_block_is_async. Qed.
Print Assumptions C06_v5_header_block_is_async.
(* both build profiles decode identically *)
Theorem C06_v5_profile_independent : forall t d, F5.dec_async Debug t d = F5.dec_async Release t d.
Proof. exact C06_v5_async_profile_independent. Qed.
Print Assumptions C06_v5_profile_independent.

(* ... and therefore under EVERY delivery schedule of the same bytes (C05) *)
Theorem C06_v3_accept_agree_any_schedule : forall prof l t n body p,
  rr_res V3.packet (F3.poll_drive prof l t) = Some (Ok (n, body, p)) ->
  exists rest, F3.dec_async prof t (bytes_of l) = ROk p rest /\ F3.dec_block prof (bytes_of l) = BOk p /\
               len (bytes_of l) = n + len rest.
Proof.
  intros prof l t n body p H.
  destruct (FrontAgree.C05_v3_same_as_one_read prof l t) as [E _]. rewrite E in H.
  exact (FrontAgree.C06_v3_accept_agree prof (bytes_of l) t n body p H).
Qed.
Print Assumptions C06_v3_accept_agree_any_schedule.
Theorem C06_v3_reject_agree_any_schedule : forall prof l t e,
  rr_res V3.packet (F3.poll_drive prof l t) = Some (Err e) -> e <> InvalidRemainingLength -> is_io e = false ->
  F3.dec_async prof t (bytes_of l) = RErr e /\ F3.dec_block prof (bytes_of l) = BErr e.
Proof.
  intros prof l t e H Hn Hio.
  destruct (FrontAgree.C05_v3_same_as_one_read prof l t) as [E _]. rewrite E in H.
  exact (FrontAgree.C06_v3_reject_agree prof (bytes_of l) t e H Hn Hio).
Qed.
Print Assumptions C06_v3_reject_agree_any_schedule.

(* ---------------- v5 ---------------- *)
(* ... and therefore under EVERY delivery schedule of the same bytes (C05) *)
Theorem C06_v5_accept_agree_any_schedule : forall prof l t n body p,
  rr_res V5.packet (F5.poll_drive prof l t) = Some (Ok (n, body, p)) ->
  exists rest, F5.dec_async prof t (bytes_of l) = ROk p rest /\ F5.dec_block prof (bytes_of l) = BOk p /\
               len (bytes_of l) = n + len rest.
Proof.
  intros prof l t n body p H.
  destruct (FrontAgree.C05_v5_same_as_one_read prof l t) as [E _]. rewrite E in H.
  exact (FrontAgree.C06_v5_accept_agree prof (bytes_of l) t n body p H).
Qed.
Print Assumptions C06_v5_accept_agree_any_schedule.
Theorem C06_v5_reject_agree_any_schedule : forall prof l t e,
  rr_res V5.packet (F5.poll_drive prof l t) = Some (Err e) -> e <> InvalidRemainingLength -> is_io e = false ->
  F5.dec_async prof t (bytes_of l) = RErr e /\ F5.dec_block prof (bytes_of l) = BErr e.
Proof.
  intros prof l t e H Hn Hio.
  destruct (FrontAgree.C05_v5_same_as_one_read prof l t) as [E _]. rewrite E in H.
  exact (FrontAgree.C06_v5_reject_agree prof (bytes_of l) t e H Hn Hio).
Qed.
Print Assumptions C06_v5_reject_agree_any_schedule.

Example ex_C06 :
  rr_res V3.packet (F3.poll1 Debug [48; 5; 0; 1; 97; 120; 121; 192; 0] TEof)
    = Some (Ok (7, [0; 1; 97; 120; 121], V3.Publish {| V3.p_dup := false; V3.p_retain := false; V3.p_qospid := QP0;
                                                        V3.p_topic := [97]; V3.p_payload := [120; 121] |}))
  /\ rr_res V3.packet (F3.poll1 Debug [64; 2; 0; 0; 9] TEof) = Some (Err ZeroPid)
  /\ F3.dec_block Debug [64; 2; 0; 0; 9] = BErr ZeroPid.
Proof. vm_compute. repeat split. Qed.
