(* Properties/C13.v — CONNECT of the other protocol family is identified, not misparsed.
   Model: Types.protocol_new / protocol_decode (Protocol::new / decode_async), V3/V5
   connect_decode_with_protocol (Connect::decode_with_protocol), the three front-ends.
   "After consuming no more than the protocol name and level" is stated, in a model whose errors carry
   no position, as: the refusal is the same when the transport FAILS right after the level byte
   (TFail kind on the first refusal_point bytes) — no later byte was ever requested.  This holds for the
   async and blocking front-ends; the poll front-end by design buffers the whole frame before looking
   at the body (theorems C13_poll_needs_whole_frame_v5_into_v3 and _v3_into_v5 of Proofs/FrontAgreeC13.v), so for it the claim is the error value only. *)
From MQ Require Import Proofs.Tactics Model.Valid Model.Stream Proofs.PollSched Proofs.FrontAgreeC13.
Open Scope N_scope.

Theorem C13_v5_connect_into_v3 : forall prof c vb, I5.valid (V5.Connect c) = true -> V5.encode prof (V5.Connect c) = Ok vb ->
  forall t sfx,
    F3.dec_async prof t (as_ref vb ++ sfx) = RErr (UnexpectedProtocol V500) /\
    F3.dec_block prof (as_ref vb ++ sfx) = BErr (UnexpectedProtocol V500) /\
    (forall l, bytes_of l = as_ref vb ++ sfx ->
       rr_res V3.packet (F3.poll_drive prof l t) = Some (Err (UnexpectedProtocol V500))).
Proof. exact FrontAgreeC13.C13_v5_connect_into_v3. Qed.
Print Assumptions C13_v5_connect_into_v3.

Theorem C13_v3_connect_into_v5 : forall prof c vb, I3.valid (V3.Connect c) = true -> V3.encode prof (V3.Connect c) = Ok vb ->
  (V3.c_protocol c = V310 \/ V3.c_protocol c = V311) /\
  (forall t sfx,
    F5.dec_async prof t (as_ref vb ++ sfx) = RErr (UnexpectedProtocol (V3.c_protocol c)) /\
    F5.dec_block prof (as_ref vb ++ sfx) = BErr (UnexpectedProtocol (V3.c_protocol c)) /\
    (forall l, bytes_of l = as_ref vb ++ sfx ->
       rr_res V5.packet (F5.poll_drive prof l t) = Some (Err (UnexpectedProtocol (V3.c_protocol c))))).
Proof. exact FrontAgreeC13.C13_v3_connect_into_v5. Qed.
Print Assumptions C13_v3_connect_into_v5.

Theorem C13_no_further_read_v5_into_v3 : forall prof c vb, I5.valid (V5.Connect c) = true -> V5.encode prof (V5.Connect c) = Ok vb ->
  let n := refusal_point vb V500 in
  (n < length (as_ref vb))%nat /\
  (forall kind, F3.dec_async prof (TFail kind) (firstn n (as_ref vb)) = RErr (UnexpectedProtocol V500)) /\
  F3.dec_block prof (firstn n (as_ref vb)) = BErr (UnexpectedProtocol V500).
Proof. exact FrontAgreeC13.C13_no_further_read_v5_into_v3. Qed.
Print Assumptions C13_no_further_read_v5_into_v3.
Theorem C13_no_further_read_v3_into_v5 : forall prof c vb, I3.valid (V3.Connect c) = true -> V3.encode prof (V3.Connect c) = Ok vb ->
  let n := refusal_point vb (V3.c_protocol c) in
  (n < length (as_ref vb))%nat /\
  (forall kind, F5.dec_async prof (TFail kind) (firstn n (as_ref vb)) = RErr (UnexpectedProtocol (V3.c_protocol c))) /\
  F5.dec_block prof (firstn n (as_ref vb)) = BErr (UnexpectedProtocol (V3.c_protocol c)).
Proof. exact FrontAgreeC13.C13_no_further_read_v3_into_v5. Qed.
Print Assumptions C13_no_further_read_v3_into_v5.

(* continuing on the remaining bytes with the matching family's known-protocol entry point yields the
   same CONNECT as decoding it natively, and consumes exactly the rest of the packet *)
Theorem C13_resume_v5 : forall prof c vb, I5.valid (V5.Connect c) = true -> V5.encode prof (V5.Connect c) = Ok vb ->
  forall t sfx, exists h hdr_bytes,
    let proto_bytes := concat (protocol_enc V500) in
    let rest_bytes := v5_after_proto c ++ sfx in
    as_ref vb ++ sfx = hdr_bytes ++ proto_bytes ++ rest_bytes /\
    V3.header_decode t (as_ref vb ++ sfx) = ROk h (proto_bytes ++ rest_bytes) /\
    protocol_decode t (proto_bytes ++ rest_bytes) = ROk V500 rest_bytes /\
    V3.connect_decode_with_protocol V500 t rest_bytes = RErr (UnexpectedProtocol V500) /\
    V5.header_decode t (as_ref vb ++ sfx) = ROk h (proto_bytes ++ rest_bytes) /\
    V5.connect_decode_with_protocol h V500 t rest_bytes = ROk c sfx /\
    F5.dec_async prof t (as_ref vb ++ sfx) = ROk (V5.Connect c) sfx.
Proof. exact FrontAgreeC13.C13_resume_v5. Qed.
Print Assumptions C13_resume_v5.
Theorem C13_resume_v3 : forall prof c vb, I3.valid (V3.Connect c) = true -> V3.encode prof (V3.Connect c) = Ok vb ->
  forall t sfx, exists h hdr_bytes,
    let proto_bytes := concat (protocol_enc (V3.c_protocol c)) in
    let rest_bytes := v3_after_proto c ++ sfx in
    as_ref vb ++ sfx = hdr_bytes ++ proto_bytes ++ rest_bytes /\
    V5.header_decode t (as_ref vb ++ sfx) = ROk h (proto_bytes ++ rest_bytes) /\
    protocol_decode t (proto_bytes ++ rest_bytes) = ROk (V3.c_protocol c) rest_bytes /\
    V5.connect_decode_with_protocol h (V3.c_protocol c) t rest_bytes = RErr (UnexpectedProtocol (V3.c_protocol c)) /\
    V3.header_decode t (as_ref vb ++ sfx) = ROk h (proto_bytes ++ rest_bytes) /\
    V3.connect_decode_with_protocol (V3.c_protocol c) t rest_bytes = ROk c sfx /\
    F3.dec_async prof t (as_ref vb ++ sfx) = ROk (V3.Connect c) sfx.
Proof. exact FrontAgreeC13.C13_resume_v3. Qed.
Print Assumptions C13_resume_v3.

(* name/level pairs other than (MQIsdp,3), (MQTT,4), (MQTT,5) are rejected as invalid protocol *)
Theorem C13_protocol_new_ok : forall name lvl p,
  protocol_new name lvl = Ok p <-> name = protocol_name p /\ lvl = protocol_level p.
Proof. exact FrontAgreeC13.C13_protocol_new_ok. Qed.
Print Assumptions C13_protocol_new_ok.
Theorem C13_protocol_new_rejects : forall name lvl, (forall p, (name, lvl) <> protocol_to_pair p) ->
  protocol_new name lvl = if utf8_valid name then Err (InvalidProtocol name lvl) else Err InvalidString.
Proof. exact FrontAgreeC13.C13_protocol_new_rejects. Qed.
Print Assumptions C13_protocol_new_rejects.

Example ex_C13 :
  protocol_new [77; 81; 84; 84] 6 = Err (InvalidProtocol [77; 81; 84; 84] 6)
  /\ protocol_new [77; 81; 84; 84] 5 = Ok V500
  /\ F3.dec_block Debug [16; 13; 0; 4; 77; 81; 84; 84; 5; 2; 0; 10; 0; 0; 0] = BErr (UnexpectedProtocol V500).
Proof. vm_compute. repeat split. Qed.
