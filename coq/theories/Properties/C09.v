(* Properties/C09.v — All encoder entry points emit the same bytes.
   Model: V3.encode / V5.encode (Packet::encode, including the fixed-array fast paths Fixed2/Fixed4,
   which are separate code), VarBytes/as_ref, Frontends.encode_async_with (Packet::encode_async =
   encode, then one tokio write_all), Frontends.encode_stream_with (Encodable::encode(&body, &mut w):
   one std write_all per chunk), scripted sinks (WAccept n | WPend | WZero | WFail k).
   A sink is `benign` when every write accepts >= 1 byte or (async) returns Pending or (sync) is an
   Interrupted that write_all retries.  Determinism across repeated invocations is by construction
   in a pure model and is carried by the differential run (op enc twice). *)
From MQ Require Import Proofs.Tactics Model.Valid Proofs.VarIntLaws Proofs.Parses Proofs.V3RT Proofs.V5RT Proofs.Sinks.
Open Scope N_scope.

(* packet-level encoding = fixed header followed by what the body's streaming encoder writes;
   holds for the fast paths too (body_chunks3 gives what a streaming body encoder would write) *)
Theorem C09_v3_header_plus_body : forall prof p vb, I3.valid p = true -> V3.encode prof p = Ok vb ->
  exists chunks, chunks = body_chunks3 p /\
    as_ref vb = V3.control_byte p :: write_var_int (body_len3 p) ++ concat chunks /\
    len (concat chunks) = body_len3 p.
Proof. exact v3_encode_shape. Qed.
Print Assumptions C09_v3_header_plus_body.
Theorem C09_v5_header_plus_body : forall prof p vb n, I5.valid p = true -> V5.encode prof p = Ok vb -> body_len5 p = Ok n ->
  exists chunks, (V5.body_enc p = Some (chunks, Ok n) \/ V5.body_enc p = None /\ chunks = []) /\
    as_ref vb = V5.control_byte p :: write_var_int n ++ concat chunks /\ clen chunks = n.
Proof. exact v5_encode_shape. Qed.
Print Assumptions C09_v5_header_plus_body.

(* the byte container exposes exactly its bytes *)
Theorem C09_varbytes_as_ref : forall a b c d l,
  as_ref (Fixed2 a b) = [a; b] /\ as_ref (Fixed4 a b c d) = [a; b; c; d] /\ as_ref (Dynamic l) = l.
Proof. intros. repeat split. Qed.
Print Assumptions C09_varbytes_as_ref.

(* encode_async under every pattern of partial writes and Pending results emits the bytes of encode *)
Theorem C09_async_any_sink : forall vb script, forallb (benign false) script = true ->
  let r := encode_async_with (Ok vb) script in w_ok r = Ok tt /\ w_written r = as_ref vb.
Proof. exact encode_async_any_sink. Qed.
Print Assumptions C09_async_any_sink.
(* the streaming encoder into any io::Write emits the concatenation of its chunks *)
Theorem C09_stream_any_sink : forall chunks script, forallb (benign true) script = true ->
  let r := encode_stream_with chunks script in w_ok r = Ok tt /\ w_written r = concat chunks.
Proof. exact encode_stream_any_sink. Qed.
Print Assumptions C09_stream_any_sink.
(* hence any two sink behaviours see the same bytes, and async = streaming when the chunks are the body *)
Theorem C09_sinks_agree : forall vb s1 s2, forallb (benign false) s1 = true -> forallb (benign false) s2 = true ->
  w_written (encode_async_with (Ok vb) s1) = w_written (encode_async_with (Ok vb) s2).
Proof. exact encode_async_sinks_agree. Qed.
Print Assumptions C09_sinks_agree.

(* all entry points, one statement (v3): blocking bytes = async bytes = header ++ streamed body *)
Theorem C09_v3_all_entry_points : forall prof p vb s1 s2, I3.valid p = true -> V3.encode prof p = Ok vb ->
  forallb (benign false) s1 = true -> forallb (benign true) s2 = true ->
  w_written (encode_async_with (V3.encode prof p) s1) = as_ref vb /\
  as_ref vb = V3.control_byte p :: write_var_int (body_len3 p)
              ++ w_written (encode_stream_with (body_chunks3 p) s2).
Proof.
  intros prof p vb s1 s2 Hv He H1 H2. rewrite He. split.
  - apply (encode_async_any_sink vb s1 H1).
  - destruct (v3_encode_shape prof p vb Hv He) as (chunks & -> & Hs & _).
    destruct (encode_stream_any_sink (body_chunks3 p) s2 H2) as [_ ->]. exact Hs.
Qed.
Print Assumptions C09_v3_all_entry_points.
Theorem C09_v5_all_entry_points : forall prof p vb n chunks s1 s2, I5.valid p = true -> V5.encode prof p = Ok vb ->
  V5.body_enc p = Some (chunks, Ok n) ->
  forallb (benign false) s1 = true -> forallb (benign true) s2 = true ->
  w_written (encode_async_with (V5.encode prof p) s1) = as_ref vb /\
  as_ref vb = V5.control_byte p :: write_var_int n ++ w_written (encode_stream_with chunks s2).
Proof.
  intros prof p vb n chunks s1 s2 Hv He Hb H1 H2. rewrite He. split.
  - apply (encode_async_any_sink vb s1 H1).
  - assert (Hn : body_len5 p = Ok n) by (unfold body_len5; rewrite Hb; reflexivity).
    destruct (v5_encode_shape prof p vb n Hv He Hn) as (ch & [Hc|[Hc _]] & Hs & _).
    + rewrite Hb in Hc. inversion Hc; subst ch.
      destruct (encode_stream_any_sink chunks s2 H2) as [_ ->]. exact Hs.
    + rewrite Hb in Hc. discriminate.
Qed.
Print Assumptions C09_v5_all_entry_points.

Example ex_C09 :
  let r := encode_async_with (Ok (Fixed4 64 2 0 7)) [WPend; WAccept 1; WPend; WAccept 2; WAccept 5] in
  w_ok r = Ok tt /\ w_written r = [64; 2; 0; 7].
Proof. vm_compute. split; reflexivity. Qed.
