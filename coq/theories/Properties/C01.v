(* Properties/C01.v — Encode then decode is the identity for every valid packet.
   Model: V3.encode / V5.encode (Packet::encode), the three decoder front-ends of Model/Frontends.v,
   Model/Valid.v I3.valid / I5.valid = the codec's valid domain of the property (fields <= 65535 bytes,
   >= 1 topic, protocol of the family, Maximum QoS 0/1, flagged payload UTF-8, on top of the invariants
   Rust's field types enforce).  The theorems hold for list fields of ANY length (properties, user
   properties, topics, codes) and both build profiles.  "total size within the 4-byte remaining length"
   is the hypothesis that encode returns Ok (C02_v*_encode_ok: it does whenever the body is < 2^28).
   The poll statement is for EVERY delivery schedule l of the bytes followed by anything (sfx): it
   reports total = number of bytes of the encoding, hands back the raw body, and leaves exactly sfx. *)
From MQ Require Import Proofs.Tactics Model.Valid Model.Stream Proofs.V3RT Proofs.V5RT Proofs.FrontRT.
Open Scope N_scope.

Theorem C01_v3_async : forall prof p vb, I3.valid p = true -> V3.encode prof p = Ok vb ->
  forall t rest, F3.dec_async prof t (as_ref vb ++ rest) = ROk p rest.
Proof. exact FrontRT3.C01_v3_async. Qed.
Print Assumptions C01_v3_async.
Theorem C01_v3_block : forall prof p vb, I3.valid p = true -> V3.encode prof p = Ok vb ->
  forall rest, F3.dec_block prof (as_ref vb ++ rest) = BOk p.
Proof. exact FrontRT3.C01_v3_block. Qed.
Print Assumptions C01_v3_block.
Theorem C01_v3_poll : forall prof p vb, I3.valid p = true -> V3.encode prof p = Ok vb ->
  forall (l : list atom) t sfx, bytes_of l = as_ref vb ++ sfx ->
    let r := F3.poll_drive prof l t in
    exists body, rr_res V3.packet r = Some (Ok (len (as_ref vb), body, p))
      /\ as_ref vb = V3.control_byte p :: write_var_int (len body) ++ body
      /\ bytes_of (rr_rest V3.packet r) = sfx.
Proof. exact FrontRT3.C01_v3_poll. Qed.
Print Assumptions C01_v3_poll.

(* ---------------- v5 ---------------- *)
Theorem C01_v5_async : forall prof p vb, I5.valid p = true -> V5.encode prof p = Ok vb ->
  forall t rest, F5.dec_async prof t (as_ref vb ++ rest) = ROk p rest.
Proof. exact FrontRT5.C01_v5_async. Qed.
Print Assumptions C01_v5_async.
Theorem C01_v5_block : forall prof p vb, I5.valid p = true -> V5.encode prof p = Ok vb ->
  forall rest, F5.dec_block prof (as_ref vb ++ rest) = BOk p.
Proof. exact FrontRT5.C01_v5_block. Qed.
Print Assumptions C01_v5_block.
Theorem C01_v5_poll : forall prof p vb, I5.valid p = true -> V5.encode prof p = Ok vb ->
  forall (l : list atom) t sfx, bytes_of l = as_ref vb ++ sfx ->
    let r := F5.poll_drive prof l t in
    exists body, rr_res V5.packet r = Some (Ok (len (as_ref vb), body, p))
      /\ as_ref vb = V5.control_byte p :: write_var_int (len body) ++ body
      /\ bytes_of (rr_rest V5.packet r) = sfx.
Proof. exact FrontRT5.C01_v5_poll. Qed.
Print Assumptions C01_v5_poll.

(* encoding succeeds on the valid domain whenever the size fits the 4-byte remaining length *)
Theorem C01_v3_encode_succeeds : forall prof p, I3.valid p = true -> body_len3 p < 268435456 -> exists vb, V3.encode prof p = Ok vb.
Proof. exact v3_encode_ok. Qed.
Print Assumptions C01_v3_encode_succeeds.
Theorem C01_v5_encode_succeeds : forall prof p n, I5.valid p = true -> body_len5 p = Ok n -> n < 268435456 ->
  exists vb, V5.encode prof p = Ok vb.
Proof. exact v5_encode_ok. Qed.
Print Assumptions C01_v5_encode_succeeds.

(* non-vacuity: concrete packets with wills, properties, user properties satisfy the hypotheses *)
Example ex_C01_v3 : I3.valid V3RT.ex_connect = true /\ I3.valid V3RT.ex_subscribe = true.
Proof. split; vm_compute; reflexivity. Qed.
Example ex_C01_v5 : I5.valid V5RT.ex_connect = true /\ I5.valid V5RT.ex_publish = true.
Proof. split; vm_compute; reflexivity. Qed.
