(* Properties/C10.v — Encoder output is a conformant MQTT packet per an independent decoder.
   For every valid packet of v3.1 / v3.1.1 / v5.0, the bytes the encoder emits are parsed by the reference
   parser (Spec/SpecParse.v: written from the OASIS specifications with its own tables — packet-type
   and flag nibbles, minimal variable-byte remaining length, big-endian integers, length-prefixed UTF-8
   strings, property identifiers and their wire types and carriers, reason-code numbers — in strict
   mode: non-minimal variable byte integers are malformed) to exactly the original packet value.
   The content is the equality of the model's tables (from the code) with the Spec's (from the
   standard); the pinned leniencies of DESIGN.md section 4 do not concern encoder output except L12
   (levels 3 and 4 share one grammar). *)
From MQ Require Import Proofs.Tactics Model.Valid Spec.SpecParse Proofs.TopicFilterEq Proofs.Spec3 Proofs.Spec5
  Proofs.V3RT Proofs.V5RT.
Open Scope N_scope.

Theorem C10_v3_conformant : forall prof p vb, I3.valid p = true -> V3.encode prof p = Ok vb ->
  SP.parse3_strict (as_ref vb) = Some p.
Proof. exact (v3_conformant filter_spec). Qed.
Print Assumptions C10_v3_conformant.

Theorem C10_v5_conformant : forall prof p vb, I5.valid p = true -> V5.encode prof p = Ok vb ->
  SP.parse5_strict (as_ref vb) = Some p.
Proof. exact v5_conformant. Qed.
Print Assumptions C10_v5_conformant.

(* non-vacuity: the concrete CONNECTs / SUBSCRIBE / PUBLISH of the round-trip files are valid and encodable *)
Example ex_C10 :
  I3.valid V3RT.ex_connect = true /\ I5.valid V5RT.ex_connect = true /\ I5.valid V5RT.ex_publish = true
  /\ (exists vb, V5.encode Debug V5RT.ex_publish = Ok vb /\ SP.parse5_strict (as_ref vb) = Some V5RT.ex_publish).
Proof.
  split; [vm_compute; reflexivity|]. split; [vm_compute; reflexivity|]. split; [vm_compute; reflexivity|].
  eexists. split; vm_compute; reflexivity.
Qed.
