(* Properties/C04.v — Malformed frames are rejected: acceptance equals the MQTT grammar.
   Model: the strict (poll-based) decoder.  On a complete frame `cb :: write_var_int (len body) ++ body`
   (remaining length minimally encoded, body exactly the declared number of bytes) the poll front-end
   computes strictX prof cb (len body) body (Proofs/Spec3Base.v, Spec5Def.v): Header::new_with, then
   build_empty_packet, else block_decode on exactly the body, accepting iff it returns a packet with
   nothing left over.  C04_v*_poll_is_strict ties this function to the real poll run (F*.poll1, and by
   C05 to the run under every delivery schedule): the front-end accepts P iff strictX = Some P, and
   otherwise returns an error, never a packet.
   Spec: SP.parse3 / SP.parse5 (Spec/SpecParse.v) — the reference parser written from the OASIS texts,
   structured by slicing, with its own tables (flag nibbles, property table with wire types and
   carriers, reason-code tables, connect-flag and subscription-option layouts, topic rules); the pinned
   leniencies L1-L12 / D1-D3 of DESIGN.md section 4 are the only deviations from the standard.
   `parseX true` is the standard (non-minimal variable byte integers are malformed); `parseX false`
   also reads non-minimal ones.  The property quantifies over frames whose variable byte integers are
   minimal, i.e. on which both modes agree. *)
From MQ Require Import Proofs.Tactics Model.Valid Model.Stream Spec.SpecParse Proofs.VarIntLaws Proofs.TopicFilterEq
  Proofs.PollSched Proofs.FrontAgree Proofs.Spec3Base Proofs.Spec3 Proofs.Spec5Def Proofs.Spec5.
Open Scope N_scope.

(* ---------------- v3: equality with the grammar, no side condition ---------------- *)
Theorem C04_v3_accept_iff_grammar : forall prof cb body, bytes_okb (cb :: body) = true -> len body < 268435456 ->
  strict3 prof cb (len body) body = SP.parse3 true (cb :: write_var_int (len body) ++ body).
Proof. exact (v3_accept_iff_grammar filter_spec). Qed.
Print Assumptions C04_v3_accept_iff_grammar.

(* ---------------- v5 ---------------- *)
(* whatever the code accepts is grammatical (up to integer minimality), with the same field values *)
Theorem C04_v5_sound : forall prof cb body p, bytes_okb (cb :: body) = true -> len body < 268435456 ->
  strict5 prof cb (len body) body = Some p ->
  SP.parse5 false (cb :: write_var_int (len body) ++ body) = Some p.
Proof. exact v5_grammar_sound. Qed.
Print Assumptions C04_v5_sound.
(* every well-formed frame (minimal integers) is accepted with exactly the grammar's field values *)
Theorem C04_v5_complete : forall prof cb body p, bytes_okb (cb :: body) = true -> len body < 268435456 ->
  SP.parse5 true (cb :: write_var_int (len body) ++ body) = Some p ->
  strict5 prof cb (len body) body = Some p.
Proof. exact v5_grammar_complete. Qed.
Print Assumptions C04_v5_complete.
(* on the frames the property quantifies over, acceptance EQUALS the grammar *)
Theorem C04_v5_accept_iff_grammar : forall prof cb body, bytes_okb (cb :: body) = true -> len body < 268435456 ->
  SP.parse5 true (cb :: write_var_int (len body) ++ body) = SP.parse5 false (cb :: write_var_int (len body) ++ body) ->
  strict5 prof cb (len body) body = SP.parse5 true (cb :: write_var_int (len body) ++ body).
Proof. exact v5_accept_iff_grammar. Qed.
Print Assumptions C04_v5_accept_iff_grammar.
(* the exact characterisation on ALL frames: PUBLISH, SUBSCRIBE, SUBACK, UNSUBACK recompute lengths from the
   decoded values and follow the strict grammar; the other types follow the lenient one *)
Theorem C04_v5_exact : forall prof cb body, bytes_okb (cb :: body) = true -> len body < 268435456 ->
  strict5 prof cb (len body) body = SP.parse5 (recheck5 cb) (frame5 cb body).
Proof. exact v5_exact. Qed.
Print Assumptions C04_v5_exact.

(* ---------------- the function strict3 IS what the poll front-end does on a complete frame ---------------- *)
Theorem C04_v3_poll_is_strict : forall prof cb body t, len body < 268435456 ->
  let r := rr_res V3.packet (F3.poll1 prof (cb :: write_var_int (len body) ++ body) t) in
  match strict3 prof cb (len body) body with
  | Some p => exists total b, r = Some (Ok (total, b, p))
  | None => (exists e, r = Some (Err e)) \/ (exists s, r = Some (Panic s))
  end.
Proof.
  intros prof cb body t Hl. cbv zeta. unfold F3.poll1.
  destruct (poll1_frame V3.packet V3.header_new_with V3.build_empty_packet (V3.block_decode prof) prof t cb
              (write_var_int (len body)) (len body) body [] V3_new_with_rl (vbi_of_write _ Hl) eq_refl) as [Hr _].
  rewrite !app_nil_r in Hr. rewrite Hr. clear Hr.
  unfold frame_result, strict3.
  destruct (V3.header_new_with cb (len body)) as [h|e|s]; cbn [fst].
  - destruct (V3.build_empty_packet h) as [p|]; cbn [fst]; [eexists; eexists; reflexivity|].
    destruct (len body =? 0); cbn [fst]; [left; eexists; reflexivity|].
    unfold body_result.
    destruct (V3.block_decode prof h TEof body) as [p [|x rest]|e|s].
    + eexists; eexists; reflexivity.
    + left; eexists; reflexivity.
    + left. destruct (is_eof e); eexists; reflexivity.
    + right; eexists; reflexivity.
  - left; eexists; reflexivity.
  - right; eexists; reflexivity.
Qed.
Print Assumptions C04_v3_poll_is_strict.

(* ---------------- the function strict5 IS what the poll front-end does on a complete frame ---------------- *)
Theorem C04_v5_poll_is_strict : forall prof cb body t, len body < 268435456 ->
  let r := rr_res V5.packet (F5.poll1 prof (cb :: write_var_int (len body) ++ body) t) in
  match strict5 prof cb (len body) body with
  | Some p => exists total b, r = Some (Ok (total, b, p))
  | None => (exists e, r = Some (Err e)) \/ (exists s, r = Some (Panic s))
  end.
Proof.
  intros prof cb body t Hl. cbv zeta. unfold F5.poll1.
  destruct (poll1_frame V5.packet V5.header_new_with V5.build_empty_packet (V5.block_decode prof) prof t cb
              (write_var_int (len body)) (len body) body [] V5_new_with_rl (vbi_of_write _ Hl) eq_refl) as [Hr _].
  rewrite !app_nil_r in Hr. rewrite Hr. clear Hr.
  unfold frame_result, strict5.
  destruct (V5.header_new_with cb (len body)) as [h|e|s]; cbn [fst].
  - destruct (V5.build_empty_packet h) as [p|]; cbn [fst]; [eexists; eexists; reflexivity|].
    destruct (len body =? 0); cbn [fst]; [left; eexists; reflexivity|].
    unfold body_result.
    destruct (V5.block_decode prof h TEof body) as [p [|x rest]|e|s].
    + eexists; eexists; reflexivity.
    + left; eexists; reflexivity.
    + left. destruct (is_eof e); eexists; reflexivity.
    + right; eexists; reflexivity.
  - left; eexists; reflexivity.
  - right; eexists; reflexivity.
Qed.
Print Assumptions C04_v5_poll_is_strict.

(* ... under every delivery schedule of the frame followed by anything (C05 + the frame characterisation) *)
Theorem C04_v3_poll_is_strict_any_schedule : forall prof cb body l t, len body < 268435456 ->
  bytes_of l = cb :: write_var_int (len body) ++ body ->
  let r := rr_res V3.packet (F3.poll_drive prof l t) in
  match strict3 prof cb (len body) body with
  | Some p => exists total b, r = Some (Ok (total, b, p))
  | None => (exists e, r = Some (Err e)) \/ (exists s, r = Some (Panic s))
  end.
Proof.
  intros prof cb body l t Hl Hb. cbv zeta.
  destruct (FrontAgree.C05_v3_same_as_one_read prof l t) as [E _]. rewrite E, Hb.
  exact (C04_v3_poll_is_strict prof cb body t Hl).
Qed.
Print Assumptions C04_v3_poll_is_strict_any_schedule.

(* ... under every delivery schedule of the frame followed by anything (C05 + the frame characterisation) *)
Theorem C04_v5_poll_is_strict_any_schedule : forall prof cb body l t, len body < 268435456 ->
  bytes_of l = cb :: write_var_int (len body) ++ body ->
  let r := rr_res V5.packet (F5.poll_drive prof l t) in
  match strict5 prof cb (len body) body with
  | Some p => exists total b, r = Some (Ok (total, b, p))
  | None => (exists e, r = Some (Err e)) \/ (exists s, r = Some (Panic s))
  end.
Proof.
  intros prof cb body l t Hl Hb. cbv zeta.
  destruct (FrontAgree.C05_v5_same_as_one_read prof l t) as [E _]. rewrite E, Hb.
  exact (C04_v5_poll_is_strict prof cb body t Hl).
Qed.
Print Assumptions C04_v5_poll_is_strict_any_schedule.

(* non-vacuity: frames on which the two parse modes agree exist on both sides of the verdict *)
Example ex_C04 :
  SP.parse3 true [48; 5; 0; 1; 97; 120; 121] <> None /\ SP.parse3 true [48; 5; 0; 1; 43; 120; 121] = None
  /\ strict3 Debug 48 5 [0; 1; 43; 120; 121] = None
  /\ SP.parse5 true [64; 4; 0; 1; 16; 0] = SP.parse5 false [64; 4; 0; 1; 16; 0]
  /\ strict5 Debug 64 4 [0; 1; 16; 0] <> None.
Proof. vm_compute. repeat split; discriminate. Qed.
