(* Properties/C14.v — Transport failures are surfaced as I/O errors of the same kind.
   Read side: for every valid packet, every position k inside its encoding and every io::ErrorKind, a
   transport that delivers the first k bytes and then fails with that kind (TFail kind) makes the async
   decoder, and the poll decoder under every schedule, return IoError kind — never a packet, a protocol
   error or "incomplete"; with end of stream (TEof) the error is UnexpectedEof, recognised by is_eof.
   Write side (Model/Frontends.v sinks): a failing sink (WFail kind, or a zero-length write) after any
   accepted-byte budget makes encode_async / the streaming encoder return IoError kind (WriteZero for
   Ok(0)) having written exactly a prefix of the correct encoding.  Documented exception:
   std::io::Write::write_all retries ErrorKind::Interrupted (fault_kind true (WFail KInterrupted) = None).
   Conversions: From<io::Error> / Into<io::Error> preserve the kind; protocol errors map to InvalidData. *)
From MQ Require Import Proofs.Tactics Model.Valid Model.Stream Proofs.Parses Proofs.FrontRT Proofs.Sinks.
Open Scope N_scope.

Theorem C14_v3_read_fault : forall prof p vb kind, I3.valid p = true -> V3.encode prof p = Ok vb ->
  forall k, (k < length (as_ref vb))%nat ->
    F3.dec_async prof (TFail kind) (firstn k (as_ref vb)) = RErr (IoError kind)
 /\ (forall l, bytes_of l = firstn k (as_ref vb) ->
       rr_res V3.packet (F3.poll_drive prof l (TFail kind)) = Some (Err (IoError kind))).
Proof. exact FrontRT3.C14_v3_read_fault. Qed.
Print Assumptions C14_v3_read_fault.
Theorem C14_v3_eof : forall prof p vb, I3.valid p = true -> V3.encode prof p = Ok vb ->
  forall k, (k < length (as_ref vb))%nat -> forall t,
    F3.dec_async prof t (firstn k (as_ref vb)) = RErr (io_err t)
 /\ (forall l, bytes_of l = firstn k (as_ref vb) ->
       rr_res V3.packet (F3.poll_drive prof l t) = Some (Err (io_err t)) /\
       bytes_of (rr_rest V3.packet (F3.poll_drive prof l t)) = []).
Proof. exact FrontRT3.C07_C14_v3_any_tail. Qed.
Print Assumptions C14_v3_eof.

(* ---------------- v5 ---------------- *)
Theorem C14_v5_read_fault : forall prof p vb kind, I5.valid p = true -> V5.encode prof p = Ok vb ->
  forall k, (k < length (as_ref vb))%nat ->
    F5.dec_async prof (TFail kind) (firstn k (as_ref vb)) = RErr (IoError kind)
 /\ (forall l, bytes_of l = firstn k (as_ref vb) ->
       rr_res V5.packet (F5.poll_drive prof l (TFail kind)) = Some (Err (IoError kind))).
Proof. exact FrontRT5.C14_v5_read_fault. Qed.
Print Assumptions C14_v5_read_fault.
Theorem C14_v5_eof : forall prof p vb, I5.valid p = true -> V5.encode prof p = Ok vb ->
  forall k, (k < length (as_ref vb))%nat -> forall t,
    F5.dec_async prof t (firstn k (as_ref vb)) = RErr (io_err t)
 /\ (forall l, bytes_of l = firstn k (as_ref vb) ->
       rr_res V5.packet (F5.poll_drive prof l t) = Some (Err (io_err t)) /\
       bytes_of (rr_rest V5.packet (F5.poll_drive prof l t)) = []).
Proof. exact FrontRT5.C07_C14_v5_any_tail. Qed.
Print Assumptions C14_v5_eof.

(* ---------------- write side (family independent: any encoding vb / any chunk list) ---------------- *)
Theorem C14_async_write_fault : forall vb pre bad post kd,
  forallb (benign false) pre = true -> sum_accepts pre < len (as_ref vb) -> fault_kind false bad = Some kd ->
  let r := encode_async_with (Ok vb) (pre ++ bad :: post) in
  w_ok r = Err (IoError kd) /\
  to_io (match w_ok r with Err e => e | _ => InvalidHeader end) = kd /\
  w_written r = firstn (N.to_nat (sum_accepts pre)) (as_ref vb) /\
  (exists rest, as_ref vb = w_written r ++ rest).
Proof. exact encode_async_fault. Qed.
Print Assumptions C14_async_write_fault.
Theorem C14_stream_write_fault : forall chunks pre bad post kd,
  forallb (unit_step true) pre = true -> sum_accepts pre < clen chunks -> fault_kind true bad = Some kd ->
  let r := encode_stream_with chunks (pre ++ bad :: post) in
  w_ok r = Err (IoError kd) /\
  to_io (match w_ok r with Err e => e | _ => InvalidHeader end) = kd /\
  w_written r = firstn (N.to_nat (sum_accepts pre)) (concat chunks) /\
  (exists rest, concat chunks = w_written r ++ rest).
Proof. exact encode_stream_fault. Qed.
Print Assumptions C14_stream_write_fault.
(* which sink steps are faults, and of which kind *)
Theorem C14_fault_kinds : forall sync kd,
  fault_kind sync WZero = Some KWriteZero /\ fault_kind sync (WAccept 0) = Some KWriteZero /\
  (negb (sync && (kd =? KInterrupted)) = true -> fault_kind sync (WFail kd) = Some kd) /\
  benign true (WFail KInterrupted) = true.
Proof.
  intros sync kd. repeat split.
  - apply fault_kind_fail.
Qed.
Print Assumptions C14_fault_kinds.
(* for ANY sink script: only a prefix of the correct encoding is ever written, Ok means all of it, an
   error is the I/O error of some failing step of the script, and the encoder never panics *)
Theorem C14_async_any_script : forall vb script,
  let r := encode_async_with (Ok vb) script in
  (exists rest, as_ref vb = w_written r ++ rest) /\
  (w_ok r = Ok tt -> w_written r = as_ref vb) /\
  (forall e, w_ok r = Err e -> exists st k, In st script /\ fault_kind false st = Some k /\ e = IoError k) /\
  (forall s, w_ok r <> Panic s).
Proof. exact encode_async_sound. Qed.
Print Assumptions C14_async_any_script.

(* ---------------- conversions ---------------- *)
Theorem C14_conversions :
  (forall k, to_io (from_io k) = k) /\ (forall e, is_io e = false -> to_io e = KInvalidData) /\
  (forall k, is_eof (from_io k) = (k =? KUnexpectedEof)) /\ (forall e, is_eof e = true -> is_io e = true).
Proof. split; [exact to_io_from_io|]. split; [exact to_io_non_io|]. split; [exact is_eof_from_io | exact is_eof_is_io]. Qed.
Print Assumptions C14_conversions.

Example ex_C14 :
  F3.dec_async Debug (TFail 5) [48; 5; 0; 1; 97] = RErr (IoError 5)
  /\ w_ok (encode_async_with (Ok (Fixed4 64 2 0 7)) [WAccept 2; WFail 5]) = Err (IoError 5)
  /\ w_written (encode_async_with (Ok (Fixed4 64 2 0 7)) [WAccept 2; WFail 5]) = [64; 2].
Proof. vm_compute. repeat split. Qed.
