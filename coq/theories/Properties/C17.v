(* Properties/C17.v — Shared-subscription parts and filter comparisons are derived from the text.
   Model: Model/Topic.v filter_try, filter_is_shared, shared_group_name, shared_filter, shared_info
   (slicing with str_slice, which panics off a char boundary, as &s[a..b] does), filter_eq,
   filter_cmp (common/types.rs 420-491).  Hash is not modelled: "hash(filter) = hash(text)" is
   carried by the differential run (op tfcmp, hasheq). *)
From MQ Require Import Proofs.Tactics Model.V5 Spec.SpecTopic Proofs.TopicFilterEq Proofs.TopicFilterAcc.
Open Scope N_scope.

Theorem C17_accessors_split : forall prof s f, utf8_valid s = true -> filter_try prof s = Ok f ->
  ftext f = s /\
  filter_is_shared f = starts_with SHARED_PREFIX s /\
  (filter_is_shared f = true ->
     exists name rest, s = SHARED_PREFIX ++ name ++ [SL] ++ rest /\ ~ In SL name /\ name <> [] /\ rest <> [] /\
       shared_group_name f = Ok (Some name) /\ shared_filter f = Ok (Some rest) /\
       shared_info f = Ok (Some (name, rest))) /\
  (filter_is_shared f = false ->
     shared_group_name f = Ok None /\ shared_filter f = Ok None /\ shared_info f = Ok None).
Proof. exact accessors_split. Qed.
Print Assumptions C17_accessors_split.

Theorem C17_split_unique : forall name rest name' rest', ~ In SL name -> ~ In SL name' ->
  name ++ [SL] ++ rest = name' ++ [SL] ++ rest' -> name = name' /\ rest = rest'.
Proof. exact split_unique. Qed.
Print Assumptions C17_split_unique.

Theorem C17_accessors_unique : forall prof s f name rest, utf8_valid s = true -> filter_try prof s = Ok f ->
  s = SHARED_PREFIX ++ name ++ [SL] ++ rest -> ~ In SL name ->
  shared_group_name f = Ok (Some name) /\ shared_filter f = Ok (Some rest) /\ shared_info f = Ok (Some (name, rest)).
Proof. exact accessors_unique. Qed.
Print Assumptions C17_accessors_unique.

(* converting a filter back to text and parsing it again is the identity (any profile) *)
Theorem C17_reparse : forall prof prof' s f, utf8_valid s = true -> filter_try prof s = Ok f ->
  filter_try prof' (ftext f) = Ok f.
Proof. exact filter_reparse. Qed.
Print Assumptions C17_reparse.

(* a filter value is determined by its text *)
Theorem C17_text_inj : forall prof s s' f f', utf8_valid s = true -> utf8_valid s' = true ->
  filter_try prof s = Ok f -> filter_try prof s' = Ok f' -> ftext f = ftext f' -> f = f'.
Proof. exact filter_try_text_inj. Qed.
Print Assumptions C17_text_inj.

Theorem C17_eq_text : forall a b, filter_eq a b = true <-> ftext a = ftext b.
Proof. exact filter_eq_text. Qed.
Print Assumptions C17_eq_text.
Theorem C17_cmp_text : forall a b, filter_cmp a b = Eq <-> ftext a = ftext b.
Proof. exact filter_cmp_text. Qed.
Print Assumptions C17_cmp_text.
Theorem C17_cmp_antisym : forall a b, filter_cmp a b = CompOpp (filter_cmp b a).
Proof. exact filter_cmp_antisym. Qed.
Print Assumptions C17_cmp_antisym.
Theorem C17_cmp_trans : forall a b c, filter_cmp a b = Lt -> filter_cmp b c = Lt -> filter_cmp a c = Lt.
Proof. exact filter_cmp_trans. Qed.
Print Assumptions C17_cmp_trans.

Example ex_C17 :
  let s := [36;115;104;97;114;101;47; 228;189;160; 47; 47; 97] in       (* "$share/你//a": filter begins with '/' *)
  exists f, filter_try Debug s = Ok f /\ shared_info f = Ok (Some ([228;189;160], [47; 97])).
Proof. vm_compute. eexists; split; reflexivity. Qed.
