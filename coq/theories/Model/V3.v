(* Model/V3.v — MQTT v3.1 / v3.1.1 packets: v3/packet.rs, v3/connect.rs, v3/publish.rs,
   v3/subscribe.rs.  Decoders are written in the reader monad exactly in the order the Rust
   reads and checks; encoders are the list of write_all chunks. *)
From MQ Require Export Model.Topic.
Open Scope N_scope.

Record header := { h_typ : ptype; h_dup : bool; h_qos : N; h_retain : bool; h_rl : N }.

Inductive qospid := QP0 | QP1 (pid : N) | QP2 (pid : N).
Definition qospid_qos (q : qospid) : N := match q with QP0 => 0 | QP1 _ => 1 | QP2 _ => 2 end.

Module V3.

Record will := { w_qos : N; w_retain : bool; w_topic : bytes; w_message : bytes }.
Record connect := {
  c_protocol : protocol; c_clean : bool; c_keep_alive : N; c_client_id : bytes;
  c_will : option will; c_username : option bytes; c_password : option bytes }.
Record connack := { ca_sp : bool; ca_code : N }.
Record publish := { p_dup : bool; p_retain : bool; p_qospid : qospid; p_topic : bytes; p_payload : bytes }.
Record subscribe := { s_pid : N; s_topics : list (tfilter * N) }.
Record suback := { sa_pid : N; sa_codes : list N }.
Record unsubscribe := { u_pid : N; u_topics : list tfilter }.

Inductive packet :=
| Connect (c : connect) | Connack (c : connack) | Publish (p : publish)
| Puback (pid : N) | Pubrec (pid : N) | Pubrel (pid : N) | Pubcomp (pid : N)
| Subscribe (s : subscribe) | Suback (s : suback) | Unsubscribe (u : unsubscribe) | Unsuback (pid : N)
| Pingreq | Pingresp | Disconnect.

(* ---------- Header::new_with (v3/packet.rs 259-297, with fix F5) ---------- *)
Definition mk_header (t : ptype) (rl : N) : header :=
  {| h_typ := t; h_dup := false; h_qos := 0; h_retain := false; h_rl := rl |}.

Definition header_new_with (hd rl : N) : outcome header :=
  let flags := hd mod 16 in
  let simple (t : ptype) (ok : bool) := if ok then Ok (mk_header t rl) else Err InvalidHeader in
  match hd / 16 with
  | 1 => simple PConnect (flags =? 0)
  | 2 => simple PConnack (flags =? 0)
  | 3 => match qos_of_u8 ((hd / 2) mod 4) with
         | Ok q => Ok {| h_typ := PPublish; h_dup := bit hd 3; h_qos := q; h_retain := bit hd 0; h_rl := rl |}
         | Err e => Err e
         | Panic s => Panic s
         end
  | 4 => simple PPuback (flags =? 0)
  | 5 => simple PPubrec (flags =? 0)
  | 6 => simple PPubrel (flags =? 2)
  | 7 => simple PPubcomp (flags =? 0)
  | 8 => simple PSubscribe (flags =? 2)
  | 9 => simple PSuback (flags =? 0)
  | 10 => simple PUnsubscribe (flags =? 2)
  | 11 => simple PUnsuback (flags =? 0)
  | 12 => simple PPingreq ((flags =? 0) && (rl =? 0))
  | 13 => simple PPingresp ((flags =? 0) && (rl =? 0))
  | 14 => simple PDisconnect ((flags =? 0) && (rl =? 0))
  | _ => Err InvalidHeader
  end.

(* Header::decode_async *)
Definition header_decode : reader header :=
  '(typ, rl) <- decode_raw_header ;; lift_outcome (header_new_with typ rl).

(* ---------- Connect ---------- *)
Definition connect_decode_with_protocol (proto : protocol) : reader connect :=
  if 4 <? protocol_level proto then fail (UnexpectedProtocol proto) else
  flags <- read_u8 ;;
  if bit flags 0 then fail (InvalidConnectFlags flags) else
  keep_alive <- read_u16 ;;
  client_id <- read_string ;;
  last_will <-
    (if bit flags 2 then
       topic <- read_string ;;
       message <- read_bytes ;;
       qos <- lift_outcome (qos_of_u8 ((flags / 8) mod 4)) ;;
       topic' <- lift_outcome (name_try topic) ;;
       ret (Some {| w_qos := qos; w_retain := bit flags 5; w_topic := topic'; w_message := message |})
     else if negb ((flags / 8) mod 4 =? 0) then fail (InvalidConnectFlags flags)
     else ret None) ;;
  username <- (if bit flags 7 then s <- read_string ;; ret (Some s) else ret None) ;;
  password <- (if bit flags 6 then s <- read_bytes ;; ret (Some s) else ret None) ;;
  ret {| c_protocol := proto; c_clean := bit flags 1; c_keep_alive := keep_alive;
         c_client_id := client_id; c_will := last_will; c_username := username; c_password := password |}.

Definition connect_decode : reader connect :=
  proto <- protocol_decode ;; connect_decode_with_protocol proto.

Definition connect_flags (c : connect) : N :=
  (if c_clean c then 2 else 0)
  + (match c_username c with Some _ => 128 | None => 0 end)
  + (match c_password c with Some _ => 64 | None => 0 end)
  + (match c_will c with
     | Some w => 4 + (w_qos w) * 8 + (if w_retain w then 32 else 0)
     | None => 0 end).

Definition will_enc (w : will) : list bytes :=
  [be16 (len (w_topic w) mod 65536); w_topic w; be16 (len (w_message w) mod 65536); w_message w].
Definition will_len (w : will) : N := 4 + len (w_topic w) + len (w_message w).

Definition opt_lp (o : option bytes) : list bytes :=
  match o with Some s => [be16 (len s mod 65536); s] | None => [] end.
Definition opt_lp_len (o : option bytes) : N :=
  match o with Some s => 2 + len s | None => 0 end.

Definition connect_enc (c : connect) : list bytes :=
  protocol_enc (c_protocol c)
  ++ [[connect_flags c]; be16 (c_keep_alive c); be16 (len (c_client_id c) mod 65536); c_client_id c]
  ++ (match c_will c with Some w => will_enc w | None => [] end)
  ++ opt_lp (c_username c) ++ opt_lp (c_password c).

Definition connect_len (c : connect) : N :=
  protocol_len (c_protocol c) + (1 + 2) + (2 + len (c_client_id c))
  + (match c_will c with Some w => will_len w | None => 0 end)
  + opt_lp_len (c_username c) + opt_lp_len (c_password c).

(* ---------- Connack ---------- *)
Definition connect_return_code_of_u8 (b : N) : outcome N :=
  if b <? 6 then Ok b else Err (InvalidConnectReturnCode b).

Definition connack_decode : reader connack :=
  payload <- read_exact 2 ;;
  match payload with
  | [f; c] =>
    sp <- (if f =? 0 then ret false else if f =? 1 then ret true else fail (InvalidConnackFlags f)) ;;
    code <- lift_outcome (connect_return_code_of_u8 c) ;;
    ret {| ca_sp := sp; ca_code := code |}
  | _ => rpanic SiteSlice
  end.

(* ---------- Publish ---------- *)
Definition pid_read : reader N := v <- read_u16 ;; lift_outcome (pid_try v).

Definition publish_decode (h : header) : reader publish :=
  topic <- read_string ;;
  rl <- checked_sub (h_rl h) (2 + len topic) ;;
  '(qp, rl) <-
     (if h_qos h =? 0 then ret (QP0, rl)
      else if h_qos h =? 1 then rl' <- checked_sub rl 2 ;; pid <- pid_read ;; ret (QP1 pid, rl')
      else rl' <- checked_sub rl 2 ;; pid <- pid_read ;; ret (QP2 pid, rl')) ;;
  payload <- (if 0 <? rl then read_exact rl else ret []) ;;
  topic' <- lift_outcome (name_try topic) ;;
  ret {| p_dup := h_dup h; p_retain := h_retain h; p_qospid := qp; p_topic := topic'; p_payload := payload |}.

Definition qospid_enc (q : qospid) : list bytes :=
  match q with QP0 => [] | QP1 pid | QP2 pid => [be16 pid] end.
Definition qospid_len (q : qospid) : N := match q with QP0 => 0 | _ => 2 end.

Definition publish_enc (p : publish) : list bytes :=
  [be16 (len (p_topic p) mod 65536); p_topic p] ++ qospid_enc (p_qospid p) ++ [p_payload p].
Definition publish_len (p : publish) : N :=
  2 + len (p_topic p) + qospid_len (p_qospid p) + len (p_payload p).

(* the same length from the field lengths only (used for packets too large to materialise) *)
Definition publish_shape_len (topic_len qos payload_len : N) : N :=
  2 + topic_len + (if qos =? 0 then 0 else 2) + payload_len.

(* ---------- Subscribe / Suback / Unsubscribe ---------- *)
Definition filter_read (prof : profile) : reader tfilter :=
  s <- read_string ;; lift_outcome (filter_try prof s).

Fixpoint subscribe_loop (prof : profile) (fuel : nat) (rl : N) (acc : list (tfilter * N)) : reader (list (tfilter * N)) :=
  if rl =? 0 then ret (rev' acc) else
  match fuel with
  | O => rpanic SiteFuel
  | S f =>
    tf <- filter_read prof ;;
    qb <- read_u8 ;;
    q <- lift_outcome (qos_of_u8 qb) ;;
    rl' <- checked_sub rl (3 + len (ftext tf)) ;;
    subscribe_loop prof f rl' ((tf, q) :: acc)
  end.

Definition subscribe_decode (prof : profile) (rl0 : N) : reader subscribe :=
  pid <- pid_read ;;
  rl <- checked_sub rl0 2 ;;
  if rl =? 0 then fail EmptySubscription else
  fun t d => (topics <- subscribe_loop prof (S (length d)) rl [] ;; ret {| s_pid := pid; s_topics := topics |}) t d.

Definition subscribe_enc (s : subscribe) : list bytes :=
  be16 (s_pid s) :: flat_map (fun '(tf, q) => [be16 (len (ftext tf) mod 65536); ftext tf; [q]]) (s_topics s).
Definition subscribe_len (s : subscribe) : N :=
  2 + fold_right (fun '(tf, _) a => 3 + len (ftext tf) + a) 0 (s_topics s).

Definition subscribe_return_code_of_u8 (v : N) : outcome N :=
  if (v =? 128) || (v <? 3) then Ok v else Err (InvalidQos v).

Fixpoint suback_loop (fuel : nat) (rl : N) (acc : list N) : reader (list N) :=
  if rl =? 0 then ret (rev' acc) else
  match fuel with
  | O => rpanic SiteFuel
  | S f =>
    v <- read_u8 ;;
    code <- lift_outcome (subscribe_return_code_of_u8 v) ;;
    suback_loop f (rl - 1) (code :: acc)
  end.

Definition suback_decode (rl0 : N) : reader suback :=
  pid <- pid_read ;;
  rl <- checked_sub rl0 2 ;;
  fun t d => (codes <- suback_loop (S (length d)) rl [] ;; ret {| sa_pid := pid; sa_codes := codes |}) t d.

Definition suback_enc (s : suback) : list bytes := be16 (sa_pid s) :: map (fun c => [c]) (sa_codes s).
Definition suback_len (s : suback) : N := 2 + N.of_nat (length (sa_codes s)).

Fixpoint unsubscribe_loop (prof : profile) (fuel : nat) (rl : N) (acc : list tfilter) : reader (list tfilter) :=
  if rl =? 0 then ret (rev' acc) else
  match fuel with
  | O => rpanic SiteFuel
  | S f =>
    tf <- filter_read prof ;;
    rl' <- checked_sub rl (2 + len (ftext tf)) ;;
    unsubscribe_loop prof f rl' (tf :: acc)
  end.

Definition unsubscribe_decode (prof : profile) (rl0 : N) : reader unsubscribe :=
  pid <- pid_read ;;
  rl <- checked_sub rl0 2 ;;
  if rl =? 0 then fail EmptySubscription else
  fun t d => (topics <- unsubscribe_loop prof (S (length d)) rl [] ;; ret {| u_pid := pid; u_topics := topics |}) t d.

Definition unsubscribe_enc (u : unsubscribe) : list bytes :=
  be16 (u_pid u) :: flat_map (fun tf => [be16 (len (ftext tf) mod 65536); ftext tf]) (u_topics u).
Definition unsubscribe_len (u : unsubscribe) : N :=
  2 + fold_right (fun tf a => 2 + len (ftext tf) + a) 0 (u_topics u).

(* ---------- Packet::decode_async (v3/packet.rs 70-97) ---------- *)
Definition body_decode_async (prof : profile) (h : header) : reader packet :=
  match h_typ h with
  | PPingreq => ret Pingreq
  | PPingresp => ret Pingresp
  | PDisconnect => ret Disconnect
  | PConnect => c <- connect_decode ;; ret (Connect c)
  | PConnack => c <- connack_decode ;; ret (Connack c)
  | PPublish => p <- publish_decode h ;; ret (Publish p)
  | PPuback => pid <- pid_read ;; ret (Puback pid)
  | PPubrec => pid <- pid_read ;; ret (Pubrec pid)
  | PPubrel => pid <- pid_read ;; ret (Pubrel pid)
  | PPubcomp => pid <- pid_read ;; ret (Pubcomp pid)
  | PSubscribe => s <- subscribe_decode prof (h_rl h) ;; ret (Subscribe s)
  | PSuback => s <- suback_decode (h_rl h) ;; ret (Suback s)
  | PUnsubscribe => u <- unsubscribe_decode prof (h_rl h) ;; ret (Unsubscribe u)
  | PUnsuback => pid <- pid_read ;; ret (Unsuback pid)
  | PAuth => rpanic SiteUnreachable      (* v3 headers never have this type *)
  end.

Definition decode_async (prof : profile) : reader packet :=
  h <- header_decode ;; body_decode_async prof h.

(* ---------- PollHeader for Header (v3/poll.rs) ---------- *)
Definition build_empty_packet (h : header) : option packet :=
  match h_typ h with
  | PPingreq => Some Pingreq
  | PPingresp => Some Pingresp
  | PDisconnect => Some Disconnect
  | _ => None
  end.

Definition block_decode (prof : profile) (h : header) : reader packet :=
  match h_typ h with
  | PConnect => c <- connect_decode ;; ret (Connect c)
  | PConnack => c <- connack_decode ;; ret (Connack c)
  | PPublish => p <- publish_decode h ;; ret (Publish p)
  | PPuback => pid <- pid_read ;; ret (Puback pid)
  | PPubrec => pid <- pid_read ;; ret (Pubrec pid)
  | PPubrel => pid <- pid_read ;; ret (Pubrel pid)
  | PPubcomp => pid <- pid_read ;; ret (Pubcomp pid)
  | PSubscribe => s <- subscribe_decode prof (h_rl h) ;; ret (Subscribe s)
  | PSuback => s <- suback_decode (h_rl h) ;; ret (Suback s)
  | PUnsubscribe => u <- unsubscribe_decode prof (h_rl h) ;; ret (Unsubscribe u)
  | PUnsuback => pid <- pid_read ;; ret (Unsuback pid)
  | PPingreq | PPingresp | PDisconnect | PAuth => rpanic SiteUnreachable
  end.

(* ---------- encoding ---------- *)
(* body chunks and body encode_len of the packets that go through encode_packet *)
Definition body_enc (p : packet) : option (list bytes * N) :=
  match p with
  | Connect c => Some (connect_enc c, connect_len c)
  | Publish p => Some (publish_enc p, publish_len p)
  | Subscribe s => Some (subscribe_enc s, subscribe_len s)
  | Suback s => Some (suback_enc s, suback_len s)
  | Unsubscribe u => Some (unsubscribe_enc u, unsubscribe_len u)
  | _ => None
  end.

Definition publish_control_byte (dup retain : bool) (q : qospid) : N :=
  48 + (match q with QP0 => 0 | QP1 _ => 2 | QP2 _ => 4 end)
  + (if dup then 8 else 0) + (if retain then 1 else 0).

Definition control_byte (p : packet) : N :=
  match p with
  | Connect _ => 16 | Connack _ => 32
  | Publish p => publish_control_byte (p_dup p) (p_retain p) (p_qospid p)
  | Puback _ => 64 | Pubrec _ => 80 | Pubrel _ => 98 | Pubcomp _ => 112
  | Subscribe _ => 130 | Suback _ => 144 | Unsubscribe _ => 162 | Unsuback _ => 176
  | Pingreq => 192 | Pingresp => 208 | Disconnect => 224
  end.

(* common/utils.rs encode_packet *)
Definition encode_packet (prof : profile) (cb : N) (chunks : list bytes) (blen : N) : outcome bytes :=
  match total_len blen with
  | Err e => Err e
  | Panic s => Panic s
  | Ok total =>
    let buf := cb :: write_var_int blen ++ concat chunks in
    match prof with
    | Debug => if len buf =? total then Ok buf else Panic SiteEncodeAssert
    | Release => Ok buf
    end
  end.

Definition encode_with_pid (cb pid : N) : varbytes := Fixed4 cb 2 (pid / 256) (pid mod 256).

(* Packet::encode *)
Definition encode (prof : profile) (p : packet) : outcome varbytes :=
  match p with
  | Pingreq => Ok (Fixed2 192 0)
  | Pingresp => Ok (Fixed2 208 0)
  | Disconnect => Ok (Fixed2 224 0)
  | Connack c => Ok (Fixed4 32 2 (bool_n (ca_sp c)) (ca_code c))
  | Puback pid => Ok (encode_with_pid 64 pid)
  | Pubrec pid => Ok (encode_with_pid 80 pid)
  | Pubrel pid => Ok (encode_with_pid 98 pid)
  | Pubcomp pid => Ok (encode_with_pid 112 pid)
  | Unsuback pid => Ok (encode_with_pid 176 pid)
  | _ => match body_enc p with
         | Some (chunks, blen) =>
           match encode_packet prof (control_byte p) chunks blen with
           | Ok b => Ok (Dynamic b) | Err e => Err e | Panic s => Panic s end
         | None => Panic SiteUnreachable
         end
  end.

(* length of what Packet::encode produces / Packet::encode_len, from the body length alone *)
Definition encode_shape (blen : N) : outcome N := total_len blen.

(* Packet::encode_len *)
Definition encode_len (p : packet) : outcome N :=
  match p with
  | Pingreq | Pingresp | Disconnect => Ok 2
  | Connack _ | Puback _ | Pubrec _ | Pubrel _ | Pubcomp _ | Unsuback _ => Ok 4
  | _ => match body_enc p with
         | Some (_, blen) => total_len blen
         | None => Panic SiteUnreachable
         end
  end.

End V3.
