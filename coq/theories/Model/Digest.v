(* Model/Digest.v — a structural digest of what the three decoder front-ends and the encoder of the
   model return on a byte string.  It is written in Gallina, evaluated once inside Coq (vm_compute) and
   once by the extracted OCaml code on the same inputs on every check run: a disagreement means the
   extraction or the OCaml driver glue is broken (the check then fails as broken machinery).
   Nothing here is part of the model of the code. *)
From MQ Require Export Model.Stream.
Open Scope N_scope.

Definition MOD : N := 18446744073709551616.
Definition mix (h x : N) : N := ((h * 1099511628211) mod MOD + x) mod MOD.
Definition fnv (l : bytes) : N := fold_left mix l 14695981039346656037.

Definition ptype_code (p : ptype) : N :=
  match p with
  | PConnect => 1 | PConnack => 2 | PPublish => 3 | PPuback => 4 | PPubrec => 5 | PPubrel => 6 | PPubcomp => 7
  | PSubscribe => 8 | PSuback => 9 | PUnsubscribe => 10 | PUnsuback => 11 | PPingreq => 12 | PPingresp => 13
  | PDisconnect => 14 | PAuth => 15
  end.

Definition err_code (e : err) : N :=
  match e with
  | InvalidRemainingLength => 1 | EmptySubscription => 2 | ZeroPid => 3
  | InvalidQos n => mix 4 n | InvalidConnectFlags n => mix 5 n | InvalidConnackFlags n => mix 6 n
  | InvalidConnectReturnCode n => mix 7 n | InvalidProtocol name lvl => mix (mix 8 (fnv name)) lvl
  | UnexpectedProtocol p => mix 9 (protocol_level p) | InvalidHeader => 10 | InvalidVarByteInt => 11
  | InvalidTopicName s => mix 12 (fnv s) | InvalidTopicFilter s => mix 13 (fnv s) | InvalidString => 14
  | IoError k => mix 15 k | InvalidReasonCode pt n => mix (mix 16 (ptype_code pt)) n
  | InvalidSubscriptionOption n => mix 17 n | InvalidPayloadFormat => 18 | InvalidResponseTopic => 19
  | InvalidPropertyId n => mix 20 n | InvalidPropertyLength n => mix 21 n
  | InvalidByteProperty id v => mix (mix 22 id) v | DuplicatedProperty id => mix 23 id
  | InvalidProperty pt id => mix (mix 24 (ptype_code pt)) id | InvalidWillProperty id => mix 25 id
  end.

Definition enc_code (o : outcome varbytes) : N :=
  match o with Ok vb => mix 100 (fnv (as_ref vb)) | Err e => mix 101 (err_code e) | Panic _ => 102 end.

Section Dig.
Variable P : Type.
Variable enc : P -> outcome varbytes.
Definition res_code (r : res P) : N :=
  match r with
  | ROk p rest => mix (mix 200 (enc_code (enc p))) (len rest)
  | RErr e => mix 201 (err_code e)
  | RPanic _ => 202
  end.
Definition bres_code (r : bres P) : N :=
  match r with
  | BOk p => mix 300 (enc_code (enc p)) | BNone => 301 | BErr e => mix 302 (err_code e) | BPanic _ => 303
  end.
Definition poll_code (r : runres P) : N :=
  match rr_res P r with
  | None => 400
  | Some (Ok (total, body, p)) => mix (mix (mix (mix 401 total) (fnv body)) (enc_code (enc p))) (len (bytes_of (rr_rest P r)))
  | Some (Err e) => mix 402 (err_code e)
  | Some (Panic _) => 403
  end.
End Dig.

(* async (two tails), blocking, poll over one read, poll one byte per read with a Pending before each *)
Definition one_by_one (d : bytes) : list atom := flat_map (fun b => [APend; AB b; ACut]) d.
Definition digest3 (prof : profile) (d : bytes) : list N :=
  [ res_code V3.packet (V3.encode prof) (F3.dec_async prof TEof d);
    res_code V3.packet (V3.encode prof) (F3.dec_async prof (TFail 5) d);
    bres_code V3.packet (V3.encode prof) (F3.dec_block prof d);
    poll_code V3.packet (V3.encode prof) (F3.poll1 prof d TEof);
    poll_code V3.packet (V3.encode prof) (F3.poll_drive prof (one_by_one d) (TFail 4)) ].
Definition digest5 (prof : profile) (d : bytes) : list N :=
  [ res_code V5.packet (V5.encode prof) (F5.dec_async prof TEof d);
    res_code V5.packet (V5.encode prof) (F5.dec_async prof (TFail 5) d);
    bres_code V5.packet (V5.encode prof) (F5.dec_block prof d);
    poll_code V5.packet (V5.encode prof) (F5.poll1 prof d TEof);
    poll_code V5.packet (V5.encode prof) (F5.poll_drive prof (one_by_one d) (TFail 4)) ].
