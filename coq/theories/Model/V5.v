(* Model/V5.v — MQTT v5.0 packets: v5/packet.rs, v5/connect.rs, v5/publish.rs, v5/subscribe.rs. *)
From MQ Require Export Model.Props.
Open Scope N_scope.

Definition obind {A B} (o : outcome A) (f : A -> outcome B) : outcome B :=
  match o with Ok a => f a | Err e => Err e | Panic s => Panic s end.
Notation "x <-o m ;; f" := (obind m (fun x => f)) (at level 61, m at next level, right associativity).

Module V5.

Record will := { w_qos : N; w_retain : bool; w_props : props; w_topic : bytes; w_payload : bytes }.
Record connect := {
  c_protocol : protocol; c_clean : bool; c_keep_alive : N; c_props : props; c_client_id : bytes;
  c_will : option will; c_username : option bytes; c_password : option bytes }.
Record connack := { ca_sp : bool; ca_code : N; ca_props : props }.
Record publish := { p_dup : bool; p_retain : bool; p_qospid : qospid; p_topic : bytes;
                    p_props : props; p_payload : bytes }.
Record ack := { a_pid : N; a_code : N; a_props : props }.        (* puback pubrec pubrel pubcomp *)
Record subopts := { o_qos : N; o_nl : bool; o_rap : bool; o_rh : N }.
Record subscribe := { s_pid : N; s_props : props; s_topics : list (tfilter * subopts) }.
Record suback := { sa_pid : N; sa_props : props; sa_codes : list N }.   (* suback unsuback *)
Record unsubscribe := { u_pid : N; u_props : props; u_topics : list tfilter }.
Record disconnect := { d_code : N; d_props : props }.             (* disconnect auth *)

Inductive packet :=
| Connect (c : connect) | Connack (c : connack) | Publish (p : publish)
| Puback (a : ack) | Pubrec (a : ack) | Pubrel (a : ack) | Pubcomp (a : ack)
| Subscribe (s : subscribe) | Suback (s : suback) | Unsubscribe (u : unsubscribe) | Unsuback (s : suback)
| Pingreq | Pingresp | Disconnect (d : disconnect) | Auth (d : disconnect).

(* ---------- reason code tables (the from_u8 functions) ---------- *)
Definition mem_n (v : N) (l : list N) : bool := existsb (N.eqb v) l.
Definition CONNECT_CODES : list N :=
  [0; 128; 129; 130; 131; 132; 133; 134; 135; 136; 137; 138; 140; 144; 149; 151; 153; 154; 155; 156; 157; 159].
Definition DISCONNECT_CODES : list N :=
  [0; 4; 128; 129; 130; 131; 135; 137; 139; 141; 142; 143; 144; 147; 148; 149; 150; 151; 152; 153;
   154; 155; 156; 157; 158; 159; 160; 161; 162].
Definition AUTH_CODES : list N := [0; 24; 25].
Definition PUBACK_CODES : list N := [0; 16; 128; 131; 135; 144; 145; 151; 153].   (* also pubrec *)
Definition PUBREL_CODES : list N := [0; 146].                                      (* also pubcomp *)
Definition SUBACK_CODES : list N := [0; 1; 2; 128; 131; 135; 143; 145; 151; 158; 161; 162].
Definition UNSUBACK_CODES : list N := [0; 17; 128; 131; 135; 143; 145].

Definition codes_of (pt : ptype) : list N :=
  match pt with
  | PConnack => CONNECT_CODES | PDisconnect => DISCONNECT_CODES | PAuth => AUTH_CODES
  | PPuback | PPubrec => PUBACK_CODES | PPubrel | PPubcomp => PUBREL_CODES
  | PSuback => SUBACK_CODES | PUnsuback => UNSUBACK_CODES
  | _ => []
  end.

(* X::from_u8(b).ok_or(InvalidReasonCode(header.typ, b)) — `table` is the packet whose table is
   used, `pt` the type stored in the header that was passed in *)
Definition reason_read (table pt : ptype) : reader N :=
  b <- read_u8 ;; if mem_n b (codes_of table) then ret b else fail (InvalidReasonCode pt b).

(* ---------- Header::new_with (v5/packet.rs, with fix F5) ---------- *)
Definition header_new_with (hd rl : N) : outcome header :=
  let flags := hd mod 16 in
  let simple (t : ptype) (ok : bool) := if ok then Ok (V3.mk_header t rl) else Err InvalidHeader in
  match hd / 16 with
  | 1 => simple PConnect (flags =? 0)
  | 2 => simple PConnack (flags =? 0)
  | 3 => match qos_of_u8 ((hd / 2) mod 4) with
         | Ok q => Ok {| h_typ := PPublish; h_dup := bit hd 3; h_qos := q; h_retain := bit hd 0; h_rl := rl |}
         | Err e => Err e
         | Panic s => Panic s
         end
  | 4 => simple PPuback (flags =? 0)
  | 5 => simple PPubrec (flags =? 0)
  | 6 => simple PPubrel (flags =? 2)
  | 7 => simple PPubcomp (flags =? 0)
  | 8 => simple PSubscribe (flags =? 2)
  | 9 => simple PSuback (flags =? 0)
  | 10 => simple PUnsubscribe (flags =? 2)
  | 11 => simple PUnsuback (flags =? 0)
  | 12 => simple PPingreq ((flags =? 0) && (rl =? 0))
  | 13 => simple PPingresp ((flags =? 0) && (rl =? 0))
  | 14 => simple PDisconnect (flags =? 0)
  | 15 => simple PAuth (flags =? 0)
  | _ => Err InvalidHeader
  end.

Definition header_decode : reader header :=
  '(typ, rl) <- decode_raw_header ;; lift_outcome (header_new_with typ rl).

(* ---------- Connect ---------- *)
Definition will_decode (qos : N) (retain : bool) : reader will :=
  props <- decode_props CtxWill WILL_PROPS ;;
  topic <- read_string ;;
  topic' <- lift_outcome (name_try topic) ;;
  payload <- read_bytes ;;
  if (match pget props PayloadFormatIndicator with Some (VN 1) => true | _ => false end)
     && negb (utf8_valid payload)
  then fail InvalidPayloadFormat
  else ret {| w_qos := qos; w_retain := retain; w_props := props; w_topic := topic'; w_payload := payload |}.

Definition connect_decode_with_protocol (h : header) (proto : protocol) : reader connect :=
  match proto with
  | V500 =>
    flags <- read_u8 ;;
    if bit flags 0 then fail (InvalidConnectFlags flags) else
    keep_alive <- read_u16 ;;
    props <- decode_props (CtxPacket (h_typ h)) CONNECT_PROPS ;;
    client_id <- read_string ;;
    last_will <-
      (if bit flags 2 then
         qos <- lift_outcome (qos_of_u8 ((flags / 8) mod 4)) ;;
         w <- will_decode qos (bit flags 5) ;;
         ret (Some w)
       else if negb ((flags / 8) mod 4 =? 0) then fail (InvalidConnectFlags flags)
       else ret None) ;;
    username <- (if bit flags 7 then s <- read_string ;; ret (Some s) else ret None) ;;
    password <- (if bit flags 6 then s <- read_bytes ;; ret (Some s) else ret None) ;;
    ret {| c_protocol := proto; c_clean := bit flags 1; c_keep_alive := keep_alive; c_props := props;
           c_client_id := client_id; c_will := last_will; c_username := username; c_password := password |}
  | _ => fail (UnexpectedProtocol proto)
  end.

Definition connect_decode (h : header) : reader connect :=
  proto <- protocol_decode ;; connect_decode_with_protocol h proto.

Definition connect_flags (c : connect) : N :=
  (if c_clean c then 2 else 0)
  + (match c_username c with Some _ => 128 | None => 0 end)
  + (match c_password c with Some _ => 64 | None => 0 end)
  + (match c_will c with
     | Some w => 4 + (w_qos w) * 8 + (if w_retain w then 32 else 0)
     | None => 0 end).

Definition lp_chunks (s : bytes) : list bytes := [be16 (len s mod 65536); s].

Definition will_enc (w : will) : list bytes :=
  props_enc WILL_PROPS (w_props w) ++ lp_chunks (w_topic w) ++ lp_chunks (w_payload w).
Definition will_len (w : will) : outcome N :=
  pl <-o props_len WILL_PROPS (w_props w) ;; Ok (pl + 4 + len (w_topic w) + len (w_payload w)).

Definition connect_enc (c : connect) : list bytes :=
  protocol_enc (c_protocol c)
  ++ [[connect_flags c]; be16 (c_keep_alive c)]
  ++ props_enc CONNECT_PROPS (c_props c)
  ++ lp_chunks (c_client_id c)
  ++ (match c_will c with Some w => will_enc w | None => [] end)
  ++ V3.opt_lp (c_username c) ++ V3.opt_lp (c_password c).

Definition connect_len (c : connect) : outcome N :=
  pl <-o props_len CONNECT_PROPS (c_props c) ;;
  wl <-o (match c_will c with Some w => will_len w | None => Ok 0 end) ;;
  Ok (protocol_len (c_protocol c) + (1 + 2) + pl + (2 + len (c_client_id c)) + wl
      + V3.opt_lp_len (c_username c) + V3.opt_lp_len (c_password c)).

(* ---------- Connack ---------- *)
Definition connack_decode (h : header) : reader connack :=
  payload <- read_exact 2 ;;
  match payload with
  | [f; c] =>
    sp <- (if f =? 0 then ret false else if f =? 1 then ret true else fail (InvalidConnackFlags f)) ;;
    code <- (if mem_n c CONNECT_CODES then ret c else fail (InvalidReasonCode (h_typ h) c)) ;;
    props <- decode_props (CtxPacket (h_typ h)) CONNACK_PROPS ;;
    ret {| ca_sp := sp; ca_code := code; ca_props := props |}
  | _ => rpanic SiteSlice
  end.

Definition connack_enc (c : connack) : list bytes :=
  [[bool_n (ca_sp c)]; [ca_code c]] ++ props_enc CONNACK_PROPS (ca_props c).
Definition connack_len (c : connack) : outcome N :=
  pl <-o props_len CONNACK_PROPS (ca_props c) ;; Ok (2 + pl).

(* ---------- Publish ---------- *)
Definition publish_decode (h : header) : reader publish :=
  topic <- read_string ;;
  rl <- checked_sub (h_rl h) (2 + len topic) ;;
  '(qp, rl) <-
     (if h_qos h =? 0 then ret (QP0, rl)
      else if h_qos h =? 1 then rl' <- checked_sub rl 2 ;; pid <- V3.pid_read ;; ret (QP1 pid, rl')
      else rl' <- checked_sub rl 2 ;; pid <- V3.pid_read ;; ret (QP2 pid, rl')) ;;
  props <- decode_props (CtxPacket (h_typ h)) PUBLISH_PROPS ;;
  pl <- lift_outcome (props_len PUBLISH_PROPS props) ;;
  rl <- checked_sub rl pl ;;
  payload <-
    (if 0 <? rl then
       data <- read_exact rl ;;
       if (match pget props PayloadFormatIndicator with Some (VN 1) => true | _ => false end)
          && negb (utf8_valid data)
       then fail InvalidPayloadFormat else ret data
     else ret []) ;;
  topic' <- lift_outcome (name_try topic) ;;
  ret {| p_dup := h_dup h; p_retain := h_retain h; p_qospid := qp; p_topic := topic';
         p_props := props; p_payload := payload |}.

Definition publish_enc (p : publish) : list bytes :=
  lp_chunks (p_topic p) ++ V3.qospid_enc (p_qospid p) ++ props_enc PUBLISH_PROPS (p_props p) ++ [p_payload p].
Definition publish_len (p : publish) : outcome N :=
  pl <-o props_len PUBLISH_PROPS (p_props p) ;;
  Ok (2 + len (p_topic p) + V3.qospid_len (p_qospid p) + pl + len (p_payload p)).

Definition publish_shape_len (topic_len qos props_body payload_len : N) : outcome N :=
  pl <-o props_len_of_body props_body ;;
  Ok (2 + topic_len + (if qos =? 0 then 0 else 2) + pl + payload_len).

(* ---------- Puback / Pubrec / Pubrel / Pubcomp (four copies of the same code) ---------- *)
Definition ack_decode (table : ptype) (h : header) : reader ack :=
  pid <- V3.pid_read ;;
  if h_rl h =? 2 then ret {| a_pid := pid; a_code := 0; a_props := props_empty |}
  else if h_rl h =? 3 then
    code <- reason_read table (h_typ h) ;; ret {| a_pid := pid; a_code := code; a_props := props_empty |}
  else
    code <- reason_read table (h_typ h) ;;
    props <- decode_props (CtxPacket (h_typ h)) ACK_PROPS ;;
    ret {| a_pid := pid; a_code := code; a_props := props |}.

(* with fix F2: the reason code and the properties are written whenever the properties are
   not the default, mirroring encode_len *)
Definition ack_enc (a : ack) : list bytes :=
  be16 (a_pid a) ::
  (if props_is_default (a_props a) then (if a_code a =? 0 then [] else [[a_code a]])
   else [a_code a] :: props_enc ACK_PROPS (a_props a)).
Definition ack_len (a : ack) : outcome N :=
  if props_is_default (a_props a) then (if a_code a =? 0 then Ok 2 else Ok 3)
  else pl <-o props_len ACK_PROPS (a_props a) ;; Ok (3 + pl).

(* ack with a non-empty property section of the given size *)
Definition ack_shape_len (props_body : N) : outcome N :=
  pl <-o props_len_of_body props_body ;; Ok (3 + pl).
Definition encode_shape (blen : outcome N) : outcome N := n <-o blen ;; total_len n.

(* ---------- Subscribe ---------- *)
Definition subopts_of_u8 (b : N) : outcome subopts :=
  if 0 <? b / 64 then Err (InvalidSubscriptionOption b)
  else if b mod 4 =? 3 then Err (InvalidSubscriptionOption b)
  else if (b / 16) mod 4 =? 3 then Err (InvalidSubscriptionOption b)
  else Ok {| o_qos := b mod 4; o_nl := bit b 2; o_rap := bit b 3; o_rh := (b / 16) mod 4 |}.

Definition subopts_to_u8 (o : subopts) : N :=
  o_qos o + (if o_nl o then 4 else 0) + (if o_rap o then 8 else 0) + o_rh o * 16.

Fixpoint subscribe_loop (prof : profile) (fuel : nat) (rl : N) (acc : list (tfilter * subopts))
  : reader (list (tfilter * subopts)) :=
  if rl =? 0 then ret (rev' acc) else
  match fuel with
  | O => rpanic SiteFuel
  | S f =>
    tf <- V3.filter_read prof ;;
    ob <- read_u8 ;;
    o <- lift_outcome (subopts_of_u8 ob) ;;
    rl' <- checked_sub rl (3 + len (ftext tf)) ;;
    subscribe_loop prof f rl' ((tf, o) :: acc)
  end.

Definition subscribe_decode (prof : profile) (h : header) : reader subscribe :=
  pid <- V3.pid_read ;;
  props <- decode_props (CtxPacket (h_typ h)) SUBSCRIBE_PROPS ;;
  pl <- lift_outcome (props_len SUBSCRIBE_PROPS props) ;;
  rl <- checked_sub (h_rl h) (2 + pl) ;;
  if rl =? 0 then fail EmptySubscription else
  fun t d => (topics <- subscribe_loop prof (S (length d)) rl [] ;;
              ret {| s_pid := pid; s_props := props; s_topics := topics |}) t d.

Definition subscribe_enc (s : subscribe) : list bytes :=
  be16 (s_pid s) :: props_enc SUBSCRIBE_PROPS (s_props s)
  ++ flat_map (fun '(tf, o) => [be16 (len (ftext tf) mod 65536); ftext tf; [subopts_to_u8 o]]) (s_topics s).
Definition subscribe_len (s : subscribe) : outcome N :=
  pl <-o props_len SUBSCRIBE_PROPS (s_props s) ;;
  Ok (2 + pl + fold_right (fun '(tf, _) a => 3 + len (ftext tf) + a) 0 (s_topics s)).

(* ---------- Suback / Unsuback ---------- *)
Fixpoint codes_loop (table pt : ptype) (fuel : nat) (rl : N) (acc : list N) : reader (list N) :=
  if rl =? 0 then ret (rev' acc) else
  match fuel with
  | O => rpanic SiteFuel
  | S f =>
    code <- reason_read table pt ;;
    codes_loop table pt f (rl - 1) (code :: acc)
  end.

Definition suback_decode (table : ptype) (h : header) : reader suback :=
  pid <- V3.pid_read ;;
  props <- decode_props (CtxPacket (h_typ h)) ACK_PROPS ;;
  pl <- lift_outcome (props_len ACK_PROPS props) ;;
  rl <- checked_sub (h_rl h) (2 + pl) ;;
  fun t d => (codes <- codes_loop table (h_typ h) (S (length d)) rl [] ;;
              ret {| sa_pid := pid; sa_props := props; sa_codes := codes |}) t d.

Definition suback_enc (s : suback) : list bytes :=
  be16 (sa_pid s) :: props_enc ACK_PROPS (sa_props s) ++ map (fun c => [c]) (sa_codes s).
Definition suback_len (s : suback) : outcome N :=
  pl <-o props_len ACK_PROPS (sa_props s) ;; Ok (2 + pl + N.of_nat (length (sa_codes s))).

(* ---------- Unsubscribe (hand-written property loop, uses the bytes of the length) ---------- *)
Fixpoint unsubscribe_loop (prof : profile) (fuel : nat) (rl : N) (acc : list tfilter) : reader (list tfilter) :=
  if rl =? 0 then ret (rev' acc) else
  match fuel with
  | O => rpanic SiteFuel
  | S f =>
    tf <- V3.filter_read prof ;;
    rl' <- checked_sub rl (2 + len (ftext tf)) ;;
    unsubscribe_loop prof f rl' (tf :: acc)
  end.

Definition unsubscribe_decode (prof : profile) (h : header) : reader unsubscribe :=
  pid <- V3.pid_read ;;
  '(props, plen, plen_bytes) <- decode_props_full (CtxPacket (h_typ h)) UNSUBSCRIBE_PROPS ;;
  rl <- checked_sub (h_rl h) (2 + plen_bytes + plen) ;;
  if rl =? 0 then fail EmptySubscription else
  fun t d => (topics <- unsubscribe_loop prof (S (length d)) rl [] ;;
              ret {| u_pid := pid; u_props := props; u_topics := topics |}) t d.

Definition unsubscribe_enc (u : unsubscribe) : list bytes :=
  be16 (u_pid u) :: props_enc UNSUBSCRIBE_PROPS (u_props u)
  ++ flat_map (fun tf => [be16 (len (ftext tf) mod 65536); ftext tf]) (u_topics u).
Definition unsubscribe_len (u : unsubscribe) : outcome N :=
  pl <-o props_len UNSUBSCRIBE_PROPS (u_props u) ;;
  Ok (2 + pl + fold_right (fun tf a => 2 + len (ftext tf) + a) 0 (u_topics u)).

(* ---------- Disconnect / Auth ---------- *)
Definition disconnect_decode (h : header) : reader disconnect :=
  if h_rl h =? 0 then ret {| d_code := 0; d_props := props_empty |}
  else if h_rl h =? 1 then
    code <- reason_read PDisconnect (h_typ h) ;; ret {| d_code := code; d_props := props_empty |}
  else
    code <- reason_read PDisconnect (h_typ h) ;;
    props <- decode_props (CtxPacket (h_typ h)) DISCONNECT_PROPS ;;
    ret {| d_code := code; d_props := props |}.

Definition disconnect_enc (d : disconnect) : list bytes :=
  if props_is_default (d_props d) then (if d_code d =? 0 then [] else [[d_code d]])
  else [d_code d] :: props_enc DISCONNECT_PROPS (d_props d).
Definition disconnect_len (d : disconnect) : outcome N :=
  if props_is_default (d_props d) then (if d_code d =? 0 then Ok 0 else Ok 1)
  else pl <-o props_len DISCONNECT_PROPS (d_props d) ;; Ok (1 + pl).

Definition auth_decode (h : header) : reader disconnect :=
  if h_rl h =? 0 then ret {| d_code := 0; d_props := props_empty |}
  else
    code <- reason_read PAuth (h_typ h) ;;
    props <- decode_props (CtxPacket (h_typ h)) AUTH_PROPS ;;
    ret {| d_code := code; d_props := props |}.

Definition auth_enc (d : disconnect) : list bytes :=
  if (d_code d =? 0) && props_is_default (d_props d) then []
  else [d_code d] :: props_enc AUTH_PROPS (d_props d).
Definition auth_len (d : disconnect) : outcome N :=
  if (d_code d =? 0) && props_is_default (d_props d) then Ok 0
  else pl <-o props_len AUTH_PROPS (d_props d) ;; Ok (1 + pl).

(* ---------- Packet::decode_async (v5/packet.rs) ---------- *)
Definition body_decode_async (prof : profile) (h : header) : reader packet :=
  match h_typ h with
  | PPingreq => ret Pingreq
  | PPingresp => ret Pingresp
  | PConnect => c <- connect_decode h ;; ret (Connect c)
  | PConnack => c <- connack_decode h ;; ret (Connack c)
  | PPublish => p <- publish_decode h ;; ret (Publish p)
  | PPuback => a <- ack_decode PPuback h ;; ret (Puback a)
  | PPubrec => a <- ack_decode PPubrec h ;; ret (Pubrec a)
  | PPubrel => a <- ack_decode PPubrel h ;; ret (Pubrel a)
  | PPubcomp => a <- ack_decode PPubcomp h ;; ret (Pubcomp a)
  | PSubscribe => s <- subscribe_decode prof h ;; ret (Subscribe s)
  | PSuback => s <- suback_decode PSuback h ;; ret (Suback s)
  | PUnsubscribe => u <- unsubscribe_decode prof h ;; ret (Unsubscribe u)
  | PUnsuback => s <- suback_decode PUnsuback h ;; ret (Unsuback s)
  | PDisconnect => d <- disconnect_decode h ;; ret (Disconnect d)
  | PAuth => d <- auth_decode h ;; ret (Auth d)
  end.

Definition decode_async (prof : profile) : reader packet :=
  h <- header_decode ;; body_decode_async prof h.

(* ---------- PollHeader for Header (v5/poll.rs) ---------- *)
Definition build_empty_packet (h : header) : option packet :=
  match h_typ h with
  | PPingreq => Some Pingreq
  | PPingresp => Some Pingresp
  | PAuth => if h_rl h =? 0 then Some (Auth {| d_code := 0; d_props := props_empty |}) else None
  | PDisconnect => if h_rl h =? 0 then Some (Disconnect {| d_code := 0; d_props := props_empty |}) else None
  | _ => None
  end.

Definition block_decode (prof : profile) (h : header) : reader packet :=
  match h_typ h with
  | PConnect => c <- connect_decode h ;; ret (Connect c)
  | PConnack => c <- connack_decode h ;; ret (Connack c)
  | PPublish => p <- publish_decode h ;; ret (Publish p)
  | PPuback => a <- ack_decode PPuback h ;; ret (Puback a)
  | PPubrec => a <- ack_decode PPubrec h ;; ret (Pubrec a)
  | PPubrel => a <- ack_decode PPubrel h ;; ret (Pubrel a)
  | PPubcomp => a <- ack_decode PPubcomp h ;; ret (Pubcomp a)
  | PSubscribe => s <- subscribe_decode prof h ;; ret (Subscribe s)
  | PSuback => s <- suback_decode PSuback h ;; ret (Suback s)
  | PUnsubscribe => u <- unsubscribe_decode prof h ;; ret (Unsubscribe u)
  | PUnsuback => s <- suback_decode PUnsuback h ;; ret (Unsuback s)
  | PDisconnect => d <- disconnect_decode h ;; ret (Disconnect d)
  | PAuth => d <- auth_decode h ;; ret (Auth d)
  | PPingreq | PPingresp => rpanic SiteUnreachable
  end.

(* ---------- encoding ---------- *)
Definition body_enc (p : packet) : option (list bytes * outcome N) :=
  match p with
  | Connect c => Some (connect_enc c, connect_len c)
  | Connack c => Some (connack_enc c, connack_len c)
  | Publish p => Some (publish_enc p, publish_len p)
  | Puback a | Pubrec a | Pubrel a | Pubcomp a => Some (ack_enc a, ack_len a)
  | Subscribe s => Some (subscribe_enc s, subscribe_len s)
  | Suback s | Unsuback s => Some (suback_enc s, suback_len s)
  | Unsubscribe u => Some (unsubscribe_enc u, unsubscribe_len u)
  | Disconnect d => Some (disconnect_enc d, disconnect_len d)
  | Auth d => Some (auth_enc d, auth_len d)
  | Pingreq | Pingresp => None
  end.

Definition control_byte (p : packet) : N :=
  match p with
  | Connect _ => 16 | Connack _ => 32
  | Publish p => V3.publish_control_byte (p_dup p) (p_retain p) (p_qospid p)
  | Puback _ => 64 | Pubrec _ => 80 | Pubrel _ => 98 | Pubcomp _ => 112
  | Subscribe _ => 130 | Suback _ => 144 | Unsubscribe _ => 162 | Unsuback _ => 176
  | Pingreq => 192 | Pingresp => 208 | Disconnect _ => 224 | Auth _ => 240
  end.

Definition encode (prof : profile) (p : packet) : outcome varbytes :=
  match p with
  | Pingreq => Ok (Fixed2 192 0)
  | Pingresp => Ok (Fixed2 208 0)
  | _ => match body_enc p with
         | Some (chunks, blen) =>
           n <-o blen ;;
           b <-o V3.encode_packet prof (control_byte p) chunks n ;;
           Ok (Dynamic b)
         | None => Panic SiteUnreachable
         end
  end.

Definition encode_len (p : packet) : outcome N :=
  match p with
  | Pingreq | Pingresp => Ok 2
  | _ => match body_enc p with
         | Some (_, blen) => n <-o blen ;; total_len n
         | None => Panic SiteUnreachable
         end
  end.

End V5.
