(* Model/Poll.v — GenericPollPacket::poll (common/poll.rs), written as the Rust loops are,
   over a scripted transport.  Generic in the PollHeader implementation (a Section). *)
From MQ Require Export Model.V5.
Open Scope N_scope.

(* ---------- transport ---------- *)
Inductive atom := AB (b : N) | ACut | APend.

(* up to cap leading bytes; a Cut ends the read and is dropped; Pend / end / cap ends it and stays *)
Fixpoint atake (l : list atom) (cap : N) : bytes * list atom :=
  match l with
  | AB b :: r => if cap =? 0 then ([], l)
                 else let '(bs, r') := atake r (N.pred cap) in (b :: bs, r')
  | ACut :: r => ([], r)
  | _ => ([], l)
  end.
Fixpoint astrip (l : list atom) : list atom := match l with ACut :: r => astrip r | _ => l end.

Inductive rd := RdPending (rest : list atom) | RdData (bs : bytes) (rest : list atom) | RdTail.
Definition poll_read (cap : N) (l : list atom) : rd :=
  match astrip l with
  | [] => RdTail
  | APend :: r => RdPending r
  | l' => let '(bs, r) := atake l' cap in RdData bs r
  end.

Fixpoint bytes_of (l : list atom) : bytes :=
  match l with AB b :: r => b :: bytes_of r | _ :: r => bytes_of r | [] => [] end.

Inductive event := EvData (cap size : N) | EvPend (cap : N) | EvTail (cap : N).

Section Poll.
Variable P : Type.
Variable new_with : N -> N -> outcome header.
Variable build_empty : header -> option P.
Variable block_decode : header -> reader P.

Inductive pstate :=
| SHeader (cb : option N) (vidx : N) (vint : N)
| SBody (h : header) (total : N) (idx : N) (buf : bytes).

Definition pinit : pstate := SHeader None 0 0.

Definition presult := outcome (N * bytes * P).

(* block_decode on the filled buffer plus the leftover / EOF mapping (poll.rs 166-177) *)
Definition body_result (h : header) (total : N) (buf : bytes) : presult :=
  match block_decode h TEof buf with
  | ROk p [] => Ok (total, buf, p)
  | ROk _ (_ :: _) => Err InvalidRemainingLength
  | RErr e => if is_eof e then Err InvalidRemainingLength else Err e
  | RPanic s => Panic s
  end.

Inductive stepres :=
| Continue (s : pstate) (rest : list atom) (pended : bool) (ev : event)
| Finished (r : presult) (s : pstate) (rest : list atom) (ev : event).

(* the capacity offered to poll_read in a state *)
Definition cap_of (s : pstate) : N :=
  match s with SHeader _ _ _ => 1 | SBody h _ idx _ => h_rl h - idx end.

(* what the header branch does once the variable byte integer is complete (poll.rs 118-137) *)
Definition header_done (cb vidx vint : N) : presult + pstate :=
  match new_with cb vint with
  | Err e => inl (Err e)
  | Panic s => inl (Panic s)
  | Ok h =>
    match build_empty h with
    | Some p => inl (Ok (1 + 1 + vidx, [], p))
    | None => if h_rl h =? 0 then inl (Err InvalidRemainingLength)
              else inr (SBody h (1 + 1 + vidx + h_rl h) 0 [])
    end
  end.

(* one poll_read and the code that follows it *)
Definition pstep (prof : profile) (s : pstate) (l : list atom) (t : tail) : stepres :=
  let cap := cap_of s in
  match poll_read cap l with
  | RdPending r => Continue s r true (EvPend cap)
  | RdTail => Finished (Err (io_err t)) s [] (EvTail cap)
  | RdData [] r => Finished (Err (IoError KUnexpectedEof)) s r (EvData cap 0)
  | RdData bs r =>
    let ev := EvData cap (len bs) in
    match s with
    | SHeader cbo vidx vint =>
      match bs with
      | [b] =>
        match cbo with
        | None => Continue (SHeader (Some b) vidx vint) r false ev
        | Some cb =>
          let vint' := vint + (b mod 128) * 2 ^ (7 * vidx) in
          if b <? 128 then
            match header_done cb vidx vint' with
            | inl res => Finished res (SHeader (Some cb) vidx vint') r ev
            | inr s' => Continue s' r false ev
            end
          else if vidx <? 3 then Continue (SHeader (Some cb) (vidx + 1) vint') r false ev
          else Finished (Err InvalidVarByteInt) (SHeader (Some cb) vidx vint') r ev
        end
      | _ => Finished (Panic SiteSlice) s r ev      (* cannot happen: capacity is 1 *)
      end
    | SBody h total idx buf =>
      let idx' := idx + len bs in
      let buf' := buf ++ bs in
      if (match prof with Debug => h_rl h <? idx' | Release => false end)
      then Finished (Panic SitePollIdxAssert) (SBody h total idx' buf') r ev
      else if idx' =? h_rl h then Finished (body_result h total buf') (SBody h total idx' buf') r ev
      else Continue (SBody h total idx' buf') r false ev
    end
  end.

Record runres := { rr_res : option presult;        (* None: out of fuel *)
                   rr_state : pstate;
                   rr_rest : list atom;
                   rr_pend : N;
                   rr_trace : list event }.

(* poll until Ready, re-polling after every Pending (the caller's loop) *)
Fixpoint prun (prof : profile) (fuel : nat) (s : pstate) (l : list atom) (t : tail)
         (pend : N) (tr : list event) : runres :=
  match fuel with
  | O => {| rr_res := None; rr_state := s; rr_rest := l; rr_pend := pend; rr_trace := rev' tr |}
  | S f =>
    match pstep prof s l t with
    | Finished r s' rest ev =>
      {| rr_res := Some r; rr_state := s'; rr_rest := rest; rr_pend := pend; rr_trace := rev' (ev :: tr) |}
    | Continue s' rest p ev =>
      prun prof f s' rest t (if p then pend + 1 else pend) (ev :: tr)
    end
  end.

Definition poll_drive (prof : profile) (l : list atom) (t : tail) : runres :=
  prun prof (S (S (length l))) pinit l t 0 [].

(* one always-ready reader offering the whole slice, then the tail *)
Definition poll1 (prof : profile) (d : bytes) (t : tail) : runres :=
  poll_drive prof (map AB d) t.

End Poll.
