(* Model/Props.v — v5 properties: PropertyId, PropertyValue::decode_*, and the macros
   decode_properties!, encode_properties!, encode_property_len!, encode_properties_len!
   (v5/types.rs).  One universal record; each Rust properties struct is the sub-record selected
   by its macro argument list `allowed` (in macro order, which is encode order). *)
From MQ Require Export Model.V3.
Open Scope N_scope.

Inductive prop_id :=
| PayloadFormatIndicator | MessageExpiryInterval | ContentType | ResponseTopic | CorrelationData
| SubscriptionIdentifier | SessionExpiryInterval | AssignedClientIdentifier | ServerKeepAlive
| AuthenticationMethod | AuthenticationData | RequestProblemInformation | WillDelayInterval
| RequestResponseInformation | ResponseInformation | ServerReference | ReasonString
| ReceiveMaximum | TopicAliasMaximum | TopicAlias | MaximumQoS | RetainAvailable
| MaximumPacketSize | WildcardSubscriptionAvailable | SubscriptionIdentifierAvailable
| SharedSubscriptionAvailable.

(* `PropertyId as u8` *)
Definition prop_num (id : prop_id) : N :=
  match id with
  | PayloadFormatIndicator => 1 | MessageExpiryInterval => 2 | ContentType => 3 | ResponseTopic => 8
  | CorrelationData => 9 | SubscriptionIdentifier => 11 | SessionExpiryInterval => 17
  | AssignedClientIdentifier => 18 | ServerKeepAlive => 19 | AuthenticationMethod => 21
  | AuthenticationData => 22 | RequestProblemInformation => 23 | WillDelayInterval => 24
  | RequestResponseInformation => 25 | ResponseInformation => 26 | ServerReference => 28
  | ReasonString => 31 | ReceiveMaximum => 33 | TopicAliasMaximum => 34 | TopicAlias => 35
  | MaximumQoS => 36 | RetainAvailable => 37 | MaximumPacketSize => 39
  | WildcardSubscriptionAvailable => 40 | SubscriptionIdentifierAvailable => 41
  | SharedSubscriptionAvailable => 42
  end.

Definition USER_PROPERTY : N := 38.

(* PropertyId::from_u8, with UserProperty kept apart *)
Inductive prop_key := KUser | KProp (id : prop_id).
Definition prop_of_u8 (v : N) : option prop_key :=
  match v with
  | 1 => Some (KProp PayloadFormatIndicator) | 2 => Some (KProp MessageExpiryInterval)
  | 3 => Some (KProp ContentType) | 8 => Some (KProp ResponseTopic) | 9 => Some (KProp CorrelationData)
  | 11 => Some (KProp SubscriptionIdentifier) | 17 => Some (KProp SessionExpiryInterval)
  | 18 => Some (KProp AssignedClientIdentifier) | 19 => Some (KProp ServerKeepAlive)
  | 21 => Some (KProp AuthenticationMethod) | 22 => Some (KProp AuthenticationData)
  | 23 => Some (KProp RequestProblemInformation) | 24 => Some (KProp WillDelayInterval)
  | 25 => Some (KProp RequestResponseInformation) | 26 => Some (KProp ResponseInformation)
  | 28 => Some (KProp ServerReference) | 31 => Some (KProp ReasonString)
  | 33 => Some (KProp ReceiveMaximum) | 34 => Some (KProp TopicAliasMaximum) | 35 => Some (KProp TopicAlias)
  | 36 => Some (KProp MaximumQoS) | 37 => Some (KProp RetainAvailable) | 38 => Some KUser
  | 39 => Some (KProp MaximumPacketSize) | 40 => Some (KProp WildcardSubscriptionAvailable)
  | 41 => Some (KProp SubscriptionIdentifierAvailable) | 42 => Some (KProp SharedSubscriptionAvailable)
  | _ => None
  end.

Definition prop_id_eqb (a b : prop_id) : bool := prop_num a =? prop_num b.
Definition prop_mem (id : prop_id) (l : list prop_id) : bool := existsb (prop_id_eqb id) l.

Inductive wtype := WBool | WU16 | WU32 | WStr | WTopic | WBin | WVar | WQos.

Definition prop_wtype (id : prop_id) : wtype :=
  match id with
  | PayloadFormatIndicator | RequestProblemInformation | RequestResponseInformation | RetainAvailable
  | WildcardSubscriptionAvailable | SubscriptionIdentifierAvailable | SharedSubscriptionAvailable => WBool
  | ServerKeepAlive | ReceiveMaximum | TopicAliasMaximum | TopicAlias => WU16
  | MessageExpiryInterval | SessionExpiryInterval | WillDelayInterval | MaximumPacketSize => WU32
  | ContentType | AssignedClientIdentifier | AuthenticationMethod | ResponseInformation
  | ServerReference | ReasonString => WStr
  | ResponseTopic => WTopic
  | CorrelationData | AuthenticationData => WBin
  | SubscriptionIdentifier => WVar
  | MaximumQoS => WQos
  end.

Inductive pvalue := VN (n : N) | VB (b : bytes).

Record props := {
  pr_pfi : option pvalue; pr_mei : option pvalue; pr_ct : option pvalue; pr_rt : option pvalue;
  pr_cd : option pvalue; pr_sid : option pvalue; pr_sei : option pvalue; pr_aci : option pvalue;
  pr_ska : option pvalue; pr_am : option pvalue; pr_ad : option pvalue; pr_rpi : option pvalue;
  pr_wdi : option pvalue; pr_rri : option pvalue; pr_ri : option pvalue; pr_sr : option pvalue;
  pr_rs : option pvalue; pr_rm : option pvalue; pr_tam : option pvalue; pr_ta : option pvalue;
  pr_mq : option pvalue; pr_ra : option pvalue; pr_mps : option pvalue; pr_wsa : option pvalue;
  pr_sia : option pvalue; pr_ssa : option pvalue;
  pr_user : list (bytes * bytes)
}.

Definition props_empty : props :=
  Build_props None None None None None None None None None None None None None
              None None None None None None None None None None None None None [].

Definition pget (p : props) (id : prop_id) : option pvalue :=
  match id with
  | PayloadFormatIndicator => pr_pfi p | MessageExpiryInterval => pr_mei p | ContentType => pr_ct p
  | ResponseTopic => pr_rt p | CorrelationData => pr_cd p | SubscriptionIdentifier => pr_sid p
  | SessionExpiryInterval => pr_sei p | AssignedClientIdentifier => pr_aci p | ServerKeepAlive => pr_ska p
  | AuthenticationMethod => pr_am p | AuthenticationData => pr_ad p | RequestProblemInformation => pr_rpi p
  | WillDelayInterval => pr_wdi p | RequestResponseInformation => pr_rri p | ResponseInformation => pr_ri p
  | ServerReference => pr_sr p | ReasonString => pr_rs p | ReceiveMaximum => pr_rm p
  | TopicAliasMaximum => pr_tam p | TopicAlias => pr_ta p | MaximumQoS => pr_mq p | RetainAvailable => pr_ra p
  | MaximumPacketSize => pr_mps p | WildcardSubscriptionAvailable => pr_wsa p
  | SubscriptionIdentifierAvailable => pr_sia p | SharedSubscriptionAvailable => pr_ssa p
  end.

Definition pset (p : props) (id : prop_id) (v : option pvalue) : props :=
  let '(Build_props a1 a2 a3 a4 a5 a6 a7 a8 a9 a10 a11 a12 a13 a14 a15 a16 a17 a18 a19 a20 a21 a22 a23 a24 a25 a26 u) := p in
  match id with
  | PayloadFormatIndicator => Build_props v a2 a3 a4 a5 a6 a7 a8 a9 a10 a11 a12 a13 a14 a15 a16 a17 a18 a19 a20 a21 a22 a23 a24 a25 a26 u
  | MessageExpiryInterval => Build_props a1 v a3 a4 a5 a6 a7 a8 a9 a10 a11 a12 a13 a14 a15 a16 a17 a18 a19 a20 a21 a22 a23 a24 a25 a26 u
  | ContentType => Build_props a1 a2 v a4 a5 a6 a7 a8 a9 a10 a11 a12 a13 a14 a15 a16 a17 a18 a19 a20 a21 a22 a23 a24 a25 a26 u
  | ResponseTopic => Build_props a1 a2 a3 v a5 a6 a7 a8 a9 a10 a11 a12 a13 a14 a15 a16 a17 a18 a19 a20 a21 a22 a23 a24 a25 a26 u
  | CorrelationData => Build_props a1 a2 a3 a4 v a6 a7 a8 a9 a10 a11 a12 a13 a14 a15 a16 a17 a18 a19 a20 a21 a22 a23 a24 a25 a26 u
  | SubscriptionIdentifier => Build_props a1 a2 a3 a4 a5 v a7 a8 a9 a10 a11 a12 a13 a14 a15 a16 a17 a18 a19 a20 a21 a22 a23 a24 a25 a26 u
  | SessionExpiryInterval => Build_props a1 a2 a3 a4 a5 a6 v a8 a9 a10 a11 a12 a13 a14 a15 a16 a17 a18 a19 a20 a21 a22 a23 a24 a25 a26 u
  | AssignedClientIdentifier => Build_props a1 a2 a3 a4 a5 a6 a7 v a9 a10 a11 a12 a13 a14 a15 a16 a17 a18 a19 a20 a21 a22 a23 a24 a25 a26 u
  | ServerKeepAlive => Build_props a1 a2 a3 a4 a5 a6 a7 a8 v a10 a11 a12 a13 a14 a15 a16 a17 a18 a19 a20 a21 a22 a23 a24 a25 a26 u
  | AuthenticationMethod => Build_props a1 a2 a3 a4 a5 a6 a7 a8 a9 v a11 a12 a13 a14 a15 a16 a17 a18 a19 a20 a21 a22 a23 a24 a25 a26 u
  | AuthenticationData => Build_props a1 a2 a3 a4 a5 a6 a7 a8 a9 a10 v a12 a13 a14 a15 a16 a17 a18 a19 a20 a21 a22 a23 a24 a25 a26 u
  | RequestProblemInformation => Build_props a1 a2 a3 a4 a5 a6 a7 a8 a9 a10 a11 v a13 a14 a15 a16 a17 a18 a19 a20 a21 a22 a23 a24 a25 a26 u
  | WillDelayInterval => Build_props a1 a2 a3 a4 a5 a6 a7 a8 a9 a10 a11 a12 v a14 a15 a16 a17 a18 a19 a20 a21 a22 a23 a24 a25 a26 u
  | RequestResponseInformation => Build_props a1 a2 a3 a4 a5 a6 a7 a8 a9 a10 a11 a12 a13 v a15 a16 a17 a18 a19 a20 a21 a22 a23 a24 a25 a26 u
  | ResponseInformation => Build_props a1 a2 a3 a4 a5 a6 a7 a8 a9 a10 a11 a12 a13 a14 v a16 a17 a18 a19 a20 a21 a22 a23 a24 a25 a26 u
  | ServerReference => Build_props a1 a2 a3 a4 a5 a6 a7 a8 a9 a10 a11 a12 a13 a14 a15 v a17 a18 a19 a20 a21 a22 a23 a24 a25 a26 u
  | ReasonString => Build_props a1 a2 a3 a4 a5 a6 a7 a8 a9 a10 a11 a12 a13 a14 a15 a16 v a18 a19 a20 a21 a22 a23 a24 a25 a26 u
  | ReceiveMaximum => Build_props a1 a2 a3 a4 a5 a6 a7 a8 a9 a10 a11 a12 a13 a14 a15 a16 a17 v a19 a20 a21 a22 a23 a24 a25 a26 u
  | TopicAliasMaximum => Build_props a1 a2 a3 a4 a5 a6 a7 a8 a9 a10 a11 a12 a13 a14 a15 a16 a17 a18 v a20 a21 a22 a23 a24 a25 a26 u
  | TopicAlias => Build_props a1 a2 a3 a4 a5 a6 a7 a8 a9 a10 a11 a12 a13 a14 a15 a16 a17 a18 a19 v a21 a22 a23 a24 a25 a26 u
  | MaximumQoS => Build_props a1 a2 a3 a4 a5 a6 a7 a8 a9 a10 a11 a12 a13 a14 a15 a16 a17 a18 a19 a20 v a22 a23 a24 a25 a26 u
  | RetainAvailable => Build_props a1 a2 a3 a4 a5 a6 a7 a8 a9 a10 a11 a12 a13 a14 a15 a16 a17 a18 a19 a20 a21 v a23 a24 a25 a26 u
  | MaximumPacketSize => Build_props a1 a2 a3 a4 a5 a6 a7 a8 a9 a10 a11 a12 a13 a14 a15 a16 a17 a18 a19 a20 a21 a22 v a24 a25 a26 u
  | WildcardSubscriptionAvailable => Build_props a1 a2 a3 a4 a5 a6 a7 a8 a9 a10 a11 a12 a13 a14 a15 a16 a17 a18 a19 a20 a21 a22 a23 v a25 a26 u
  | SubscriptionIdentifierAvailable => Build_props a1 a2 a3 a4 a5 a6 a7 a8 a9 a10 a11 a12 a13 a14 a15 a16 a17 a18 a19 a20 a21 a22 a23 a24 v a26 u
  | SharedSubscriptionAvailable => Build_props a1 a2 a3 a4 a5 a6 a7 a8 a9 a10 a11 a12 a13 a14 a15 a16 a17 a18 a19 a20 a21 a22 a23 a24 a25 v u
  end.

Definition pset_user (p : props) (u : list (bytes * bytes)) : props :=
  let '(Build_props a1 a2 a3 a4 a5 a6 a7 a8 a9 a10 a11 a12 a13 a14 a15 a16 a17 a18 a19 a20 a21 a22 a23 a24 a25 a26 _) := p in
  Build_props a1 a2 a3 a4 a5 a6 a7 a8 a9 a10 a11 a12 a13 a14 a15 a16 a17 a18 a19 a20 a21 a22 a23 a24 a25 a26 u.

Definition all_prop_ids : list prop_id :=
  [PayloadFormatIndicator; MessageExpiryInterval; ContentType; ResponseTopic; CorrelationData;
   SubscriptionIdentifier; SessionExpiryInterval; AssignedClientIdentifier; ServerKeepAlive;
   AuthenticationMethod; AuthenticationData; RequestProblemInformation; WillDelayInterval;
   RequestResponseInformation; ResponseInformation; ServerReference; ReasonString; ReceiveMaximum;
   TopicAliasMaximum; TopicAlias; MaximumQoS; RetainAvailable; MaximumPacketSize;
   WildcardSubscriptionAvailable; SubscriptionIdentifierAvailable; SharedSubscriptionAvailable].

(* the macro argument lists, in macro order *)
Definition CONNECT_PROPS := [SessionExpiryInterval; ReceiveMaximum; MaximumPacketSize; TopicAliasMaximum;
  RequestResponseInformation; RequestProblemInformation; AuthenticationMethod; AuthenticationData].
Definition WILL_PROPS := [WillDelayInterval; PayloadFormatIndicator; MessageExpiryInterval; ContentType;
  ResponseTopic; CorrelationData].
Definition CONNACK_PROPS := [SessionExpiryInterval; ReceiveMaximum; MaximumQoS; RetainAvailable;
  MaximumPacketSize; AssignedClientIdentifier; TopicAliasMaximum; ReasonString;
  WildcardSubscriptionAvailable; SubscriptionIdentifierAvailable; SharedSubscriptionAvailable;
  ServerKeepAlive; ResponseInformation; ServerReference; AuthenticationMethod; AuthenticationData].
Definition PUBLISH_PROPS := [PayloadFormatIndicator; MessageExpiryInterval; TopicAlias; ResponseTopic;
  CorrelationData; SubscriptionIdentifier; ContentType].
Definition ACK_PROPS := [ReasonString].          (* puback pubrec pubrel pubcomp suback unsuback *)
Definition SUBSCRIBE_PROPS := [SubscriptionIdentifier].
Definition UNSUBSCRIBE_PROPS : list prop_id := [].
Definition DISCONNECT_PROPS := [SessionExpiryInterval; ReasonString; ServerReference].
Definition AUTH_PROPS := [AuthenticationMethod; AuthenticationData; ReasonString].

(* which error an id outside the list gives: InvalidWillProperty or InvalidProperty(type) *)
Inductive prop_ctx := CtxWill | CtxPacket (pt : ptype).
Definition ctx_err (c : prop_ctx) (id : prop_id) : err :=
  match c with CtxWill => InvalidWillProperty (prop_num id) | CtxPacket pt => InvalidProperty pt (prop_num id) end.

(* ---- values ---- *)
(* decode_property!: the duplicate test has already been done by the caller *)
Definition decode_value (id : prop_id) : reader pvalue :=
  match prop_wtype id with
  | WBool => v <- read_u8 ;; if 1 <? v then fail (InvalidByteProperty (prop_num id) v) else ret (VN v)
  | WU16 => v <- read_u16 ;; ret (VN v)
  | WU32 => v <- read_u32 ;; ret (VN v)
  | WStr => s <- read_string ;; ret (VB s)
  | WTopic => s <- read_string ;; if name_is_invalid s then fail InvalidResponseTopic else ret (VB s)
  | WBin => s <- read_bytes ;; ret (VB s)
  | WVar => '(v, _) <- decode_var_int ;; v' <- lift_outcome (var_byte_int_try v) ;; ret (VN v')
  | WQos => v <- read_u8 ;; if 1 <? v then fail (InvalidByteProperty (prop_num id) v)
                           else match qos_of_u8 v with Ok q => ret (VN q) | _ => rpanic SiteQos01Expect end
  end.

Definition pv_n (v : pvalue) : N := match v with VN n => n | VB _ => 0 end.
Definition pv_b (v : pvalue) : bytes := match v with VB b => b | VN _ => [] end.

(* encode_property!: write_u8 id, then the value *)
Definition encode_value (ty : wtype) (v : pvalue) : list bytes :=
  match ty with
  | WBool | WQos => [[pv_n v]]
  | WU16 => [be16 (pv_n v)]
  | WU32 => [be32 (pv_n v)]
  | WStr | WTopic | WBin => [be16 (len (pv_b v) mod 65536); pv_b v]
  | WVar => map (fun b => [b]) (write_var_int (pv_n v))
  end.

(* encode_property_len!: bytes of the value (without the id byte).  For the subscription
   identifier this is var_int_len(..).expect(..): a value >= 2^28 cannot be constructed
   (VarByteInt::try_from), see var_ok below. *)
Definition value_len (ty : wtype) (v : pvalue) : N :=
  match ty with
  | WBool | WQos => 1
  | WU16 => 2
  | WU32 => 4
  | WStr | WTopic | WBin => 2 + len (pv_b v)
  | WVar => match var_int_len (pv_n v) with Ok k => k | _ => 0 end
  end.

Definition user_len (u : bytes * bytes) : N := 4 + len (fst u) + len (snd u).

(* `user_properties.len() + sum(4 + name.len() + value.len())`, then encode_property_len! per id *)
Definition props_body_len (allowed : list prop_id) (p : props) : N :=
  fold_left (fun a id => match pget p id with Some v => a + (1 + value_len (prop_wtype id) v) | None => a end)
            allowed
            (N.of_nat (length (pr_user p)) + fold_right (fun u a => user_len u + a) 0 (pr_user p)).

(* encode_properties_len!: body + var_int_len(body).expect(..) *)
Definition props_len_of_body (n : N) : outcome N :=
  match var_int_len n with Ok k => Ok (n + k) | _ => Panic SitePropsLenExpect end.
Definition props_len (allowed : list prop_id) (p : props) : outcome N :=
  props_len_of_body (props_body_len allowed p).

Definition user_enc (u : bytes * bytes) : list bytes :=
  [[USER_PROPERTY]; be16 (len (fst u) mod 65536); fst u; be16 (len (snd u) mod 65536); snd u].

(* encode_properties! *)
Definition props_enc (allowed : list prop_id) (p : props) : list bytes :=
  map (fun b => [b]) (write_var_int (props_body_len allowed p))
  ++ flat_map (fun id => match pget p id with
                         | Some v => [prop_num id] :: encode_value (prop_wtype id) v
                         | None => [] end) allowed
  ++ flat_map user_enc (pr_user p).

(* decode_properties! *)
Fixpoint decode_props_loop (fuel : nat) (ctx : prop_ctx) (allowed : list prop_id)
         (plen : N) (n : N) (acc : props) : reader props :=
  if plen <=? n then
    (if plen =? n then ret acc else fail (InvalidPropertyLength plen))
  else
  match fuel with
  | O => rpanic SiteFuel
  | S f =>
    b <- read_u8 ;;
    match prop_of_u8 b with
    | None => fail (InvalidPropertyId b)
    | Some KUser =>
      name <- read_string ;;
      value <- read_string ;;
      decode_props_loop f ctx allowed plen (n + (1 + 4 + len name + len value))
                        (pset_user acc (pr_user acc ++ [(name, value)]))
    | Some (KProp id) =>
      if prop_mem id allowed then
        match pget acc id with
        | Some _ => fail (DuplicatedProperty (prop_num id))
        | None =>
          v <- decode_value id ;;
          decode_props_loop f ctx allowed plen (n + (1 + value_len (prop_wtype id) v)) (pset acc id (Some v))
        end
      else fail (ctx_err ctx id)
    end
  end.

(* returns the properties, the declared property length and the number of bytes of its encoding *)
Definition decode_props_full (ctx : prop_ctx) (allowed : list prop_id) : reader (props * N * N) :=
  '(plen, plen_bytes) <- decode_var_int ;;
  fun t d => (p <- decode_props_loop (S (length d)) ctx allowed plen 0 props_empty ;; ret (p, plen, plen_bytes)) t d.

Definition decode_props (ctx : prop_ctx) (allowed : list prop_id) : reader props :=
  '(p, _, _) <- decode_props_full ctx allowed ;; ret p.

(* `properties == Default::default()` *)
Definition pv_eqb (a b : pvalue) : bool :=
  match a, b with VN x, VN y => x =? y | VB x, VB y => beq_bytes x y | _, _ => false end.
Definition props_is_default (p : props) : bool :=
  forallb (fun id => match pget p id with None => true | Some _ => false end) all_prop_ids
  && match pr_user p with [] => true | _ => false end.
