(* Model/Topic.v — TopicName and TopicFilter (common/types.rs 246-491).
   A Rust String is a byte list that satisfies utf8_valid; chars are utf8_chars. *)
From MQ Require Export Model.Types.
Open Scope N_scope.

Definition SL : N := 47.  (* '/' *)
Definition PL : N := 43.  (* '+' *)
Definition HS : N := 35.  (* '#' *)
Definition SHARED_PREFIX : bytes := [36; 115; 104; 97; 114; 101; 47].   (* "$share/" *)
Definition SYS_PREFIX : bytes := [36; 83; 89; 83; 47].                  (* "$SYS/" *)

(* ---------------- TopicName ---------------- *)

(* TopicName::is_invalid: len > 65535, or contains(|c| c == '+' || c == '#' || c == '\0') *)
Definition name_is_invalid (s : bytes) : bool :=
  if 65535 <? len s then true
  else existsb (fun c => (fst c =? PL) || (fst c =? HS) || (fst c =? 0)) (utf8_chars s).

(* TryFrom<String> for TopicName *)
Definition name_try (s : bytes) : outcome bytes :=
  if name_is_invalid s then Err (InvalidTopicName s) else Ok s.

Definition name_is_shared (s : bytes) : bool := starts_with SHARED_PREFIX s.
Definition name_is_sys (s : bytes) : bool := starts_with SYS_PREFIX s.

(* ---------------- TopicFilter ---------------- *)

Record fstate := {
  last_sep : option N;
  has_all : bool;
  has_one : bool;
  byte_idx : N;
  is_sh : bool;
  gsep : N;          (* shared_group_sep *)
  fsep : N           (* shared_filter_sep *)
}.

Definition finit : fstate :=
  {| last_sep := None; has_all := false; has_one := false; byte_idx := 0;
     is_sh := true; gsep := 0; fsep := 0 |}.

Definition opt_eq (o : option N) (v : N) : bool := match o with Some x => x =? v | None => false end.

(* one iteration of the `for (char_idx, c) in value.chars().enumerate()` loop;
   None = `return (true, 0)` *)
Definition fstep (char_idx : N) (ch : N * N) (s : fstate) : option fstate :=
  let '(c, clen) := ch in
  if c =? 0 then None else
  if has_all s then None else
  let sh := if is_sh s && (char_idx <? 7) && negb (c =? nth (N.to_nat char_idx) SHARED_PREFIX 0)
            then false else is_sh s in
  if c =? SL then
    let g := if sh && (gsep s =? 0) then byte_idx s else gsep s in
    let f := if sh && negb (gsep s =? 0) && (fsep s =? 0) then byte_idx s else fsep s in
    if has_one s && negb (opt_eq (option_map (fun v => v + 2) (last_sep s)) char_idx)
       && negb (char_idx =? 1)
    then None
    else Some {| last_sep := Some char_idx; has_all := has_all s; has_one := false;
                 byte_idx := byte_idx s + clen; is_sh := sh; gsep := g; fsep := f |}
  else if c =? HS then
    if (0 <? gsep s) && (fsep s =? 0) then None
    else if has_one s then None
    else if opt_eq (option_map (fun v => v + 1) (last_sep s)) char_idx || (char_idx =? 0) then
      Some {| last_sep := last_sep s; has_all := true; has_one := has_one s;
              byte_idx := byte_idx s + clen; is_sh := sh; gsep := gsep s; fsep := fsep s |}
    else None
  else if c =? PL then
    if (0 <? gsep s) && (fsep s =? 0) then None
    else if has_one s then None
    else if opt_eq (option_map (fun v => v + 1) (last_sep s)) char_idx || (char_idx =? 0) then
      Some {| last_sep := last_sep s; has_all := has_all s; has_one := true;
              byte_idx := byte_idx s + clen; is_sh := sh; gsep := gsep s; fsep := fsep s |}
    else None
  else if has_one s then None      (* "+x": '+' must occupy an entire level (fix F3) *)
  else Some {| last_sep := last_sep s; has_all := has_all s; has_one := has_one s;
               byte_idx := byte_idx s + clen; is_sh := sh; gsep := gsep s; fsep := fsep s |}.

Fixpoint frun (i : N) (l : list (N * N)) (s : fstate) : option fstate :=
  match l with
  | [] => Some s
  | ch :: r => match fstep i ch s with None => None | Some s' => frun (i + 1) r s' end
  end.

(* TopicFilter::is_invalid -> (is_invalid, shared_filter_sep).  The final debug_assert
   (shared_group_sep == 0 || == 6) is a Panic in the debug profile if violated. *)
Definition filter_is_invalid (prof : profile) (s : bytes) : outcome (bool * N) :=
  if 65535 <? len s then Ok (true, 0)
  else match s with
  | [] => Ok (true, 0)
  | _ =>
    match frun 0 (utf8_chars s) finit with
    | None => Ok (true, 0)
    | Some st =>
      if (0 <? fsep st) && (fsep st =? len s - 1) then Ok (true, 0)
      else if (0 <? gsep st) && (fsep st =? 0) then Ok (true, 0)
      else if gsep st + 1 =? fsep st then Ok (true, 0)
      else match prof with
           | Debug => if (gsep st =? 0) || (gsep st =? 6) then Ok (false, fsep st)
                      else Panic SiteFilterAssert
           | Release => Ok (false, fsep st)
           end
    end
  end.

(* a TopicFilter value: the text and the cached separator index *)
Record tfilter := { ftext : bytes; fsepidx : N }.

(* TryFrom<String> for TopicFilter *)
Definition filter_try (prof : profile) (s : bytes) : outcome tfilter :=
  match filter_is_invalid prof s with
  | Ok (true, _) => Err (InvalidTopicFilter s)
  | Ok (false, sep) => Ok {| ftext := s; fsepidx := sep |}
  | Err e => Err e
  | Panic p => Panic p
  end.

Definition filter_is_shared (f : tfilter) : bool := 0 <? fsepidx f.
Definition filter_is_sys (f : tfilter) : bool := starts_with SYS_PREFIX (ftext f).

(* &s[a..b]: panics unless a <= b <= len and both on char boundaries *)
Definition str_slice (s : bytes) (a b : N) : outcome bytes :=
  if (a <=? b) && (b <=? len s) && is_char_boundary s a && is_char_boundary s b
  then Ok (firstn (N.to_nat (b - a)) (skipn (N.to_nat a) s))
  else Panic SiteSlice.

Definition shared_group_name (f : tfilter) : outcome (option bytes) :=
  if filter_is_shared f then
    match str_slice (ftext f) 7 (fsepidx f) with
    | Ok g => Ok (Some g) | Err e => Err e | Panic p => Panic p end
  else Ok None.

Definition shared_filter (f : tfilter) : outcome (option bytes) :=
  if filter_is_shared f then
    match str_slice (ftext f) (fsepidx f + 1) (len (ftext f)) with
    | Ok g => Ok (Some g) | Err e => Err e | Panic p => Panic p end
  else Ok None.

Definition shared_info (f : tfilter) : outcome (option (bytes * bytes)) :=
  if filter_is_shared f then
    match str_slice (ftext f) 7 (fsepidx f), str_slice (ftext f) (fsepidx f + 1) (len (ftext f)) with
    | Ok g, Ok r => Ok (Some (g, r))
    | Panic p, _ => Panic p
    | _, Panic p => Panic p
    | Err e, _ => Err e
    | _, Err e => Err e
    end
  else Ok None.

(* Eq / Ord / Hash use the text only *)
Definition filter_eq (a b : tfilter) : bool := beq_bytes (ftext a) (ftext b).
Fixpoint bytes_cmp (a b : bytes) : comparison :=
  match a, b with
  | [], [] => Eq
  | [], _ => Lt
  | _, [] => Gt
  | x :: a', y :: b' => match x ?= y with Eq => bytes_cmp a' b' | c => c end
  end.
Definition filter_cmp (a b : tfilter) : comparison := bytes_cmp (ftext a) (ftext b).
