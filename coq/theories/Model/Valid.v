(* Model/Valid.v — boolean predicates on packet values:
   types_inv : the invariants Rust's field types promise (UTF-8 text, valid topic names and
               filters with the right cached separator, non-zero 16-bit pids, enum values in range,
               VarByteInt < 2^28, integers within their width);
   valid     : the codec's valid domain of C01 on top of types_inv (fields <= 65535 bytes,
               at least one topic, protocol of the family, Maximum QoS 0/1, UTF-8 payload where
               flagged, properties only where the packet's struct has them). *)
From MQ Require Export Model.Frontends.
Open Scope N_scope.

Definition u8 (n : N) : bool := n <? 256.
Definition u16 (n : N) : bool := n <? 65536.
Definition u32 (n : N) : bool := n <? 4294967296.
Definition pid_ok (p : N) : bool := (0 <? p) && u16 p.
Definition text_ok (s : bytes) : bool := bytes_okb s && utf8_valid s.
Definition short (s : bytes) : bool := len s <=? 65535.
Definition name_ok (s : bytes) : bool := text_ok s && negb (name_is_invalid s).
Definition filter_ok (f : tfilter) : bool :=
  text_ok (ftext f) &&
  match filter_is_invalid Release (ftext f) with
  | Ok (false, sep) => sep =? fsepidx f
  | _ => false
  end.
Definition opt_all {A} (f : A -> bool) (o : option A) : bool := match o with Some a => f a | None => true end.
Definition qospid_ok (q : qospid) : bool := match q with QP0 => true | QP1 p | QP2 p => pid_ok p end.

Module I3.
Import V3.
Definition will_inv (w : will) : bool := (w_qos w <? 3) && name_ok (w_topic w) && bytes_okb (w_message w).
Definition types_inv (p : packet) : bool :=
  match p with
  | Connect c => u16 (c_keep_alive c) && text_ok (c_client_id c) && opt_all will_inv (c_will c)
                 && opt_all text_ok (c_username c) && opt_all bytes_okb (c_password c)
  | Connack c => ca_code c <? 6
  | Publish p => qospid_ok (p_qospid p) && name_ok (p_topic p) && bytes_okb (p_payload p)
  | Puback p | Pubrec p | Pubrel p | Pubcomp p | Unsuback p => pid_ok p
  | Subscribe s => pid_ok (s_pid s) && forallb (fun '(f, q) => filter_ok f && (q <? 3)) (s_topics s)
  | Suback s => pid_ok (sa_pid s) && forallb (fun c => (c =? 128) || (c <? 3)) (sa_codes s)
  | Unsubscribe u => pid_ok (u_pid u) && forallb filter_ok (u_topics u)
  | Pingreq | Pingresp | Disconnect => true
  end.
Definition will_valid (w : will) : bool := short (w_topic w) && short (w_message w).
Definition valid (p : packet) : bool :=
  types_inv p &&
  match p with
  | Connect c => (match c_protocol c with V500 => false | _ => true end)
                 && short (c_client_id c) && opt_all will_valid (c_will c)
                 && opt_all short (c_username c) && opt_all short (c_password c)
  | Publish p => short (p_topic p)
  | Subscribe s => match s_topics s with [] => false | _ => true end
  | Unsubscribe u => match u_topics u with [] => false | _ => true end
  | _ => true
  end.
End I3.

(* ---- v5 property values ---- *)
Definition value_inv (ty : wtype) (v : pvalue) : bool :=
  match ty, v with
  | WBool, VN n => n <? 2
  | WQos, VN n => n <? 3
  | WU16, VN n => u16 n
  | WU32, VN n => u32 n
  | WVar, VN n => n <? 268435456
  | WStr, VB s => text_ok s
  | WTopic, VB s => name_ok s
  | WBin, VB s => bytes_okb s
  | _, _ => false
  end.
Definition value_valid (ty : wtype) (v : pvalue) : bool :=
  match ty, v with
  | WQos, VN n => n <? 2                         (* Maximum QoS 0 or 1 *)
  | (WStr | WTopic | WBin), VB s => short s
  | _, _ => true
  end.
Definition user_inv (u : bytes * bytes) : bool := text_ok (fst u) && text_ok (snd u).
Definition user_valid (u : bytes * bytes) : bool := short (fst u) && short (snd u).

(* only ids of `allowed` are present, and each present value has the type of its id *)
Definition props_inv (allowed : list prop_id) (p : props) : bool :=
  forallb (fun id => match pget p id with
                     | None => true
                     | Some v => prop_mem id allowed && value_inv (prop_wtype id) v end) all_prop_ids
  && forallb user_inv (pr_user p).
Definition props_valid (allowed : list prop_id) (p : props) : bool :=
  forallb (fun id => match pget p id with None => true | Some v => value_valid (prop_wtype id) v end) all_prop_ids
  && forallb user_valid (pr_user p).
Definition payload_flagged (p : props) : bool :=
  match pget p PayloadFormatIndicator with Some (VN 1) => true | _ => false end.

Module I5.
Import V5.
Definition will_inv (w : will) : bool :=
  (w_qos w <? 3) && props_inv WILL_PROPS (w_props w) && name_ok (w_topic w) && bytes_okb (w_payload w)
  && (if payload_flagged (w_props w) then utf8_valid (w_payload w) else true).
Definition subopts_inv (o : subopts) : bool := (o_qos o <? 3) && (o_rh o <? 3).
Definition ack_inv (table : ptype) (a : ack) : bool :=
  pid_ok (a_pid a) && mem_n (a_code a) (codes_of table) && props_inv ACK_PROPS (a_props a).
Definition suback_inv (table : ptype) (s : suback) : bool :=
  pid_ok (sa_pid s) && props_inv ACK_PROPS (sa_props s)
  && forallb (fun c => mem_n c (codes_of table)) (sa_codes s).
Definition types_inv (p : packet) : bool :=
  match p with
  | Connect c => u16 (c_keep_alive c) && props_inv CONNECT_PROPS (c_props c) && text_ok (c_client_id c)
                 && opt_all will_inv (c_will c) && opt_all text_ok (c_username c)
                 && opt_all bytes_okb (c_password c)
  | Connack c => mem_n (ca_code c) CONNECT_CODES && props_inv CONNACK_PROPS (ca_props c)
  | Publish p => qospid_ok (p_qospid p) && name_ok (p_topic p) && props_inv PUBLISH_PROPS (p_props p)
                 && bytes_okb (p_payload p)
                 && (if payload_flagged (p_props p) then utf8_valid (p_payload p) else true)
  | Puback a => ack_inv PPuback a | Pubrec a => ack_inv PPubrec a
  | Pubrel a => ack_inv PPubrel a | Pubcomp a => ack_inv PPubcomp a
  | Subscribe s => pid_ok (s_pid s) && props_inv SUBSCRIBE_PROPS (s_props s)
                   && forallb (fun '(f, o) => filter_ok f && subopts_inv o) (s_topics s)
  | Suback s => suback_inv PSuback s
  | Unsuback s => suback_inv PUnsuback s
  | Unsubscribe u => pid_ok (u_pid u) && props_inv UNSUBSCRIBE_PROPS (u_props u) && forallb filter_ok (u_topics u)
  | Pingreq | Pingresp => true
  | Disconnect d => mem_n (d_code d) DISCONNECT_CODES && props_inv DISCONNECT_PROPS (d_props d)
  | Auth d => mem_n (d_code d) AUTH_CODES && props_inv AUTH_PROPS (d_props d)
  end.
Definition will_valid (w : will) : bool :=
  props_valid WILL_PROPS (w_props w) && short (w_topic w) && short (w_payload w).
Definition valid (p : packet) : bool :=
  types_inv p &&
  match p with
  | Connect c => (match c_protocol c with V500 => true | _ => false end)
                 && props_valid CONNECT_PROPS (c_props c) && short (c_client_id c)
                 && opt_all will_valid (c_will c) && opt_all short (c_username c) && opt_all short (c_password c)
  | Connack c => props_valid CONNACK_PROPS (ca_props c)
  | Publish p => short (p_topic p) && props_valid PUBLISH_PROPS (p_props p)
  | Puback a | Pubrec a | Pubrel a | Pubcomp a => props_valid ACK_PROPS (a_props a)
  | Subscribe s => props_valid SUBSCRIBE_PROPS (s_props s) && match s_topics s with [] => false | _ => true end
  | Suback s | Unsuback s => props_valid ACK_PROPS (sa_props s)
  | Unsubscribe u => props_valid UNSUBSCRIBE_PROPS (u_props u) && match u_topics u with [] => false | _ => true end
  | Disconnect d => props_valid DISCONNECT_PROPS (d_props d)
  | Auth d => props_valid AUTH_PROPS (d_props d)
  | Pingreq | Pingresp => true
  end.
End I5.
