(* Model/Types.v — Protocol, Pid, QoS, VarBytes (common/types.rs 16-235, 493-510). *)
From MQ Require Export Base.VarInt.
Open Scope N_scope.

Definition MQISDP : bytes := [77; 81; 73; 115; 100; 112].
Definition MQTT : bytes := [77; 81; 84; 84].

(* Protocol::new *)
Definition protocol_new (name : bytes) (level : N) : outcome protocol :=
  if beq_bytes name MQISDP && (level =? 3) then Ok V310
  else if beq_bytes name MQTT && (level =? 4) then Ok V311
  else if beq_bytes name MQTT && (level =? 5) then Ok V500
  else if utf8_valid name then Err (InvalidProtocol name level) else Err InvalidString.

Definition protocol_name (p : protocol) : bytes := match p with V310 => MQISDP | _ => MQTT end.
(* Protocol::to_pair *)
Definition protocol_to_pair (p : protocol) : bytes * N := (protocol_name p, protocol_level p).
(* Protocol::decode_async *)
Definition protocol_decode : reader protocol :=
  name <- read_bytes ;; level <- read_u8 ;; lift_outcome (protocol_new name level).
(* impl Encodable for Protocol: three write_all calls *)
Definition protocol_enc (p : protocol) : list bytes :=
  let '(name, level) := protocol_to_pair p in [be16 (len name); name; [level]].
Definition protocol_len (p : protocol) : N := match p with V310 => 2 + 6 + 1 | _ => 2 + 4 + 1 end.

(* ---- Pid: the inner u16 is modelled by N < 65536 ---- *)
Definition pid_try (v : N) : outcome N := if v =? 0 then Err ZeroPid else Ok v.

(* impl Add<u16> for Pid: overflowing_add, then `n + 1` on overflow (overflow-checked in debug) *)
Definition pid_add (prof : profile) (p u : N) : outcome N :=
  let s := p + u in
  if s <? 65536 then Ok s
  else let n := s - 65536 in
       if n + 1 <? 65536 then Ok (n + 1)
       else match prof with Debug => Panic SiteArith | Release => Ok 0 end.

(* impl Sub<u16> for Pid: overflowing_sub; (0,_) => MAX; (n,false) => n; (n,true) => n - 1 *)
Definition pid_sub (prof : profile) (p u : N) : outcome N :=
  if u <=? p then (if p - u =? 0 then Ok 65535 else Ok (p - u))
  else let n := p + 65536 - u in
       if n =? 0 then Ok 65535
       else Ok (n - 1).

Definition pid_add_assign := pid_add.
Definition pid_sub_assign := pid_sub.

(* QoS::from_u8 *)
Definition qos_of_u8 (b : N) : outcome N := if b <? 3 then Ok b else Err (InvalidQos b).

(* VarBytes *)
Inductive varbytes := Dynamic (v : bytes) | Fixed2 (a b : N) | Fixed4 (a b c d : N).
Definition as_ref (v : varbytes) : bytes :=
  match v with Dynamic l => l | Fixed2 a b => [a; b] | Fixed4 a b c d => [a; b; c; d] end.
