(* Model/Frontends.v — the decoder front-ends (Packet::decode, Packet::decode_async, PollPacket),
   the encoder entry points (Packet::encode, encode_async, Encodable::encode into a sink), sinks. *)
From MQ Require Export Model.Poll.
Open Scope N_scope.

(* ---------- blocking front-end: block_on(decode_async(&mut bytes)), EOF -> Ok(None) ---------- *)
Inductive bres (A : Type) := BOk (a : A) | BNone | BErr (e : err) | BPanic (s : site).
Arguments BOk {A}. Arguments BNone {A}. Arguments BErr {A}. Arguments BPanic {A}.

Definition map_eof {A} (r : res A) : bres A :=
  match r with
  | ROk a _ => BOk a
  | RErr e => if is_eof e then BNone else BErr e
  | RPanic s => BPanic s
  end.

Module F3.
  Definition dec_async (prof : profile) := V3.decode_async prof.
  Definition dec_block (prof : profile) (d : bytes) : bres V3.packet := map_eof (V3.decode_async prof TEof d).
  Definition header_dec (d : bytes) : res header := V3.header_decode TEof d.
  Definition pstate := pstate.
  Definition poll_drive (prof : profile) :=
    poll_drive V3.packet V3.header_new_with V3.build_empty_packet (V3.block_decode prof) prof.
  Definition poll1 (prof : profile) :=
    poll1 V3.packet V3.header_new_with V3.build_empty_packet (V3.block_decode prof) prof.
End F3.

Module F5.
  Definition dec_async (prof : profile) := V5.decode_async prof.
  Definition dec_block (prof : profile) (d : bytes) : bres V5.packet := map_eof (V5.decode_async prof TEof d).
  Definition header_dec (d : bytes) : res header := V5.header_decode TEof d.
  Definition poll_drive (prof : profile) :=
    poll_drive V5.packet V5.header_new_with V5.build_empty_packet (V5.block_decode prof) prof.
  Definition poll1 (prof : profile) :=
    poll1 V5.packet V5.header_new_with V5.build_empty_packet (V5.block_decode prof) prof.
End F5.

(* ---------- sinks ---------- *)
Inductive wstep := WAccept (n : N) | WPend | WZero | WFail (k : io_kind).

Record wres := { w_ok : outcome unit; w_written : bytes; w_calls : N; w_script : list wstep }.

(* write_all of one buffer.  `sync` = std::io::Write::write_all (Ok(0) -> WriteZero, Interrupted is
   retried; Pending does not exist: treated as accept-all), otherwise tokio's
   AsyncWriteExt::write_all (Ok(0) -> WriteZero; Pending -> poll again).  Fuel: every step either
   consumes a script element or, with an empty script, finishes. *)
Fixpoint write_all (sync : bool) (fuel : nat) (buf : bytes) (script : list wstep)
         (written : bytes) (calls : N) : wres :=
  match buf with
  | [] => {| w_ok := Ok tt; w_written := written; w_calls := calls; w_script := script |}
  | _ =>
    match fuel with
    | O => {| w_ok := Panic SiteFuel; w_written := written; w_calls := calls; w_script := script |}
    | S f =>
      match script with
      | [] => {| w_ok := Ok tt; w_written := written ++ buf; w_calls := calls + 1; w_script := [] |}
      | WAccept n :: sc =>
        if n =? 0 then {| w_ok := Err (IoError KWriteZero); w_written := written; w_calls := calls + 1; w_script := sc |}
        else match take buf n with
             | Some (a, b) => write_all sync f b sc (written ++ a) (calls + 1)
             | None => {| w_ok := Ok tt; w_written := written ++ buf; w_calls := calls + 1; w_script := sc |}
             end
      | WPend :: sc => if sync then write_all sync f buf sc written calls
                       else write_all sync f buf sc written (calls + 1)
      | WZero :: sc => {| w_ok := Err (IoError KWriteZero); w_written := written; w_calls := calls + 1; w_script := sc |}
      | WFail k :: sc =>
        if sync && (k =? KInterrupted) then write_all sync f buf sc written (calls + 1)
        else {| w_ok := Err (IoError k); w_written := written; w_calls := calls + 1; w_script := sc |}
      end
    end
  end.

(* a sequence of write_all calls (`?` after each) *)
Fixpoint write_chunks (sync : bool) (chunks : list bytes) (script : list wstep) (written : bytes) (calls : N) : wres :=
  match chunks with
  | [] => {| w_ok := Ok tt; w_written := written; w_calls := calls; w_script := script |}
  | c :: cs =>
    let r := write_all sync (S (length script)) c script written calls in
    match w_ok r with
    | Ok _ => write_chunks sync cs (w_script r) (w_written r) (w_calls r)
    | _ => r
    end
  end.

(* Packet::encode_async: encode() then one write_all of the whole buffer *)
Definition encode_async_with (enc : outcome varbytes) (script : list wstep) : wres :=
  match enc with
  | Ok vb => write_all false (S (length script)) (as_ref vb) script [] 0
  | Err e => {| w_ok := Err e; w_written := []; w_calls := 0; w_script := script |}
  | Panic s => {| w_ok := Panic s; w_written := []; w_calls := 0; w_script := script |}
  end.

(* Encodable::encode(&body, &mut writer) *)
Definition encode_stream_with (chunks : list bytes) (script : list wstep) : wres :=
  write_chunks true chunks script [] 0.
