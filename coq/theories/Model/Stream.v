(* Model/Stream.v — decoding a stream packet by packet with each front-end (the caller's loop
   of C08).  The result is the list of (packet, bytes taken) and the non-packet result that
   ended the loop. *)
From MQ Require Export Model.Valid.
Open Scope N_scope.

Inductive final := FNone | FErr (e : err) | FPanic (s : site).

Section Stream.
Variable P : Type.
Variable dec : reader P.                               (* Packet::decode_async *)
Variable enc_len : P -> outcome N.                     (* Packet::encode_len *)
Variable poll1 : bytes -> tail -> runres P.            (* PollPacket over an always-ready reader *)

(* async: one reader, decode_async again and again; size = reader position delta *)
Fixpoint stream_async (fuel : nat) (t : tail) (d : bytes) (acc : list (P * N)) : list (P * N) * final :=
  match fuel with
  | O => (rev' acc, FPanic SiteFuel)
  | S f =>
    match dec t d with
    | ROk p rest => stream_async f t rest ((p, len d - len rest) :: acc)
    | RErr e => (rev' acc, FErr e)
    | RPanic s => (rev' acc, FPanic s)
    end
  end.

(* blocking: Packet::decode(&bytes[off..]); off += encode_len(packet) *)
Fixpoint stream_block (fuel : nat) (d : bytes) (acc : list (P * N)) : list (P * N) * final :=
  match fuel with
  | O => (rev' acc, FPanic SiteFuel)
  | S f =>
    match dec TEof d with
    | ROk p _ =>
      match enc_len p with
      | Ok n => if len d <? n then (rev' ((p, n) :: acc), FPanic SiteSlice)   (* &bytes[off..] out of range *)
                else stream_block f (skipn (N.to_nat n) d) ((p, n) :: acc)
      | Err e => (rev' acc, FErr e)
      | Panic s => (rev' acc, FPanic s)
      end
    | RErr e => (rev' acc, if is_eof e then FNone else FErr e)
    | RPanic s => (rev' acc, FPanic s)
    end
  end.

(* poll: a fresh default state per packet on one reader; size = reported total *)
Fixpoint stream_poll (fuel : nat) (t : tail) (d : bytes) (acc : list (P * N)) : list (P * N) * final :=
  match fuel with
  | O => (rev' acc, FPanic SiteFuel)
  | S f =>
    let r := poll1 d t in
    match rr_res P r with
    | None => (rev' acc, FPanic SiteFuel)
    | Some (Ok (total, _, p)) => stream_poll f t (bytes_of (rr_rest P r)) ((p, total) :: acc)
    | Some (Err e) => (rev' acc, FErr e)
    | Some (Panic s) => (rev' acc, FPanic s)
    end
  end.
End Stream.
