(* Spec/Topic.v — declarative topic-name and topic-filter rules (MQTT 4.7, 4.8), the packet
   identifier cycle, and the variable byte integer as a number format.  Written from the OASIS
   text, not from the code. *)
From MQ Require Export Base.Utf8.
Open Scope N_scope.

Module Spec.

Definition chars (s : bytes) : list N := map fst (utf8_chars s).
Definition mem (c : N) (l : list N) : bool := existsb (N.eqb c) l.
Fixpoint leq (a b : list N) : bool :=
  match a, b with
  | [], [] => true
  | x :: a', y :: b' => (x =? y) && leq a' b'
  | _, _ => false
  end.

Definition SLASH : N := 47.
Definition PLUS : N := 43.
Definition HASH : N := 35.
Definition share_prefix : list N := [36; 115; 104; 97; 114; 101; 47].   (* "$share/" *)

(* 4.7.3: at most 65535 bytes of UTF-8, no U+0000; 4.7.1: no wildcard in a topic name.
   (The library accepts the empty topic name — pinned leniency L6.) *)
Definition topic_name_ok (s : bytes) : bool :=
  (len s <=? 65535) && negb (mem 0 (chars s)) && negb (mem PLUS (chars s)) && negb (mem HASH (chars s)).

(* split on '/' *)
Fixpoint split_sl (l : list N) (cur : list N) : list (list N) :=
  match l with
  | [] => [rev' cur]
  | c :: r => if c =? SLASH then rev' cur :: split_sl r [] else split_sl r (c :: cur)
  end.

(* 4.7.1.2: '#' must be the last character and occupy an entire level;
   4.7.1.3: '+' must occupy an entire level *)
Fixpoint levels_ok (ls : list (list N)) : bool :=
  match ls with
  | [] => true
  | l :: r =>
    (if mem HASH l then leq l [HASH] && match r with [] => true | _ => false end else true)
    && (if mem PLUS l then leq l [PLUS] else true)
    && levels_ok r
  end.

Fixpoint starts (p l : list N) : bool :=
  match p, l with
  | [], _ => true
  | a :: p', b :: l' => (a =? b) && starts p' l'
  | _ :: _, [] => false
  end.

(* the share name: characters up to the next '/', and what follows it *)
Fixpoint take_name (l : list N) (acc : list N) : list N * option (list N) :=
  match l with
  | [] => (rev' acc, None)
  | c :: r => if c =? SLASH then (rev' acc, Some r) else take_name r (c :: acc)
  end.

Definition char_len (c : N) : N := if c <? 128 then 1 else if c <? 2048 then 2 else if c <? 65536 then 3 else 4.
Definition blen (l : list N) : N := fold_right (fun c a => char_len c + a) 0 l.

(* 4.8.2: $share/{ShareName}/{filter}; ShareName non-empty without '/', '+', '#'; filter non-empty.
   Returns (ok, byte index of the '/' that ends the share name) *)
Definition share_ok_sep (l : list N) : bool * N :=
  if starts share_prefix l then
    match take_name (skipn 7 l) [] with
    | (name, Some rest) =>
      (negb (leq name []) && negb (mem PLUS name) && negb (mem HASH name) && negb (leq rest []),
       7 + blen name)
    | (_, None) => (false, 0)
    end
  else (true, 0).

Definition topic_filter_ok (s : bytes) : bool :=
  let l := chars s in
  negb (leq l []) && (len s <=? 65535) && negb (mem 0 l)
  && levels_ok (split_sl l []) && fst (share_ok_sep l).

(* byte index of the separator after the share name for an accepted shared filter, else 0 *)
Definition share_sep (s : bytes) : N :=
  if topic_filter_ok s then snd (share_ok_sep (chars s)) else 0.

(* ---- packet identifiers: the cycle 1..65535 ---- *)
Definition pid_add (p u : N) : N := ((p - 1 + u) mod 65535) + 1.
Definition pid_sub (p u : N) : N := ((p - 1 + (65535 - u mod 65535)) mod 65535) + 1.

(* ---- variable byte integer (1.5.5): little-endian base 128, least number of digits ---- *)
Fixpoint vbi_digits (k : nat) (n : N) : bytes :=
  match k with
  | O => []
  | S O => [n mod 128]
  | S k' => (n mod 128 + 128) :: vbi_digits k' (n / 128)
  end.
Definition vbi_size (n : N) : nat :=
  if n <? 128 then 1%nat else if n <? 16384 then 2%nat else if n <? 2097152 then 3%nat else 4%nat.
Definition vbi_print (n : N) : bytes := vbi_digits (vbi_size n) n.

End Spec.
