(* Spec/Parse.v — reference parser for MQTT 3.1/3.1.1 and 5.0 control packets, written from the
   OASIS documents with its own tables, structured by *slicing* (the body is exactly the next
   `remaining length` bytes, a property section exactly the next `property length` bytes, every
   sub-parser must use its slice up), unlike the code's running-length accounting.
   The pinned leniencies / restrictions of DESIGN.md §4 (L1-L12, D1-D4) are marked `pinned`. *)
From MQ Require Export Spec.SpecTopic Model.Valid.
Open Scope N_scope.

Module SP.
Import Spec.

(* ---------- slice parsers ---------- *)
Definition sp (A : Type) := bytes -> option (A * bytes).
Definition sret {A} (a : A) : sp A := fun d => Some (a, d).
Definition sfail {A} : sp A := fun _ => None.
Definition sbind {A B} (m : sp A) (f : A -> sp B) : sp B :=
  fun d => match m d with Some (a, d') => f a d' | None => None end.
Notation "x <~ m ;; f" := (sbind m (fun x => f)) (at level 61, m at next level, right associativity).
Definition sguard (b : bool) : sp unit := if b then sret tt else sfail.
(* run a parser on a slice that it must consume exactly *)
Definition exactly {A} (m : sp A) (slice : bytes) : option A :=
  match m slice with Some (a, []) => Some a | _ => None end.

Definition p_u8 : sp N := fun d => match d with b :: r => Some (b, r) | [] => None end.
Definition p_u16 : sp N := a <~ p_u8 ;; b <~ p_u8 ;; sret (256 * a + b).
Definition p_u32 : sp N := a <~ p_u16 ;; b <~ p_u16 ;; sret (65536 * a + b).
Definition p_slice (n : N) : sp bytes := fun d => take d n.
Definition p_bin : sp bytes := n <~ p_u16 ;; p_slice n.
(* 1.5.4: UTF-8 encoded string: well-formed UTF-8 (U+0000 tolerated outside topics: pinned L5) *)
Definition p_str : sp bytes := s <~ p_bin ;; _ <~ sguard (utf8_valid s) ;; sret s.
Definition p_rest : sp bytes := fun d => Some (d, []).
Definition at_end : sp bool := fun d => Some (match d with [] => true | _ => false end, d).

Section Strictness.
(* strict = true is the standard ([MQTT-1.5.5-1]: the encoded value MUST use the minimum number of
   bytes) and is what Spec.parse means; strict = false also reads non-minimal encodings and exists
   only so that checks can tell "rejected because of a non-minimal integer" (outside C04's
   quantifier) from every other reason. *)
Variable strict : bool.

(* 1.5.5 variable byte integer *)
Definition p_vbi : sp N :=
  b0 <~ p_u8 ;;
  if b0 <? 128 then sret b0 else
  b1 <~ p_u8 ;;
  if b1 <? 128 then (_ <~ sguard (negb strict || (0 <? b1)) ;; sret (b0 - 128 + 128 * b1)) else
  b2 <~ p_u8 ;;
  if b2 <? 128 then (_ <~ sguard (negb strict || (0 <? b2)) ;; sret (b0 - 128 + 128 * (b1 - 128) + 16384 * b2)) else
  b3 <~ p_u8 ;;
  if b3 <? 128 then (_ <~ sguard (negb strict || (0 <? b3)) ;;
                     sret (b0 - 128 + 128 * (b1 - 128) + 16384 * (b2 - 128) + 2097152 * b3))
  else sfail.

Definition p_pid : sp N := v <~ p_u16 ;; _ <~ sguard (0 <? v) ;; sret v.      (* 2.3.1 non-zero *)
Definition p_name : sp bytes := s <~ p_str ;; _ <~ sguard (topic_name_ok s) ;; sret s.
Definition p_filter : sp tfilter :=
  s <~ p_str ;; _ <~ sguard (topic_filter_ok s) ;; sret {| ftext := s; fsepidx := share_sep s |}.
Definition p_bool01 : sp bool := b <~ p_u8 ;; if b =? 0 then sret false else if b =? 1 then sret true else sfail.

(* one or more / zero or more items until the slice is used up (fuel = slice length) *)
Fixpoint many_fuel {A} (fuel : nat) (item : sp A) (acc : list A) : sp (list A) :=
  fun d => match d with
           | [] => Some (rev' acc, [])
           | _ => match fuel with
                  | O => None
                  | S f => match item d with
                           | Some (a, d') => many_fuel f item (a :: acc) d'
                           | None => None
                           end
                  end
           end.
Definition many {A} (item : sp A) : sp (list A) := fun d => many_fuel (length d) item [] d.
Definition many1 {A} (item : sp A) : sp (list A) :=
  l <~ many item ;; match l with [] => sfail | _ => sret l end.

(* ---------- fixed header (2.1.2 / 2.2.1, 2.2.2 flag table) ---------- *)
(* required flag nibble per packet type; PUBLISH (3) is free except QoS != 3 *)
Definition flag_nibble (typ : N) : option N :=
  match typ with
  | 1 | 2 | 4 | 5 | 7 | 9 | 11 | 12 | 13 | 14 | 15 => Some 0
  | 6 | 8 | 10 => Some 2
  | _ => None
  end.

(* a complete frame: control byte, minimal remaining length, exactly that many bytes, nothing else *)
Definition frame (d : bytes) : option (N * bytes) :=
  match (cb <~ p_u8 ;; rl <~ p_vbi ;; body <~ p_slice rl ;; sret (cb, body)) d with
  | Some (r, []) => Some r
  | _ => None
  end.

(* connect flags (3.1.2.3): bit 0 reserved; will qos/retain only with the will flag.
   pinned L2: a will-retain bit without the will flag is ignored; L3: password without user name. *)
Record cflags := { cf_user : bool; cf_pass : bool; cf_wretain : bool; cf_wqos : N; cf_will : bool; cf_clean : bool }.
Definition p_cflags : sp cflags :=
  b <~ p_u8 ;;
  let f := {| cf_user := N.testbit b 7; cf_pass := N.testbit b 6; cf_wretain := N.testbit b 5;
              cf_wqos := (b / 8) mod 4; cf_will := N.testbit b 2; cf_clean := N.testbit b 1 |} in
  _ <~ sguard (negb (N.testbit b 0)) ;;
  _ <~ sguard (if cf_will f then cf_wqos f <? 3 else cf_wqos f =? 0) ;;
  sret f.

Definition p_opt {A} (present : bool) (m : sp A) : sp (option A) :=
  if present then (a <~ m ;; sret (Some a)) else sret None.

(* ======================= MQTT 3.1 / 3.1.1 ======================= *)
Definition p3_protocol : sp protocol :=
  name <~ p_bin ;; lvl <~ p_u8 ;;
  if leq name [77; 81; 73; 115; 100; 112] && (lvl =? 3) then sret V310
  else if leq name [77; 81; 84; 84] && (lvl =? 4) then sret V311
  else sfail.

Definition p3_connect : sp V3.packet :=
  proto <~ p3_protocol ;;
  f <~ p_cflags ;;
  ka <~ p_u16 ;;
  cid <~ p_str ;;
  will <~ p_opt (cf_will f)
       (t <~ p_name ;; m <~ p_bin ;;
        sret {| V3.w_qos := cf_wqos f; V3.w_retain := cf_wretain f; V3.w_topic := t; V3.w_message := m |}) ;;
  user <~ p_opt (cf_user f) p_str ;;
  pass <~ p_opt (cf_pass f) p_bin ;;
  sret (V3.Connect {| V3.c_protocol := proto; V3.c_clean := cf_clean f; V3.c_keep_alive := ka;
                      V3.c_client_id := cid; V3.c_will := will; V3.c_username := user; V3.c_password := pass |}).

Definition p3_connack : sp V3.packet :=
  sp_ <~ p_bool01 ;; code <~ p_u8 ;; _ <~ sguard (code <=? 5) ;;
  sret (V3.Connack {| V3.ca_sp := sp_; V3.ca_code := code |}).

Definition p_qospid (qos : N) : sp qospid :=
  if qos =? 0 then sret QP0
  else if qos =? 1 then (p <~ p_pid ;; sret (QP1 p))
  else (p <~ p_pid ;; sret (QP2 p)).

Definition p3_publish (flags : N) : sp V3.packet :=
  let qos := (flags / 2) mod 4 in
  _ <~ sguard (qos <? 3) ;;
  t <~ p_name ;;
  qp <~ p_qospid qos ;;
  payload <~ p_rest ;;
  sret (V3.Publish {| V3.p_dup := N.testbit flags 3; V3.p_retain := N.testbit flags 0; V3.p_qospid := qp;
                      V3.p_topic := t; V3.p_payload := payload |}).

Definition p3_sub_item : sp (tfilter * N) :=
  f <~ p_filter ;; q <~ p_u8 ;; _ <~ sguard (q <=? 2) ;; sret (f, q).
Definition p3_suback_code : sp N :=
  c <~ p_u8 ;; _ <~ sguard (mem c [0; 1; 2; 128]) ;; sret c.

Definition body3 (typ flags : N) : sp V3.packet :=
  match typ with
  | 1 => p3_connect
  | 2 => p3_connack
  | 3 => p3_publish flags
  | 4 => p <~ p_pid ;; sret (V3.Puback p)
  | 5 => p <~ p_pid ;; sret (V3.Pubrec p)
  | 6 => p <~ p_pid ;; sret (V3.Pubrel p)
  | 7 => p <~ p_pid ;; sret (V3.Pubcomp p)
  | 8 => p <~ p_pid ;; l <~ many1 p3_sub_item ;; sret (V3.Subscribe {| V3.s_pid := p; V3.s_topics := l |})
  | 9 => p <~ p_pid ;; l <~ many p3_suback_code ;; sret (V3.Suback {| V3.sa_pid := p; V3.sa_codes := l |})
  | 10 => p <~ p_pid ;; l <~ many1 p_filter ;; sret (V3.Unsubscribe {| V3.u_pid := p; V3.u_topics := l |})
  | 11 => p <~ p_pid ;; sret (V3.Unsuback p)
  | 12 => sret V3.Pingreq
  | 13 => sret V3.Pingresp
  | 14 => sret V3.Disconnect
  | _ => sfail
  end.

Definition parse3 (d : bytes) : option V3.packet :=
  match frame d with
  | None => None
  | Some (cb, body) =>
    let typ := cb / 16 in
    let flags := cb mod 16 in
    if (typ =? 15) || (typ =? 0) then None
    else if (match flag_nibble typ with Some f => flags =? f | None => typ =? 3 end)
    then exactly (body3 typ flags) body
    else None
  end.

(* ======================= MQTT 5.0 ======================= *)
(* 2.2.2.2 property table: identifier, wire type, packets that may carry it
   (W = will properties).  Carriers use the control packet type number; 0 stands for W. *)
Definition W : N := 0.
Definition prop_table : list (N * wtype * list N) :=
  [ (1, WBool, [3; W]); (2, WU32, [3; W]); (3, WStr, [3; W]); (8, WTopic, [3; W]); (9, WBin, [3; W]);
    (11, WVar, [3; 8]); (17, WU32, [1; 2; 14]); (18, WStr, [2]); (19, WU16, [2]);
    (21, WStr, [1; 2; 15]); (22, WBin, [1; 2; 15]); (23, WBool, [1]); (24, WU32, [W]); (25, WBool, [1]);
    (26, WStr, [2]); (28, WStr, [2; 14]); (31, WStr, [2; 4; 5; 6; 7; 9; 11; 14; 15]);
    (33, WU16, [1; 2]); (34, WU16, [1; 2]); (35, WU16, [3]); (36, WQos, [2]); (37, WBool, [2]);
    (39, WU32, [1; 2]); (40, WBool, [2]); (41, WBool, [2]); (42, WBool, [2]) ].
(* 38 User Property: every packet that has properties, any number of times *)

Fixpoint lookup_prop (id : N) (t : list (N * wtype * list N)) : option (wtype * list N) :=
  match t with
  | [] => None
  | (i, ty, cs) :: r => if i =? id then Some (ty, cs) else lookup_prop id r
  end.

(* the model's property record is keyed by prop_id; the spec goes through the number *)
Definition id_of_num (n : N) : option prop_id :=
  match prop_of_u8 n with Some (KProp id) => Some id | _ => None end.

Definition p_value (ty : wtype) : sp pvalue :=
  match ty with
  | WBool => b <~ p_u8 ;; _ <~ sguard (b <=? 1) ;; sret (VN b)
  | WQos => b <~ p_u8 ;; _ <~ sguard (b <=? 1) ;; sret (VN b)            (* 3.2.2.3.4: 0 or 1 *)
  | WU16 => v <~ p_u16 ;; sret (VN v)
  | WU32 => v <~ p_u32 ;; sret (VN v)
  | WStr => s <~ p_str ;; sret (VB s)
  | WTopic => s <~ p_name ;; sret (VB s)
  | WBin => s <~ p_bin ;; sret (VB s)
  | WVar => v <~ p_vbi ;; sret (VN v)
  end.

(* one property inside the section; duplicates of anything but the user property are errors
   (pinned D1: also a second Subscription Identifier in PUBLISH) *)
Definition p_prop (carrier : N) (acc : props) : sp props :=
  id <~ p_u8 ;;
  if id =? 38 then
    (n <~ p_str ;; v <~ p_str ;; sret (pset_user acc (pr_user acc ++ [(n, v)])))
  else
    match lookup_prop id prop_table, id_of_num id with
    | Some (ty, carriers), Some pid =>
      _ <~ sguard (mem carrier carriers) ;;
      _ <~ sguard (match pget acc pid with None => true | Some _ => false end) ;;
      v <~ p_value ty ;;
      sret (pset acc pid (Some v))
    | _, _ => sfail
    end.

Fixpoint props_fuel (fuel : nat) (carrier : N) (acc : props) : sp props :=
  fun d => match d with
           | [] => Some (acc, [])
           | _ => match fuel with
                  | O => None
                  | S f => match p_prop carrier acc d with
                           | Some (acc', d') => props_fuel f carrier acc' d'
                           | None => None
                           end
                  end
           end.

(* 2.2.2: property length, then exactly that many bytes of properties *)
Definition p_props (carrier : N) : sp props :=
  n <~ p_vbi ;; slice <~ p_slice n ;;
  match exactly (fun d => props_fuel (length d) carrier props_empty d) slice with
  | Some p => sret p
  | None => sfail
  end.

Definition utf8_flag_ok (p : props) (payload : bytes) : bool :=
  match pget p PayloadFormatIndicator with
  | Some (VN 1) => utf8_valid payload          (* pinned D4: the library validates the payload *)
  | _ => true
  end.

Definition p5_connect : sp V5.packet :=
  name <~ p_bin ;; lvl <~ p_u8 ;;
  _ <~ sguard (leq name [77; 81; 84; 84] && (lvl =? 5)) ;;
  f <~ p_cflags ;;
  ka <~ p_u16 ;;
  pr <~ p_props 1 ;;
  cid <~ p_str ;;
  will <~ p_opt (cf_will f)
       (wp <~ p_props W ;; t <~ p_name ;; m <~ p_bin ;; _ <~ sguard (utf8_flag_ok wp m) ;;
        sret {| V5.w_qos := cf_wqos f; V5.w_retain := cf_wretain f; V5.w_props := wp;
                V5.w_topic := t; V5.w_payload := m |}) ;;
  user <~ p_opt (cf_user f) p_str ;;
  pass <~ p_opt (cf_pass f) p_bin ;;
  sret (V5.Connect {| V5.c_protocol := V500; V5.c_clean := cf_clean f; V5.c_keep_alive := ka;
                      V5.c_props := pr; V5.c_client_id := cid; V5.c_will := will;
                      V5.c_username := user; V5.c_password := pass |}).

(* reason codes per packet (3.2.2.2, 3.4.2.1, 3.5.2.1, 3.6.2.1, 3.7.2.1, 3.9.3, 3.11.3, 3.14.2.1, 3.15.2.1) *)
Definition reason_codes (typ : N) : list N :=
  match typ with
  | 2 => [0; 128; 129; 130; 131; 132; 133; 134; 135; 136; 137; 138; 140; 144; 149; 151; 153; 154;
          155; 156; 157; 159]
  | 4 | 5 => [0; 16; 128; 131; 135; 144; 145; 151; 153]
  | 6 | 7 => [0; 146]
  | 9 => [0; 1; 2; 128; 131; 135; 143; 145; 151; 158; 161; 162]
  | 11 => [0; 17; 128; 131; 135; 143; 145]
  | 14 => [0; 4; 128; 129; 130; 131; 135; 137; 139; 141; 142; 143; 144; 147; 148; 149; 150; 151;
           152; 153; 154; 155; 156; 157; 158; 159; 160; 161; 162]       (* pinned D3: no 0x8C *)
  | 15 => [0; 24; 25]
  | _ => []
  end.
Definition p_reason (typ : N) : sp N := c <~ p_u8 ;; _ <~ sguard (mem c (reason_codes typ)) ;; sret c.

Definition p5_connack : sp V5.packet :=
  sp_ <~ p_bool01 ;; code <~ p_reason 2 ;; pr <~ p_props 2 ;;
  sret (V5.Connack {| V5.ca_sp := sp_; V5.ca_code := code; V5.ca_props := pr |}).

Definition p5_publish (flags : N) : sp V5.packet :=
  let qos := (flags / 2) mod 4 in
  _ <~ sguard (qos <? 3) ;;
  t <~ p_name ;;
  qp <~ p_qospid qos ;;
  pr <~ p_props 3 ;;
  payload <~ p_rest ;;
  _ <~ sguard (utf8_flag_ok pr payload) ;;
  sret (V5.Publish {| V5.p_dup := N.testbit flags 3; V5.p_retain := N.testbit flags 0; V5.p_qospid := qp;
                      V5.p_topic := t; V5.p_props := pr; V5.p_payload := payload |}).

(* 3.4.2.1: reason code and property length may be omitted *)
Definition p5_ack (typ : N) : sp V5.ack :=
  p <~ p_pid ;;
  e <~ at_end ;;
  if e then sret {| V5.a_pid := p; V5.a_code := 0; V5.a_props := props_empty |} else
  code <~ p_reason typ ;;
  e <~ at_end ;;
  if e then sret {| V5.a_pid := p; V5.a_code := code; V5.a_props := props_empty |} else
  pr <~ p_props typ ;;
  sret {| V5.a_pid := p; V5.a_code := code; V5.a_props := pr |}.

(* 3.8.3.1 subscription options: bits 6,7 reserved, QoS != 3, retain handling != 3 *)
Definition p5_sub_item : sp (tfilter * V5.subopts) :=
  f <~ p_filter ;; o <~ p_u8 ;;
  let qos := o mod 4 in
  let rh := (o / 16) mod 4 in
  _ <~ sguard ((o <? 64) && (qos <? 3) && (rh <? 3)) ;;
  sret (f, {| V5.o_qos := qos; V5.o_nl := N.testbit o 2; V5.o_rap := N.testbit o 3; V5.o_rh := rh |}).

Definition p5_codes (typ : N) : sp V5.suback :=
  p <~ p_pid ;; pr <~ p_props typ ;; l <~ many (p_reason typ) ;;
  sret {| V5.sa_pid := p; V5.sa_props := pr; V5.sa_codes := l |}.

Definition p5_disconnect : sp V5.packet :=
  e <~ at_end ;;
  if e then sret (V5.Disconnect {| V5.d_code := 0; V5.d_props := props_empty |}) else
  code <~ p_reason 14 ;;
  e <~ at_end ;;
  if e then sret (V5.Disconnect {| V5.d_code := code; V5.d_props := props_empty |}) else
  pr <~ p_props 14 ;;
  sret (V5.Disconnect {| V5.d_code := code; V5.d_props := pr |}).

Definition p5_auth : sp V5.packet :=
  e <~ at_end ;;
  if e then sret (V5.Auth {| V5.d_code := 0; V5.d_props := props_empty |}) else
  code <~ p_reason 15 ;;
  pr <~ p_props 15 ;;
  sret (V5.Auth {| V5.d_code := code; V5.d_props := pr |}).

Definition body5 (typ flags : N) : sp V5.packet :=
  match typ with
  | 1 => p5_connect
  | 2 => p5_connack
  | 3 => p5_publish flags
  | 4 => a <~ p5_ack 4 ;; sret (V5.Puback a)
  | 5 => a <~ p5_ack 5 ;; sret (V5.Pubrec a)
  | 6 => a <~ p5_ack 6 ;; sret (V5.Pubrel a)
  | 7 => a <~ p5_ack 7 ;; sret (V5.Pubcomp a)
  | 8 => p <~ p_pid ;; pr <~ p_props 8 ;; l <~ many1 p5_sub_item ;;
         sret (V5.Subscribe {| V5.s_pid := p; V5.s_props := pr; V5.s_topics := l |})
  | 9 => s <~ p5_codes 9 ;; sret (V5.Suback s)
  | 10 => p <~ p_pid ;; pr <~ p_props 10 ;; l <~ many1 p_filter ;;
          sret (V5.Unsubscribe {| V5.u_pid := p; V5.u_props := pr; V5.u_topics := l |})
  | 11 => s <~ p5_codes 11 ;; sret (V5.Unsuback s)
  | 12 => sret V5.Pingreq
  | 13 => sret V5.Pingresp
  | 14 => p5_disconnect
  | 15 => p5_auth
  | _ => sfail
  end.

Definition parse5 (d : bytes) : option V5.packet :=
  match frame d with
  | None => None
  | Some (cb, body) =>
    let typ := cb / 16 in
    let flags := cb mod 16 in
    if typ =? 0 then None
    else if (match flag_nibble typ with Some f => flags =? f | None => typ =? 3 end)
    then exactly (body5 typ flags) body
    else None
  end.

End Strictness.

(* the specification proper: strict *)
Definition parse3_strict := parse3 true.
Definition parse5_strict := parse5 true.

End SP.
