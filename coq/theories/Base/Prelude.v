(* Base/Prelude.v — bytes, big-endian integers, list helpers. No proofs about the model here. *)
From Coq Require Export List NArith ZArith Bool Lia Arith.
Export ListNotations.
Open Scope N_scope.

Arguments N.add : simpl never.
Arguments N.sub : simpl never.
Arguments N.mul : simpl never.
Arguments N.div : simpl never.
Arguments N.modulo : simpl never.
Arguments N.ltb : simpl never.
Arguments N.leb : simpl never.
Arguments N.eqb : simpl never.
Arguments N.pow : simpl never.
Arguments N.pred : simpl never.

Definition byte := N.
Definition bytes := list N.

(* every element is a byte *)
Definition bytes_okb (l : bytes) : bool := forallb (fun b => b <? 256) l.

Definition len (l : bytes) : N := N.of_nat (length l).

Definition be16 (n : N) : bytes := [n / 256; n mod 256].
Definition be32 (n : N) : bytes :=
  [n / 16777216; (n / 65536) mod 256; (n / 256) mod 256; n mod 256].

(* length-prefixed field as write_bytes emits it: (len as u16).to_be_bytes() then the data *)
Definition lp (s : bytes) : bytes := be16 (len s mod 65536) ++ s.

(* take the first n elements; None if fewer are available.  Structural on the list,
   the counter is a binary number (remaining lengths go up to 2^28). *)
Fixpoint take (d : bytes) (n : N) : option (bytes * bytes) :=
  if n =? 0 then Some ([], d)
  else match d with
       | [] => None
       | x :: r => match take r (N.pred n) with
                   | Some (a, b) => Some (x :: a, b)
                   | None => None
                   end
       end.

Fixpoint beq_bytes (a b : bytes) : bool :=
  match a, b with
  | [], [] => true
  | x :: a', y :: b' => (x =? y) && beq_bytes a' b'
  | _, _ => false
  end.

Fixpoint starts_with (p l : bytes) : bool :=
  match p, l with
  | [], _ => true
  | a :: p', b :: l' => (a =? b) && starts_with p' l'
  | _ :: _, [] => false
  end.

Definition bool_n (b : bool) : N := if b then 1 else 0.

(* bit k of a byte, as a boolean: (b >> k) & 1 *)
Definition bit (b : N) (k : N) : bool := ((b / 2 ^ k) mod 2) =? 1.

Inductive profile := Debug | Release.
