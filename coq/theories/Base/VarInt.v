(* Base/VarInt.v — variable byte integers and length helpers (common/utils.rs 75-167,
   v5/types.rs VarByteInt). *)
From MQ Require Export Base.Reader.
Open Scope N_scope.

(* write_var_int: loop { byte = len % 128; len /= 128; if len > 0 { byte |= 128 }; write; if len == 0 break }.
   A usize has at most 10 base-128 digits, hence the fuel. *)
Fixpoint write_var_int_fuel (fuel : nat) (n : N) : bytes :=
  match fuel with
  | O => []
  | S f =>
    let byte := n mod 128 in
    let n' := n / 128 in
    if 0 <? n' then (byte + 128) :: write_var_int_fuel f n' else [byte]
  end.
Definition write_var_int (n : N) : bytes := write_var_int_fuel 10 n.

(* decode_var_int: at most 4 bytes; `var_int |= (byte & 0x7F) << (7*i)` — the shifted
   groups are disjoint, so the or is a sum.  Returns (value, bytes consumed). *)
Fixpoint decode_var_int_loop (fuel : nat) (i : N) (acc : N) : reader (N * N) :=
  fun t d =>
    match d with
    | [] => RErr (io_err t)
    | b :: r =>
      let acc' := acc + (b mod 128) * 2 ^ (7 * i) in
      if b <? 128 then ROk (acc', i + 1) r
      else match fuel with
           | O => RErr InvalidVarByteInt
           | S f => decode_var_int_loop f (i + 1) acc' t r
           end
    end.
Definition decode_var_int : reader (N * N) := decode_var_int_loop 3 0 0.

Definition var_int_len (v : N) : outcome N :=
  if v <? 128 then Ok 1
  else if v <? 16384 then Ok 2
  else if v <? 2097152 then Ok 3
  else if v <? 268435456 then Ok 4
  else Err InvalidVarByteInt.

Definition total_len (r : N) : outcome N :=
  if r <? 128 then Ok (2 + r)
  else if r <? 16384 then Ok (3 + r)
  else if r <? 2097152 then Ok (4 + r)
  else if r <? 268435456 then Ok (5 + r)
  else Err InvalidVarByteInt.

Definition header_len (total : N) : N :=
  if total <? 128 + 2 then 2
  else if total <? 16384 + 3 then 3
  else if total <? 2097152 + 4 then 4
  else 5.

(* total_len - header_len(total_len): usize subtraction, overflow-checked in the debug
   profile, wrapping in release (usize = 64 bit) *)
Definition remaining_len (prof : profile) (total : N) : outcome N :=
  let h := header_len total in
  if h <=? total then Ok (total - h)
  else match prof with Debug => Panic SiteArith | Release => Ok (total + 18446744073709551616 - h) end.

(* VarByteInt::try_from(u32) *)
Definition var_byte_int_try (v : N) : outcome N :=
  if v <? 268435456 then Ok v else Err InvalidVarByteInt.

(* decode_raw_header *)
Definition decode_raw_header : reader (N * N) :=
  typ <- read_u8 ;; '(rl, _) <- decode_var_int ;; ret (typ, rl).
