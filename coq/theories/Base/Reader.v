(* Base/Reader.v — error type, outcomes, the reader monad and the read primitives
   (common/utils.rs 11-52, common/error.rs, v5/error.rs). *)
From MQ Require Export Base.Prelude Base.Utf8.
Open Scope N_scope.

Inductive protocol := V310 | V311 | V500.
Definition protocol_level (p : protocol) : N := match p with V310 => 3 | V311 => 4 | V500 => 5 end.

Inductive ptype :=
| PConnect | PConnack | PPublish | PPuback | PPubrec | PPubrel | PPubcomp
| PSubscribe | PSuback | PUnsubscribe | PUnsuback | PPingreq | PPingresp | PDisconnect | PAuth.

(* io::ErrorKind as an index into the fixed KIND list of FORMAT.md; 0 = UnexpectedEof,
   1 = InvalidData, 2 = WriteZero, 3 = Interrupted *)
Definition io_kind := N.
Definition KUnexpectedEof : io_kind := 0.
Definition KInvalidData : io_kind := 1.
Definition KWriteZero : io_kind := 2.
Definition KInterrupted : io_kind := 3.

(* Error and ErrorV5 in one type (ErrorV5::Common is the embedding of the first 15). *)
Inductive err :=
| InvalidRemainingLength
| EmptySubscription
| ZeroPid
| InvalidQos (n : N)
| InvalidConnectFlags (n : N)
| InvalidConnackFlags (n : N)
| InvalidConnectReturnCode (n : N)
| InvalidProtocol (name : bytes) (lvl : N)
| UnexpectedProtocol (p : protocol)
| InvalidHeader
| InvalidVarByteInt
| InvalidTopicName (s : bytes)
| InvalidTopicFilter (s : bytes)
| InvalidString
| IoError (k : io_kind)
| InvalidReasonCode (pt : ptype) (n : N)
| InvalidSubscriptionOption (n : N)
| InvalidPayloadFormat
| InvalidResponseTopic
| InvalidPropertyId (n : N)
| InvalidPropertyLength (n : N)
| InvalidByteProperty (id : N) (v : N)
| DuplicatedProperty (id : N)
| InvalidProperty (pt : ptype) (id : N)
| InvalidWillProperty (id : N).

Definition is_io (e : err) : bool := match e with IoError _ => true | _ => false end.
(* Error::is_eof / ErrorV5::is_eof *)
Definition is_eof (e : err) : bool := match e with IoError k => k =? KUnexpectedEof | _ => false end.
(* From<io::Error> for Error, From<Error> for io::Error *)
Definition from_io (k : io_kind) : err := IoError k.
Definition to_io (e : err) : io_kind := match e with IoError k => k | _ => KInvalidData end.

(* places where the modelled code can panic *)
Inductive site :=
| SiteFuel               (* model artefact: a fuelled loop ran out of fuel *)
| SiteQos01Expect        (* v5/types.rs:421 *)
| SiteUserPropExpect     (* v5/types.rs:485,509 *)
| SiteSubIdExpect        (* v5/types.rs:770 *)
| SitePropsLenExpect     (* v5/types.rs:883,896 *)
| SiteControlByteUnwrap  (* common/poll.rs:118 *)
| SiteHeaderVarIntExpect (* common/utils.rs:178 *)
| SiteEncodeAssert       (* common/utils.rs:181 debug_assert_eq *)
| SitePollIdxAssert      (* common/poll.rs:164 debug_assert *)
| SiteFilterAssert       (* common/types.rs:397 debug_assert *)
| SiteUnreachable        (* v3/poll.rs:53, v5/poll.rs:52 *)
| SiteSlice              (* slice / index out of range or not on a char boundary *)
| SiteArith.             (* overflow-checked arithmetic (debug profile) *)

Inductive outcome (A : Type) := Ok (a : A) | Err (e : err) | Panic (s : site).
Arguments Ok {A}. Arguments Err {A}. Arguments Panic {A}.

(* what the transport does once the scripted bytes are used up *)
Inductive tail := TEof | TFail (k : io_kind).
Definition io_err (t : tail) : err := IoError (match t with TEof => KUnexpectedEof | TFail k => k end).

Inductive res (A : Type) := ROk (a : A) (rest : bytes) | RErr (e : err) | RPanic (s : site).
Arguments ROk {A}. Arguments RErr {A}. Arguments RPanic {A}.

Definition reader (A : Type) := tail -> bytes -> res A.

Definition ret {A} (a : A) : reader A := fun _ d => ROk a d.
Definition fail {A} (e : err) : reader A := fun _ _ => RErr e.
Definition rpanic {A} (s : site) : reader A := fun _ _ => RPanic s.
Definition bind {A B} (m : reader A) (f : A -> reader B) : reader B :=
  fun t d => match m t d with
             | ROk a d' => f a t d'
             | RErr e => RErr e
             | RPanic s => RPanic s
             end.
Notation "x <- m ;; f" := (bind m (fun x => f)) (at level 61, m at next level, right associativity).
Notation "' p <- m ;; f" := (bind m (fun p => f)) (at level 61, p pattern, m at next level, right associativity).

(* tokio read_exact: all n bytes or the transport's error; a zero-length request never
   touches the transport. *)
Definition read_exact (n : N) : reader bytes :=
  fun t d => match take d n with
             | Some (a, b) => ROk a b
             | None => RErr (io_err t)
             end.

Definition read_u8 : reader N :=
  fun t d => match d with b :: r => ROk b r | [] => RErr (io_err t) end.
Definition read_u16 : reader N :=
  fun t d => match d with a :: b :: r => ROk (a * 256 + b) r | _ => RErr (io_err t) end.
Definition read_u32 : reader N :=
  fun t d => match d with
             | a :: b :: c :: e :: r => ROk (a * 16777216 + b * 65536 + c * 256 + e) r
             | _ => RErr (io_err t)
             end.
Definition read_bytes : reader bytes := n <- read_u16 ;; read_exact n.
Definition read_string : reader bytes :=
  s <- read_bytes ;; if utf8_valid s then ret s else fail InvalidString.

(* lift an outcome-free check *)
Definition guard (b : bool) (e : err) : reader unit := if b then ret tt else fail e.

(* checked_sub(..).ok_or(InvalidRemainingLength) *)
Definition checked_sub (a b : N) : reader N :=
  if b <=? a then ret (a - b) else fail InvalidRemainingLength.

Definition lift_outcome {A} (o : outcome A) : reader A :=
  match o with Ok a => ret a | Err e => fail e | Panic s => rpanic s end.
