(* Base/Utf8.v — well-formed UTF-8 (Unicode Table 3-7), the contract of
   simdutf8::basic::from_utf8, and the decomposition of a string into chars
   (code point, len_utf8) used by the topic validators. *)
From MQ Require Export Base.Prelude.
Open Scope N_scope.

Definition in_range (lo hi b : N) : bool := (lo <=? b) && (b <=? hi).
Definition is_cont (b : N) : bool := in_range 128 191 b.

(* allowed range of the second byte given the first (3- and 4-byte forms) *)
Definition second_ok (b0 b1 : N) : bool :=
  if b0 =? 224 then in_range 160 191 b1          (* E0 A0..BF *)
  else if b0 =? 237 then in_range 128 159 b1     (* ED 80..9F *)
  else if b0 =? 240 then in_range 144 191 b1     (* F0 90..BF *)
  else if b0 =? 244 then in_range 128 143 b1     (* F4 80..8F *)
  else is_cont b1.

Fixpoint utf8_valid (l : bytes) : bool :=
  match l with
  | [] => true
  | b0 :: r0 =>
    if b0 <? 128 then utf8_valid r0
    else if b0 <? 194 then false
    else if b0 <? 224 then
      match r0 with
      | b1 :: r1 => is_cont b1 && utf8_valid r1
      | _ => false
      end
    else if b0 <? 240 then
      match r0 with
      | b1 :: b2 :: r2 => second_ok b0 b1 && is_cont b2 && utf8_valid r2
      | _ => false
      end
    else if b0 <? 245 then
      match r0 with
      | b1 :: b2 :: b3 :: r3 => second_ok b0 b1 && is_cont b2 && is_cont b3 && utf8_valid r3
      | _ => false
      end
    else false
  end.

(* chars of a (valid) string: (scalar value, len_utf8).  On ill-formed input the result
   is unspecified garbage (every use is guarded by utf8_valid). *)
Fixpoint utf8_chars (l : bytes) : list (N * N) :=
  match l with
  | [] => []
  | b0 :: r0 =>
    if b0 <? 128 then (b0, 1) :: utf8_chars r0
    else if b0 <? 224 then
      match r0 with
      | b1 :: r1 => ((b0 mod 32) * 64 + b1 mod 64, 2) :: utf8_chars r1
      | _ => []
      end
    else if b0 <? 240 then
      match r0 with
      | b1 :: b2 :: r2 => ((b0 mod 16) * 4096 + (b1 mod 64) * 64 + b2 mod 64, 3) :: utf8_chars r2
      | _ => []
      end
    else
      match r0 with
      | b1 :: b2 :: b3 :: r3 =>
        ((b0 mod 8) * 262144 + (b1 mod 64) * 4096 + (b2 mod 64) * 64 + b3 mod 64, 4) :: utf8_chars r3
      | _ => []
      end
  end.

(* str::is_char_boundary *)
Definition is_char_boundary (s : bytes) (i : N) : bool :=
  if i =? 0 then true
  else if i =? len s then true
  else if len s <? i then false
  else negb (is_cont (nth (N.to_nat i) s 0)).
