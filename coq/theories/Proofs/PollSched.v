(* Proofs/PollSched.v — C05: the poll decoder (Model/Poll.v) is schedule-independent and
   cancellation-safe.  Port of the spike of DESIGN.md Appendix F to the real model
   (N counters, atake with an N capacity, events/trace, the debug assertion SitePollIdxAssert,
   idx stored next to buf).  Generic in the PollHeader implementation, like Model/Poll.v.

   Reading guide
     feed / sem            reference semantics: the machine's reaction to ONE byte; the stream fed
                           one byte at a time
     pstep_cases           what one poll_read + the code after it does, in terms of feed_many
     run_is_sem            the implementation loop equals sem on bytes_of atoms, for every schedule
     corollaries           schedule_independent, same_as_one_read, pending_only_when_transport_did,
                           consumed_eq_total, never_reads_past_frame, drop_recreate
     poll_header_eq, poll1_frame, poll1_short   characterisation of poll1 on (prefixes of) a frame *)
From MQ Require Import Proofs.Tactics Base.VarInt Model.Poll Model.Frontends.
From MQ Require Proofs.VarIntLaws.
Open Scope N_scope.

(* ---------- lists of bytes ---------- *)
Lemma len_nil : len [] = 0.
Proof. reflexivity. Qed.
Lemma len_cons (b : N) (l : bytes) : len (b :: l) = len l + 1.
Proof. unfold len. cbn [length]. lia. Qed.
Lemma len_app (a b : bytes) : len (a ++ b) = len a + len b.
Proof. unfold len. rewrite app_length. lia. Qed.
Lemma len_zero (l : bytes) : len l = 0 -> l = [].
Proof. destruct l as [|b l]; [reflexivity|]. rewrite len_cons. lia. Qed.

(* ---------- the scripted transport ---------- *)
Fixpoint count_pend (l : list atom) : N :=
  match l with APend :: r => count_pend r + 1 | _ :: r => count_pend r | [] => 0 end.

Lemma bytes_of_map_AB (d : bytes) : bytes_of (map AB d) = d.
Proof. induction d as [|b d IH]; cbn [map bytes_of]; [reflexivity|]. rewrite IH. reflexivity. Qed.
Lemma count_pend_map_AB (d : bytes) : count_pend (map AB d) = 0.
Proof. induction d as [|b d IH]; cbn [map count_pend]; [reflexivity|exact IH]. Qed.

Lemma atake_spec : forall (l : list atom) (cap : N) (bs : bytes) (r : list atom),
  atake l cap = (bs, r) ->
  len bs <= cap /\ bytes_of l = bs ++ bytes_of r /\ (length r <= length l)%nat /\
  count_pend r = count_pend l.
Proof.
  induction l as [|a l IH]; intros cap bs r Ht.
  - cbn [atake] in Ht. inversion Ht; subst. rewrite len_nil. cbn [bytes_of app length count_pend]. repeat split; lia.
  - destruct a as [b| |]; cbn [atake] in Ht.
    + destruct (N.eqb_spec cap 0) as [Hc|Hc].
      * inversion Ht; subst. rewrite len_nil. cbn [app]. repeat split; lia.
      * destruct (atake l (N.pred cap)) as [bs' r'] eqn:E. inversion Ht; subst.
        destruct (IH _ _ _ E) as (H1 & H2 & H3 & H4).
        rewrite len_cons. cbn [bytes_of app length count_pend]. rewrite H2.
        repeat split; [lia|lia|exact H4].
    + inversion Ht; subst. rewrite len_nil. cbn [bytes_of app length count_pend]. repeat split; lia.
    + inversion Ht; subst. rewrite len_nil. cbn [app]. repeat split; lia.
Qed.

(* a read with capacity >= 1 whose first atom is a byte delivers at least that byte:
   the zero-length data read of pstep's `RdData [] r` branch needs capacity 0 *)
Lemma atake_AB (cap b : N) (l : list atom) (bs : bytes) (r : list atom) :
  1 <= cap -> atake (AB b :: l) cap = (bs, r) -> bs <> [] /\ (length r <= length l)%nat.
Proof.
  intros Hc Ht. cbn [atake] in Ht. destruct (N.eqb_spec cap 0) as [H0|H0]; [lia|].
  destruct (atake l (N.pred cap)) as [x y] eqn:E. inversion Ht; subst.
  split; [discriminate|]. destruct (atake_spec _ _ _ _ E) as (_ & _ & H3 & _). exact H3.
Qed.

Lemma astrip_spec (l : list atom) :
  bytes_of (astrip l) = bytes_of l /\ (length (astrip l) <= length l)%nat /\
  count_pend (astrip l) = count_pend l.
Proof.
  induction l as [|a l IH]; [cbn [astrip bytes_of length count_pend]; repeat split; lia|].
  destruct a as [b| |]; cbn [astrip bytes_of length count_pend]; try (repeat split; lia).
  destruct IH as (H1 & H2 & H3). repeat split; [exact H1|lia|exact H3].
Qed.
Lemma astrip_no_cut (l r : list atom) : astrip l <> ACut :: r.
Proof. induction l as [|a l IH]; [discriminate|]. destruct a as [b| |]; cbn [astrip]; [discriminate|exact IH|discriminate]. Qed.

(* the three things a poll_read can do *)
Lemma poll_read_cases (cap : N) (l : list atom) : 1 <= cap ->
  (bytes_of l = [] /\ count_pend l = 0 /\ poll_read cap l = RdTail) \/
  (exists r, poll_read cap l = RdPending r /\ bytes_of l = bytes_of r /\ (length r < length l)%nat /\
             count_pend l = count_pend r + 1) \/
  (exists bs r, poll_read cap l = RdData bs r /\ bs <> [] /\ len bs <= cap /\
                bytes_of l = bs ++ bytes_of r /\ (length r < length l)%nat /\
                count_pend l = count_pend r).
Proof.
  intros Hc. unfold poll_read. destruct (astrip_spec l) as (Hb & Hl & Hp).
  destruct (astrip l) as [|a l'] eqn:Es.
  - left. repeat split; [rewrite <- Hb; reflexivity|rewrite <- Hp; reflexivity].
  - destruct a as [b| |].
    + right. right. destruct (atake (AB b :: l') cap) as [bs r] eqn:Et.
      destruct (atake_spec _ _ _ _ Et) as (H1 & H2 & _ & H4).
      destruct (atake_AB _ _ _ _ _ Hc Et) as [Hne Hr].
      exists bs, r. cbn [length] in Hl. repeat split; [exact Hne|exact H1|congruence|lia|congruence].
    + exfalso. exact (astrip_no_cut _ _ Es).
    + right. left. exists l'. cbn [bytes_of length count_pend] in *.
      repeat split; [congruence|lia|congruence].
Qed.

(* answer to the zero-length-read question: never, when the capacity is at least 1 *)
Lemma poll_read_nonempty (cap : N) (l : list atom) (bs : bytes) (r : list atom) :
  1 <= cap -> poll_read cap l = RdData bs r -> bs <> [].
Proof.
  intros Hc Hr. destruct (poll_read_cases cap l Hc) as [(_ & _ & H)|[(r' & H & _)|(bs' & r' & H & Hne & _)]];
    rewrite H in Hr; try discriminate. inversion Hr; subst. exact Hne.
Qed.
(* and it does happen with capacity 0 (which no well-formed state offers) *)
Example zero_len_read_needs_cap0 : poll_read 0 [AB 7] = RdData [] [AB 7].
Proof. reflexivity. Qed.

Section PollSched.
Variable P : Type.
Variable new_with : N -> N -> outcome header.
Variable build_empty : header -> option P.
Variable block_decode : header -> reader P.

Local Notation presult := (presult P).
Local Notation body_result := (body_result P block_decode).
Local Notation header_done := (header_done P new_with build_empty).
Local Notation pstep := (pstep P new_with build_empty block_decode).
Local Notation prun := (prun P new_with build_empty block_decode).
Local Notation poll_drive := (poll_drive P new_with build_empty block_decode).
Local Notation poll1 := (poll1 P new_with build_empty block_decode).
Local Notation rr_res := (rr_res P).
Local Notation rr_state := (rr_state P).
Local Notation rr_rest := (rr_rest P).
Local Notation rr_pend := (rr_pend P).
Local Notation rr_trace := (rr_trace P).
Local Notation Continue := (Continue P).
Local Notation Finished := (Finished P).

(* ---------- reference semantics ---------- *)
(* the state machine's reaction to ONE byte: next state, or the poll's result *)
Definition feed (s : pstate) (b : N) : pstate + presult :=
  match s with
  | SHeader None vidx vint => inl (SHeader (Some b) vidx vint)
  | SHeader (Some cb) vidx vint =>
    let vint' := vint + (b mod 128) * 2 ^ (7 * vidx) in
    if b <? 128 then
      match header_done cb vidx vint' with inl res => inr res | inr s' => inl s' end
    else if vidx <? 3 then inl (SHeader (Some cb) (vidx + 1) vint')
    else inr (Err InvalidVarByteInt)
  | SBody h total idx buf =>
    if idx + 1 =? h_rl h then inr (body_result h total (buf ++ [b]))
    else inl (SBody h total (idx + 1) (buf ++ [b]))
  end.

(* feed the byte stream one byte at a time; running out of bytes is the transport's error *)
Fixpoint sem (s : pstate) (d : bytes) (t : tail) : presult * bytes :=
  match d with
  | [] => (Err (io_err t), [])
  | b :: r => match feed s b with inr res => (res, r) | inl s' => sem s' r t end
  end.

(* feeding a chunk; the second component is what is left of the chunk if the machine finishes early *)
Fixpoint feed_many (s : pstate) (bs : bytes) : (pstate + presult) * bytes :=
  match bs with
  | [] => (inl s, [])
  | b :: r => match feed s b with inr res => (inr res, r) | inl s' => feed_many s' r end
  end.

(* body states: idx is the fill level of buf and the body is not complete yet *)
Definition wf (s : pstate) : Prop :=
  match s with SHeader _ _ _ => True | SBody h _ idx buf => idx = len buf /\ idx < h_rl h end.

Lemma wf_pinit : wf pinit.
Proof. exact I. Qed.

Lemma wf_cap (s : pstate) : wf s -> 1 <= cap_of s.
Proof. destruct s as [cb vidx vint|h total idx buf]; cbn [wf cap_of]; lia. Qed.

Lemma header_done_wf (cb vidx vint : N) (s' : pstate) : header_done cb vidx vint = inr s' -> wf s'.
Proof.
  unfold Poll.header_done. intros H.
  destruct (new_with cb vint) as [h|e|st]; try discriminate.
  destruct (build_empty h) as [p|]; [discriminate|].
  destruct (N.eqb_spec (h_rl h) 0) as [E|E]; [discriminate|].
  inversion H; subst. cbn [wf]. rewrite len_nil. lia.
Qed.

Lemma feed_wf (s : pstate) (b : N) (s' : pstate) : wf s -> feed s b = inl s' -> wf s'.
Proof.
  destruct s as [[cb|] vidx vint|h total idx buf]; cbn [feed wf]; intros Hw Hf.
  - destruct (b <? 128).
    + destruct (header_done cb vidx _) as [res|s1] eqn:Eh; [discriminate|].
      inversion Hf; subst. exact (header_done_wf _ _ _ _ Eh).
    + destruct (vidx <? 3); [|discriminate]. inversion Hf; subst. exact I.
  - inversion Hf; subst. exact I.
  - destruct (N.eqb_spec (idx + 1) (h_rl h)) as [E|E]; [discriminate|].
    inversion Hf; subst. cbn [wf]. rewrite len_app. change (len [b]) with 1. lia.
Qed.

Lemma feed_many_wf : forall (bs : bytes) (s s' : pstate) (lft : bytes),
  wf s -> feed_many s bs = (inl s', lft) -> wf s'.
Proof.
  induction bs as [|b bs IH]; intros s s' lft Hw Hf; cbn [feed_many] in Hf.
  - inversion Hf; subst. exact Hw.
  - destruct (feed s b) as [s1|res] eqn:Ef; [|discriminate].
    exact (IH _ _ _ (feed_wf _ _ _ Hw Ef) Hf).
Qed.

Lemma feed_many_cons (s : pstate) (b : N) (r : bytes) :
  feed_many s (b :: r) = match feed s b with inr res => (inr res, r) | inl s' => feed_many s' r end.
Proof. reflexivity. Qed.

(* body: appending a chunk of k <= cap bytes and testing once == feeding the bytes one at a time *)
Lemma body_chunk (h : header) (total : N) : forall (bs buf : bytes) (idx : N),
  idx < h_rl h -> idx + len bs <= h_rl h -> bs <> [] ->
  feed_many (SBody h total idx buf) bs =
    (if idx + len bs =? h_rl h then inr (body_result h total (buf ++ bs))
     else inl (SBody h total (idx + len bs) (buf ++ bs)), []).
Proof.
  induction bs as [|b bs IH]; intros buf idx Hlt Hle Hne; [congruence|].
  destruct bs as [|b2 bs'].
  - cbn [feed_many feed]. change (len [b]) with 1.
    destruct (idx + 1 =? h_rl h); reflexivity.
  - rewrite feed_many_cons. cbn [feed].
    rewrite len_cons in Hle.
    destruct (N.eqb_spec (idx + 1) (h_rl h)) as [E|E].
    { exfalso. rewrite len_cons in Hle. lia. }
    rewrite IH; [|lia|lia|discriminate].
    rewrite <- app_assoc. cbn [app].
    rewrite (len_cons b (b2 :: bs')).
    replace (idx + 1 + len (b2 :: bs')) with (idx + (len (b2 :: bs') + 1)) by lia.
    reflexivity.
Qed.

(* sem over a concatenation, via feed_many *)
Lemma sem_app : forall (bs : bytes) (s : pstate) (rest : bytes) (t : tail),
  sem s (bs ++ rest) t = match feed_many s bs with
                         | (inr res, lft) => (res, lft ++ rest)
                         | (inl s', _) => sem s' rest t
                         end.
Proof.
  induction bs as [|b bs IH]; intros s rest t; [reflexivity|].
  cbn [app sem feed_many]. destruct (feed s b) as [s'|res]; [|reflexivity]. apply IH.
Qed.

(* ---------- one implementation step, in terms of feed_many ---------- *)
Lemma pstep_cases (prof : profile) (s : pstate) (l : list atom) (t : tail) : wf s ->
  (bytes_of l = [] /\ count_pend l = 0 /\ pstep prof s l t = Finished (Err (io_err t)) s [] (EvTail (cap_of s))) \/
  (exists r, pstep prof s l t = Continue s r true (EvPend (cap_of s)) /\
             bytes_of l = bytes_of r /\ (length r < length l)%nat /\
             count_pend l = count_pend r + 1) \/
  (exists bs r, bs <> [] /\ len bs <= cap_of s /\ bytes_of l = bs ++ bytes_of r /\
                (length r < length l)%nat /\ count_pend l = count_pend r /\
     ((exists s', feed_many s bs = (inl s', []) /\
                  pstep prof s l t = Continue s' r false (EvData (cap_of s) (len bs))) \/
      (exists res s', feed_many s bs = (inr res, []) /\
                  pstep prof s l t = Finished res s' r (EvData (cap_of s) (len bs))))).
Proof.
  intros Hw. unfold Poll.pstep.
  destruct (poll_read_cases (cap_of s) l (wf_cap s Hw))
    as [(Hb & Hp & Hr)|[(r & Hr & Hb & Hl & Hp)|(bs & r & Hr & Hne & Hcap & Hb & Hl & Hp)]]; rewrite Hr.
  - left. repeat split; assumption.
  - right. left. exists r. repeat split; assumption.
  - right. right. exists bs, r. repeat split; try assumption.
    destruct bs as [|b0 bs0]; [congruence|].
    destruct s as [cbo vidx vint|h total idx buf].
    + (* header: capacity 1, so exactly one byte *)
      cbn [cap_of] in *. rewrite len_cons in Hcap.
      assert (Hnil : bs0 = []) by (apply len_zero; lia). subst bs0.
      cbv beta iota. cbn [feed_many].
      destruct cbo as [cb|]; cbn [feed].
      * destruct (b0 <? 128).
        -- destruct (header_done cb vidx (vint + b0 mod 128 * 2 ^ (7 * vidx))) as [res|s1].
           ++ right. eexists _, _. split; reflexivity.
           ++ left. eexists. split; reflexivity.
        -- destruct (vidx <? 3).
           ++ left. eexists. split; reflexivity.
           ++ right. eexists _, _. split; reflexivity.
      * left. eexists. split; reflexivity.
    + (* body: the whole chunk is appended, idx == len tested once *)
      cbn [cap_of wf] in *. destruct Hw as [Hi Hlt].
      cbv beta iota zeta.
      rewrite (body_chunk h total (b0 :: bs0) buf idx Hlt) by (try discriminate; lia).
      assert (Hassert : (match prof with Debug => h_rl h <? idx + len (b0 :: bs0) | Release => false end) = false).
      { destruct prof; [|reflexivity]. destruct (N.ltb_spec (h_rl h) (idx + len (b0 :: bs0))); [lia|reflexivity]. }
      rewrite Hassert.
      destruct (idx + len (b0 :: bs0) =? h_rl h).
      * right. eexists _, _. split; reflexivity.
      * left. eexists. split; reflexivity.
Qed.

(* ---------- the accumulators of prun only accumulate ---------- *)
Definition run0 (prof : profile) (fuel : nat) (s : pstate) (l : list atom) (t : tail) : runres P :=
  prun prof fuel s l t 0 [].

Lemma rev'_eq (A : Type) (l : list A) : rev' l = rev l.
Proof. unfold rev'. symmetry. apply rev_alt. Qed.

Lemma prun_acc (prof : profile) (t : tail) : forall (fuel : nat) (s : pstate) (l : list atom) (pend : N) (tr : list event),
  rr_res (prun prof fuel s l t pend tr) = rr_res (run0 prof fuel s l t) /\
  rr_state (prun prof fuel s l t pend tr) = rr_state (run0 prof fuel s l t) /\
  rr_rest (prun prof fuel s l t pend tr) = rr_rest (run0 prof fuel s l t) /\
  rr_pend (prun prof fuel s l t pend tr) = pend + rr_pend (run0 prof fuel s l t) /\
  rr_trace (prun prof fuel s l t pend tr) = rev tr ++ rr_trace (run0 prof fuel s l t).
Proof.
  unfold run0. induction fuel as [|f IH]; intros s l pend tr.
  - cbn [Poll.prun Poll.rr_res Poll.rr_state Poll.rr_rest Poll.rr_pend Poll.rr_trace].
    rewrite !rev'_eq. cbn [rev]. rewrite app_nil_r. repeat split. lia.
  - cbn [Poll.prun]. destruct (pstep prof s l t) as [s' rest p ev|res s' rest ev].
    + destruct (IH s' rest (if p then pend + 1 else pend) (ev :: tr)) as (A1 & A2 & A3 & A4 & A5).
      destruct (IH s' rest (if p then 0 + 1 else 0) [ev]) as (B1 & B2 & B3 & B4 & B5).
      rewrite A1, A2, A3, A4, A5, B1, B2, B3, B4, B5. cbn [rev app]. rewrite <- app_assoc.
      repeat split. destruct p; lia.
    + cbn [Poll.rr_res Poll.rr_state Poll.rr_rest Poll.rr_pend Poll.rr_trace].
      rewrite !rev'_eq. cbn [rev app]. repeat split. lia.
Qed.

Lemma run0_finished (prof : profile) (f : nat) (s : pstate) (l : list atom) (t : tail)
      (res : presult) (s' : pstate) (rest : list atom) (ev : event) :
  pstep prof s l t = Finished res s' rest ev ->
  run0 prof (S f) s l t =
  {| Poll.rr_res := Some res; Poll.rr_state := s'; Poll.rr_rest := rest; Poll.rr_pend := 0;
     Poll.rr_trace := [ev] |}.
Proof. intros H. unfold run0. cbn [Poll.prun]. rewrite H. reflexivity. Qed.

Lemma run0_continue (prof : profile) (f : nat) (s : pstate) (l : list atom) (t : tail)
      (s' : pstate) (rest : list atom) (p : bool) (ev : event) :
  pstep prof s l t = Continue s' rest p ev ->
  rr_res (run0 prof (S f) s l t) = rr_res (run0 prof f s' rest t) /\
  rr_state (run0 prof (S f) s l t) = rr_state (run0 prof f s' rest t) /\
  rr_rest (run0 prof (S f) s l t) = rr_rest (run0 prof f s' rest t) /\
  rr_pend (run0 prof (S f) s l t) = bool_n p + rr_pend (run0 prof f s' rest t) /\
  rr_trace (run0 prof (S f) s l t) = ev :: rr_trace (run0 prof f s' rest t).
Proof.
  intros H. unfold run0 at 1 3 5 7 9. cbn [Poll.prun]. rewrite H.
  destruct (prun_acc prof t f s' rest (if p then 0 + 1 else 0) [ev]) as (A1 & A2 & A3 & A4 & A5).
  rewrite A1, A2, A3, A4, A5. repeat split; try (destruct p; reflexivity).
Qed.

(* ---------- the loop as a profile-free, fuel-free derivation ---------- *)
Inductive bigrun (t : tail) : pstate -> list atom -> presult -> list atom -> N -> list event -> Prop :=
| BRTail (s : pstate) (l : list atom) :
    wf s -> bytes_of l = [] -> count_pend l = 0 ->
    bigrun t s l (Err (io_err t)) [] 0 [EvTail (cap_of s)]
| BRPend (s : pstate) (l r : list atom) (res : presult) (rest : list atom) (pend : N) (tr : list event) :
    wf s -> bytes_of l = bytes_of r -> count_pend l = count_pend r + 1 ->
    bigrun t s r res rest pend tr ->
    bigrun t s l res rest (1 + pend) (EvPend (cap_of s) :: tr)
| BRData (s : pstate) (l : list atom) (bs : bytes) (r : list atom) (s' : pstate)
         (res : presult) (rest : list atom) (pend : N) (tr : list event) :
    wf s -> bs <> [] -> len bs <= cap_of s -> bytes_of l = bs ++ bytes_of r ->
    count_pend l = count_pend r -> feed_many s bs = (inl s', []) ->
    bigrun t s' r res rest pend tr ->
    bigrun t s l res rest pend (EvData (cap_of s) (len bs) :: tr)
| BRDone (s : pstate) (l : list atom) (bs : bytes) (r : list atom) (res : presult) :
    wf s -> bs <> [] -> len bs <= cap_of s -> bytes_of l = bs ++ bytes_of r ->
    count_pend l = count_pend r -> feed_many s bs = (inr res, []) ->
    bigrun t s l res r 0 [EvData (cap_of s) (len bs)].

(* with fuel > length l the loop finishes, and what it did is such a derivation:
   in particular neither SitePollIdxAssert nor the capacity-1 SiteSlice branch nor the
   zero-length-read branch of pstep is ever taken, in either profile *)
Theorem run_bigrun (prof : profile) (t : tail) : forall (fuel : nat) (s : pstate) (l : list atom),
  wf s -> (length l < fuel)%nat ->
  exists res, rr_res (run0 prof fuel s l t) = Some res /\
              bigrun t s l res (rr_rest (run0 prof fuel s l t)) (rr_pend (run0 prof fuel s l t))
                     (rr_trace (run0 prof fuel s l t)).
Proof.
  induction fuel as [|f IH]; intros s l Hw Hf; [lia|].
  destruct (pstep_cases prof s l t Hw)
    as [(Hb & Hp & Hs)|[(r & Hs & Hb & Hl & Hp)|(bs & r & Hne & Hcap & Hb & Hl & Hp & [(s' & Hfm & Hs)|(res & s' & Hfm & Hs)])]].
  - rewrite (run0_finished _ f _ _ _ _ _ _ _ Hs). cbn [Poll.rr_res Poll.rr_rest Poll.rr_pend Poll.rr_trace].
    eexists. split; [reflexivity|]. apply BRTail; assumption.
  - destruct (run0_continue _ f _ _ _ _ _ _ _ Hs) as (A1 & _ & A3 & A4 & A5).
    rewrite A1, A3, A4, A5. destruct (IH s r Hw) as (res & Hr & Hbr); [lia|].
    exists res. split; [exact Hr|]. cbn [bool_n]. eapply BRPend; eassumption.
  - destruct (run0_continue _ f _ _ _ _ _ _ _ Hs) as (A1 & _ & A3 & A4 & A5).
    rewrite A1, A3, A4, A5. destruct (IH s' r (feed_many_wf _ _ _ _ Hw Hfm)) as (res & Hr & Hbr); [lia|].
    exists res. split; [exact Hr|]. cbn [bool_n]. replace (0 + rr_pend (run0 prof f s' r t)) with (rr_pend (run0 prof f s' r t)) by lia.
    eapply BRData; eassumption.
  - rewrite (run0_finished _ f _ _ _ _ _ _ _ Hs). cbn [Poll.rr_res Poll.rr_rest Poll.rr_pend Poll.rr_trace].
    eexists. split; [reflexivity|]. eapply BRDone; eassumption.
Qed.

(* a derivation computes sem *)
Lemma bigrun_sem (t : tail) (s : pstate) (l : list atom) (res : presult) (rest : list atom)
      (pend : N) (tr : list event) :
  bigrun t s l res rest pend tr -> sem s (bytes_of l) t = (res, bytes_of rest).
Proof.
  induction 1 as [s l Hw Hb Hp0|s l r res rest pend tr Hw Hb Hp _ IH
                  |s l bs r s' res rest pend tr Hw Hne Hcap Hb Hp Hfm _ IH
                  |s l bs r res Hw Hne Hcap Hb Hp Hfm].
  - rewrite Hb. reflexivity.
  - rewrite Hb. exact IH.
  - rewrite Hb, sem_app, Hfm. exact IH.
  - rewrite Hb, sem_app, Hfm. reflexivity.
Qed.

(* ---------- MAIN THEOREM: the implementation loop is the reference semantics ---------- *)
Theorem run_is_sem (prof : profile) (fuel : nat) (s : pstate) (l : list atom) (t : tail)
        (pend : N) (tr : list event) :
  wf s -> (length l < fuel)%nat ->
  rr_res (prun prof fuel s l t pend tr) = Some (fst (sem s (bytes_of l) t)) /\
  bytes_of (rr_rest (prun prof fuel s l t pend tr)) = snd (sem s (bytes_of l) t).
Proof.
  intros Hw Hf. destruct (prun_acc prof t fuel s l pend tr) as (A1 & _ & A3 & _).
  rewrite A1, A3. destruct (run_bigrun prof t fuel s l Hw Hf) as (res & Hr & Hbr).
  rewrite Hr, (bigrun_sem _ _ _ _ _ _ _ Hbr). split; reflexivity.
Qed.

(* ---------- corollaries for poll_drive ---------- *)
Lemma poll_drive_run0 (prof : profile) (l : list atom) (t : tail) :
  poll_drive prof l t = run0 prof (S (S (length l))) pinit l t.
Proof. reflexivity. Qed.

Lemma poll_drive_bigrun (prof : profile) (l : list atom) (t : tail) :
  exists res, rr_res (poll_drive prof l t) = Some res /\
              bigrun t pinit l res (rr_rest (poll_drive prof l t)) (rr_pend (poll_drive prof l t))
                     (rr_trace (poll_drive prof l t)).
Proof. rewrite poll_drive_run0. apply run_bigrun; [exact wf_pinit|lia]. Qed.

Theorem poll_drive_is_sem (prof : profile) (l : list atom) (t : tail) :
  rr_res (poll_drive prof l t) = Some (fst (sem pinit (bytes_of l) t)) /\
  bytes_of (rr_rest (poll_drive prof l t)) = snd (sem pinit (bytes_of l) t).
Proof. unfold Poll.poll_drive. apply run_is_sem; [exact wf_pinit|lia]. Qed.

(* the fuel of poll_drive always suffices *)
Corollary poll_drive_fuel (prof : profile) (l : list atom) (t : tail) :
  rr_res (poll_drive prof l t) <> None.
Proof. destruct (poll_drive_is_sem prof l t) as [H _]. rewrite H. discriminate. Qed.

(* (a) every schedule of the same byte stream, in either profile, gives the same result and
   leaves the same bytes *)
Theorem schedule_independent (prof1 prof2 : profile) (l1 l2 : list atom) (t : tail) :
  bytes_of l1 = bytes_of l2 ->
  rr_res (poll_drive prof1 l1 t) = rr_res (poll_drive prof2 l2 t) /\
  bytes_of (rr_rest (poll_drive prof1 l1 t)) = bytes_of (rr_rest (poll_drive prof2 l2 t)).
Proof.
  intros Hb. destruct (poll_drive_is_sem prof1 l1 t) as [A1 A2].
  destruct (poll_drive_is_sem prof2 l2 t) as [B1 B2].
  rewrite A1, A2, B1, B2, Hb. split; reflexivity.
Qed.

Corollary profile_independent (l : list atom) (t : tail) :
  rr_res (poll_drive Debug l t) = rr_res (poll_drive Release l t) /\
  bytes_of (rr_rest (poll_drive Debug l t)) = bytes_of (rr_rest (poll_drive Release l t)).
Proof. apply schedule_independent. reflexivity. Qed.

(* (b) same as one uninterrupted always-ready read *)
Theorem same_as_one_read (prof : profile) (l : list atom) (t : tail) :
  rr_res (poll_drive prof l t) = rr_res (poll1 prof (bytes_of l) t) /\
  bytes_of (rr_rest (poll_drive prof l t)) = bytes_of (rr_rest (poll1 prof (bytes_of l) t)).
Proof. unfold Poll.poll1. apply schedule_independent. symmetry. apply bytes_of_map_AB. Qed.

Lemma poll1_is_sem (prof : profile) (d : bytes) (t : tail) :
  rr_res (poll1 prof d t) = Some (fst (sem pinit d t)) /\
  bytes_of (rr_rest (poll1 prof d t)) = snd (sem pinit d t).
Proof.
  unfold Poll.poll1. destruct (poll_drive_is_sem prof (map AB d) t) as [A1 A2].
  rewrite bytes_of_map_AB in A1, A2. split; assumption.
Qed.

(* (c) Pending is returned exactly once per APend atom consumed, and the EvPend events are these *)
Fixpoint count_evpend (tr : list event) : N :=
  match tr with EvPend _ :: r => count_evpend r + 1 | _ :: r => count_evpend r | [] => 0 end.

Lemma bigrun_pend (t : tail) (s : pstate) (l : list atom) (res : presult) (rest : list atom)
      (pend : N) (tr : list event) :
  bigrun t s l res rest pend tr ->
  pend + count_pend rest = count_pend l /\ count_evpend tr = pend.
Proof.
  induction 1 as [s l Hw Hb Hp0|s l r res rest pend tr Hw Hb Hp _ [IH1 IH2]
                  |s l bs r s' res rest pend tr Hw Hne Hcap Hb Hp Hfm _ [IH1 IH2]
                  |s l bs r res Hw Hne Hcap Hb Hp Hfm]; cbn [count_evpend count_pend].
  - split; [lia|reflexivity].
  - split; lia.
  - split; lia.
  - split; [lia|reflexivity].
Qed.

Theorem pending_only_when_transport_did (prof : profile) (l : list atom) (t : tail) :
  rr_pend (poll_drive prof l t) + count_pend (rr_rest (poll_drive prof l t)) = count_pend l /\
  rr_pend (poll_drive prof l t) = count_pend l - count_pend (rr_rest (poll_drive prof l t)) /\
  count_evpend (rr_trace (poll_drive prof l t)) = rr_pend (poll_drive prof l t).
Proof.
  destruct (poll_drive_bigrun prof l t) as (res & _ & Hbr).
  destruct (bigrun_pend _ _ _ _ _ _ _ Hbr) as [H1 H2]. repeat split; [exact H1|lia|exact H2].
Qed.

(* (e) what the reads asked for and what they delivered *)
Definition ev_cap (ev : event) : N := match ev with EvData c _ => c | EvPend c => c | EvTail c => c end.
Definition ev_size (ev : event) : N := match ev with EvData _ n => n | _ => 0 end.
Fixpoint data_total (tr : list event) : N :=
  match tr with [] => 0 | ev :: r => ev_size ev + data_total r end.

(* every read asks for at least one byte, is delivered no more than asked, a data read delivers
   at least one byte, and the delivered sizes add up to the bytes consumed *)
Definition ev_ok (ev : event) : Prop :=
  1 <= ev_cap ev /\ ev_size ev <= ev_cap ev /\ match ev with EvData _ n => 1 <= n | _ => True end.

Lemma bigrun_trace (t : tail) (s : pstate) (l : list atom) (res : presult) (rest : list atom)
      (pend : N) (tr : list event) :
  bigrun t s l res rest pend tr ->
  Forall ev_ok tr /\ data_total tr + len (bytes_of rest) = len (bytes_of l).
Proof.
  assert (Hpos : forall bs : bytes, bs <> [] -> 1 <= len bs).
  { intros bs Hne. destruct bs as [|b bs]; [congruence|]. rewrite len_cons. lia. }
  induction 1 as [s l Hw Hb Hp0|s l r res rest pend tr Hw Hb Hp _ [IH1 IH2]
                  |s l bs r s' res rest pend tr Hw Hne Hcap Hb Hp Hfm _ [IH1 IH2]
                  |s l bs r res Hw Hne Hcap Hb Hp Hfm]; cbn [data_total ev_size].
  - split; [|rewrite Hb; reflexivity].
    constructor; [|constructor]. unfold ev_ok. cbn [ev_cap ev_size]. pose proof (wf_cap s Hw). lia.
  - split; [|rewrite Hb; lia].
    constructor; [|exact IH1]. unfold ev_ok. cbn [ev_cap ev_size]. pose proof (wf_cap s Hw). lia.
  - split; [|rewrite Hb, len_app; lia].
    constructor; [|exact IH1]. unfold ev_ok. cbn [ev_cap ev_size]. pose proof (Hpos bs Hne). lia.
  - split; [|rewrite Hb, len_app; lia].
    constructor; [|constructor]. unfold ev_ok. cbn [ev_cap ev_size]. pose proof (Hpos bs Hne). lia.
Qed.

(* position in the frame, for the states reachable from pinit *)
Definition wfp (s : pstate) : Prop :=
  wf s /\ match s with
          | SHeader None vidx _ => vidx = 0
          | SHeader (Some _) _ _ => True
          | SBody h total _ _ => h_rl h <= total
          end.
Definition pos (s : pstate) : N :=
  match s with
  | SHeader None _ _ => 0
  | SHeader (Some _) vidx _ => 1 + vidx
  | SBody h total idx _ => total - h_rl h + idx
  end.
(* the position up to which the next read may deliver *)
Definition lim (s : pstate) : N := pos s + cap_of s.

Lemma wfp_pinit : wfp pinit.
Proof. split; [exact I|reflexivity]. Qed.

Lemma header_done_inr (cb vidx vint : N) (s' : pstate) : header_done cb vidx vint = inr s' ->
  exists h, new_with cb vint = Ok h /\ build_empty h = None /\ h_rl h <> 0 /\
            s' = SBody h (1 + 1 + vidx + h_rl h) 0 [].
Proof.
  unfold Poll.header_done. intros H.
  destruct (new_with cb vint) as [h|e|st]; try discriminate.
  destruct (build_empty h) as [p|] eqn:Eb; [discriminate|].
  destruct (N.eqb_spec (h_rl h) 0) as [E|E]; [discriminate|].
  inversion H; subst. exists h. repeat split; assumption.
Qed.

Lemma header_done_inl_ok (cb vidx vint total : N) (body : bytes) (p : P) :
  header_done cb vidx vint = inl (Ok (total, body, p)) ->
  exists h, new_with cb vint = Ok h /\ build_empty h = Some p /\ total = 1 + 1 + vidx /\ body = [].
Proof.
  unfold Poll.header_done. intros H.
  destruct (new_with cb vint) as [h|e|st]; try discriminate.
  destruct (build_empty h) as [p'|] eqn:Eb.
  - inversion H; subst. exists h. repeat split; assumption.
  - destruct (h_rl h =? 0); discriminate.
Qed.

Lemma body_result_ok (h : header) (total : N) (buf : bytes) (total' : N) (body : bytes) (p : P) :
  body_result h total buf = Ok (total', body, p) ->
  total' = total /\ body = buf /\ block_decode h TEof buf = ROk p [].
Proof.
  unfold Poll.body_result. intros H.
  destruct (block_decode h TEof buf) as [p' [|x r]|e|st]; try discriminate.
  - inversion H; subst. repeat split.
  - destruct (is_eof e); discriminate.
Qed.

Lemma feed_pos (s : pstate) (b : N) (s' : pstate) : wfp s -> feed s b = inl s' ->
  wfp s' /\ pos s' = pos s + 1 /\ lim s <= lim s'.
Proof.
  intros [Hw Hp] Hf. split; [split; [exact (feed_wf _ _ _ Hw Hf)|]|]; revert Hf;
    destruct s as [[cb|] vidx vint|h total idx buf]; cbn [feed]; intros Hf.
  - destruct (b <? 128).
    + destruct (header_done cb vidx _) as [res|s1] eqn:Eh; [discriminate|]. inversion Hf; subst s1.
      destruct (header_done_inr _ _ _ _ Eh) as (h & _ & _ & _ & ->). lia.
    + destruct (vidx <? 3); [|discriminate]. inversion Hf; subst. exact I.
  - inversion Hf; subst. exact I.
  - destruct (N.eqb_spec (idx + 1) (h_rl h)) as [E|E]; [discriminate|]. inversion Hf; subst. exact Hp.
  - destruct (b <? 128).
    + destruct (header_done cb vidx _) as [res|s1] eqn:Eh; [discriminate|]. inversion Hf; subst s1.
      destruct (header_done_inr _ _ _ _ Eh) as (h & _ & _ & _ & ->).
      unfold lim. cbn [pos cap_of]. lia.
    + destruct (vidx <? 3); [|discriminate]. inversion Hf; subst. unfold lim. cbn [pos cap_of]. lia.
  - inversion Hf; subst. unfold lim. cbn [pos cap_of]. lia.
  - destruct (N.eqb_spec (idx + 1) (h_rl h)) as [E|E]; [discriminate|]. inversion Hf; subst.
    cbn [wf] in Hw. unfold lim. cbn [pos cap_of]. lia.
Qed.

Lemma feed_fin (s : pstate) (b total : N) (body : bytes) (p : P) : wfp s ->
  feed s b = inr (Ok (total, body, p)) -> total = pos s + 1 /\ lim s <= total.
Proof.
  intros [Hw Hp]. destruct s as [[cb|] vidx vint|h total0 idx buf]; cbn [feed]; intros Hf.
  - destruct (b <? 128).
    + destruct (header_done cb vidx _) as [res|s1] eqn:Eh; [|discriminate]. inversion Hf; subst res.
      destruct (header_done_inl_ok _ _ _ _ _ _ Eh) as (h & _ & _ & -> & _).
      unfold lim. cbn [pos cap_of]. lia.
    + destruct (vidx <? 3); discriminate.
  - discriminate.
  - destruct (N.eqb_spec (idx + 1) (h_rl h)) as [E|E]; [|discriminate]. inversion Hf as [Hr].
    destruct (body_result_ok _ _ _ _ _ _ Hr) as (-> & _ & _).
    cbn [wf] in Hw. unfold lim. cbn [pos cap_of]. lia.
Qed.

Lemma feed_many_pos : forall (bs : bytes) (s s' : pstate) (lft : bytes), wfp s ->
  feed_many s bs = (inl s', lft) -> wfp s' /\ pos s' = pos s + len bs /\ lim s <= lim s'.
Proof.
  induction bs as [|b bs IH]; intros s s' lft Hw Hf; cbn [feed_many] in Hf.
  - inversion Hf; subst. rewrite len_nil. split; [exact Hw|split; lia].
  - destruct (feed s b) as [s1|res] eqn:Ef; [|discriminate].
    destruct (feed_pos _ _ _ Hw Ef) as (Hw1 & Hp1 & Hl1).
    destruct (IH _ _ _ Hw1 Hf) as (Hw2 & Hp2 & Hl2). rewrite len_cons. split; [exact Hw2|split; lia].
Qed.

Lemma feed_many_fin : forall (bs : bytes) (s : pstate) (total : N) (body : bytes) (p : P), wfp s ->
  feed_many s bs = (inr (Ok (total, body, p)), []) -> total = pos s + len bs /\ lim s <= total.
Proof.
  induction bs as [|b bs IH]; intros s total body p Hw Hf; cbn [feed_many] in Hf; [discriminate|].
  destruct (feed s b) as [s1|res] eqn:Ef.
  - destruct (feed_pos _ _ _ Hw Ef) as (Hw1 & Hp1 & Hl1).
    destruct (IH _ _ _ _ Hw1 Hf) as (Ht & Hl2). rewrite len_cons. split; lia.
  - inversion Hf; subst. destruct (feed_fin _ _ _ _ _ Hw Ef) as [Ht Hl]. rewrite len_cons, len_nil. split; lia.
Qed.

(* no read asks for bytes beyond the end of the frame: n is the position before the read *)
Fixpoint frame_ok (n : N) (tr : list event) (total : N) : Prop :=
  match tr with
  | [] => True
  | ev :: r => n + ev_cap ev <= total /\ frame_ok (n + ev_size ev) r total
  end.

Lemma bigrun_frame (t : tail) (s : pstate) (l : list atom) (res : presult) (rest : list atom)
      (pend : N) (tr : list event) :
  bigrun t s l res rest pend tr -> wfp s ->
  forall (total : N) (body : bytes) (p : P), res = Ok (total, body, p) ->
  lim s <= total /\ frame_ok (pos s) tr total /\ total = pos s + data_total tr.
Proof.
  induction 1 as [s l Hw Hb Hp0|s l r res rest pend tr Hw Hb Hp _ IH
                  |s l bs r s' res rest pend tr Hw Hne Hcap Hb Hp Hfm _ IH
                  |s l bs r res Hw Hne Hcap Hb Hp Hfm]; intros Hwp total body p Hres.
  - discriminate.
  - destruct (IH Hwp _ _ _ Hres) as (H1 & H2 & H3).
    cbn [frame_ok data_total ev_cap ev_size]. unfold lim in H1.
    replace (pos s + 0) with (pos s) by lia. repeat split; [exact H1|exact H1|exact H2|lia].
  - destruct (feed_many_pos _ _ _ _ Hwp Hfm) as (Hwp' & Hpos & Hlim).
    destruct (IH Hwp' _ _ _ Hres) as (H1 & H2 & H3).
    cbn [frame_ok data_total ev_cap ev_size]. rewrite <- Hpos.
    assert (Hl : lim s <= total) by lia. unfold lim in Hl.
    repeat split; [exact Hl|exact Hl|exact H2|lia].
  - subst res. destruct (feed_many_fin _ _ _ _ _ Hwp Hfm) as [Ht Hl].
    cbn [frame_ok data_total ev_cap ev_size]. unfold lim in Hl.
    repeat split; [exact Hl|exact Hl|lia].
Qed.

Theorem never_reads_past_frame (prof : profile) (l : list atom) (t : tail) :
  Forall ev_ok (rr_trace (poll_drive prof l t)) /\
  data_total (rr_trace (poll_drive prof l t)) + len (bytes_of (rr_rest (poll_drive prof l t)))
    = len (bytes_of l) /\
  forall (total : N) (body : bytes) (p : P),
    rr_res (poll_drive prof l t) = Some (Ok (total, body, p)) ->
    data_total (rr_trace (poll_drive prof l t)) = total /\
    frame_ok 0 (rr_trace (poll_drive prof l t)) total.
Proof.
  destruct (poll_drive_bigrun prof l t) as (res & Hr & Hbr).
  destruct (bigrun_trace _ _ _ _ _ _ _ Hbr) as [H1 H2]. split; [exact H1|]. split; [exact H2|].
  intros total body p Hres. rewrite Hr in Hres. inversion Hres as [Hres'].
  destruct (bigrun_frame _ _ _ _ _ _ _ Hbr wfp_pinit _ _ _ Hres') as (_ & H3 & H4).
  cbn [pos pinit] in H3, H4. split; [lia|exact H3].
Qed.

(* (f) cancellation: the future is dropped after k polls and re-created from the caller-held
   state (rr_state) on what the transport still holds (rr_rest) *)
Lemma pstep_continue_sem (prof : profile) (s : pstate) (l : list atom) (t : tail)
      (s' : pstate) (rest : list atom) (p : bool) (ev : event) :
  wf s -> pstep prof s l t = Continue s' rest p ev ->
  wf s' /\ sem s (bytes_of l) t = sem s' (bytes_of rest) t /\ (length rest < length l)%nat.
Proof.
  intros Hw Hs.
  destruct (pstep_cases prof s l t Hw)
    as [(_ & _ & Hs')|[(r & Hs' & Hb & Hl & _)|(bs & r & _ & _ & Hb & Hl & _ & [(s1 & Hfm & Hs')|(res & s1 & _ & Hs')])]];
    rewrite Hs' in Hs; try discriminate; inversion Hs; subst.
  - rewrite Hb. repeat split; [exact Hw|exact Hl].
  - rewrite Hb, sem_app, Hfm. repeat split; [exact (feed_many_wf _ _ _ _ Hw Hfm)|exact Hl].
Qed.

(* exact compositionality of the loop: k polls then f2 more = k + f2 polls *)
Lemma prun_split (prof : profile) (t : tail) : forall (k f2 : nat) (s : pstate) (l : list atom) (pend : N) (tr : list event),
  rr_res (prun prof k s l t pend tr) = None ->
  prun prof (k + f2) s l t pend tr =
  prun prof f2 (rr_state (prun prof k s l t pend tr)) (rr_rest (prun prof k s l t pend tr)) t
       (rr_pend (prun prof k s l t pend tr)) (rev (rr_trace (prun prof k s l t pend tr))).
Proof.
  induction k as [|k IH]; intros f2 s l pend tr Hn.
  - cbn [Poll.prun Poll.rr_state Poll.rr_rest Poll.rr_pend Poll.rr_trace plus].
    rewrite rev'_eq, rev_involutive. reflexivity.
  - cbn [plus]. cbn [Poll.prun] in *. destruct (pstep prof s l t) as [s' rest p ev|res s' rest ev].
    + exact (IH f2 _ _ _ _ Hn).
    + discriminate.
Qed.

(* more fuel changes nothing once the loop has finished *)
Lemma prun_mono (prof : profile) (t : tail) : forall (k f2 : nat) (s : pstate) (l : list atom) (pend : N) (tr : list event),
  rr_res (prun prof k s l t pend tr) <> None ->
  prun prof (k + f2) s l t pend tr = prun prof k s l t pend tr.
Proof.
  induction k as [|k IH]; intros f2 s l pend tr Hn.
  - cbn [Poll.prun Poll.rr_res] in Hn. congruence.
  - cbn [plus]. cbn [Poll.prun] in *. destruct (pstep prof s l t) as [s' rest p ev|res s' rest ev].
    + exact (IH f2 _ _ _ _ Hn).
    + reflexivity.
Qed.

(* the state a dropped future leaves behind is well-formed and nothing of the stream is lost *)
Lemma prun_dropped (prof : profile) (t : tail) : forall (k : nat) (s : pstate) (l : list atom) (pend : N) (tr : list event),
  wf s -> rr_res (prun prof k s l t pend tr) = None ->
  wf (rr_state (prun prof k s l t pend tr)) /\
  sem s (bytes_of l) t =
    sem (rr_state (prun prof k s l t pend tr)) (bytes_of (rr_rest (prun prof k s l t pend tr))) t /\
  (length (rr_rest (prun prof k s l t pend tr)) <= length l)%nat.
Proof.
  induction k as [|k IH]; intros s l pend tr Hw Hn.
  - cbn [Poll.prun Poll.rr_state Poll.rr_rest]. repeat split; [exact Hw|lia].
  - cbn [Poll.prun] in *. destruct (pstep prof s l t) as [s' rest p ev|res s' rest ev] eqn:Hs.
    + destruct (pstep_continue_sem _ _ _ _ _ _ _ _ Hw Hs) as (Hw' & Hsem & Hl).
      destruct (IH _ _ _ _ Hw' Hn) as (H1 & H2 & H3). rewrite Hsem. repeat split; [exact H1|exact H2|lia].
    + discriminate.
Qed.

Theorem drop_recreate (prof prof2 : profile) (k f2 : nat) (s : pstate) (l : list atom) (t : tail)
        (pend pend2 : N) (tr tr2 : list event) :
  wf s -> rr_res (prun prof k s l t pend tr) = None ->
  (length (rr_rest (prun prof k s l t pend tr)) < f2)%nat ->
  rr_res (prun prof2 f2 (rr_state (prun prof k s l t pend tr)) (rr_rest (prun prof k s l t pend tr)) t pend2 tr2)
    = Some (fst (sem s (bytes_of l) t)) /\
  bytes_of (rr_rest (prun prof2 f2 (rr_state (prun prof k s l t pend tr)) (rr_rest (prun prof k s l t pend tr)) t pend2 tr2))
    = snd (sem s (bytes_of l) t).
Proof.
  intros Hw Hn Hf. destruct (prun_dropped prof t k s l pend tr Hw Hn) as (Hw' & Hsem & _).
  rewrite Hsem. apply run_is_sem; assumption.
Qed.

(* for poll_drive: dropping the future after any number of polls and driving a new one from the
   state and transport left behind ends exactly as the uninterrupted drive does *)
Corollary drop_recreate_drive (prof prof2 : profile) (k : nat) (l : list atom) (t : tail) :
  let r1 := prun prof k pinit l t 0 [] in
  rr_res r1 = None ->
  let r2 := prun prof2 (S (length (rr_rest r1))) (rr_state r1) (rr_rest r1) t (rr_pend r1) (rev (rr_trace r1)) in
  rr_res r2 = rr_res (poll_drive prof l t) /\
  bytes_of (rr_rest r2) = bytes_of (rr_rest (poll_drive prof l t)).
Proof.
  intros r1 Hn r2. destruct (poll_drive_is_sem prof l t) as [A1 A2]. rewrite A1, A2.
  apply (drop_recreate prof prof2 k _ pinit l t 0 _ [] _ wf_pinit Hn). apply Nat.lt_succ_diag_r.
Qed.

(* ---------- where a Panic result can come from: never from the poll loop itself ---------- *)
Lemma feed_panic (s : pstate) (b : N) (st : site) : feed s b = inr (Panic st) ->
  (exists cb v, new_with cb v = Panic st) \/ (exists h buf, block_decode h TEof buf = RPanic st).
Proof.
  destruct s as [[cb|] vidx vint|h total idx buf]; cbn [feed]; intros Hf.
  - destruct (b <? 128).
    + left. exists cb, (vint + b mod 128 * 2 ^ (7 * vidx)). revert Hf. unfold Poll.header_done.
      destruct (new_with cb _) as [h|e|st']; [|discriminate|intros Hf; inversion Hf; reflexivity].
      destruct (build_empty h); [discriminate|]. destruct (h_rl h =? 0); discriminate.
    + destruct (vidx <? 3); discriminate.
  - discriminate.
  - right. exists h, (buf ++ [b]). destruct (idx + 1 =? h_rl h); [|discriminate].
    inversion Hf as [Hr]. revert Hr. unfold Poll.body_result.
    destruct (block_decode h TEof (buf ++ [b])) as [p [|x r]|e|st']; try discriminate.
    + destruct (is_eof e); discriminate.
    + intros Hr. inversion Hr. reflexivity.
Qed.

Lemma sem_panic (t : tail) (st : site) : forall (d : bytes) (s : pstate), fst (sem s d t) = Panic st ->
  (exists cb v, new_with cb v = Panic st) \/ (exists h buf, block_decode h TEof buf = RPanic st).
Proof.
  induction d as [|b d IH]; intros s H; cbn [sem] in H; [discriminate|].
  destruct (feed s b) as [s'|res] eqn:Ef; [exact (IH _ H)|].
  cbn [fst] in H. subst res. exact (feed_panic _ _ _ Ef).
Qed.

(* the debug assertion of poll.rs:164 and the "capacity is 1" slice branch never fire, in either
   profile, on any schedule: a Panic result is a Panic of new_with or of block_decode *)
Theorem poll_panic_origin (prof : profile) (l : list atom) (t : tail) (st : site) :
  rr_res (poll_drive prof l t) = Some (Panic st) ->
  (exists cb v, new_with cb v = Panic st) \/ (exists h buf, block_decode h TEof buf = RPanic st).
Proof.
  destruct (poll_drive_is_sem prof l t) as [H _]. rewrite H. intros Hp. inversion Hp as [Hp'].
  exact (sem_panic _ _ _ _ Hp').
Qed.

Corollary poll_assert_never_fires (prof : profile) (l : list atom) (t : tail) (st : site) :
  (forall cb v, new_with cb v <> Panic st) -> (forall h buf, block_decode h TEof buf <> RPanic st) ->
  rr_res (poll_drive prof l t) <> Some (Panic st).
Proof.
  intros Hn Hb Hr. destruct (poll_panic_origin _ _ _ _ Hr) as [(cb & v & H)|(h & buf & H)];
    [exact (Hn _ _ H)|exact (Hb _ _ H)].
Qed.

(* ---------- the header machine is decode_var_int ---------- *)
Lemma io_err_not_vbi (t : tail) : io_err t <> InvalidVarByteInt.
Proof. unfold io_err. discriminate. Qed.

Lemma poll_header_eq_gen (cb : N) (t : tail) : forall (fuel : nat) (vidx vint : N) (d : bytes),
  vidx + N.of_nat fuel = 3 ->
  match decode_var_int_loop fuel vidx vint t d with
  | ROk (v, k) r =>
      sem (SHeader (Some cb) vidx vint) d t =
      match header_done cb (k - 1) v with inl res => (res, r) | inr s' => sem s' r t end
  | RErr e => fst (sem (SHeader (Some cb) vidx vint) d t) = Err e /\
              (e = io_err t -> snd (sem (SHeader (Some cb) vidx vint) d t) = [])
  | RPanic _ => False
  end.
Proof.
  induction fuel as [|f IH]; intros vidx vint d Hv; destruct d as [|b r];
    cbn [decode_var_int_loop sem feed].
  - split; reflexivity.
  - destruct (b <? 128).
    + replace (vidx + 1 - 1) with vidx by lia.
      destruct (header_done cb vidx (vint + b mod 128 * 2 ^ (7 * vidx))); reflexivity.
    + destruct (N.ltb_spec vidx 3) as [Hlt|Hge]; [lia|]. cbn [fst snd]. split; [reflexivity|].
      intros He. exfalso. exact (io_err_not_vbi t (eq_sym He)).
  - split; reflexivity.
  - destruct (b <? 128).
    + replace (vidx + 1 - 1) with vidx by lia.
      destruct (header_done cb vidx (vint + b mod 128 * 2 ^ (7 * vidx))); reflexivity.
    + destruct (N.ltb_spec vidx 3) as [Hlt|Hge]; [|lia]. apply IH. lia.
Qed.

(* feeding the bytes after the control byte to the header machine: same (value, count) as
   decode_var_int, same rejection (InvalidVarByteInt after 4 continuation bytes), same EOF *)
Theorem poll_header_eq (cb : N) (t : tail) (d : bytes) :
  match decode_var_int t d with
  | ROk (v, k) r =>
      sem pinit (cb :: d) t =
      match header_done cb (k - 1) v with inl res => (res, r) | inr s' => sem s' r t end
  | RErr e => fst (sem pinit (cb :: d) t) = Err e /\ (e = io_err t -> snd (sem pinit (cb :: d) t) = [])
  | RPanic _ => False
  end.
Proof.
  change (sem pinit (cb :: d) t) with (sem (SHeader (Some cb) 0 0) d t).
  apply (poll_header_eq_gen cb t 3 0 0 d). reflexivity.
Qed.

(* what decode_var_int accepted is a prefix, and accepting it does not depend on what follows *)
Lemma dvi_loop_ok_inv : forall (fuel : nat) (i acc : N) (t : tail) (d : bytes) (v k : N) (r : bytes),
  decode_var_int_loop fuel i acc t d = ROk (v, k) r ->
  exists c, d = c ++ r /\ k = i + len c /\ c <> [] /\
            forall t' x, decode_var_int_loop fuel i acc t' (c ++ x) = ROk (v, k) x.
Proof.
  induction fuel as [|f IH]; intros i acc t d v k r H; destruct d as [|b d'];
    cbn [decode_var_int_loop] in H; try discriminate.
  - destruct (b <? 128) eqn:Eb; [|discriminate]. inversion H; subst.
    exists [b]. repeat split; [discriminate|]. intros t' x. cbn [app decode_var_int_loop]. rewrite Eb. reflexivity.
  - destruct (b <? 128) eqn:Eb.
    + inversion H; subst.
      exists [b]. repeat split; [discriminate|]. intros t' x. cbn [app decode_var_int_loop]. rewrite Eb. reflexivity.
    + destruct (IH _ _ _ _ _ _ _ H) as (c & Hd & Hk & Hne & Hall).
      exists (b :: c). rewrite len_cons. repeat split; [rewrite Hd; reflexivity|lia|discriminate|].
      intros t' x. cbn [app decode_var_int_loop]. rewrite Eb. apply Hall.
Qed.

Lemma dvi_loop_prefix (t : tail) : forall (a y : bytes) (fuel : nat) (i acc v k : N),
  y <> [] -> decode_var_int_loop fuel i acc t (a ++ y) = ROk (v, k) [] ->
  decode_var_int_loop fuel i acc t a = RErr (io_err t).
Proof.
  induction a as [|b a IH]; intros y fuel i acc v k Hy H.
  - destruct fuel; reflexivity.
  - destruct fuel as [|f]; cbn [app decode_var_int_loop] in *.
    + destruct (b <? 128); [|discriminate]. inversion H as [[H1 H2 H3]].
      apply app_eq_nil in H3. destruct H3 as [_ H3]. congruence.
    + destruct (b <? 128).
      * inversion H as [[H1 H2 H3]]. apply app_eq_nil in H3. destruct H3 as [_ H3]. congruence.
      * exact (IH _ _ _ _ _ _ Hy H).
Qed.

(* vbytes is a (possibly non-minimal) variable byte integer of value rl *)
Definition vbi_of (vbytes : bytes) (rl : N) : Prop :=
  forall (t : tail) (x : bytes), decode_var_int t (vbytes ++ x) = ROk (rl, len vbytes) x.

Lemma vbi_of_len (vbytes : bytes) (rl : N) : vbi_of vbytes rl -> 1 <= len vbytes.
Proof.
  intros H. pose proof (H TEof []) as H0. unfold decode_var_int in H0.
  destruct (dvi_loop_ok_inv _ _ _ _ _ _ _ _ H0) as (c & _ & Hk & Hne & _).
  destruct c as [|b c]; [congruence|]. rewrite len_cons in Hk. lia.
Qed.

(* ---------- the body phase ---------- *)
Lemma sem_body_cases (h : header) (total : N) (t : tail) : forall (d buf : bytes) (idx : N),
  idx < h_rl h ->
  (len d < h_rl h - idx /\ sem (SBody h total idx buf) d t = (Err (io_err t), [])) \/
  (exists body rest, d = body ++ rest /\ idx + len body = h_rl h /\
                     sem (SBody h total idx buf) d t = (body_result h total (buf ++ body), rest)).
Proof.
  induction d as [|b d IH]; intros buf idx Hlt.
  - left. rewrite len_nil. split; [lia|reflexivity].
  - cbn [sem feed]. destruct (N.eqb_spec (idx + 1) (h_rl h)) as [E|E].
    + right. exists [b], d. change (len [b]) with 1. repeat split. exact E.
    + assert (Hlt' : idx + 1 < h_rl h) by lia.
      destruct (IH (buf ++ [b]) (idx + 1) Hlt') as [[Hl Hs]|(body & rest & Hd & Hi & Hs)].
      * left. rewrite len_cons. split; [lia|exact Hs].
      * right. exists (b :: body), rest. rewrite len_cons. rewrite <- app_assoc in Hs.
        repeat split; [rewrite Hd; reflexivity|lia|exact Hs].
Qed.

Lemma sem_body_exact (h : header) (total : N) (t : tail) (body sfx buf : bytes) (idx : N) :
  idx < h_rl h -> idx + len body = h_rl h ->
  sem (SBody h total idx buf) (body ++ sfx) t = (body_result h total (buf ++ body), sfx).
Proof.
  intros Hlt Hl. rewrite sem_app.
  assert (Hne : body <> []). { intros ->. rewrite len_nil in Hl. lia. }
  rewrite (body_chunk h total body buf idx Hlt) by (try assumption; lia).
  destruct (N.eqb_spec (idx + len body) (h_rl h)) as [E|E]; [reflexivity|contradiction].
Qed.

Lemma sem_body_short (h : header) (total : N) (t : tail) (d buf : bytes) (idx : N) :
  idx < h_rl h -> len d < h_rl h - idx ->
  sem (SBody h total idx buf) d t = (Err (io_err t), []).
Proof.
  intros Hlt Hl. destruct (sem_body_cases h total t d buf idx Hlt) as [[_ Hs]|(body & rest & Hd & Hi & _)];
    [exact Hs|]. exfalso. rewrite Hd, len_app in Hl. lia.
Qed.

(* ---------- (d) an accepted frame, taken apart ---------- *)
Lemma sem_pinit_ok_inv (t : tail) (d : bytes) (total : N) (body : bytes) (p : P) (rest : bytes) :
  sem pinit d t = (Ok (total, body, p), rest) ->
  exists (cb : N) (vbytes : bytes) (v : N) (h : header),
    d = cb :: vbytes ++ body ++ rest /\ vbi_of vbytes v /\ new_with cb v = Ok h /\
    total = 1 + len vbytes + len body /\
    ((build_empty h = Some p /\ body = []) \/
     (build_empty h = None /\ h_rl h <> 0 /\ len body = h_rl h /\
      block_decode h TEof body = ROk p [])).
Proof.
  intros Hs. destruct d as [|cb d']; [discriminate|].
  pose proof (poll_header_eq cb t d') as Hh. unfold decode_var_int in Hh.
  destruct (decode_var_int_loop 3 0 0 t d') as [[v k] r|e|st] eqn:Ed; [| |contradiction].
  2:{ destruct Hh as [Hh _]. rewrite Hs in Hh. discriminate. }
  destruct (dvi_loop_ok_inv _ _ _ _ _ _ _ _ Ed) as (c & Hd & Hk & Hne & Hall).
  assert (Hc : 1 <= len c). { destruct c as [|b c]; [congruence|]. rewrite len_cons. lia. }
  rewrite N.add_0_l in Hk. subst k.
  rewrite Hs in Hh. exists cb, c, v.
  destruct (header_done cb (len c - 1) v) as [res0|s1] eqn:Eh.
  - inversion Hh as [[Hres Hrest]]. subst res0. subst r.
    destruct (header_done_inl_ok _ _ _ _ _ _ Eh) as (h & Hn & Hb & Ht & Hbody).
    exists h. subst body. rewrite len_nil. cbn [app].
    repeat split; [rewrite Hd; reflexivity|exact Hall|exact Hn|lia|left; split; [exact Hb|reflexivity]].
  - destruct (header_done_inr _ _ _ _ Eh) as (h & Hn & Hb & Hrl & ->).
    exists h.
    assert (Hlt : 0 < h_rl h) by lia.
    destruct (sem_body_cases h (1 + 1 + (len c - 1) + h_rl h) t r [] 0 Hlt)
      as [[_ Hs']|(body' & rest' & Hr & Hi & Hs')]; rewrite Hs' in Hh; [discriminate|].
    inversion Hh as [[Hres Hrest]]. subst rest'. cbn [app] in Hres. symmetry in Hres.
    destruct (body_result_ok _ _ _ _ _ _ Hres) as (Ht & Hbody & Hdec). subst body'.
    repeat split; [rewrite Hd, Hr; reflexivity|exact Hall|exact Hn|lia|].
    right. repeat split; [exact Hb|exact Hrl|lia|exact Hdec].
Qed.

Theorem consumed_eq_total (prof : profile) (l : list atom) (t : tail) (total : N) (body : bytes) (p : P) :
  rr_res (poll_drive prof l t) = Some (Ok (total, body, p)) ->
  len (bytes_of l) = total + len (bytes_of (rr_rest (poll_drive prof l t))) /\
  len (bytes_of l) - len (bytes_of (rr_rest (poll_drive prof l t))) = total /\
  exists (cb : N) (vbytes : bytes) (v : N) (h : header),
    bytes_of l = cb :: vbytes ++ body ++ bytes_of (rr_rest (poll_drive prof l t)) /\
    vbi_of vbytes v /\ new_with cb v = Ok h /\
    total = 1 + len vbytes + len body /\
    ((build_empty h = Some p /\ body = []) \/
     (build_empty h = None /\ h_rl h <> 0 /\ len body = h_rl h /\
      block_decode h TEof body = ROk p [])).
Proof.
  intros Hr. destruct (poll_drive_is_sem prof l t) as [A1 A2]. rewrite A1 in Hr. inversion Hr as [Hf].
  assert (Hs : sem pinit (bytes_of l) t = (Ok (total, body, p), bytes_of (rr_rest (poll_drive prof l t)))).
  { rewrite A2, <- Hf. apply surjective_pairing. }
  destruct (sem_pinit_ok_inv _ _ _ _ _ _ Hs) as (cb & vbytes & v & h & Hd & Hv & Hn & Ht & Hcase).
  assert (Hlen : len (bytes_of l) = total + len (bytes_of (rr_rest (poll_drive prof l t)))).
  { rewrite Hd at 1. rewrite len_cons, !len_app. lia. }
  split; [exact Hlen|]. split; [lia|]. exists cb, vbytes, v, h. repeat split; assumption.
Qed.

(* ---------- poll1 on a frame and on a strict prefix of a frame ---------- *)
(* the PollHeader implementation stores the remaining length it was given *)
Definition new_with_rl : Prop := forall cb rl h, new_with cb rl = Ok h -> h_rl h = rl.

Definition frame_result (cb nlen rl : N) (body sfx : bytes) : presult * bytes :=
  match new_with cb rl with
  | Err e => (Err e, body ++ sfx)
  | Panic st => (Panic st, body ++ sfx)
  | Ok h =>
    match build_empty h with
    | Some p => (Ok (1 + nlen, [], p), body ++ sfx)
    | None => if rl =? 0 then (Err InvalidRemainingLength, body ++ sfx)
              else (body_result h (1 + nlen + rl) body, sfx)
    end
  end.

Lemma sem_frame (t : tail) (cb : N) (vbytes : bytes) (rl : N) (body sfx : bytes) :
  new_with_rl -> vbi_of vbytes rl -> len body = rl ->
  sem pinit (cb :: vbytes ++ body ++ sfx) t = frame_result cb (len vbytes) rl body sfx.
Proof.
  intros Hnw Hv Hl. pose proof (poll_header_eq cb t (vbytes ++ body ++ sfx)) as Hh.
  rewrite (Hv t (body ++ sfx)) in Hh. rewrite Hh. clear Hh.
  pose proof (vbi_of_len _ _ Hv) as Hpos.
  unfold Poll.header_done, frame_result.
  destruct (new_with cb rl) as [h|e|st] eqn:En; [|reflexivity|reflexivity].
  rewrite (Hnw _ _ _ En).
  destruct (build_empty h) as [p|]; [f_equal; f_equal; f_equal; f_equal; lia|].
  destruct (N.eqb_spec rl 0) as [E|E]; [reflexivity|].
  replace (1 + 1 + (len vbytes - 1) + rl) with (1 + len vbytes + rl) by lia.
  apply sem_body_exact; rewrite (Hnw _ _ _ En); lia.
Qed.

Theorem poll1_frame (prof : profile) (t : tail) (cb : N) (vbytes : bytes) (rl : N) (body sfx : bytes) :
  new_with_rl -> vbi_of vbytes rl -> len body = rl ->
  rr_res (poll1 prof (cb :: vbytes ++ body ++ sfx) t) =
    Some (fst (frame_result cb (len vbytes) rl body sfx)) /\
  bytes_of (rr_rest (poll1 prof (cb :: vbytes ++ body ++ sfx) t)) =
    snd (frame_result cb (len vbytes) rl body sfx).
Proof.
  intros Hnw Hv Hl. destruct (poll1_is_sem prof (cb :: vbytes ++ body ++ sfx) t) as [A1 A2].
  rewrite A1, A2, (sem_frame t cb vbytes rl body sfx Hnw Hv Hl). split; reflexivity.
Qed.

(* the stream ends inside the variable byte integer *)
Lemma sem_short_header (t : tail) (cb : N) (vpre : bytes) :
  decode_var_int t vpre = RErr (io_err t) -> sem pinit (cb :: vpre) t = (Err (io_err t), []).
Proof.
  intros Hd. pose proof (poll_header_eq cb t vpre) as Hh. rewrite Hd in Hh. destruct Hh as [H1 H2].
  rewrite (surjective_pairing (sem pinit (cb :: vpre) t)), H1, (H2 eq_refl). reflexivity.
Qed.

(* a strict prefix of a frame whose header is accepted and announces a body *)
Lemma sem_short (t : tail) (cb : N) (vbytes : bytes) (rl : N) (body : bytes) (h : header) (d x : bytes) :
  vbi_of vbytes rl -> len body = rl -> new_with cb rl = Ok h -> h_rl h = rl -> build_empty h = None ->
  cb :: vbytes ++ body = d ++ x -> x <> [] ->
  sem pinit d t = (Err (io_err t), []).
Proof.
  intros Hv Hl Hn Hrl Hb Hd Hx. destruct d as [|cb' d']; [reflexivity|].
  cbn [app] in Hd. inversion Hd as [[Hcb Hd']]. subst cb'.
  destruct (app_eq_app _ _ _ _ Hd') as (m & [[Hm1 Hm2]|[Hm1 Hm2]]).
  - (* d' ++ m = vbytes: inside the header unless m = [] *)
    destruct m as [|m0 m'].
    + rewrite app_nil_r in Hm1. subst d'. cbn [app] in Hm2. subst x.
      pose proof (poll_header_eq cb t (vbytes ++ [])) as Hh. rewrite (Hv t []) in Hh.
      rewrite app_nil_r in Hh. rewrite Hh. unfold Poll.header_done. rewrite Hn, Hb.
      assert (Hpos : 1 <= len body). { destruct body as [|b0 body']; [congruence|]. rewrite len_cons. lia. }
      destruct (N.eqb_spec (h_rl h) 0) as [E|E]; [lia|]. reflexivity.
    + apply sem_short_header. pose proof (Hv t []) as H0. rewrite app_nil_r, Hm1 in H0.
      unfold decode_var_int in *. eapply dvi_loop_prefix; [|exact H0]. discriminate.
  - (* d' = vbytes ++ m with m a strict prefix of the body *)
    subst d'. pose proof (poll_header_eq cb t (vbytes ++ m)) as Hh. rewrite (Hv t m) in Hh.
    rewrite Hh. unfold Poll.header_done. rewrite Hn, Hb.
    assert (Hlen : len m < h_rl h).
    { rewrite Hrl, <- Hl, Hm2, len_app. destruct x as [|x0 x']; [congruence|]. rewrite len_cons. lia. }
    destruct (N.eqb_spec (h_rl h) 0) as [E|E]; [lia|].
    apply sem_body_short; lia.
Qed.

Theorem poll1_short (prof : profile) (t : tail) (cb : N) (vbytes : bytes) (rl : N) (body : bytes)
        (h : header) (d x : bytes) :
  vbi_of vbytes rl -> len body = rl -> new_with cb rl = Ok h -> h_rl h = rl -> build_empty h = None ->
  cb :: vbytes ++ body = d ++ x -> x <> [] ->
  rr_res (poll1 prof d t) = Some (Err (io_err t)) /\ bytes_of (rr_rest (poll1 prof d t)) = [].
Proof.
  intros Hv Hl Hn Hrl Hb Hd Hx. destruct (poll1_is_sem prof d t) as [A1 A2].
  rewrite A1, A2, (sem_short t cb vbytes rl body h d x Hv Hl Hn Hrl Hb Hd Hx). split; reflexivity.
Qed.

(* the header-only variant: nothing needs to be known about new_with *)
Theorem poll1_short_header (prof : profile) (t : tail) (cb : N) (vpre : bytes) :
  decode_var_int t vpre = RErr (io_err t) ->
  rr_res (poll1 prof (cb :: vpre) t) = Some (Err (io_err t)) /\
  bytes_of (rr_rest (poll1 prof (cb :: vpre) t)) = [].
Proof.
  intros Hd. destruct (poll1_is_sem prof (cb :: vpre) t) as [A1 A2].
  rewrite A1, A2, (sem_short_header t cb vpre Hd). split; reflexivity.
Qed.

Theorem poll1_empty (prof : profile) (t : tail) :
  rr_res (poll1 prof [] t) = Some (Err (io_err t)).
Proof. destruct (poll1_is_sem prof [] t) as [A1 _]. exact A1. Qed.

(* a header that decode_var_int rejects is rejected by the poll decoder with the same error *)
Theorem poll1_bad_varint (prof : profile) (t : tail) (cb : N) (d : bytes) :
  decode_var_int t d = RErr InvalidVarByteInt ->
  rr_res (poll1 prof (cb :: d) t) = Some (Err InvalidVarByteInt).
Proof.
  intros Hd. destruct (poll1_is_sem prof (cb :: d) t) as [A1 _]. rewrite A1.
  pose proof (poll_header_eq cb t d) as Hh. rewrite Hd in Hh. destruct Hh as [H1 _]. rewrite H1. reflexivity.
Qed.

End PollSched.

(* ---------- the two PollHeader implementations store the remaining length ---------- *)
Lemma V3_new_with_rl : new_with_rl V3.header_new_with.
Proof.
  intros cb rl h. unfold V3.header_new_with, V3.mk_header.
  destruct (cb / 16) as [|q]; [discriminate|].
  do 4 (try (destruct q as [q|q|]; try discriminate));
    repeat match goal with
           | |- context [if ?c then _ else _] => destruct c
           | |- context [match qos_of_u8 ?x with _ => _ end] => destruct (qos_of_u8 x)
           end;
    intros H; try discriminate; inversion H; reflexivity.
Qed.

Lemma V5_new_with_rl : new_with_rl V5.header_new_with.
Proof.
  intros cb rl h. unfold V5.header_new_with, V3.mk_header.
  destruct (cb / 16) as [|q]; [discriminate|].
  do 4 (try (destruct q as [q|q|]; try discriminate));
    repeat match goal with
           | |- context [if ?c then _ else _] => destruct c
           | |- context [match qos_of_u8 ?x with _ => _ end] => destruct (qos_of_u8 x)
           end;
    intros H; try discriminate; inversion H; reflexivity.
Qed.

(* the front-ends of Model/Frontends.v are instances: e.g. for the v5 poll decoder *)
Example F5_same_as_one_read (prof : profile) (l : list atom) (t : tail) :
  rr_res _ (F5.poll_drive prof l t) = rr_res _ (F5.poll1 prof (bytes_of l) t).
Proof. exact (proj1 (same_as_one_read _ _ _ _ prof l t)). Qed.
Example F3_same_as_one_read (prof : profile) (l : list atom) (t : tail) :
  rr_res _ (F3.poll_drive prof l t) = rr_res _ (F3.poll1 prof (bytes_of l) t).
Proof. exact (proj1 (same_as_one_read _ _ _ _ prof l t)). Qed.

(* sanity: PINGREQ [192; 0] delivered as Pend, byte, Cut, Pend, Pend, byte and then a stray byte:
   accepted with total 2, three Pendings, the stray byte left; reads of capacity 1 only *)
Eval vm_compute in
  (let r := F3.poll_drive Debug [APend; AB 192; ACut; APend; APend; AB 0; AB 7] TEof in
   (rr_res _ r, rr_rest _ r, rr_pend _ r, rr_trace _ r)).

(* what write_var_int emits is a variable byte integer in the sense of vbi_of *)
Lemma vbi_of_write (n : N) : n < 268435456 -> vbi_of (write_var_int n) n.
Proof.
  intros Hn t x. rewrite (VarIntLaws.read_write n t x Hn).
  destruct (VarIntLaws.write_len n Hn) as [-> _]. reflexivity.
Qed.

Print Assumptions run_is_sem.
Print Assumptions run_bigrun.
Print Assumptions poll_drive_is_sem.
Print Assumptions poll_drive_fuel.
Print Assumptions poll_read_nonempty.
Print Assumptions poll_panic_origin.
Print Assumptions poll_assert_never_fires.
Print Assumptions schedule_independent.
Print Assumptions profile_independent.
Print Assumptions same_as_one_read.
Print Assumptions pending_only_when_transport_did.
Print Assumptions consumed_eq_total.
Print Assumptions never_reads_past_frame.
Print Assumptions drop_recreate.
Print Assumptions drop_recreate_drive.
Print Assumptions prun_split.
Print Assumptions poll_header_eq.
Print Assumptions poll1_frame.
Print Assumptions poll1_short.
Print Assumptions poll1_short_header.
Print Assumptions poll1_bad_varint.
Print Assumptions V3_new_with_rl.
Print Assumptions V5_new_with_rl.
Print Assumptions vbi_of_write.
