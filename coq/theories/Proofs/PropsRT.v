(* Proofs/PropsRT.v — MQTT v5 property sections, generically in the macro argument list `allowed`:
   (P1) the universal record behaves like a finite map (extensionality, get/set laws);
   (P2) declared lengths equal bytes written (C02 for property sections), and KF1;
   (P3) decode (encode p) = p for every property section in the valid domain (C01);
   (P4) `properties == Default::default()` is equality with props_empty;
   (P5) the encoder emits bytes. *)
From MQ Require Import Proofs.Tactics Proofs.VarIntLaws Proofs.Parses Model.Valid.
Open Scope N_scope.

(* ================================================================== *)
(* P1: the record as a finite map                                      *)
(* ================================================================== *)

Lemma all_ids_complete id : In id all_prop_ids.
Proof. destruct id; unfold all_prop_ids; cbn [In]; repeat (try (left; reflexivity); right). Qed.

Lemma props_ext p q : (forall id, pget p id = pget q id) -> pr_user p = pr_user q -> p = q.
Proof.
  intros H Hu.
  assert (E : map (pget p) all_prop_ids = map (pget q) all_prop_ids) by (apply map_ext; exact H).
  unfold all_prop_ids in E. destruct p, q. cbn in Hu. cbn in E.
  injection E as -> -> -> -> -> -> -> -> -> -> -> -> -> -> -> -> -> -> -> -> -> -> -> -> -> ->.
  rewrite Hu. reflexivity.
Qed.

Lemma pget_pset_same p id v : pget (pset p id v) id = v.
Proof. destruct p, id; reflexivity. Qed.

Lemma pget_pset_other p id id' v : id <> id' -> pget (pset p id v) id' = pget p id'.
Proof. intros Hne. destruct p. destruct id, id'; try reflexivity; exfalso; apply Hne; reflexivity. Qed.

Lemma pr_user_pset p id v : pr_user (pset p id v) = pr_user p.
Proof. destruct p, id; reflexivity. Qed.

Lemma pget_pset_user p u id : pget (pset_user p u) id = pget p id.
Proof. destruct p, id; reflexivity. Qed.

Lemma pr_user_pset_user p u : pr_user (pset_user p u) = u.
Proof. destruct p; reflexivity. Qed.

Lemma pset_user_self p : pset_user p (pr_user p) = p.
Proof. destruct p; reflexivity. Qed.

Lemma pset_user_twice p a b : pset_user (pset_user p a) b = pset_user p b.
Proof. destruct p; reflexivity. Qed.

Lemma pget_empty id : pget props_empty id = None.
Proof. destruct id; reflexivity. Qed.

Lemma prop_of_num id : prop_of_u8 (prop_num id) = Some (KProp id).
Proof. destruct id; reflexivity. Qed.

Lemma prop_num_inj a b : prop_num a = prop_num b -> a = b.
Proof.
  intros H. assert (E : Some (KProp a) = Some (KProp b)) by (rewrite <- !prop_of_num, H; reflexivity).
  congruence.
Qed.

Lemma prop_num_not_user id : prop_num id <> 38.
Proof. destruct id; discriminate. Qed.

Lemma prop_num_byte id : prop_num id < 256.
Proof. destruct id; reflexivity. Qed.

Lemma prop_id_eqb_eq a b : prop_id_eqb a b = true <-> a = b.
Proof.
  unfold prop_id_eqb. rewrite N.eqb_eq. split; [apply prop_num_inj|intros ->; reflexivity].
Qed.

Lemma prop_id_eqb_refl a : prop_id_eqb a a = true.
Proof. apply prop_id_eqb_eq. reflexivity. Qed.

Lemma prop_id_eqb_neq a b : prop_id_eqb a b = false <-> a <> b.
Proof.
  split.
  - intros H E. apply prop_id_eqb_eq in E. congruence.
  - intros H. destruct (prop_id_eqb a b) eqn:E; [|reflexivity]. apply prop_id_eqb_eq in E. contradiction.
Qed.

Lemma prop_mem_in id l : prop_mem id l = true <-> In id l.
Proof.
  unfold prop_mem. rewrite existsb_exists. split.
  - intros [x [Hin E]]. apply prop_id_eqb_eq in E. subst. exact Hin.
  - intros Hin. exists id. split; [exact Hin|apply prop_id_eqb_refl].
Qed.

(* ---- what the two boolean predicates of Model/Valid.v say, per id ---- *)
Lemma props_inv_get allowed p id v : props_inv allowed p = true -> pget p id = Some v ->
  prop_mem id allowed = true /\ value_inv (prop_wtype id) v = true.
Proof.
  unfold props_inv. intros H Hg. apply andb_true_iff in H as [H _].
  rewrite forallb_forall in H. specialize (H id (all_ids_complete id)). rewrite Hg in H.
  apply andb_true_iff in H. exact H.
Qed.

Lemma props_inv_user allowed p : props_inv allowed p = true -> forallb user_inv (pr_user p) = true.
Proof. unfold props_inv. intros H. apply andb_true_iff in H as [_ H]. exact H. Qed.

Lemma props_inv_absent allowed p id : props_inv allowed p = true -> prop_mem id allowed = false -> pget p id = None.
Proof.
  intros H Hm. destruct (pget p id) as [v|] eqn:E; [|reflexivity].
  destruct (props_inv_get _ _ _ _ H E) as [Hm' _]. congruence.
Qed.

Lemma props_valid_get allowed p id v : props_valid allowed p = true -> pget p id = Some v ->
  value_valid (prop_wtype id) v = true.
Proof.
  unfold props_valid. intros H Hg. apply andb_true_iff in H as [H _].
  rewrite forallb_forall in H. specialize (H id (all_ids_complete id)). rewrite Hg in H. exact H.
Qed.

Lemma props_valid_user allowed p : props_valid allowed p = true -> forallb user_valid (pr_user p) = true.
Proof. unfold props_valid. intros H. apply andb_true_iff in H as [_ H]. exact H. Qed.

(* ================================================================== *)
(* P4: `properties == Default::default()`                              *)
(* ================================================================== *)

Theorem props_is_default_spec p : props_is_default p = true <-> p = props_empty.
Proof.
  split.
  - unfold props_is_default. intros H. apply andb_true_iff in H as [H Hu].
    rewrite forallb_forall in H. apply props_ext.
    + intros id. rewrite pget_empty. specialize (H id (all_ids_complete id)).
      destruct (pget p id); [discriminate|reflexivity].
    + destruct (pr_user p); [reflexivity|discriminate].
  - intros ->. reflexivity.
Qed.

Lemma props_is_default_empty : props_is_default props_empty = true.
Proof. reflexivity. Qed.

(* ================================================================== *)
(* P2: lengths                                                         *)
(* ================================================================== *)

(* the bytes the encoder writes for the ids of a list, and what encode_property_len! adds up *)
Definition ids_enc (p : props) (ids : list prop_id) : list bytes :=
  flat_map (fun id => match pget p id with
                      | Some v => [prop_num id] :: encode_value (prop_wtype id) v
                      | None => [] end) ids.
Definition ids_len (p : props) (ids : list prop_id) : N :=
  fold_right (fun id a => match pget p id with
                          | Some v => 1 + value_len (prop_wtype id) v + a
                          | None => a end) 0 ids.
(* the decoder's running count for the user properties: 1 + 4 + name + value each *)
Definition users_len (us : list (bytes * bytes)) : N :=
  fold_right (fun u a => 1 + 4 + len (fst u) + len (snd u) + a) 0 us.

Lemma ids_len_cons p i ids : ids_len p (i :: ids) =
  match pget p i with Some v => 1 + value_len (prop_wtype i) v + ids_len p ids | None => ids_len p ids end.
Proof. reflexivity. Qed.
Lemma ids_enc_cons p i ids : ids_enc p (i :: ids) =
  match pget p i with Some v => [prop_num i] :: encode_value (prop_wtype i) v | None => [] end ++ ids_enc p ids.
Proof. reflexivity. Qed.
Lemma users_len_cons u us : users_len (u :: us) = 1 + 4 + len (fst u) + len (snd u) + users_len us.
Proof. reflexivity. Qed.

Lemma fold_left_ids p ids a :
  fold_left (fun a id => match pget p id with Some v => a + (1 + value_len (prop_wtype id) v) | None => a end) ids a
  = a + ids_len p ids.
Proof.
  revert a. induction ids as [|i ids IH]; intros a.
  - cbn [fold_left ids_len fold_right]. lia.
  - cbn [fold_left]. rewrite IH, ids_len_cons. destruct (pget p i); lia.
Qed.

Lemma users_total us :
  N.of_nat (length us) + fold_right (fun u a => user_len u + a) 0 us = users_len us.
Proof.
  induction us as [|u us IH].
  - reflexivity.
  - rewrite users_len_cons, <- IH. cbn [length fold_right]. unfold user_len. lia.
Qed.

(* the declared length splits into the id part and the user-property part *)
Lemma body_len_split allowed p : props_body_len allowed p = ids_len p allowed + users_len (pr_user p).
Proof. unfold props_body_len. rewrite fold_left_ids, users_total. lia. Qed.

Lemma clen_singletons (l : bytes) : clen (map (fun b => [b]) l) = len l.
Proof. unfold clen. rewrite concat_singletons. reflexivity. Qed.

Lemma len_one (b : N) : len [b] = 1.
Proof. reflexivity. Qed.
Lemma clen_nil' : clen (@nil (list N)) = 0.
Proof. reflexivity. Qed.

(* encode_property_len! is right for every value except a subscription identifier >= 2^28
   (which VarByteInt cannot hold) *)
Lemma value_len_enc ty v : (ty = WVar -> pv_n v < 268435456) ->
  clen (encode_value ty v) = value_len ty v.
Proof.
  intros Hv. destruct ty; cbn [encode_value value_len];
    rewrite ?clen_cons, ?clen_nil, ?clen_nil', ?len_one, ?len_be16, ?len_be32; try lia.
  rewrite clen_singletons. specialize (Hv eq_refl).
  destruct (write_len (pv_n v) Hv) as [-> _]. rewrite (var_int_len_ok _ Hv). reflexivity.
Qed.

(* the weakest convenient hypothesis of the length law: present var-int values fit *)
Definition props_var_ok (allowed : list prop_id) (p : props) : bool :=
  forallb (fun id => match prop_wtype id, pget p id with
                     | WVar, Some v => pv_n v <? 268435456
                     | _, _ => true end) allowed.

Lemma props_inv_var_ok allowed ids p : props_inv allowed p = true -> props_var_ok ids p = true.
Proof.
  intros H. unfold props_var_ok. apply forallb_forall. intros id _.
  destruct (prop_wtype id) eqn:Ety; try reflexivity.
  destruct (pget p id) as [v|] eqn:Eg; [|reflexivity].
  destruct (props_inv_get _ _ _ _ H Eg) as [_ Hi]. rewrite Ety in Hi.
  destruct v as [n|b]; cbn [value_inv] in Hi; [exact Hi|discriminate].
Qed.

Lemma ids_enc_len p ids : props_var_ok ids p = true -> clen (ids_enc p ids) = ids_len p ids.
Proof.
  induction ids as [|i ids IH]; intros H.
  - reflexivity.
  - unfold props_var_ok in H. cbn [forallb] in H. apply andb_true_iff in H as [Hi H].
    rewrite ids_enc_cons, ids_len_cons, clen_app, (IH H).
    destruct (pget p i) as [v|]; [|rewrite ?clen_nil, ?clen_nil'; lia].
    rewrite clen_cons, len_one, value_len_enc; [lia|].
    intros Ety. rewrite Ety in Hi. apply N.ltb_lt. exact Hi.
Qed.

Lemma users_enc_len us : clen (flat_map user_enc us) = users_len us.
Proof.
  induction us as [|u us IH].
  - reflexivity.
  - cbn [flat_map]. rewrite clen_app, IH, users_len_cons. unfold user_enc.
    rewrite !clen_cons, ?clen_nil, ?clen_nil', len_one, !len_be16. lia.
Qed.

(* the bytes after the length prefix are exactly the declared length *)
Lemma props_enc_split allowed p :
  props_enc allowed p = map (fun b => [b]) (write_var_int (props_body_len allowed p))
                        ++ ids_enc p allowed ++ flat_map user_enc (pr_user p).
Proof. reflexivity. Qed.

Theorem props_enc_len_gen allowed p :
  props_var_ok allowed p = true -> props_body_len allowed p < 268435456 ->
  clen (props_enc allowed p) = props_body_len allowed p + width (props_body_len allowed p)
  /\ props_len allowed p = Ok (clen (props_enc allowed p)).
Proof.
  intros Hv Hb.
  assert (E : clen (props_enc allowed p) = props_body_len allowed p + width (props_body_len allowed p)).
  { rewrite props_enc_split, !clen_app, clen_singletons, ids_enc_len, users_enc_len by exact Hv.
    destruct (write_len _ Hb) as [-> _]. rewrite body_len_split. lia. }
  split; [exact E|].
  unfold props_len, props_len_of_body. rewrite (var_int_len_ok _ Hb), E. reflexivity.
Qed.

(* the statement of the task: props_inv is more than enough *)
Theorem props_enc_len allowed p :
  props_inv allowed p = true -> props_body_len allowed p < 268435456 ->
  clen (props_enc allowed p) = props_body_len allowed p + width (props_body_len allowed p)
  /\ props_len allowed p = Ok (clen (props_enc allowed p)).
Proof. intros Hi. apply props_enc_len_gen. exact (props_inv_var_ok _ _ _ Hi). Qed.

(* without the var-int bound the law is false: a subscription identifier of 2^28 is written on
   five bytes and counted as zero *)
Definition bad_subid : props := pset props_empty SubscriptionIdentifier (Some (VN 268435456)).
Example props_enc_len_needs_var_ok :
  props_var_ok SUBSCRIBE_PROPS bad_subid = false /\
  props_body_len SUBSCRIBE_PROPS bad_subid = 1 /\
  clen (props_enc SUBSCRIBE_PROPS bad_subid) = 7.
Proof. vm_compute. auto. Qed.

(* KF1: encode_properties_len! panics on a section of 2^28 bytes or more *)
Theorem props_len_too_large allowed p :
  268435456 <= props_body_len allowed p -> props_len allowed p = Panic SitePropsLenExpect.
Proof.
  intros H. unfold props_len, props_len_of_body.
  destruct (too_large _ H) as [-> _]. reflexivity.
Qed.

Lemma props_len_ok allowed p : props_body_len allowed p < 268435456 ->
  props_len allowed p = Ok (props_body_len allowed p + width (props_body_len allowed p)).
Proof. intros Hb. unfold props_len, props_len_of_body. rewrite (var_int_len_ok _ Hb). reflexivity. Qed.

(* props_len succeeds exactly below 2^28 *)
Lemma props_len_inv allowed p n : props_len allowed p = Ok n ->
  props_body_len allowed p < 268435456 /\ n = props_body_len allowed p + width (props_body_len allowed p).
Proof.
  intros H. destruct (N.lt_ge_cases (props_body_len allowed p) 268435456) as [Hb|Hb].
  - rewrite (props_len_ok _ _ Hb) in H. inversion H. auto.
  - rewrite (props_len_too_large _ _ Hb) in H. discriminate.
Qed.

(* ================================================================== *)
(* P3: round trip                                                      *)
(* ================================================================== *)

Lemma text_ok_parts s : text_ok s = true -> bytes_okb s = true /\ utf8_valid s = true.
Proof. unfold text_ok. intros H. apply andb_true_iff in H. exact H. Qed.

Lemma name_ok_parts s : name_ok s = true ->
  bytes_okb s = true /\ utf8_valid s = true /\ name_is_invalid s = false.
Proof.
  unfold name_ok. intros H. apply andb_true_iff in H as [H1 H2].
  apply text_ok_parts in H1 as [Hb Hu]. apply negb_true_iff in H2. auto.
Qed.

Lemma short_le s : short s = true -> len s <= 65535.
Proof. unfold short. intros H. apply N.leb_le. exact H. Qed.

(* one value, by wire type *)
Lemma decode_value_rt id v t rest :
  value_inv (prop_wtype id) v = true -> value_valid (prop_wtype id) v = true ->
  decode_value id t (concat (encode_value (prop_wtype id) v) ++ rest) = ROk v rest.
Proof.
  unfold decode_value. intros Hi Hv.
  destruct (prop_wtype id) eqn:Ety; destruct v as [n|s]; cbn [value_inv value_valid] in Hi, Hv;
    try discriminate; cbn [encode_value pv_n pv_b]; norm_bytes.
  - (* WBool *)
    apply N.ltb_lt in Hi. erewrite bind_ok by apply read_u8_one.
    destruct (N.ltb_spec 1 n); [lia|]. reflexivity.
  - (* WU16 *)
    unfold u16 in Hi. apply N.ltb_lt in Hi. erewrite bind_ok by (apply read_u16_be16; exact Hi). reflexivity.
  - (* WU32 *)
    unfold u32 in Hi. apply N.ltb_lt in Hi. erewrite bind_ok by (apply read_u32_be32; exact Hi). reflexivity.
  - (* WStr *)
    apply text_ok_parts in Hi as [_ Hu]. apply short_le in Hv.
    erewrite bind_ok by (apply read_string_lp; assumption). reflexivity.
  - (* WTopic *)
    apply name_ok_parts in Hi as [_ [Hu Hn]]. apply short_le in Hv.
    erewrite bind_ok by (apply read_string_lp; assumption). rewrite Hn. reflexivity.
  - (* WBin *)
    apply short_le in Hv. erewrite bind_ok by (apply read_bytes_lp; assumption). reflexivity.
  - (* WVar *)
    apply N.ltb_lt in Hi. rewrite concat_singletons.
    erewrite bind_ok by (apply decode_var_int_write; exact Hi). cbv beta iota.
    rewrite (var_byte_int_try_ok n Hi). reflexivity.
  - (* WQos *)
    apply N.ltb_lt in Hv. erewrite bind_ok by apply read_u8_one.
    destruct (N.ltb_spec 1 n); [lia|]. unfold qos_of_u8.
    destruct (N.ltb_spec n 3); [reflexivity|lia].
Qed.

(* ---- single steps of the decode_properties! loop ---- *)
Lemma loop_done f ctx allowed n acc t d : decode_props_loop f ctx allowed n n acc t d = ROk acc d.
Proof. destruct f; cbn [decode_props_loop]; rewrite N.leb_refl, N.eqb_refl; reflexivity. Qed.

Lemma loop_step_prop f ctx allowed plen n acc id v t d d' :
  n < plen -> prop_mem id allowed = true -> pget acc id = None ->
  decode_value id t d = ROk v d' ->
  decode_props_loop (S f) ctx allowed plen n acc t (prop_num id :: d)
  = decode_props_loop f ctx allowed plen (n + (1 + value_len (prop_wtype id) v)) (pset acc id (Some v)) t d'.
Proof.
  intros Hn Hm Hg Hd. cbn [decode_props_loop].
  destruct (N.leb_spec plen n) as [Hle|_]; [lia|].
  erewrite bind_ok by apply read_u8_cons.
  rewrite prop_of_num, Hm, Hg.
  erewrite bind_ok by exact Hd. reflexivity.
Qed.

Lemma loop_step_user f ctx allowed plen n acc name value t d d' d'' :
  n < plen -> read_string t d = ROk name d' -> read_string t d' = ROk value d'' ->
  decode_props_loop (S f) ctx allowed plen n acc t (USER_PROPERTY :: d)
  = decode_props_loop f ctx allowed plen (n + (1 + 4 + len name + len value))
                      (pset_user acc (pr_user acc ++ [(name, value)])) t d''.
Proof.
  intros Hn H1 H2. cbn [decode_props_loop].
  destruct (N.leb_spec plen n) as [Hle|_]; [lia|].
  erewrite bind_ok by apply read_u8_cons.
  change (prop_of_u8 USER_PROPERTY) with (Some KUser). cbv iota.
  erewrite bind_ok by exact H1. erewrite bind_ok by exact H2. reflexivity.
Qed.

(* ---- the accumulator after the ids of a list have been read ---- *)
Definition pcopy (p : props) (ids : list prop_id) (acc : props) : props :=
  fold_left (fun a id => match pget p id with Some v => pset a id (Some v) | None => a end) ids acc.

Lemma pcopy_cons p i ids acc :
  pcopy p (i :: ids) acc = pcopy p ids (match pget p i with Some v => pset acc i (Some v) | None => acc end).
Proof. reflexivity. Qed.

Lemma pget_pcopy p ids : forall acc id,
  pget (pcopy p ids acc) id =
  if prop_mem id ids then match pget p id with Some v => Some v | None => pget acc id end else pget acc id.
Proof.
  induction ids as [|i ids IH]; intros acc id.
  - reflexivity.
  - rewrite pcopy_cons, IH. unfold prop_mem. cbn [existsb]. fold (prop_mem id ids).
    destruct (prop_id_eqb id i) eqn:E; cbn [orb].
    + apply prop_id_eqb_eq in E. subst i.
      destruct (pget p id) as [v|] eqn:Ep.
      * destruct (prop_mem id ids); [reflexivity|apply pget_pset_same].
      * destruct (prop_mem id ids); reflexivity.
    + apply prop_id_eqb_neq in E.
      destruct (pget p i) as [w|] eqn:Epi; [|reflexivity].
      rewrite pget_pset_other by congruence. reflexivity.
Qed.

Lemma pr_user_pcopy p ids : forall acc, pr_user (pcopy p ids acc) = pr_user acc.
Proof.
  induction ids as [|i ids IH]; intros acc; [reflexivity|].
  rewrite pcopy_cons, IH. destruct (pget p i); [apply pr_user_pset|reflexivity].
Qed.

(* number of loop iterations the ids of a list cost *)
Fixpoint npresent (p : props) (ids : list prop_id) : nat :=
  match ids with
  | [] => O
  | i :: r => match pget p i with Some _ => S (npresent p r) | None => npresent p r end
  end.

Lemma loop_ids ctx allowed p t tail plen : forall ids acc n fuel,
  (forall id, In id ids -> prop_mem id allowed = true) ->
  NoDup (map prop_num ids) ->
  (forall id, In id ids -> pget acc id = None) ->
  (forall id v, In id ids -> pget p id = Some v ->
     value_inv (prop_wtype id) v = true /\ value_valid (prop_wtype id) v = true) ->
  n + ids_len p ids <= plen ->
  decode_props_loop (npresent p ids + fuel) ctx allowed plen n acc t (concat (ids_enc p ids) ++ tail)
  = decode_props_loop fuel ctx allowed plen (n + ids_len p ids) (pcopy p ids acc) t tail.
Proof.
  induction ids as [|i ids IH]; intros acc n fuel Hmem Hnd Hacc Hval Hlen.
  - cbn [npresent ids_enc flat_map concat app ids_len fold_right pcopy fold_left plus].
    rewrite N.add_0_r. reflexivity.
  - cbn [map] in Hnd. inversion Hnd as [|x l Hnotin Hnd']; subst x l.
    rewrite ids_enc_cons, pcopy_cons. rewrite ids_len_cons in Hlen |- *. cbn [npresent].
    assert (Hmem' : forall id, In id ids -> prop_mem id allowed = true)
      by (intros id Hin; apply Hmem; right; exact Hin).
    assert (Hval' : forall id v, In id ids -> pget p id = Some v ->
              value_inv (prop_wtype id) v = true /\ value_valid (prop_wtype id) v = true)
      by (intros id v Hin; apply Hval; right; exact Hin).
    destruct (pget p i) as [v|] eqn:Ep.
    + destruct (Hval i v (or_introl eq_refl) Ep) as [Hvi Hvv].
      rewrite concat_app, <- app_assoc. cbn [concat]. rewrite <- app_assoc. cbn [app plus].
      erewrite loop_step_prop;
        [ | lia | apply Hmem; left; reflexivity | apply Hacc; left; reflexivity
          | apply decode_value_rt; assumption ].
      rewrite IH; try assumption.
      * f_equal. lia.
      * intros id Hin. rewrite pget_pset_other; [apply Hacc; right; exact Hin|].
        intros ->. apply Hnotin. apply in_map. exact Hin.
      * lia.
    + cbn [app]. apply IH; try assumption.
      intros id Hin. apply Hacc. right. exact Hin.
Qed.

Lemma loop_users ctx allowed t rest plen : forall us acc n fuel,
  forallb user_inv us = true -> forallb user_valid us = true ->
  plen = n + users_len us ->
  decode_props_loop (length us + fuel) ctx allowed plen n acc t (concat (flat_map user_enc us) ++ rest)
  = ROk (pset_user acc (pr_user acc ++ us)) rest.
Proof.
  induction us as [|u us IH]; intros acc n fuel Hi Hv Hlen.
  - cbn [users_len fold_right] in Hlen. replace plen with n by lia.
    cbn [flat_map concat app]. rewrite loop_done, app_nil_r, pset_user_self. reflexivity.
  - cbn [forallb] in Hi, Hv. apply andb_true_iff in Hi as [Hiu Hi]. apply andb_true_iff in Hv as [Hvu Hv].
    unfold user_inv in Hiu. apply andb_true_iff in Hiu as [Hi1 Hi2].
    apply text_ok_parts in Hi1 as [_ Hu1]. apply text_ok_parts in Hi2 as [_ Hu2].
    unfold user_valid in Hvu. apply andb_true_iff in Hvu as [Hs1 Hs2].
    apply short_le in Hs1. apply short_le in Hs2.
    rewrite users_len_cons in Hlen.
    cbn [flat_map]. rewrite concat_app, <- app_assoc. unfold user_enc at 1. norm_bytes.
    cbn [app length plus].
    erewrite loop_step_user;
      [ | lia | apply read_string_lp; assumption | apply read_string_lp; assumption ].
    rewrite IH; try assumption.
    + rewrite pset_user_twice, pr_user_pset_user, <- app_assoc. destruct u. reflexivity.
    + lia.
Qed.

(* every present property and every user property costs at least one byte: fuel suffices *)
Lemma npresent_le p ids : (npresent p ids <= length (concat (ids_enc p ids)))%nat.
Proof.
  induction ids as [|i ids IH]; [apply Nat.le_refl|].
  rewrite ids_enc_cons, concat_app, app_length. cbn [npresent].
  destruct (pget p i); cbn [concat app length]; lia.
Qed.
Lemma nusers_le us : (length us <= length (concat (flat_map user_enc us)))%nat.
Proof.
  induction us as [|u us IH]; [apply Nat.le_refl|].
  cbn [flat_map]. rewrite concat_app, app_length. unfold user_enc at 1. cbn [concat app length]. lia.
Qed.

Lemma props_loop_rt ctx allowed p t rest :
  NoDup (map prop_num allowed) -> props_inv allowed p = true -> props_valid allowed p = true ->
  let d := concat (ids_enc p allowed) ++ concat (flat_map user_enc (pr_user p)) ++ rest in
  decode_props_loop (S (length d)) ctx allowed (props_body_len allowed p) 0 props_empty t d = ROk p rest.
Proof.
  intros Hnd Hinv Hval d.
  assert (Hf : exists f, S (length d) = (npresent p allowed + (length (pr_user p) + f))%nat).
  { exists (S (length d) - npresent p allowed - length (pr_user p))%nat.
    pose proof (npresent_le p allowed) as H1. pose proof (nusers_le (pr_user p)) as H2.
    subst d. rewrite !app_length. lia. }
  destruct Hf as [f ->]. subst d.
  rewrite loop_ids.
  - rewrite loop_users.
    + f_equal. apply props_ext.
      * intros id. rewrite pget_pset_user, pget_pcopy, pget_empty.
        destruct (prop_mem id allowed) eqn:Em.
        -- destruct (pget p id); reflexivity.
        -- symmetry. exact (props_inv_absent _ _ _ Hinv Em).
      * rewrite pr_user_pset_user, pr_user_pcopy. reflexivity.
    + exact (props_inv_user _ _ Hinv).
    + exact (props_valid_user _ _ Hval).
    + rewrite body_len_split. reflexivity.
  - intros id Hin. apply prop_mem_in. exact Hin.
  - exact Hnd.
  - intros id _. apply pget_empty.
  - intros id v _ Hg. split.
    + exact (proj2 (props_inv_get _ _ _ _ Hinv Hg)).
    + exact (props_valid_get _ _ _ _ Hval Hg).
  - rewrite body_len_split. lia.
Qed.

Theorem props_rt ctx allowed p t rest :
  NoDup (map prop_num allowed) -> props_inv allowed p = true -> props_valid allowed p = true ->
  props_body_len allowed p < 268435456 ->
  decode_props_full ctx allowed t (concat (props_enc allowed p) ++ rest)
  = ROk (p, props_body_len allowed p, width (props_body_len allowed p)) rest.
Proof.
  intros Hnd Hinv Hval Hb. unfold decode_props_full.
  rewrite props_enc_split, !concat_app, concat_singletons, <- !app_assoc.
  erewrite bind_ok by (apply decode_var_int_write; exact Hb). cbv beta iota.
  erewrite bind_ok by (apply props_loop_rt; assumption). reflexivity.
Qed.

Theorem props_rt_simple ctx allowed p t rest :
  NoDup (map prop_num allowed) -> props_inv allowed p = true -> props_valid allowed p = true ->
  props_body_len allowed p < 268435456 ->
  decode_props ctx allowed t (concat (props_enc allowed p) ++ rest) = ROk p rest.
Proof.
  intros Hnd Hinv Hval Hb. unfold decode_props.
  erewrite bind_ok by (apply props_rt; assumption). reflexivity.
Qed.

(* ---- the nine macro argument lists have no repeated id ---- *)
Fixpoint nodupb (l : list N) : bool :=
  match l with
  | [] => true
  | x :: r => negb (existsb (N.eqb x) r) && nodupb r
  end.
Lemma nodupb_sound l : nodupb l = true -> NoDup l.
Proof.
  induction l as [|x r IH]; intros H; [constructor|].
  cbn [nodupb] in H. apply andb_true_iff in H as [Hx Hr]. constructor; [|exact (IH Hr)].
  intros Hin. apply negb_true_iff in Hx.
  assert (E : existsb (N.eqb x) r = true) by (apply existsb_exists; exists x; split; [exact Hin|apply N.eqb_refl]).
  congruence.
Qed.

Lemma nodup_connect : NoDup (map prop_num CONNECT_PROPS).
Proof. apply nodupb_sound. vm_compute. reflexivity. Qed.
Lemma nodup_will : NoDup (map prop_num WILL_PROPS).
Proof. apply nodupb_sound. vm_compute. reflexivity. Qed.
Lemma nodup_connack : NoDup (map prop_num CONNACK_PROPS).
Proof. apply nodupb_sound. vm_compute. reflexivity. Qed.
Lemma nodup_publish : NoDup (map prop_num PUBLISH_PROPS).
Proof. apply nodupb_sound. vm_compute. reflexivity. Qed.
Lemma nodup_ack : NoDup (map prop_num ACK_PROPS).
Proof. apply nodupb_sound. vm_compute. reflexivity. Qed.
Lemma nodup_subscribe : NoDup (map prop_num SUBSCRIBE_PROPS).
Proof. apply nodupb_sound. vm_compute. reflexivity. Qed.
Lemma nodup_unsubscribe : NoDup (map prop_num UNSUBSCRIBE_PROPS).
Proof. apply nodupb_sound. vm_compute. reflexivity. Qed.
Lemma nodup_disconnect : NoDup (map prop_num DISCONNECT_PROPS).
Proof. apply nodupb_sound. vm_compute. reflexivity. Qed.
Lemma nodup_auth : NoDup (map prop_num AUTH_PROPS).
Proof. apply nodupb_sound. vm_compute. reflexivity. Qed.

(* NoDup is needed: a list that names an id twice makes the encoder write it twice and the
   decoder report DuplicatedProperty *)
Definition dup_reason : props := pset props_empty ReasonString (Some (VB [])).
Example props_rt_needs_nodup :
  props_inv [ReasonString; ReasonString] dup_reason = true /\
  props_valid [ReasonString; ReasonString] dup_reason = true /\
  decode_props (CtxPacket PPuback) [ReasonString; ReasonString] TEof
    (concat (props_enc [ReasonString; ReasonString] dup_reason)) = RErr (DuplicatedProperty 31).
Proof. vm_compute. auto. Qed.

(* ================================================================== *)
(* P5: the encoder emits bytes                                         *)
(* ================================================================== *)

Lemma bytes_okb_app a b : bytes_okb (a ++ b) = bytes_okb a && bytes_okb b.
Proof. unfold bytes_okb. apply forallb_app. Qed.
Lemma bytes_okb_cons x a : bytes_okb (x :: a) = (x <? 256) && bytes_okb a.
Proof. reflexivity. Qed.
Lemma bytes_okb_nil : bytes_okb [] = true.
Proof. reflexivity. Qed.
Lemma bytes_okb_forall l : Forall (fun b => b < 256) l -> bytes_okb l = true.
Proof.
  intros H. unfold bytes_okb. apply forallb_forall. rewrite Forall_forall in H.
  intros x Hx. apply N.ltb_lt. exact (H x Hx).
Qed.
Lemma bytes_okb_be16 n : n < 65536 -> bytes_okb (be16 n) = true.
Proof.
  intros H. unfold be16. rewrite !bytes_okb_cons, bytes_okb_nil.
  destruct (N.ltb_spec (n / 256) 256); [|lia]. destruct (N.ltb_spec (n mod 256) 256); [reflexivity|lia].
Qed.
Lemma bytes_okb_be32 n : n < 4294967296 -> bytes_okb (be32 n) = true.
Proof.
  intros H. unfold be32. rewrite !bytes_okb_cons, bytes_okb_nil.
  destruct (N.ltb_spec (n / 16777216) 256); [|lia].
  destruct (N.ltb_spec ((n / 65536) mod 256) 256); [|lia].
  destruct (N.ltb_spec ((n / 256) mod 256) 256); [|lia].
  destruct (N.ltb_spec (n mod 256) 256); [reflexivity|lia].
Qed.
Lemma bytes_okb_lenpfx (s : bytes) : bytes_okb (be16 (len s mod 65536)) = true.
Proof. apply bytes_okb_be16. lia. Qed.
Lemma bytes_okb_one b : b < 256 -> bytes_okb [b] = true.
Proof. intros H. rewrite bytes_okb_cons, bytes_okb_nil. destruct (N.ltb_spec b 256); [reflexivity|lia]. Qed.
Lemma bytes_okb_var_int n : n < 268435456 -> bytes_okb (write_var_int n) = true.
Proof. intros H. apply bytes_okb_forall. apply write_bytes_ok. exact H. Qed.

Lemma value_enc_bytes ty v : value_inv ty v = true -> bytes_okb (concat (encode_value ty v)) = true.
Proof.
  intros Hi. destruct ty; destruct v as [n|s]; cbn [value_inv] in Hi; try discriminate;
    cbn [encode_value pv_n pv_b]; norm_bytes.
  - apply N.ltb_lt in Hi. apply bytes_okb_one. lia.
  - unfold u16 in Hi. apply N.ltb_lt in Hi. apply bytes_okb_be16. exact Hi.
  - unfold u32 in Hi. apply N.ltb_lt in Hi. apply bytes_okb_be32. exact Hi.
  - apply text_ok_parts in Hi as [Hb _]. rewrite bytes_okb_app, bytes_okb_lenpfx, Hb. reflexivity.
  - apply name_ok_parts in Hi as [Hb _]. rewrite bytes_okb_app, bytes_okb_lenpfx, Hb. reflexivity.
  - rewrite bytes_okb_app, bytes_okb_lenpfx, Hi. reflexivity.
  - apply N.ltb_lt in Hi. rewrite concat_singletons. apply bytes_okb_var_int. exact Hi.
  - apply N.ltb_lt in Hi. apply bytes_okb_one. lia.
Qed.

Lemma ids_enc_bytes allowed p ids : props_inv allowed p = true -> bytes_okb (concat (ids_enc p ids)) = true.
Proof.
  intros Hinv. induction ids as [|i ids IH]; [reflexivity|].
  rewrite ids_enc_cons, concat_app, bytes_okb_app, IH, andb_true_r.
  destruct (pget p i) as [v|] eqn:Eg; [|reflexivity].
  cbn [concat]. rewrite bytes_okb_app, (bytes_okb_one _ (prop_num_byte i)).
  destruct (props_inv_get _ _ _ _ Hinv Eg) as [_ Hv]. apply value_enc_bytes. exact Hv.
Qed.

Lemma users_enc_bytes us : forallb user_inv us = true -> bytes_okb (concat (flat_map user_enc us)) = true.
Proof.
  induction us as [|u us IH]; intros H; [reflexivity|].
  cbn [forallb] in H. apply andb_true_iff in H as [Hu H].
  unfold user_inv in Hu. apply andb_true_iff in Hu as [H1 H2].
  apply text_ok_parts in H1 as [H1 _]. apply text_ok_parts in H2 as [H2 _].
  cbn [flat_map]. rewrite concat_app, bytes_okb_app, (IH H), andb_true_r.
  unfold user_enc. norm_bytes.
  rewrite !bytes_okb_app, !bytes_okb_lenpfx, H1, H2. reflexivity.
Qed.

(* props_valid is not needed for this one *)
Theorem props_enc_bytes_inv allowed p :
  props_inv allowed p = true -> props_body_len allowed p < 268435456 ->
  bytes_okb (concat (props_enc allowed p)) = true.
Proof.
  intros Hinv Hb. rewrite props_enc_split, !concat_app, concat_singletons, !bytes_okb_app.
  rewrite (bytes_okb_var_int _ Hb), (ids_enc_bytes _ _ _ Hinv), (users_enc_bytes _ (props_inv_user _ _ Hinv)).
  reflexivity.
Qed.

Theorem props_enc_bytes allowed p :
  props_inv allowed p = true -> props_valid allowed p = true -> props_body_len allowed p < 2 ^ 28 ->
  bytes_okb (concat (props_enc allowed p)) = true.
Proof. intros Hinv _ Hb. apply props_enc_bytes_inv; [exact Hinv|exact Hb]. Qed.

Print Assumptions props_ext.
Print Assumptions props_is_default_spec.
Print Assumptions props_enc_len_gen.
Print Assumptions props_enc_len.
Print Assumptions props_len_too_large.
Print Assumptions props_rt.
Print Assumptions props_rt_simple.
Print Assumptions props_enc_bytes.
Print Assumptions nodup_connack.
