(* Proofs/Utf8Facts.v — facts about well-formed UTF-8: an induction principle following the
   validator, ASCII transparency (an ASCII character occurs among the chars of a string exactly
   where it occurs among its bytes), lengths. *)
From MQ Require Import Proofs.Tactics Base.Utf8.
Open Scope N_scope.

Definition char2 (b0 b1 : N) : N := (b0 mod 32) * 64 + b1 mod 64.
Definition char3 (b0 b1 b2 : N) : N := (b0 mod 16) * 4096 + (b1 mod 64) * 64 + b2 mod 64.
Definition char4 (b0 b1 b2 b3 : N) : N := (b0 mod 8) * 262144 + (b1 mod 64) * 4096 + (b2 mod 64) * 64 + b3 mod 64.

(* induction along the validator *)
Lemma utf8_ind (P : bytes -> Prop) :
  P [] ->
  (forall b r, b < 128 -> utf8_valid r = true -> P r -> P (b :: r)) ->
  (forall b0 b1 r, 194 <= b0 < 224 -> is_cont b1 = true -> utf8_valid r = true -> P r -> P (b0 :: b1 :: r)) ->
  (forall b0 b1 b2 r, 224 <= b0 < 240 -> second_ok b0 b1 = true -> is_cont b2 = true ->
                      utf8_valid r = true -> P r -> P (b0 :: b1 :: b2 :: r)) ->
  (forall b0 b1 b2 b3 r, 240 <= b0 < 245 -> second_ok b0 b1 = true -> is_cont b2 = true -> is_cont b3 = true ->
                         utf8_valid r = true -> P r -> P (b0 :: b1 :: b2 :: b3 :: r)) ->
  forall l, utf8_valid l = true -> P l.
Proof.
  intros H0 H1 H2 H3 H4 l.
  remember (length l) as n eqn:Hn. revert l Hn.
  induction n as [n IH] using lt_wf_ind. intros l Hn Hv.
  destruct l as [|b0 r0]; [exact H0|].
  cbn [utf8_valid] in Hv.
  destruct (N.ltb_spec b0 128).
  { apply H1; [assumption | assumption | apply (IH (length r0)); [subst n; cbn [length]; lia | reflexivity | assumption]]. }
  destruct (N.ltb_spec b0 194); [discriminate|].
  destruct (N.ltb_spec b0 224).
  { destruct r0 as [|b1 r1]; [discriminate|].
    apply andb_true_iff in Hv as [Hc Hv].
    apply H2; [lia | assumption | assumption | apply (IH (length r1)); [subst n; cbn [length]; lia | reflexivity | assumption]]. }
  destruct (N.ltb_spec b0 240).
  { destruct r0 as [|b1 [|b2 r2]]; try discriminate.
    apply andb_true_iff in Hv as [Hv Hr]. apply andb_true_iff in Hv as [Hs Hc].
    apply H3; [lia | assumption | assumption | assumption | apply (IH (length r2)); [subst n; cbn [length]; lia | reflexivity | assumption]]. }
  destruct (N.ltb_spec b0 245); [|discriminate].
  destruct r0 as [|b1 [|b2 [|b3 r3]]]; try discriminate.
  apply andb_true_iff in Hv as [Hv Hr]. apply andb_true_iff in Hv as [Hv Hc3].
  apply andb_true_iff in Hv as [Hs Hc2].
  apply H4; [lia | assumption | assumption | assumption | assumption | apply (IH (length r3)); [subst n; cbn [length]; lia | reflexivity | assumption]].
Qed.

(* unfolding utf8_chars on each shape *)
Lemma chars1 b r : b < 128 -> utf8_chars (b :: r) = (b, 1) :: utf8_chars r.
Proof. intros H. cbn [utf8_chars]. destruct (N.ltb_spec b 128); [reflexivity|exfalso; lia]. Qed.
Lemma chars2 b0 b1 r : 194 <= b0 < 224 -> utf8_chars (b0 :: b1 :: r) = (char2 b0 b1, 2) :: utf8_chars r.
Proof.
  intros H. cbn [utf8_chars]. destruct (N.ltb_spec b0 128); [exfalso; lia|].
  destruct (N.ltb_spec b0 224); [reflexivity|exfalso; lia].
Qed.
Lemma chars3 b0 b1 b2 r : 224 <= b0 < 240 -> utf8_chars (b0 :: b1 :: b2 :: r) = (char3 b0 b1 b2, 3) :: utf8_chars r.
Proof.
  intros H. cbn [utf8_chars]. destruct (N.ltb_spec b0 128); [exfalso; lia|].
  destruct (N.ltb_spec b0 224); [exfalso; lia|]. destruct (N.ltb_spec b0 240); [reflexivity|exfalso; lia].
Qed.
Lemma chars4 b0 b1 b2 b3 r : 240 <= b0 < 245 ->
  utf8_chars (b0 :: b1 :: b2 :: b3 :: r) = (char4 b0 b1 b2 b3, 4) :: utf8_chars r.
Proof.
  intros H. cbn [utf8_chars]. destruct (N.ltb_spec b0 128); [exfalso; lia|].
  destruct (N.ltb_spec b0 224); [exfalso; lia|]. destruct (N.ltb_spec b0 240); [exfalso; lia|]. reflexivity.
Qed.

Lemma is_cont_range b : is_cont b = true -> 128 <= b <= 191.
Proof. unfold is_cont, in_range. intros H. apply andb_true_iff in H as [H1 H2]. lia. Qed.

Lemma second_ok_range b0 b1 : second_ok b0 b1 = true ->
  128 <= b1 <= 191 /\ (b0 = 224 -> 160 <= b1) /\ (b0 = 237 -> b1 <= 159) /\ (b0 = 240 -> 144 <= b1) /\ (b0 = 244 -> b1 <= 143).
Proof.
  unfold second_ok, in_range, is_cont, in_range. intros H.
  destruct (N.eqb_spec b0 224); [apply andb_true_iff in H as [H1 H2]; lia|].
  destruct (N.eqb_spec b0 237); [apply andb_true_iff in H as [H1 H2]; lia|].
  destruct (N.eqb_spec b0 240); [apply andb_true_iff in H as [H1 H2]; lia|].
  destruct (N.eqb_spec b0 244); [apply andb_true_iff in H as [H1 H2]; lia|].
  apply andb_true_iff in H as [H1 H2]. lia.
Qed.

(* scalar values of multi-byte chars: ranges (no overlongs), hence len_utf8 is the byte count *)
Lemma char2_range b0 b1 : 194 <= b0 < 224 -> is_cont b1 = true -> 128 <= char2 b0 b1 < 2048.
Proof. intros H0 H1. apply is_cont_range in H1. unfold char2. lia. Qed.
Lemma char3_range b0 b1 b2 : 224 <= b0 < 240 -> second_ok b0 b1 = true -> is_cont b2 = true ->
  2048 <= char3 b0 b1 b2 < 65536.
Proof. intros H0 H1 H2. apply second_ok_range in H1. apply is_cont_range in H2. unfold char3. lia. Qed.
Lemma char4_range b0 b1 b2 b3 : 240 <= b0 < 245 -> second_ok b0 b1 = true -> is_cont b2 = true -> is_cont b3 = true ->
  65536 <= char4 b0 b1 b2 b3 < 1114112.
Proof.
  intros H0 H1 H2 H3. apply second_ok_range in H1. apply is_cont_range in H2. apply is_cont_range in H3.
  unfold char4. lia.
Qed.

(* ASCII transparency, as a boolean statement about any predicate that is false above 127 *)
Lemma existsb_chars (f : N -> bool) : (forall c, 128 <= c -> f c = false) ->
  forall l, utf8_valid l = true -> existsb (fun ch => f (fst ch)) (utf8_chars l) = existsb f l.
Proof.
  intros Hf. apply (utf8_ind (fun l => existsb (fun ch => f (fst ch)) (utf8_chars l) = existsb f l)).
  - reflexivity.
  - intros b r Hb Hr IH. rewrite chars1 by assumption. cbn [existsb fst]. rewrite IH. reflexivity.
  - intros b0 b1 r H0 H1 Hr IH. rewrite chars2 by assumption. cbn [existsb fst]. rewrite IH.
    pose proof (char2_range b0 b1 H0 H1). apply is_cont_range in H1.
    rewrite !Hf by lia. reflexivity.
  - intros b0 b1 b2 r H0 H1 H2 Hr IH. rewrite chars3 by assumption. cbn [existsb fst]. rewrite IH.
    pose proof (char3_range b0 b1 b2 H0 H1 H2). apply second_ok_range in H1. apply is_cont_range in H2.
    rewrite !Hf by lia. reflexivity.
  - intros b0 b1 b2 b3 r H0 H1 H2 H3 Hr IH. rewrite chars4 by assumption. cbn [existsb fst]. rewrite IH.
    pose proof (char4_range b0 b1 b2 b3 H0 H1 H2 H3). apply second_ok_range in H1. apply is_cont_range in H2.
    apply is_cont_range in H3. rewrite !Hf by lia. reflexivity.
Qed.

(* the byte lengths of the chars add up to the length of the string *)
Definition chars_blen (l : list (N * N)) : N := fold_right (fun ch a => snd ch + a) 0 l.
Lemma chars_blen_cons ch l : chars_blen (ch :: l) = snd ch + chars_blen l.
Proof. reflexivity. Qed.
Lemma chars_blen_len : forall l, utf8_valid l = true -> chars_blen (utf8_chars l) = len l.
Proof.
  unfold len. apply (utf8_ind (fun l => chars_blen (utf8_chars l) = N.of_nat (length l))).
  - reflexivity.
  - intros b r Hb Hr IH. rewrite chars1 by assumption. rewrite chars_blen_cons, IH. cbn [snd length]. lia.
  - intros b0 b1 r H0 H1 Hr IH. rewrite chars2 by assumption. rewrite chars_blen_cons, IH. cbn [snd length]. lia.
  - intros b0 b1 b2 r H0 H1 H2 Hr IH. rewrite chars3 by assumption. rewrite chars_blen_cons, IH. cbn [snd length]. lia.
  - intros b0 b1 b2 b3 r H0 H1 H2 H3 Hr IH. rewrite chars4 by assumption. rewrite chars_blen_cons, IH. cbn [snd length]. lia.
Qed.

(* every char's recorded length is the len_utf8 of its scalar value *)
Definition len_utf8 (c : N) : N := if c <? 128 then 1 else if c <? 2048 then 2 else if c <? 65536 then 3 else 4.
Lemma chars_len_utf8 : forall l, utf8_valid l = true -> Forall (fun ch => snd ch = len_utf8 (fst ch)) (utf8_chars l).
Proof.
  apply (utf8_ind (fun l => Forall (fun ch => snd ch = len_utf8 (fst ch)) (utf8_chars l))).
  - constructor.
  - intros b r Hb Hr IH. rewrite chars1 by assumption. constructor; [|assumption]. cbn [fst snd]. unfold len_utf8.
    dtest; [reflexivity|exfalso; lia].
  - intros b0 b1 r H0 H1 Hr IH. rewrite chars2 by assumption. constructor; [|assumption]. cbn [fst snd].
    pose proof (char2_range b0 b1 H0 H1). unfold len_utf8. repeat (dtest; try reflexivity); exfalso; lia.
  - intros b0 b1 b2 r H0 H1 H2 Hr IH. rewrite chars3 by assumption. constructor; [|assumption]. cbn [fst snd].
    pose proof (char3_range b0 b1 b2 H0 H1 H2). unfold len_utf8. repeat (dtest; try reflexivity); exfalso; lia.
  - intros b0 b1 b2 b3 r H0 H1 H2 H3 Hr IH. rewrite chars4 by assumption. constructor; [|assumption]. cbn [fst snd].
    pose proof (char4_range b0 b1 b2 b3 H0 H1 H2 H3). unfold len_utf8. repeat (dtest; try reflexivity); exfalso; lia.
Qed.

(* a valid string is made of bytes *)
Lemma utf8_bytes : forall l, utf8_valid l = true -> Forall (fun b => b < 256) l.
Proof.
  apply (utf8_ind (fun l => Forall (fun b => b < 256) l)).
  - constructor.
  - intros b r Hb Hr IH. constructor; [lia|assumption].
  - intros b0 b1 r H0 H1 Hr IH. apply is_cont_range in H1. repeat (constructor; [lia|]). assumption.
  - intros b0 b1 b2 r H0 H1 H2 Hr IH. apply second_ok_range in H1. apply is_cont_range in H2.
    repeat (constructor; [lia|]). assumption.
  - intros b0 b1 b2 b3 r H0 H1 H2 H3 Hr IH. apply second_ok_range in H1. apply is_cont_range in H2.
    apply is_cont_range in H3. repeat (constructor; [lia|]). assumption.
Qed.
