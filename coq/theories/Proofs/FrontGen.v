(* Proofs/FrontGen.v — the three decoder front-ends (decode_async, blocking decode, PollPacket) on
   the encoding of a packet, generically in the PollHeader implementation.

   Reading guide
     gheader_decode / gdecode   the shape shared by V3.decode_async and V5.decode_async
                                (they are convertible with the two instances)
     frame cb p c               c = cb :: write_var_int n ++ body, len body = n < 2^28, and
                                decode_async returns p on c followed by anything (the async round trip)
     Section FrontGen           hypotheses: stability of decode_async (Proofs/Stable.v), new_with stores
                                the remaining length, the bridge between body_decode_async and the
                                PollHeader pair (build_empty, block_decode), and "block_decode does not
                                accept the empty body"
     G_async G_block G_poll     C01 on the three front-ends
     G_prefix_*                 C07 / C14 (read side): a strict prefix fails with the transport's error
     G_stream_*                 C08: back-to-back frames
   Instances: Proofs/FrontRT3.v, Proofs/FrontRT5.v. *)
From MQ Require Import Proofs.Tactics Proofs.VarIntLaws Proofs.Parses Model.Valid Model.Stream.
From MQ Require Proofs.Stable Proofs.PollSched.
Open Scope N_scope.

(* ---------- the common shape of Packet::decode_async ---------- *)
Definition gheader_decode (new_with : N -> N -> outcome header) : reader header :=
  '(typ, rl) <- decode_raw_header ;; lift_outcome (new_with typ rl).

Definition gdecode {P : Type} (new_with : N -> N -> outcome header) (body_async : header -> reader P)
  : reader P :=
  h <- gheader_decode new_with ;; body_async h.

Example gdecode_is_v3 (prof : profile) :
  gdecode V3.header_new_with (V3.body_decode_async prof) = V3.decode_async prof.
Proof. reflexivity. Qed.
Example gdecode_is_v5 (prof : profile) :
  gdecode V5.header_new_with (V5.body_decode_async prof) = V5.decode_async prof.
Proof. reflexivity. Qed.

(* ---------- small list facts ---------- *)
Lemma raw_header_rt (cb n : N) (t : tail) (rest : bytes) : n < VMAX ->
  decode_raw_header t (cb :: write_var_int n ++ rest) = ROk (cb, n) rest.
Proof.
  intros Hn. unfold decode_raw_header.
  erewrite bind_ok by apply read_u8_cons.
  erewrite bind_ok by (apply decode_var_int_write; exact Hn). reflexivity.
Qed.

Lemma rev'_cons {A : Type} (x : A) (l : list A) : rev' (x :: l) = rev' l ++ [x].
Proof. unfold rev'. rewrite <- !rev_alt. reflexivity. Qed.

Lemma skipn_len_app (b rest : bytes) : skipn (N.to_nat (len b)) (b ++ rest) = rest.
Proof.
  unfold len. rewrite Nat2N.id, skipn_app, skipn_all, Nat.sub_diag. reflexivity.
Qed.

Lemma firstn_strict_skipn_ne {A : Type} (k : nat) (c : list A) : (k < length c)%nat -> skipn k c <> [].
Proof.
  intros Hk E. pose proof (skipn_length k c) as Hl. rewrite E in Hl. cbn [length] in Hl. lia.
Qed.

(* the sum of the reported sizes *)
Definition sizes_sum {P : Type} (l : list (P * N)) : N := fold_right (fun x a => snd x + a) 0 l.

Lemma sizes_sum_combine {P : Type} : forall (ps : list P) (bs : list bytes),
  length ps = length bs -> sizes_sum (combine ps (map len bs)) = len (concat bs).
Proof.
  induction ps as [|p ps IH]; intros [|b bs] Hl; cbn [length] in Hl; try discriminate.
  - reflexivity.
  - cbn [map combine sizes_sum fold_right snd concat]. rewrite len_app.
    fold (sizes_sum (combine ps (map len bs))). rewrite IH by lia. reflexivity.
Qed.

Lemma combine_length_eq {P : Type} (ps : list P) (bs : list bytes) :
  length ps = length bs -> map fst (combine ps (map len bs)) = ps /\ map snd (combine ps (map len bs)) = map len bs.
Proof.
  revert bs. induction ps as [|p ps IH]; intros [|b bs] Hl; cbn [length] in Hl; try discriminate.
  - split; reflexivity.
  - cbn [map combine fst snd]. destruct (IH bs) as [H1 H2]; [lia|]. rewrite H1, H2. split; reflexivity.
Qed.

(* ------------------------------------------------------------------------------------------ *)
Section FrontGen.
Variable P : Type.
Variable new_with : N -> N -> outcome header.
Variable build_empty : header -> option P.
Variable block_decode : header -> reader P.
Variable body_async : header -> reader P.
Variable enc_len : P -> outcome N.

Local Notation dec := (gdecode new_with body_async).
Local Notation sem := (PollSched.sem P new_with build_empty block_decode).
Local Notation poll_drive := (Poll.poll_drive P new_with build_empty block_decode).
Local Notation poll1 := (Poll.poll1 P new_with build_empty block_decode).

(* decode_async is stable (Proofs/Stable.v) *)
Hypothesis Hst : Stable.stable dec.
(* Header::new_with stores the remaining length it is given *)
Hypothesis Hrl : PollSched.new_with_rl new_with.
(* Packet::decode_async after the header is PollHeader::block_decode where build_empty_packet
   declines, and returns build_empty_packet's packet without reading where it does not *)
Hypothesis Hbridge : forall h, build_empty h = None ->
  forall t d, body_async h t d = block_decode h t d.
Hypothesis Hempty : forall h p, build_empty h = Some p ->
  forall t d, body_async h t d = ROk p d.
(* a body decoder that is reached never accepts the empty body *)
Hypothesis Hcons : forall h, build_empty h = None ->
  forall t p d', block_decode h t [] <> ROk p d'.

(* c is a frame with control byte cb on which the async decoder round-trips to p *)
Definition frame (cb : N) (p : P) (c : bytes) : Prop :=
  exists n body, c = cb :: write_var_int n ++ body /\ n < VMAX /\ len body = n /\
                 forall t rest, dec t (c ++ rest) = ROk p rest.

Lemma dec_nil (t : tail) : dec t [] = RErr (io_err t).
Proof using. reflexivity. Qed.

Lemma dec_frame_eq (cb n : N) (body : bytes) (t : tail) (rest : bytes) : n < VMAX ->
  dec t ((cb :: write_var_int n ++ body) ++ rest) =
  match new_with cb n with
  | Ok h => body_async h t (body ++ rest)
  | Err e => RErr e
  | Panic s => RPanic s
  end.
Proof using.
  intros Hn. rewrite <- app_comm_cons, <- app_assoc. unfold gdecode, gheader_decode, bind.
  rewrite (raw_header_rt cb n t (body ++ rest) Hn). cbv beta iota.
  destruct (new_with cb n) as [h|e|s]; reflexivity.
Qed.

(* a frame taken apart: the header the decoder builds, and which of the two PollHeader paths
   the poll decoder takes *)
Lemma frame_parts (cb : N) (p : P) (c : bytes) : frame cb p c ->
  exists n body h,
    c = cb :: write_var_int n ++ body /\ n < VMAX /\ len body = n /\ new_with cb n = Ok h /\
    (forall t rest, body_async h t (body ++ rest) = ROk p rest) /\
    ((build_empty h = Some p /\ body = [] /\ n = 0) \/
     (build_empty h = None /\ n <> 0 /\ block_decode h TEof body = ROk p [])).
Proof using Hbridge Hempty Hcons.
  intros (n & body & Hc & Hn & Hl & Hall).
  assert (Hd : forall t rest,
             match new_with cb n with
             | Ok h => body_async h t (body ++ rest)
             | Err e => RErr e
             | Panic s => RPanic s
             end = ROk p rest).
  { intros t rest. rewrite <- (dec_frame_eq cb n body t rest Hn), <- Hc. apply Hall. }
  destruct (new_with cb n) as [h|e|s] eqn:Enw;
    [|specialize (Hd TEof []); discriminate|specialize (Hd TEof []); discriminate].
  exists n, body, h. repeat (split; [assumption|]).
  destruct (build_empty h) as [p'|] eqn:Eb.
  - left. pose proof (Hd TEof []) as H0. rewrite (Hempty h p' Eb) in H0.
    inversion H0 as [[Hp Hb]]. rewrite app_nil_r in Hb. subst body.
    split; [reflexivity|]. split; [reflexivity|]. rewrite len_nil in Hl. symmetry. exact Hl.
  - right. split; [reflexivity|].
    pose proof (Hd TEof []) as H0. rewrite (Hbridge h Eb), app_nil_r in H0.
    split; [|exact H0].
    intros En0. rewrite En0 in Hl. apply len_zero_nil in Hl. subst body.
    exact (Hcons h Eb TEof p [] H0).
Qed.

(* ---------- C01 ---------- *)
Theorem G_async (cb : N) (p : P) (c : bytes) : frame cb p c ->
  forall t rest, dec t (c ++ rest) = ROk p rest.
Proof using. intros (n & body & _ & _ & _ & Hall). exact Hall. Qed.

Theorem G_block (cb : N) (p : P) (c : bytes) : frame cb p c ->
  forall rest, map_eof (dec TEof (c ++ rest)) = BOk p.
Proof using. intros Hf rest. rewrite (G_async cb p c Hf). reflexivity. Qed.

Lemma frame_len (cb n : N) (body : bytes) : n < VMAX -> len body = n ->
  len (cb :: write_var_int n ++ body) = 1 + len (write_var_int n) + n.
Proof using. intros Hn Hl. rewrite len_cons, len_app, Hl. lia. Qed.

Lemma frame_sem (cb : N) (p : P) (c : bytes) : frame cb p c -> forall t sfx,
  exists body, c = cb :: write_var_int (len body) ++ body /\
               sem pinit (c ++ sfx) t = (Ok (len c, body, p), sfx).
Proof using Hrl Hbridge Hempty Hcons.
  intros Hf t sfx.
  destruct (frame_parts cb p c Hf) as (n & body & h & Hc & Hn & Hl & Hnw & _ & Hcase).
  exists body. split; [rewrite Hl; exact Hc|].
  rewrite Hc, (frame_len cb n body Hn Hl), <- app_comm_cons, <- app_assoc.
  rewrite (PollSched.sem_frame P new_with build_empty block_decode t cb (write_var_int n) n body sfx
             Hrl (PollSched.vbi_of_write n Hn) Hl).
  unfold PollSched.frame_result. rewrite Hnw.
  destruct Hcase as [(Eb & Hb & Hn0)|(Eb & Hn0 & Hblk)].
  - rewrite Eb. subst body. subst n. cbn [app]. list_lia.
  - rewrite Eb. destruct (N.eqb_spec n 0) as [E|E]; [contradiction|].
    unfold Poll.body_result. rewrite Hblk. reflexivity.
Qed.

Theorem G_poll (cb : N) (p : P) (c : bytes) : frame cb p c ->
  forall (prof : profile) (l : list atom) (t : tail) (sfx : bytes), bytes_of l = c ++ sfx ->
    exists body,
      rr_res P (poll_drive prof l t) = Some (Ok (len c, body, p)) /\
      c = cb :: write_var_int (len body) ++ body /\
      bytes_of (rr_rest P (poll_drive prof l t)) = sfx.
Proof using Hrl Hbridge Hempty Hcons.
  intros Hf prof l t sfx Hb.
  destruct (frame_sem cb p c Hf t sfx) as (body & Hc & Hs).
  destruct (PollSched.poll_drive_is_sem P new_with build_empty block_decode prof l t) as [A1 A2].
  exists body. rewrite A1, A2, Hb, Hs. repeat split. exact Hc.
Qed.

(* ---------- C07 / C14: strict prefixes ---------- *)
Theorem G_prefix_async (cb : N) (p : P) (c : bytes) : frame cb p c ->
  forall k, (k < length c)%nat -> forall t, dec t (firstn k c) = RErr (io_err t).
Proof using Hst.
  intros Hf k Hk t. pose proof (G_async cb p c Hf TEof []) as H0.
  exact (Stable.ok_prefix_eof dec Hst TEof c [] p H0 k Hk t).
Qed.

Lemma frame_sem_prefix (cb : N) (p : P) (c : bytes) : frame cb p c ->
  forall k, (k < length c)%nat -> forall t, sem pinit (firstn k c) t = (Err (io_err t), []).
Proof using Hrl Hbridge Hempty Hcons.
  intros Hf k Hk t.
  destruct (frame_parts cb p c Hf) as (n & body & h & Hc & Hn & Hl & Hnw & _ & Hcase).
  destruct Hcase as [(Eb & Hb & Hn0)|(Eb & Hn0 & Hblk)].
  - subst body. rewrite app_nil_r in Hc. subst c.
    destruct k as [|k']; [reflexivity|].
    cbn [firstn]. apply PollSched.sem_short_header.
    cbn [length] in Hk.
    pose proof (decode_var_int_write n t [] Hn) as Hw.
    assert (Hk' : (k' < length (write_var_int n))%nat) by (clear - Hk; lia).
    exact (Stable.ok_prefix_eof decode_var_int Stable.stable_decode_var_int t (write_var_int n) []
             (n, width n) Hw k' Hk' t).
  - apply (PollSched.sem_short P new_with build_empty block_decode t cb (write_var_int n) n body h
             (firstn k c) (skipn k c)
             (PollSched.vbi_of_write n Hn) Hl Hnw (Hrl cb n h Hnw) Eb).
    + rewrite firstn_skipn. symmetry. exact Hc.
    + apply firstn_strict_skipn_ne. exact Hk.
Qed.

Theorem G_prefix_poll (cb : N) (p : P) (c : bytes) : frame cb p c ->
  forall k, (k < length c)%nat -> forall (prof : profile) (l : list atom) (t : tail),
    bytes_of l = firstn k c ->
    rr_res P (poll_drive prof l t) = Some (Err (io_err t)) /\
    bytes_of (rr_rest P (poll_drive prof l t)) = [].
Proof using Hrl Hbridge Hempty Hcons.
  intros Hf k Hk prof l t Hb.
  destruct (PollSched.poll_drive_is_sem P new_with build_empty block_decode prof l t) as [A1 A2].
  rewrite A1, A2, Hb, (frame_sem_prefix cb p c Hf k Hk t). split; reflexivity.
Qed.

Theorem G_prefix_block (cb : N) (p : P) (c : bytes) : frame cb p c ->
  forall k, (k < length c)%nat -> map_eof (dec TEof (firstn k c)) = BNone.
Proof using Hst. intros Hf k Hk. rewrite (G_prefix_async cb p c Hf k Hk TEof). reflexivity. Qed.

(* ---------- C08: back-to-back frames ---------- *)
Definition frames (ps : list P) (bs : list bytes) : Prop :=
  Forall2 (fun p b => exists cb, frame cb p b) ps bs.
Definition frames_len (ps : list P) (bs : list bytes) : Prop :=
  Forall2 (fun p b => (exists cb, frame cb p b) /\ enc_len p = Ok (len b)) ps bs.

Lemma frames_len_frames ps bs : frames_len ps bs -> frames ps bs.
Proof using. intros H. induction H as [|p b ps bs [Hf _] _ IH]; constructor; assumption. Qed.

Lemma frames_length ps bs : frames ps bs -> length ps = length bs.
Proof using. intros H. induction H as [|p b ps bs _ _ IH]; cbn [length]; congruence. Qed.

Lemma G_stream_async_acc : forall ps bs, frames ps bs ->
  forall (fuel : nat) (t : tail) (acc : list (P * N)), (length ps < fuel)%nat ->
    stream_async P dec fuel t (concat bs) acc = (rev' acc ++ combine ps (map len bs), FErr (io_err t)).
Proof using.
  clear Hst Hrl Hbridge Hempty Hcons enc_len build_empty block_decode.
  intros ps bs H. induction H as [|p b ps bs [cb Hf] _ IH]; intros fuel t acc Hfuel;
    (destruct fuel as [|f]; [cbn [length] in Hfuel; lia|]).
  - cbn [concat stream_async]. rewrite dec_nil. cbn [map combine]. rewrite app_nil_r. reflexivity.
  - cbn [concat stream_async]. rewrite (G_async cb p b Hf t (concat bs)).
    cbn [length] in Hfuel. rewrite IH by lia.
    rewrite rev'_cons, <- app_assoc. cbn [map combine app].
    rewrite len_app. replace (len b + len (concat bs) - len (concat bs)) with (len b) by lia.
    reflexivity.
Qed.

Theorem G_stream_async (ps : list P) (bs : list bytes) : frames ps bs ->
  forall (fuel : nat) (t : tail), (length ps < fuel)%nat ->
    stream_async P dec fuel t (concat bs) [] = (combine ps (map len bs), FErr (io_err t)).
Proof using. intros H fuel t Hf. rewrite (G_stream_async_acc ps bs H fuel t [] Hf). reflexivity. Qed.

Lemma G_stream_block_acc : forall ps bs, frames_len ps bs ->
  forall (fuel : nat) (acc : list (P * N)), (length ps < fuel)%nat ->
    stream_block P dec enc_len fuel (concat bs) acc = (rev' acc ++ combine ps (map len bs), FNone).
Proof using.
  clear Hst Hrl Hbridge Hempty Hcons build_empty block_decode.
  intros ps bs H. induction H as [|p b ps bs [[cb Hf] Hlen] _ IH]; intros fuel acc Hfuel;
    (destruct fuel as [|f]; [cbn [length] in Hfuel; lia|]).
  - cbn [concat stream_block]. rewrite dec_nil. cbn [map combine]. rewrite app_nil_r. reflexivity.
  - cbn [concat stream_block]. rewrite (G_async cb p b Hf TEof (concat bs)), Hlen.
    destruct (N.ltb_spec (len (b ++ concat bs)) (len b)) as [Hlt|Hge]; [rewrite len_app in Hlt; lia|].
    rewrite skipn_len_app. cbn [length] in Hfuel. rewrite IH by lia.
    rewrite rev'_cons, <- app_assoc. reflexivity.
Qed.

Theorem G_stream_block (ps : list P) (bs : list bytes) : frames_len ps bs ->
  forall (fuel : nat), (length ps < fuel)%nat ->
    stream_block P dec enc_len fuel (concat bs) [] = (combine ps (map len bs), FNone).
Proof using. intros H fuel Hf. rewrite (G_stream_block_acc ps bs H fuel [] Hf). reflexivity. Qed.

Lemma G_stream_poll_acc (prof : profile) : forall ps bs, frames ps bs ->
  forall (fuel : nat) (t : tail) (acc : list (P * N)), (length ps < fuel)%nat ->
    stream_poll P (poll1 prof) fuel t (concat bs) acc = (rev' acc ++ combine ps (map len bs), FErr (io_err t)).
Proof using Hrl Hbridge Hempty Hcons.
  clear Hst enc_len.
  intros ps bs H. induction H as [|p b ps bs [cb Hf] _ IH]; intros fuel t acc Hfuel;
    (destruct fuel as [|f]; [cbn [length] in Hfuel; lia|]).
  - cbn [concat stream_poll].
    rewrite (PollSched.poll1_empty P new_with build_empty block_decode prof t).
    cbn [map combine]. rewrite app_nil_r. reflexivity.
  - cbn [concat stream_poll].
    destruct (G_poll cb p b Hf prof (map AB (b ++ concat bs)) t (concat bs)
                (PollSched.bytes_of_map_AB (b ++ concat bs))) as (body & Hres & _ & Hrest).
    unfold Poll.poll1. rewrite Hres, Hrest.
    cbn [length] in Hfuel. fold (poll1 prof). rewrite IH by lia.
    rewrite rev'_cons, <- app_assoc. reflexivity.
Qed.

Theorem G_stream_poll (prof : profile) (ps : list P) (bs : list bytes) : frames ps bs ->
  forall (fuel : nat) (t : tail), (length ps < fuel)%nat ->
    stream_poll P (poll1 prof) fuel t (concat bs) [] = (combine ps (map len bs), FErr (io_err t)).
Proof using Hrl Hbridge Hempty Hcons. intros H fuel t Hf. rewrite (G_stream_poll_acc prof ps bs H fuel t [] Hf). reflexivity. Qed.

(* every packet once, in order, and the reported sizes add up to the stream length *)
Theorem G_stream_sizes (ps : list P) (bs : list bytes) : frames ps bs ->
  map fst (combine ps (map len bs)) = ps /\
  map snd (combine ps (map len bs)) = map len bs /\
  sizes_sum (combine ps (map len bs)) = len (concat bs).
Proof using.
  intros H. pose proof (frames_length ps bs H) as Hl.
  destruct (combine_length_eq ps bs Hl) as [H1 H2].
  split; [exact H1|]. split; [exact H2|]. apply sizes_sum_combine. exact Hl.
Qed.

End FrontGen.

Print Assumptions G_async.
Print Assumptions G_block.
Print Assumptions G_poll.
Print Assumptions G_prefix_async.
Print Assumptions G_prefix_block.
Print Assumptions G_prefix_poll.
Print Assumptions G_stream_async.
Print Assumptions G_stream_block.
Print Assumptions G_stream_poll.
Print Assumptions G_stream_sizes.
