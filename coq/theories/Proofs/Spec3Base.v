(* Proofs/Spec3Base.v — toolkit for Proofs/Spec3.v: the v3 family against the independent reference parser SP.

   C04  v3_accept_iff_grammar : the strict (poll) front-end accepts a complete frame exactly when
        the grammar SP.parse3 does, and then with the same field values;
   C10  v3_conformant         : what the encoder emits for a valid packet is parsed back to that
        packet by the reference parser.

   Method: `ro` forgets the error kind of a model result; every read primitive of the model is,
   through `ro`, the corresponding slice parser of the spec (ro_read_u8 ... ro_filter_read), and
   `ro_bind_ext` transports this through `bind`.  The running-length accounting of the model
   (checked_sub on the declared remaining length) always succeeds when the declared length is the
   length of the slice; the list loops are related to SP.many_fuel by induction on the fuel. *)
From MQ Require Import Proofs.Tactics Proofs.VarIntLaws Proofs.Parses Proofs.TopicNameEq Proofs.V3RT
  Spec.SpecParse Model.Valid.
Open Scope N_scope.
Import V3.
Import SP.

(* the strict front-end on one complete frame (common/poll.rs + v3/poll.rs) *)
Definition strict3 (prof : profile) (cb rl : N) (body : bytes) : option V3.packet :=
  match V3.header_new_with cb rl with
  | Ok h => match V3.build_empty_packet h with
            | Some p => Some p
            | None => if rl =? 0 then None else
                      match V3.block_decode prof h TEof body with ROk p [] => Some p | _ => None end
            end
  | _ => None
  end.

(* ------------------------------------------------------------------------------------------ *)
(* model results without the error kind                                                       *)
(* ------------------------------------------------------------------------------------------ *)
Definition ro {A} (r : res A) : option (A * bytes) :=
  match r with ROk a d => Some (a, d) | _ => None end.
Definition fin {A} (o : option (A * bytes)) : option A :=
  match o with Some (a, []) => Some a | _ => None end.

Lemma fin_ro {A} (r : res A) : match r with ROk p [] => Some p | _ => None end = fin (ro r).
Proof. destruct r as [a [|x l]|e|s]; reflexivity. Qed.
Lemma exactly_fin {A} (m : sp A) d : exactly m d = fin (m d).
Proof. reflexivity. Qed.

Lemma ro_bind {A B} (m : reader A) (f : A -> reader B) t d :
  ro (bind m f t d) = match ro (m t d) with Some (a, d') => ro (f a t d') | None => None end.
Proof. unfold bind. destruct (m t d); reflexivity. Qed.

Lemma ro_bind_ext {A B} (m : reader A) (f : A -> reader B) (m' : sp A) (f' : A -> sp B) t d :
  ro (m t d) = m' d -> (forall a d', ro (f a t d') = f' a d') -> ro (bind m f t d) = sbind m' f' d.
Proof.
  intros H1 H2. rewrite ro_bind, H1. unfold sbind. destruct (m' d) as [[a d']|]; [apply H2|reflexivity].
Qed.

Lemma ro_bind_none {A B} (m : reader A) (f : A -> reader B) t d :
  (forall a d', ro (f a t d') = None) -> ro (bind m f t d) = None.
Proof. intros H. rewrite ro_bind. destruct (ro (m t d)) as [[a d']|]; [apply H|reflexivity]. Qed.
Lemma ro_bind_none_l {A B} (m : reader A) (f : A -> reader B) t d :
  ro (m t d) = None -> ro (bind m f t d) = None.
Proof. intros H. rewrite ro_bind, H. reflexivity. Qed.
Lemma ro_some {A} (r : res A) a d : ro r = Some (a, d) -> r = ROk a d.
Proof. destruct r; cbn [ro]; intros H; inversion H; reflexivity. Qed.

Lemma sbind_assoc {A B C} (m : sp A) (f : A -> sp B) (g : B -> sp C) d :
  sbind (sbind m f) g d = sbind m (fun a => sbind (f a) g) d.
Proof. unfold sbind. destruct (m d) as [[a d']|]; reflexivity. Qed.
Lemma sbind_u8 {B} b r (f : N -> sp B) : sbind p_u8 f (b :: r) = f b r.
Proof. reflexivity. Qed.

(* decide the comparisons whose value is a boolean constant (literals against literals) *)
Ltac is_bool_lit v := match v with true => idtac | false => idtac end.
Ltac lit_tests :=
  repeat match goal with
  | |- context [?a =? ?b] =>
      let v := eval vm_compute in (a =? b) in is_bool_lit v; change (a =? b) with v
  | |- context [?a <? ?b] =>
      let v := eval vm_compute in (a <? b) in is_bool_lit v; change (a <? b) with v
  end; cbv iota.

(* ------------------------------------------------------------------------------------------ *)
(* the read primitives                                                                        *)
(* ------------------------------------------------------------------------------------------ *)
Lemma ro_read_u8 t d : ro (read_u8 t d) = p_u8 d.
Proof. destruct d; reflexivity. Qed.
Lemma ro_read_u16 t d : ro (read_u16 t d) = p_u16 d.
Proof.
  destruct d as [|a [|b r]]; try reflexivity.
  unfold read_u16, p_u16, sbind, p_u8, sret, ro. rewrite (N.mul_comm a 256). reflexivity.
Qed.
Lemma ro_read_exact n t d : ro (read_exact n t d) = p_slice n d.
Proof. unfold read_exact, p_slice. destruct (take d n) as [[a b]|]; reflexivity. Qed.
Lemma ro_read_bytes t d : ro (read_bytes t d) = p_bin d.
Proof. unfold read_bytes, p_bin. apply ro_bind_ext; [apply ro_read_u16|intros; apply ro_read_exact]. Qed.
Lemma ro_read_string t d : ro (read_string t d) = p_str d.
Proof.
  unfold read_string, p_str. apply ro_bind_ext; [apply ro_read_bytes|]. intros s d'.
  destruct (utf8_valid s); reflexivity.
Qed.
Lemma ro_pid_read t d : ro (pid_read t d) = p_pid d.
Proof.
  unfold pid_read, p_pid. apply ro_bind_ext; [apply ro_read_u16|]. intros v d'. unfold pid_try.
  destruct (N.eqb_spec v 0); destruct (N.ltb_spec 0 v); try (exfalso; lia); reflexivity.
Qed.
Lemma ro_name_try s t d :
  ro (lift_outcome (name_try s) t d) = sbind (sguard (Spec.topic_name_ok s)) (fun _ => sret s) d.
Proof. unfold name_try. rewrite name_spec. destruct (Spec.topic_name_ok s); reflexivity. Qed.

Lemma testbit_bit b k : N.testbit b k = bit b k.
Proof.
  unfold bit. pose proof (N.testbit_spec' b k) as H.
  destruct (N.testbit b k); cbn [N.b2n] in H; rewrite <- H; reflexivity.
Qed.

Lemma leq_beq a b : Spec.leq a b = beq_bytes a b.
Proof. reflexivity. Qed.   (* the two fixpoints have the same body *)

(* ---- what a successful slice parser consumed ---- *)
Lemma p_u8_some d b d' : p_u8 d = Some (b, d') -> d = b :: d'.
Proof. destruct d; cbn [p_u8]; intros H; inversion H; reflexivity. Qed.
Lemma p_u16_some d v d' : p_u16 d = Some (v, d') -> len d = 2 + len d'.
Proof.
  destruct d as [|a [|b r]]; try discriminate. unfold p_u16. rewrite !sbind_u8. unfold sret.
  intros H; inversion H; subst. rewrite !len_cons. lia.
Qed.
Lemma p_bin_some d s d' : p_bin d = Some (s, d') -> len d = 2 + len s + len d'.
Proof.
  unfold p_bin, sbind. destruct (p_u16 d) as [[n d1]|] eqn:E; [|discriminate].
  unfold p_slice. intros H. apply take_some in H as [-> Hl]. apply p_u16_some in E. rewrite len_app in E. lia.
Qed.
Lemma p_str_some d s d' : p_str d = Some (s, d') ->
  p_bin d = Some (s, d') /\ utf8_valid s = true /\ len d = 2 + len s + len d'.
Proof.
  unfold p_str, sbind at 1. destruct (p_bin d) as [[s1 d1]|] eqn:E; [|discriminate].
  destruct (utf8_valid s1) eqn:Eu; cbn [sguard sbind sret sfail]; intros H; inversion H; subst.
  split; [reflexivity|]. split; [assumption|]. apply p_bin_some. assumption.
Qed.
Lemma p_pid_some d v d' : p_pid d = Some (v, d') -> len d = 2 + len d'.
Proof.
  unfold p_pid, sbind at 1. destruct (p_u16 d) as [[n d1]|] eqn:E; [|discriminate].
  destruct (0 <? n); cbn [sguard sbind sret sfail]; intros H; inversion H; subst. apply p_u16_some in E. assumption.
Qed.

Lemma take_all d : take d (len d) = Some (d, []).
Proof. pose proof (take_app d []) as H. rewrite app_nil_r in H. exact H. Qed.

(* ------------------------------------------------------------------------------------------ *)
(* the frame                                                                                  *)
(* ------------------------------------------------------------------------------------------ *)
Lemma p_vbi_wvi n r : n < 268435456 -> p_vbi true (write_var_int n ++ r) = Some (n, r).
Proof.
  intros H. unfold p_vbi. ranges n.
  - rewrite wvi1 by lia. cbn [app]. rewrite sbind_u8.
    destruct (N.ltb_spec n 128); [reflexivity|exfalso; lia].
  - rewrite wvi2 by lia. cbn [app]. rewrite sbind_u8.
    destruct (N.ltb_spec (n mod 128 + 128) 128); [exfalso; lia|]. rewrite sbind_u8.
    destruct (N.ltb_spec (n / 128) 128); [|exfalso; lia].
    destruct (N.ltb_spec 0 (n / 128)); [|exfalso; lia]. cbn [negb orb]. unfold sguard, sbind, sret.
    f_equal. f_equal. lia.
  - rewrite wvi3 by lia. cbn [app]. rewrite sbind_u8.
    destruct (N.ltb_spec (n mod 128 + 128) 128); [exfalso; lia|]. rewrite sbind_u8.
    destruct (N.ltb_spec ((n / 128) mod 128 + 128) 128); [exfalso; lia|]. rewrite sbind_u8.
    destruct (N.ltb_spec (n / 16384) 128); [|exfalso; lia].
    destruct (N.ltb_spec 0 (n / 16384)); [|exfalso; lia]. cbn [negb orb]. unfold sguard, sbind, sret.
    f_equal. f_equal. lia.
  - rewrite wvi4 by (unfold VMAX; lia). cbn [app]. rewrite sbind_u8.
    destruct (N.ltb_spec (n mod 128 + 128) 128); [exfalso; lia|]. rewrite sbind_u8.
    destruct (N.ltb_spec ((n / 128) mod 128 + 128) 128); [exfalso; lia|]. rewrite sbind_u8.
    destruct (N.ltb_spec ((n / 16384) mod 128 + 128) 128); [exfalso; lia|]. rewrite sbind_u8.
    destruct (N.ltb_spec (n / 2097152) 128); [|exfalso; lia].
    destruct (N.ltb_spec 0 (n / 2097152)); [|exfalso; lia]. cbn [negb orb]. unfold sguard, sbind, sret.
    f_equal. f_equal. lia.
Qed.

Lemma frame_wvi cb body : len body < 268435456 ->
  frame true (cb :: write_var_int (len body) ++ body) = Some (cb, body).
Proof.
  intros H. unfold frame. rewrite sbind_u8. unfold sbind at 1. rewrite (p_vbi_wvi _ _ H).
  unfold sbind, p_slice. rewrite take_all. reflexivity.
Qed.
