(* Proofs/Reencode.v — C11 "Anything a decoder accepts can be re-encoded and decodes to itself":
   index of the results, both families, no undischarged hypotheses about the model.

     ReencodeBase.v : `consumed`, the measured post-condition transformer `postm`, primitives
                      (dvi_measure: a variable byte integer read from k bytes has width v <= k), `fit`
     Reencode3.v    : v3 family   (key lemma m3_body : body_len3 result <= body bytes consumed)
     Reencode5.v    : v5 family   (key lemma m5_body : blen5 result     <= body bytes consumed)

   Per family X in {3, 5} (FX / IX / VX the front-end, validity and codec modules):
     1. C11_vX_decoded_in_domain, _block, _poll : every front-end returns packets with IX.valid
     2. C11_vX_redecode       : valid + encodable -> the encoding decodes to the same packet on the async
                                and blocking front-ends (the poll clause is in FrontRT3 / FrontRT5)
        C11_vX_decode_encode_decode : 1 and 2 composed
     3. C11_vX_not_longer, _block : outside the KF2 class (consumed <= header bytes + declared remaining
                                length) the packet IS encodable and the encoding is <= the bytes consumed
        C11_vX_length_any     : with no class hypothesis, an encodable result is at most 3 bytes longer
     4. C11_vX_poll_reencode  : the poll front-end is never in the class
     5. C11_KF2_witness_a (v3 CONNECT, consumed 164 -> 165), C11_KF2_witness_v5_ack (v5 PUBACK, 131 -> 132)

   KNOWN FINDING KF2 (part of the statements): the async and blocking front-ends do not compare the
   bytes they consume with the declared remaining length for the packet types that do not track it.
   The excluded class is exactly "frame overrun": consumed > header bytes + declared remaining length.
   Beyond the packet types listed for KF2 the class also contains v5 PUBLISH / SUBSCRIBE / SUBACK /
   UNSUBACK inputs whose property-section length (or Subscription Identifier) is spelled
   non-minimally: the decoder subtracts the minimal section size from the remaining length and then
   reads past the frame (Reencode5.publish_nonminimal_props_overrun).  The poll front-end refuses
   all of them (InvalidRemainingLength).

   No other finding: no packet type outside the class has a canonical encoding longer than an
   accepted input; all statements are proved as given. *)
From MQ Require Export Proofs.ReencodeBase.
From MQ Require Proofs.Reencode3 Proofs.Reencode5.

Print Assumptions Reencode3.C11_v3_decoded_in_domain.
Print Assumptions Reencode3.C11_v3_decoded_in_domain_block.
Print Assumptions Reencode3.C11_v3_decoded_in_domain_poll.
Print Assumptions Reencode3.C11_v3_redecode.
Print Assumptions Reencode3.C11_v3_decode_encode_decode.
Print Assumptions Reencode3.C11_v3_not_longer.
Print Assumptions Reencode3.C11_v3_not_longer_block.
Print Assumptions Reencode3.C11_v3_length_any.
Print Assumptions Reencode3.C11_v3_poll_reencode.
Print Assumptions Reencode3.C11_KF2_witness_a.
Print Assumptions Reencode5.C11_v5_decoded_in_domain.
Print Assumptions Reencode5.C11_v5_decoded_in_domain_block.
Print Assumptions Reencode5.C11_v5_decoded_in_domain_poll.
Print Assumptions Reencode5.C11_v5_redecode.
Print Assumptions Reencode5.C11_v5_decode_encode_decode.
Print Assumptions Reencode5.C11_v5_not_longer.
Print Assumptions Reencode5.C11_v5_not_longer_block.
Print Assumptions Reencode5.C11_v5_length_any.
Print Assumptions Reencode5.C11_v5_poll_reencode.
Print Assumptions Reencode5.C11_KF2_witness_v5_ack.
