(* Proofs/Faults5.v — C20 for the MQTT 5.0 family: the catalogue rows through the v5 decoders
   (layer 1, decoder level) and through whole frames on the three front-ends (layer 2). *)
From MQ Require Import Spec.SpecTopic.
From MQ Require Import Proofs.Tactics Proofs.VarIntLaws Proofs.Parses Proofs.Stable Proofs.PropsRT
  Proofs.TopicFilterEq Proofs.TopicNameEq Proofs.V5RT Proofs.FaultsBase Model.Valid.
From MQ Require Proofs.PollSched Proofs.V3RT.
Open Scope N_scope.
Import V5.

Ltac ok_by tac := rewrite ?V3RT.bind_assoc; (erewrite bind_ok by tac); cbv beta.
Ltac err_by tac := rewrite ?V3RT.bind_assoc; (erewrite bind_err by tac); reflexivity.

(* ------------------------------------------------------------------------------------ *)
(* 0. The family's front-ends                                                           *)
(* ------------------------------------------------------------------------------------ *)
Definition frame_async5 (prof : profile) := frame_async packet header_new_with (body_decode_async prof).

Lemma dec_async5_frame prof cb n t rest : n < VMAX ->
  F5.dec_async prof t (cb :: write_var_int n ++ rest) = frame_async5 prof cb n t rest.
Proof.
  intros Hn. unfold F5.dec_async, decode_async, header_decode, frame_async5, frame_async.
  rewrite V3RT.bind_assoc. erewrite bind_ok by (apply V3RT.decode_raw_header_rt; exact Hn). cbv beta iota.
  unfold bind, lift_outcome. destruct (header_new_with cb n); reflexivity.
Qed.

Lemma same5 prof h : build_empty_packet h = None -> forall t d, body_decode_async prof h t d = block_decode prof h t d.
Proof.
  unfold build_empty_packet, body_decode_async, block_decode.
  destruct (h_typ h); intros H t d; try discriminate H; reflexivity.
Qed.

Lemma empty5 prof h p : build_empty_packet h = Some p -> forall t d, body_decode_async prof h t d = ROk p d.
Proof.
  unfold build_empty_packet, body_decode_async.
  destruct (h_typ h); intros H t d; try discriminate H.
  - inversion H. reflexivity.
  - inversion H. reflexivity.
  - destruct (h_rl h =? 0) eqn:E; [|discriminate H]. inversion H. unfold disconnect_decode. rewrite E. reflexivity.
  - destruct (h_rl h =? 0) eqn:E; [|discriminate H]. inversion H. unfold auth_decode. rewrite E. reflexivity.
Qed.

Lemma reads5 prof h e : build_empty_packet h = None -> block_decode prof h TEof [] = RErr e -> is_io e = true.
Proof.
  unfold build_empty_packet, block_decode.
  destruct h as [ty dup q rt rl]. cbn [h_typ h_rl].
  destruct ty; intros Hb H; try discriminate Hb;
    try (vm_compute in H; inversion H; reflexivity).
  - unfold disconnect_decode in H. cbn [h_rl h_typ] in H. destruct (rl =? 0); [discriminate Hb|].
    destruct (rl =? 1); vm_compute in H; inversion H; reflexivity.
  - unfold auth_decode in H. cbn [h_rl h_typ] in H. destruct (rl =? 0); [discriminate Hb|].
    vm_compute in H; inversion H; reflexivity.
Qed.

Notation poll5 prof := (F5.poll1 prof).

Lemma frame_err_to_poll5 prof cb body sfx t e : len body < VMAX ->
  frame_async5 prof cb (len body) TEof body = RErr e -> is_io e = false ->
  rr_res _ (poll5 prof (cb :: write_var_int (len body) ++ body ++ sfx) t) = Some (Err e).
Proof.
  apply (frame_err_to_poll packet header_new_with build_empty_packet (block_decode prof)
           (body_decode_async prof) prof PollSched.V5_new_with_rl (same5 prof) (empty5 prof) (reads5 prof)).
Qed.

Theorem async_err_to_block_5 prof d e :
  F5.dec_async prof TEof d = RErr e -> is_eof e = false -> F5.dec_block prof d = BErr e.
Proof. intros H He. unfold F5.dec_block. apply map_eof_err; assumption. Qed.

Theorem async_err_to_poll_5 prof cb body sfx t t' e : len body < VMAX ->
  F5.dec_async prof t (cb :: write_var_int (len body) ++ body ++ sfx) = RErr e -> is_io e = false ->
  rr_res _ (poll5 prof (cb :: write_var_int (len body) ++ body ++ sfx) t') = Some (Err e) \/
  rr_res _ (poll5 prof (cb :: write_var_int (len body) ++ body ++ sfx) t') = Some (Err InvalidRemainingLength).
Proof.
  intros Hn Ha He. rewrite dec_async5_frame in Ha by exact Hn.
  apply (async_err_to_poll_weak packet header_new_with build_empty_packet (block_decode prof)
           (body_decode_async prof) prof PollSched.V5_new_with_rl (stable_v5_block_decode prof)
           (same5 prof) (empty5 prof) cb body sfx t t' e Hn Ha He).
Qed.

Theorem async_err_to_poll_exact_5 prof cb body sfx t e : len body < VMAX ->
  F5.dec_async prof TEof (cb :: write_var_int (len body) ++ body) = RErr e -> is_io e = false ->
  rr_res _ (poll5 prof (cb :: write_var_int (len body) ++ body ++ sfx) t) = Some (Err e).
Proof.
  intros Hn Ha He. rewrite dec_async5_frame in Ha by exact Hn.
  apply frame_err_to_poll5; assumption.
Qed.

Definition classified5 (prof : profile) (frame : bytes) (e : err) : Prop :=
  (forall t sfx, F5.dec_async prof t (frame ++ sfx) = RErr e) /\
  (forall sfx, F5.dec_block prof (frame ++ sfx) = BErr e) /\
  (forall t sfx, rr_res _ (poll5 prof (frame ++ sfx) t) = Some (Err e)).

Lemma classify5 prof cb body e : len body < VMAX -> is_io e = false ->
  (forall t sfx, F5.dec_async prof t (cb :: write_var_int (len body) ++ body ++ sfx) = RErr e) ->
  classified5 prof (cb :: write_var_int (len body) ++ body) e.
Proof.
  intros Hn He Ha. unfold classified5. cbn [app]. repeat split.
  - intros t sfx. rewrite <- app_assoc. apply Ha.
  - intros sfx. rewrite <- app_assoc. apply async_err_to_block_5; [apply Ha|apply not_io_not_eof; exact He].
  - intros t sfx. rewrite <- app_assoc. apply async_err_to_poll_exact_5; try assumption.
    specialize (Ha TEof []). rewrite app_nil_r in Ha. exact Ha.
Qed.

Lemma frame5 prof cb n h t rest : n < VMAX -> header_new_with cb n = Ok h ->
  F5.dec_async prof t (cb :: write_var_int n ++ rest) = body_decode_async prof h t rest.
Proof. intros Hn Hh. rewrite dec_async5_frame by exact Hn. unfold frame_async5, frame_async. rewrite Hh. reflexivity. Qed.

Lemma header5_err_det cb n e : header_new_with cb n = Err e -> is_io e = false.
Proof. intros H. pose proof (odet_v5_header_new_with cb n) as O. rewrite H in O. exact O. Qed.

(* ------------------------------------------------------------------------------------ *)
(* (a) header rows, every packet type                                                   *)
(* ------------------------------------------------------------------------------------ *)
Theorem C20_header_5 prof cb n e : n < VMAX -> header_new_with cb n = Err e ->
  forall t rest, F5.dec_async prof t (cb :: write_var_int n ++ rest) = RErr e.
Proof.
  intros Hn He t rest. rewrite dec_async5_frame by exact Hn. unfold frame_async5, frame_async.
  rewrite He. reflexivity.
Qed.

Theorem C20_header_5_all prof cb n e : n < VMAX -> header_new_with cb n = Err e ->
  (forall t rest, F5.dec_async prof t (cb :: write_var_int n ++ rest) = RErr e) /\
  (forall rest, F5.dec_block prof (cb :: write_var_int n ++ rest) = BErr e) /\
  (forall t rest, rr_res _ (poll5 prof (cb :: write_var_int n ++ rest) t) = Some (Err e)).
Proof.
  intros Hn He. pose proof (header5_err_det _ _ _ He) as Hd. repeat split.
  - apply C20_header_5; assumption.
  - intros rest. apply async_err_to_block_5; [apply C20_header_5; assumption|apply not_io_not_eof; exact Hd].
  - intros t rest. apply (header_err_to_poll packet header_new_with build_empty_packet (block_decode prof) prof);
      assumption.
Qed.

Corollary C20_header_verdict_5 prof cb n e : n < VMAX ->
  header5_verdict (cb / 16) (cb mod 16) (n =? 0) = HReject e ->
  (forall t rest, F5.dec_async prof t (cb :: write_var_int n ++ rest) = RErr e) /\
  (forall rest, F5.dec_block prof (cb :: write_var_int n ++ rest) = BErr e) /\
  (forall t rest, rr_res _ (poll5 prof (cb :: write_var_int n ++ rest) t) = Some (Err e)).
Proof.
  intros Hn Hv. apply C20_header_5_all; [exact Hn|].
  rewrite header5_spec. unfold header5_table. rewrite Hv. reflexivity.
Qed.

Theorem C20_header_varint_5 prof cb b0 b1 b2 b3 : 128 <= b0 -> 128 <= b1 -> 128 <= b2 -> 128 <= b3 ->
  (forall t rest, F5.dec_async prof t (cb :: b0 :: b1 :: b2 :: b3 :: rest) = RErr InvalidVarByteInt) /\
  (forall rest, F5.dec_block prof (cb :: b0 :: b1 :: b2 :: b3 :: rest) = BErr InvalidVarByteInt) /\
  (forall t rest, rr_res _ (poll5 prof (cb :: b0 :: b1 :: b2 :: b3 :: rest) t) = Some (Err InvalidVarByteInt)).
Proof.
  intros H0 H1 H2 H3.
  assert (A : forall t rest, F5.dec_async prof t (cb :: b0 :: b1 :: b2 :: b3 :: rest) = RErr InvalidVarByteInt).
  { intros t rest. unfold F5.dec_async, decode_async, header_decode. rewrite V3RT.bind_assoc.
    erewrite bind_err by (apply C20_varint_header; assumption). reflexivity. }
  repeat split.
  - exact A.
  - intros rest. apply async_err_to_block_5; [apply A|reflexivity].
  - intros t rest. apply varint_err_to_poll; assumption.
Qed.
