(* Proofs/Faults5.v — C20 for the MQTT 5.0 family: the catalogue rows through the v5 decoders
   (layer 1, decoder level) and through whole frames on the three front-ends (layer 2). *)
From MQ Require Import Spec.SpecTopic.
From MQ Require Import Proofs.Tactics Proofs.VarIntLaws Proofs.Parses Proofs.Stable Proofs.PropsRT
  Proofs.TopicFilterEq Proofs.TopicNameEq Proofs.V5RT Proofs.FaultsBase Model.Valid.
From MQ Require Proofs.PollSched Proofs.V3RT.
Open Scope N_scope.
Import V5.

Ltac ok_by tac := rewrite ?V3RT.bind_assoc; (erewrite bind_ok by tac); cbv beta.
Ltac err_by tac := rewrite ?V3RT.bind_assoc; (erewrite bind_err by tac); reflexivity.

(* ------------------------------------------------------------------------------------ *)
(* 0. The family's front-ends                                                           *)
(* ------------------------------------------------------------------------------------ *)
Definition frame_async5 (prof : profile) := frame_async packet header_new_with (body_decode_async prof).

Lemma dec_async5_frame prof cb n t rest : n < VMAX ->
  F5.dec_async prof t (cb :: write_var_int n ++ rest) = frame_async5 prof cb n t rest.
Proof.
  intros Hn. unfold F5.dec_async, decode_async, header_decode, frame_async5, frame_async.
  rewrite V3RT.bind_assoc. erewrite bind_ok by (apply V3RT.decode_raw_header_rt; exact Hn). cbv beta iota.
  unfold bind, lift_outcome. destruct (header_new_with cb n); reflexivity.
Qed.

Lemma same5 prof h : build_empty_packet h = None -> forall t d, body_decode_async prof h t d = block_decode prof h t d.
Proof.
  unfold build_empty_packet, body_decode_async, block_decode.
  destruct (h_typ h); intros H t d; try discriminate H; reflexivity.
Qed.

Lemma empty5 prof h p : build_empty_packet h = Some p -> forall t d, body_decode_async prof h t d = ROk p d.
Proof.
  unfold build_empty_packet, body_decode_async.
  destruct (h_typ h); intros H t d; try discriminate H.
  - inversion H. reflexivity.
  - inversion H. reflexivity.
  - destruct (h_rl h =? 0) eqn:E; [|discriminate H]. inversion H. unfold disconnect_decode. rewrite E. reflexivity.
  - destruct (h_rl h =? 0) eqn:E; [|discriminate H]. inversion H. unfold auth_decode. rewrite E. reflexivity.
Qed.

Lemma reads5 prof h e : build_empty_packet h = None -> block_decode prof h TEof [] = RErr e -> is_io e = true.
Proof.
  unfold build_empty_packet, block_decode.
  destruct h as [ty dup q rt rl]. cbn [h_typ h_rl].
  destruct ty; intros Hb H; try discriminate Hb;
    lazymatch type of H with
    | context [disconnect_decode] =>
        unfold disconnect_decode in H; cbn [h_rl h_typ] in H; destruct (rl =? 0); [discriminate Hb|];
        destruct (rl =? 1); vm_compute in H; inversion H; reflexivity
    | context [auth_decode] =>
        unfold auth_decode in H; cbn [h_rl h_typ] in H; destruct (rl =? 0); [discriminate Hb|];
        vm_compute in H; inversion H; reflexivity
    | _ => vm_compute in H; inversion H; reflexivity
    end.
Qed.

Notation poll5 prof := (F5.poll1 prof).

Lemma frame_err_to_poll5 prof cb body sfx t e : len body < VMAX ->
  frame_async5 prof cb (len body) TEof body = RErr e -> is_io e = false ->
  rr_res _ (poll5 prof (cb :: write_var_int (len body) ++ body ++ sfx) t) = Some (Err e).
Proof.
  apply (frame_err_to_poll packet header_new_with build_empty_packet (block_decode prof)
           (body_decode_async prof) prof PollSched.V5_new_with_rl (same5 prof) (empty5 prof) (reads5 prof)).
Qed.

Theorem async_err_to_block_5 prof d e :
  F5.dec_async prof TEof d = RErr e -> is_eof e = false -> F5.dec_block prof d = BErr e.
Proof. intros H He. unfold F5.dec_block. apply map_eof_err; assumption. Qed.

Theorem async_err_to_poll_5 prof cb body sfx t t' e : len body < VMAX ->
  F5.dec_async prof t (cb :: write_var_int (len body) ++ body ++ sfx) = RErr e -> is_io e = false ->
  rr_res _ (poll5 prof (cb :: write_var_int (len body) ++ body ++ sfx) t') = Some (Err e) \/
  rr_res _ (poll5 prof (cb :: write_var_int (len body) ++ body ++ sfx) t') = Some (Err InvalidRemainingLength).
Proof.
  intros Hn Ha He. rewrite dec_async5_frame in Ha by exact Hn.
  apply (async_err_to_poll_weak packet header_new_with build_empty_packet (block_decode prof)
           (body_decode_async prof) prof PollSched.V5_new_with_rl (stable_v5_block_decode prof)
           (same5 prof) (empty5 prof) cb body sfx t t' e Hn Ha He).
Qed.

Theorem async_err_to_poll_exact_5 prof cb body sfx t e : len body < VMAX ->
  F5.dec_async prof TEof (cb :: write_var_int (len body) ++ body) = RErr e -> is_io e = false ->
  rr_res _ (poll5 prof (cb :: write_var_int (len body) ++ body ++ sfx) t) = Some (Err e).
Proof.
  intros Hn Ha He. rewrite dec_async5_frame in Ha by exact Hn.
  apply frame_err_to_poll5; assumption.
Qed.

Definition classified5 (prof : profile) (frame : bytes) (e : err) : Prop :=
  (forall t sfx, F5.dec_async prof t (frame ++ sfx) = RErr e) /\
  (forall sfx, F5.dec_block prof (frame ++ sfx) = BErr e) /\
  (forall t sfx, rr_res _ (poll5 prof (frame ++ sfx) t) = Some (Err e)).

Lemma classify5 prof cb body e : len body < VMAX -> is_io e = false ->
  (forall t sfx, F5.dec_async prof t (cb :: write_var_int (len body) ++ body ++ sfx) = RErr e) ->
  classified5 prof (cb :: write_var_int (len body) ++ body) e.
Proof.
  intros Hn He Ha. unfold classified5. cbn [app]. repeat split.
  - intros t sfx. rewrite <- app_assoc. apply Ha.
  - intros sfx. rewrite <- app_assoc. apply async_err_to_block_5; [apply Ha|apply not_io_not_eof; exact He].
  - intros t sfx. rewrite <- app_assoc. apply async_err_to_poll_exact_5; try assumption.
    specialize (Ha TEof []). rewrite app_nil_r in Ha. exact Ha.
Qed.

Lemma frame5 prof cb n h t rest : n < VMAX -> header_new_with cb n = Ok h ->
  F5.dec_async prof t (cb :: write_var_int n ++ rest) = body_decode_async prof h t rest.
Proof. intros Hn Hh. rewrite dec_async5_frame by exact Hn. unfold frame_async5, frame_async. rewrite Hh. reflexivity. Qed.

Lemma header5_err_det cb n e : header_new_with cb n = Err e -> is_io e = false.
Proof. intros H. pose proof (odet_v5_header_new_with cb n) as O. rewrite H in O. exact O. Qed.

(* ------------------------------------------------------------------------------------ *)
(* (a) header rows, every packet type                                                   *)
(* ------------------------------------------------------------------------------------ *)
Theorem C20_header_5 prof cb n e : n < VMAX -> header_new_with cb n = Err e ->
  forall t rest, F5.dec_async prof t (cb :: write_var_int n ++ rest) = RErr e.
Proof.
  intros Hn He t rest. rewrite dec_async5_frame by exact Hn. unfold frame_async5, frame_async.
  rewrite He. reflexivity.
Qed.

Theorem C20_header_5_all prof cb n e : n < VMAX -> header_new_with cb n = Err e ->
  (forall t rest, F5.dec_async prof t (cb :: write_var_int n ++ rest) = RErr e) /\
  (forall rest, F5.dec_block prof (cb :: write_var_int n ++ rest) = BErr e) /\
  (forall t rest, rr_res _ (poll5 prof (cb :: write_var_int n ++ rest) t) = Some (Err e)).
Proof.
  intros Hn He. pose proof (header5_err_det _ _ _ He) as Hd. repeat split.
  - apply C20_header_5; assumption.
  - intros rest. apply async_err_to_block_5; [apply C20_header_5; assumption|apply not_io_not_eof; exact Hd].
  - intros t rest. apply (header_err_to_poll packet header_new_with build_empty_packet (block_decode prof) prof);
      assumption.
Qed.

Corollary C20_header_verdict_5 prof cb n e : n < VMAX ->
  header5_verdict (cb / 16) (cb mod 16) (n =? 0) = HReject e ->
  (forall t rest, F5.dec_async prof t (cb :: write_var_int n ++ rest) = RErr e) /\
  (forall rest, F5.dec_block prof (cb :: write_var_int n ++ rest) = BErr e) /\
  (forall t rest, rr_res _ (poll5 prof (cb :: write_var_int n ++ rest) t) = Some (Err e)).
Proof.
  intros Hn Hv. apply C20_header_5_all; [exact Hn|].
  rewrite header5_spec. unfold header5_table. rewrite Hv. reflexivity.
Qed.

Theorem C20_header_varint_5 prof cb b0 b1 b2 b3 : 128 <= b0 -> 128 <= b1 -> 128 <= b2 -> 128 <= b3 ->
  (forall t rest, F5.dec_async prof t (cb :: b0 :: b1 :: b2 :: b3 :: rest) = RErr InvalidVarByteInt) /\
  (forall rest, F5.dec_block prof (cb :: b0 :: b1 :: b2 :: b3 :: rest) = BErr InvalidVarByteInt) /\
  (forall t rest, rr_res _ (poll5 prof (cb :: b0 :: b1 :: b2 :: b3 :: rest) t) = Some (Err InvalidVarByteInt)).
Proof.
  intros H0 H1 H2 H3.
  assert (A : forall t rest, F5.dec_async prof t (cb :: b0 :: b1 :: b2 :: b3 :: rest) = RErr InvalidVarByteInt).
  { intros t rest. unfold F5.dec_async, decode_async, header_decode. rewrite V3RT.bind_assoc.
    erewrite bind_err by (apply C20_varint_header; assumption). reflexivity. }
  repeat split.
  - exact A.
  - intros rest. apply async_err_to_block_5; [apply A|reflexivity].
  - intros t rest. apply varint_err_to_poll; assumption.
Qed.

(* ------------------------------------------------------------------------------------ *)
(* (b) packet identifier 0                                                              *)
(* ------------------------------------------------------------------------------------ *)
Definition pid_first (t : ptype) : bool :=
  match t with
  | PPuback | PPubrec | PPubrel | PPubcomp | PUnsuback | PSubscribe | PSuback | PUnsubscribe => true
  | _ => false
  end.

Theorem C20_pid_zero_5 prof cb n h : n < VMAX -> header_new_with cb n = Ok h -> pid_first (h_typ h) = true ->
  forall t rest, F5.dec_async prof t (cb :: write_var_int n ++ 0 :: 0 :: rest) = RErr ZeroPid.
Proof.
  intros Hn Hh Hp t rest. rewrite (frame5 prof cb n h t _ Hn Hh). unfold body_decode_async.
  destruct (h_typ h); try discriminate Hp;
    unfold ack_decode, subscribe_decode, suback_decode, unsubscribe_decode;
    err_by ltac:(apply pid_zero_bytes).
Qed.

Definition PID_FIRST_CBS : list N := [64; 80; 98; 112; 130; 144; 162; 176].

Lemma pid_first_header cb n : In cb PID_FIRST_CBS ->
  exists h, header_new_with cb n = Ok h /\ pid_first (h_typ h) = true.
Proof.
  cbn [In PID_FIRST_CBS]. intros H.
  repeat (destruct H as [<-|H]; [eexists; split; reflexivity|]). contradiction.
Qed.

Theorem C20_pid_zero_5_all prof cb x : In cb PID_FIRST_CBS -> len (0 :: 0 :: x) < VMAX ->
  classified5 prof (cb :: write_var_int (len (0 :: 0 :: x)) ++ 0 :: 0 :: x) ZeroPid.
Proof.
  intros Hc Hn. destruct (pid_first_header cb (len (0 :: 0 :: x)) Hc) as (h & Hh & Hp).
  apply classify5; [exact Hn|reflexivity|]. intros t sfx. cbn [app].
  apply (C20_pid_zero_5 prof cb _ h Hn Hh Hp).
Qed.

Theorem C20_pid_zero_publish_5 prof cb n h topic : n < VMAX -> header_new_with cb n = Ok h ->
  h_typ h = PPublish -> h_qos h <> 0 ->
  utf8_valid topic = true -> len topic <= 65535 -> 2 + len topic + 2 <= n ->
  forall t rest, F5.dec_async prof t (cb :: write_var_int n ++ be16 (len topic mod 65536) ++ topic ++ 0 :: 0 :: rest)
                 = RErr ZeroPid.
Proof.
  intros Hn Hh Ht Hq Hv Hl Hrl t rest. rewrite (frame5 prof cb n h t _ Hn Hh). unfold body_decode_async.
  rewrite Ht. unfold publish_decode. rewrite (PollSched.V5_new_with_rl _ _ _ Hh).
  ok_by ltac:(apply read_string_lp; assumption).
  ok_by ltac:(apply checked_sub_ok; lia).
  destruct (N.eqb_spec (h_qos h) 0) as [E|_]; [contradiction|].
  destruct (h_qos h =? 1);
    (ok_by ltac:(apply checked_sub_ok; lia)); err_by ltac:(apply pid_zero_bytes).
Qed.

Lemma publish_header cb n : cb / 16 = 3 -> (cb mod 16 / 2) mod 4 <> 3 ->
  exists h, header_new_with cb n = Ok h /\ h_typ h = PPublish /\ h_qos h = (cb mod 16 / 2) mod 4 /\ h_rl h = n.
Proof.
  intros Hi Hq. rewrite header5_spec, Hi. unfold header5_table, header5_verdict, header_verdict.
  cbn [ptype_of_nibble5].
  destruct (N.eqb_spec ((cb mod 16 / 2) mod 4) 3) as [E|_]; [contradiction|].
  eexists. split; [reflexivity|]. repeat split; reflexivity.
Qed.

Theorem C20_pid_zero_publish_5_all prof cb topic x :
  cb / 16 = 3 -> (cb mod 16 / 2) mod 4 = 1 \/ (cb mod 16 / 2) mod 4 = 2 ->
  utf8_valid topic = true -> len topic <= 65535 ->
  let body := be16 (len topic mod 65536) ++ topic ++ 0 :: 0 :: x in
  len body < VMAX ->
  classified5 prof (cb :: write_var_int (len body) ++ body) ZeroPid.
Proof.
  intros Hi Hq Hv Hl body Hn.
  destruct (publish_header cb (len body) Hi) as (h & Hh & Ht & Hq' & _); [lia|].
  apply classify5; [exact Hn|reflexivity|]. intros t sfx. unfold body. rewrite <- !app_assoc. cbn [app].
  apply (C20_pid_zero_publish_5 prof cb _ h topic Hn Hh Ht); try assumption; [lia|].
  unfold body. rewrite !len_app, len_be16, !len_cons. lia.
Qed.

(* ------------------------------------------------------------------------------------ *)
(* (c) code rows                                                                        *)
(* ------------------------------------------------------------------------------------ *)
Lemma connack_header n : header_new_with 32 n = Ok (V3.mk_header PConnack n).
Proof. reflexivity. Qed.

Theorem C20_connack_flags_5_frame prof n f c : n < VMAX -> 2 <= f ->
  forall t rest, F5.dec_async prof t (32 :: write_var_int n ++ f :: c :: rest) = RErr (InvalidConnackFlags f).
Proof.
  intros Hn Hf t rest. rewrite (frame5 prof 32 n _ t _ Hn (connack_header n)). unfold body_decode_async.
  cbn [h_typ V3.mk_header]. apply bind_err. apply (C20_connack_flags_5 _ f c t rest); exact Hf.
Qed.

Theorem C20_connack_code_5_frame prof n f c : n < VMAX -> f < 2 -> mem_n c CONNECT_CODES = false ->
  forall t rest, F5.dec_async prof t (32 :: write_var_int n ++ f :: c :: rest) = RErr (InvalidReasonCode PConnack c).
Proof.
  intros Hn Hf Hc t rest. rewrite (frame5 prof 32 n _ t _ Hn (connack_header n)). unfold body_decode_async.
  cbn [h_typ V3.mk_header]. apply bind_err.
  apply (C20_connack_code_5 (V3.mk_header PConnack n) f c t rest); assumption.
Qed.

Theorem C20_connack_flags_5_all prof f c x : 2 <= f -> len (f :: c :: x) < VMAX ->
  classified5 prof (32 :: write_var_int (len (f :: c :: x)) ++ f :: c :: x) (InvalidConnackFlags f).
Proof.
  intros Hf Hn. apply (classify5 prof 32 (f :: c :: x)); [exact Hn|reflexivity|]. intros t sfx. cbn [app].
  apply C20_connack_flags_5_frame; assumption.
Qed.
Theorem C20_connack_code_5_all prof f c x : f < 2 -> mem_n c CONNECT_CODES = false -> len (f :: c :: x) < VMAX ->
  classified5 prof (32 :: write_var_int (len (f :: c :: x)) ++ f :: c :: x) (InvalidReasonCode PConnack c).
Proof.
  intros Hf Hc Hn. apply (classify5 prof 32 (f :: c :: x)); [exact Hn|reflexivity|]. intros t sfx. cbn [app].
  apply C20_connack_code_5_frame; assumption.
Qed.

(* PUBACK / PUBREC / PUBREL / PUBCOMP: the reason code follows the packet identifier when the
   remaining length is not 2 *)
Definition ack_type (t : ptype) : bool :=
  match t with PPuback | PPubrec | PPubrel | PPubcomp => true | _ => false end.

Theorem C20_ack_code_5 prof cb n h pid c : n < VMAX -> header_new_with cb n = Ok h -> ack_type (h_typ h) = true ->
  n <> 2 -> pid_ok pid = true -> mem_n c (codes_of (h_typ h)) = false ->
  forall t rest, F5.dec_async prof t (cb :: write_var_int n ++ be16 pid ++ c :: rest)
                 = RErr (InvalidReasonCode (h_typ h) c).
Proof.
  intros Hn Hh Ha Hn2 Hp Hc t rest. rewrite (frame5 prof cb n h t _ Hn Hh). unfold body_decode_async.
  pose proof (PollSched.V5_new_with_rl _ _ _ Hh) as Hrl.
  destruct (h_typ h) eqn:Et; try discriminate Ha; unfold ack_decode; rewrite Hrl, Et;
    (ok_by ltac:(apply pid_read_be16; exact Hp));
    (destruct (N.eqb_spec n 2) as [E|_]; [contradiction|]);
    destruct (n =? 3); err_by ltac:(apply C20_reason_read; exact Hc).
Qed.

Definition ACK_CBS : list N := [64; 80; 98; 112].
Definition ack_ptype_of_cb (cb : N) : ptype :=
  match cb with 64 => PPuback | 80 => PPubrec | 98 => PPubrel | _ => PPubcomp end.

Lemma ack_header cb n : In cb ACK_CBS ->
  exists h, header_new_with cb n = Ok h /\ ack_type (h_typ h) = true /\ h_typ h = ack_ptype_of_cb cb.
Proof.
  cbn [In ACK_CBS]. intros H.
  repeat (destruct H as [<-|H]; [eexists; repeat split; reflexivity|]). contradiction.
Qed.

Theorem C20_ack_code_5_all prof cb pid c x : In cb ACK_CBS -> pid_ok pid = true ->
  mem_n c (codes_of (ack_ptype_of_cb cb)) = false ->
  let body := be16 pid ++ c :: x in len body < VMAX ->
  classified5 prof (cb :: write_var_int (len body) ++ body) (InvalidReasonCode (ack_ptype_of_cb cb) c).
Proof.
  intros Hcb Hp Hc body Hn. destruct (ack_header cb (len body) Hcb) as (h & Hh & Ha & Et).
  apply classify5; [exact Hn|reflexivity|]. intros t sfx. unfold body. rewrite <- !app_assoc. cbn [app].
  rewrite <- Et. apply (C20_ack_code_5 prof cb _ h pid c Hn Hh Ha); [|exact Hp|rewrite Et; exact Hc].
  unfold body. rewrite len_app, len_be16, len_cons. lia.
Qed.

(* DISCONNECT / AUTH: the reason code is the first byte when the remaining length is not 0 *)
Theorem C20_disconnect_code_5 prof n c : n < VMAX -> n <> 0 -> mem_n c DISCONNECT_CODES = false ->
  forall t rest, F5.dec_async prof t (224 :: write_var_int n ++ c :: rest) = RErr (InvalidReasonCode PDisconnect c).
Proof.
  intros Hn Hn0 Hc t rest. rewrite (frame5 prof 224 n (V3.mk_header PDisconnect n) t _ Hn eq_refl).
  unfold body_decode_async. cbn [h_typ V3.mk_header]. unfold disconnect_decode. cbn [h_rl h_typ V3.mk_header].
  destruct (N.eqb_spec n 0) as [E|_]; [contradiction|].
  destruct (n =? 1); err_by ltac:(apply (C20_reason_read PDisconnect); exact Hc).
Qed.

Theorem C20_auth_code_5 prof n c : n < VMAX -> n <> 0 -> mem_n c AUTH_CODES = false ->
  forall t rest, F5.dec_async prof t (240 :: write_var_int n ++ c :: rest) = RErr (InvalidReasonCode PAuth c).
Proof.
  intros Hn Hn0 Hc t rest. rewrite (frame5 prof 240 n (V3.mk_header PAuth n) t _ Hn eq_refl).
  unfold body_decode_async. cbn [h_typ V3.mk_header]. unfold auth_decode. cbn [h_rl h_typ V3.mk_header].
  destruct (N.eqb_spec n 0) as [E|_]; [contradiction|].
  err_by ltac:(apply (C20_reason_read PAuth); exact Hc).
Qed.

Theorem C20_disconnect_code_5_all prof c x : mem_n c DISCONNECT_CODES = false -> len (c :: x) < VMAX ->
  classified5 prof (224 :: write_var_int (len (c :: x)) ++ c :: x) (InvalidReasonCode PDisconnect c).
Proof.
  intros Hc Hn. apply (classify5 prof 224 (c :: x)); [exact Hn|reflexivity|]. intros t sfx. cbn [app].
  apply C20_disconnect_code_5; [exact Hn|rewrite len_cons; lia|exact Hc].
Qed.
Theorem C20_auth_code_5_all prof c x : mem_n c AUTH_CODES = false -> len (c :: x) < VMAX ->
  classified5 prof (240 :: write_var_int (len (c :: x)) ++ c :: x) (InvalidReasonCode PAuth c).
Proof.
  intros Hc Hn. apply (classify5 prof 240 (c :: x)); [exact Hn|reflexivity|]. intros t sfx. cbn [app].
  apply C20_auth_code_5; [exact Hn|rewrite len_cons; lia|exact Hc].
Qed.

(* ------------------------------------------------------------------------------------ *)
(* (f) the property sections                                                            *)
(* ------------------------------------------------------------------------------------ *)
(* a well-formed property section of a valid packet *)
Definition props_good (L : list prop_id) (ps : props) : Prop :=
  NoDup (map prop_num L) /\ props_inv L ps = true /\ props_valid L ps = true /\
  props_body_len L ps < 268435456.

Lemma props_good_len L ps : props_good L ps -> exists pl, props_len L ps = Ok pl /\ clen (props_enc L ps) = pl.
Proof.
  intros (_ & Hi & _ & Hb). destruct (props_enc_len L ps Hi Hb) as [E1 E2].
  eexists. split; [exact E2|reflexivity].
Qed.

Lemma props_good_rt ctx L ps t rest : props_good L ps ->
  decode_props ctx L t (concat (props_enc L ps) ++ rest) = ROk ps rest.
Proof. intros (Hn & Hi & Hv & Hb). apply props_rt_simple; assumption. Qed.

Lemma props_good_rt_full ctx L ps t rest : props_good L ps ->
  decode_props_full ctx L t (concat (props_enc L ps) ++ rest)
  = ROk (ps, props_body_len L ps, width (props_body_len L ps)) rest.
Proof. intros (Hn & Hi & Hv & Hb). apply props_rt; assumption. Qed.

(* Every place where a v5 decoder starts to read a property section: the control byte, the
   constraint on the declared remaining length under which the section is read at all, the bytes
   of the body in front of the section (all valid), the error context and the allowed ids. *)
Inductive section5 : N -> (N -> Prop) -> bytes -> prop_ctx -> list prop_id -> Prop :=
| sec_connect flags ka : bit flags 0 = false -> ka < 65536 ->
    section5 16 (fun _ => True) (concat (protocol_enc V500) ++ flags :: be16 ka)
             (CtxPacket PConnect) CONNECT_PROPS
| sec_will flags ka ps cid : bit flags 0 = false -> ka < 65536 -> props_good CONNECT_PROPS ps ->
    len cid <= 65535 -> utf8_valid cid = true -> bit flags 2 = true -> (flags / 8) mod 4 < 3 ->
    section5 16 (fun _ => True)
             (concat (protocol_enc V500) ++ flags :: be16 ka ++ concat (props_enc CONNECT_PROPS ps)
              ++ be16 (len cid mod 65536) ++ cid)
             CtxWill WILL_PROPS
| sec_connack f c : f < 2 -> mem_n c CONNECT_CODES = true ->
    section5 32 (fun _ => True) [f; c] (CtxPacket PConnack) CONNACK_PROPS
| sec_publish cb topic qp : cb / 16 = 3 -> (cb mod 16 / 2) mod 4 = qospid_qos qp -> qospid_ok qp = true ->
    len topic <= 65535 -> utf8_valid topic = true ->
    section5 cb (fun n => 2 + len topic + V3.qospid_len qp <= n)
             (be16 (len topic mod 65536) ++ topic ++ concat (V3.qospid_enc qp))
             (CtxPacket PPublish) PUBLISH_PROPS
| sec_ack cb pid c : In cb ACK_CBS -> pid_ok pid = true -> mem_n c (codes_of (ack_ptype_of_cb cb)) = true ->
    section5 cb (fun n => n <> 2 /\ n <> 3) (be16 pid ++ [c]) (CtxPacket (ack_ptype_of_cb cb)) ACK_PROPS
| sec_subscribe pid : pid_ok pid = true ->
    section5 130 (fun _ => True) (be16 pid) (CtxPacket PSubscribe) SUBSCRIBE_PROPS
| sec_suback pid : pid_ok pid = true ->
    section5 144 (fun _ => True) (be16 pid) (CtxPacket PSuback) ACK_PROPS
| sec_unsubscribe pid : pid_ok pid = true ->
    section5 162 (fun _ => True) (be16 pid) (CtxPacket PUnsubscribe) UNSUBSCRIBE_PROPS
| sec_unsuback pid : pid_ok pid = true ->
    section5 176 (fun _ => True) (be16 pid) (CtxPacket PUnsuback) ACK_PROPS
| sec_disconnect c : mem_n c DISCONNECT_CODES = true ->
    section5 224 (fun n => n <> 0 /\ n <> 1) [c] (CtxPacket PDisconnect) DISCONNECT_PROPS
| sec_auth c : mem_n c AUTH_CODES = true ->
    section5 240 (fun n => n <> 0) [c] (CtxPacket PAuth) AUTH_PROPS.

Lemma connect_header n : header_new_with 16 n = Ok (V3.mk_header PConnect n).
Proof. reflexivity. Qed.

(* a CONNECT frame: header, the v5 protocol name and level, then `d` *)
Lemma connect_frame5 prof n d t : n < VMAX ->
  F5.dec_async prof t (16 :: write_var_int n ++ concat (protocol_enc V500) ++ d)
  = (c <- connect_decode_with_protocol (V3.mk_header PConnect n) V500 ;; ret (Connect c)) t d.
Proof.
  intros Hn. rewrite (frame5 prof 16 n _ t _ Hn (connect_header n)). unfold body_decode_async.
  cbn [h_typ V3.mk_header]. unfold connect_decode.
  ok_by ltac:(apply V5RT.protocol_rt). reflexivity.
Qed.

(* what connect_decode_with_protocol does after flags, keep-alive, properties, client identifier *)
Definition connect5_after (flags keep_alive : N) (ps : props) (client_id : bytes) : reader connect :=
  last_will <-
    (if bit flags 2 then
       qos <- lift_outcome (qos_of_u8 ((flags / 8) mod 4)) ;;
       w <- will_decode qos (bit flags 5) ;;
       ret (Some w)
     else if negb ((flags / 8) mod 4 =? 0) then fail (InvalidConnectFlags flags)
     else ret None) ;;
  username <- (if bit flags 7 then s <- read_string ;; ret (Some s) else ret None) ;;
  password <- (if bit flags 6 then s <- read_bytes ;; ret (Some s) else ret None) ;;
  ret {| c_protocol := V500; c_clean := bit flags 1; c_keep_alive := keep_alive; c_props := ps;
         c_client_id := client_id; c_will := last_will; c_username := username; c_password := password |}.

Lemma connect5_prefix h flags ka ps cid t r : bit flags 0 = false -> ka < 65536 ->
  props_good CONNECT_PROPS ps -> len cid <= 65535 -> utf8_valid cid = true ->
  connect_decode_with_protocol h V500 t
    (flags :: be16 ka ++ concat (props_enc CONNECT_PROPS ps) ++ be16 (len cid mod 65536) ++ cid ++ r)
  = connect5_after flags ka ps cid t r.
Proof.
  intros Hb Hka Hps Hl Hv. unfold connect_decode_with_protocol.
  erewrite bind_ok by apply read_u8_cons. rewrite Hb.
  erewrite bind_ok by (apply read_u16_be16; exact Hka).
  erewrite bind_ok by (apply props_good_rt; exact Hps).
  erewrite bind_ok by (apply read_string_lp; assumption). reflexivity.
Qed.

Theorem section5_fault prof cb nok pre ctx L : section5 cb nok pre ctx L ->
  forall n d e t, n < VMAX -> nok n -> decode_props_full ctx L t d = RErr e ->
  F5.dec_async prof t (cb :: write_var_int n ++ pre ++ d) = RErr e.
Proof.
  intros Hsec n d e t Hn Hok He. destruct Hsec.
  - (* connect *)
    rewrite <- app_assoc. rewrite connect_frame5 by exact Hn. apply bind_err.
    unfold connect_decode_with_protocol. cbn [app].
    erewrite bind_ok by apply read_u8_cons. rewrite H.
    erewrite bind_ok by (apply read_u16_be16; assumption).
    cbn [h_typ V3.mk_header]. apply props_error_of_full. exact He.
  - (* will *)
    rewrite <- !app_assoc. rewrite connect_frame5 by exact Hn. apply bind_err.
    cbn [app]. rewrite <- !app_assoc. rewrite connect5_prefix by assumption.
    unfold connect5_after. rewrite H4. unfold qos_of_u8.
    destruct (N.ltb_spec ((flags / 8) mod 4) 3) as [_|Hge]; [|lia]. cbn [lift_outcome].
    rewrite ?V3RT.bind_assoc, bind_ret. unfold will_decode.
    rewrite ?V3RT.bind_assoc. apply props_error_of_full. exact He.
  - (* connack *)
    rewrite (frame5 prof 32 n _ t _ Hn (connack_header n)). unfold body_decode_async.
    cbn [h_typ V3.mk_header]. apply bind_err. unfold connack_decode. cbn [app].
    erewrite bind_ok by apply FaultsBase.read_exact_2. cbv iota.
    destruct (N.eqb_spec f 0) as [E0|E0]; [|destruct (N.eqb_spec f 1) as [E1|E1]; [|lia]];
      rewrite bind_ret, H0, bind_ret; cbn [h_typ V3.mk_header]; apply props_error_of_full; exact He.
  - (* publish *)
    assert (Hq3 : (cb mod 16 / 2) mod 4 <> 3) by (rewrite H0; destruct qp; cbn [qospid_qos]; lia).
    destruct (publish_header cb n H Hq3) as (h & Hh & Ht & Hqh & Hrl).
    rewrite (frame5 prof cb n h t _ Hn Hh). unfold body_decode_async. rewrite Ht. apply bind_err.
    unfold publish_decode. rewrite Hrl, Hqh, H0, Ht. rewrite <- !app_assoc.
    ok_by ltac:(apply read_string_lp; assumption).
    ok_by ltac:(apply checked_sub_ok; lia).
    destruct qp as [|pid|pid]; cbn [qospid_qos V3.qospid_enc V3.qospid_len qospid_ok concat app] in *.
    + change (0 =? 0) with true. cbv iota. rewrite ?V3RT.bind_assoc, bind_ret. cbv beta iota.
      apply props_error_of_full. exact He.
    + change (1 =? 0) with false. change (1 =? 1) with true. cbv iota.
      ok_by ltac:(apply checked_sub_ok; lia).
      ok_by ltac:(apply pid_read_be16; assumption).
      rewrite bind_ret. cbv beta iota. apply props_error_of_full. exact He.
    + change (2 =? 0) with false. change (2 =? 1) with false. cbv iota.
      ok_by ltac:(apply checked_sub_ok; lia).
      ok_by ltac:(apply pid_read_be16; assumption).
      rewrite bind_ret. cbv beta iota. apply props_error_of_full. exact He.
  - (* puback family *)
    destruct (ack_header cb n H) as (h & Hh & Ha & Et).
    rewrite (frame5 prof cb n h t _ Hn Hh). unfold body_decode_async.
    pose proof (PollSched.V5_new_with_rl _ _ _ Hh) as Hrl. rewrite <- Et in *.
    destruct Hok as [Hn2 Hn3]. rewrite <- !app_assoc. cbn [app].
    destruct (h_typ h) eqn:Et'; try discriminate Ha; unfold ack_decode; rewrite Hrl, Et';
      (ok_by ltac:(apply pid_read_be16; assumption));
      (destruct (N.eqb_spec n 2) as [E|_]; [contradiction|]);
      (destruct (N.eqb_spec n 3) as [E|_]; [contradiction|]);
      (ok_by ltac:(apply reason_read_ok; assumption));
      rewrite ?V3RT.bind_assoc; apply props_error_of_full; exact He.
  - (* subscribe *)
    rewrite (frame5 prof 130 n (V3.mk_header PSubscribe n) t _ Hn eq_refl). unfold body_decode_async.
    cbn [h_typ V3.mk_header]. unfold subscribe_decode. cbn [h_typ V3.mk_header].
    ok_by ltac:(apply pid_read_be16; assumption).
    rewrite ?V3RT.bind_assoc. apply props_error_of_full. exact He.
  - (* suback *)
    rewrite (frame5 prof 144 n (V3.mk_header PSuback n) t _ Hn eq_refl). unfold body_decode_async.
    cbn [h_typ V3.mk_header]. unfold suback_decode. cbn [h_typ V3.mk_header].
    ok_by ltac:(apply pid_read_be16; assumption).
    rewrite ?V3RT.bind_assoc. apply props_error_of_full. exact He.
  - (* unsubscribe: decode_props_full itself *)
    rewrite (frame5 prof 162 n (V3.mk_header PUnsubscribe n) t _ Hn eq_refl). unfold body_decode_async.
    cbn [h_typ V3.mk_header]. unfold unsubscribe_decode. cbn [h_typ V3.mk_header].
    ok_by ltac:(apply pid_read_be16; assumption).
    rewrite ?V3RT.bind_assoc. apply bind_err. exact He.
  - (* unsuback *)
    rewrite (frame5 prof 176 n (V3.mk_header PUnsuback n) t _ Hn eq_refl). unfold body_decode_async.
    cbn [h_typ V3.mk_header]. unfold suback_decode. cbn [h_typ V3.mk_header].
    ok_by ltac:(apply pid_read_be16; assumption).
    rewrite ?V3RT.bind_assoc. apply props_error_of_full. exact He.
  - (* disconnect *)
    rewrite (frame5 prof 224 n (V3.mk_header PDisconnect n) t _ Hn eq_refl). unfold body_decode_async.
    cbn [h_typ V3.mk_header]. unfold disconnect_decode. cbn [h_rl h_typ V3.mk_header].
    destruct Hok as [Hn0 Hn1].
    destruct (N.eqb_spec n 0) as [E|_]; [contradiction|].
    destruct (N.eqb_spec n 1) as [E|_]; [contradiction|]. cbn [app].
    ok_by ltac:(apply (reason_read_ok PDisconnect); assumption).
    rewrite ?V3RT.bind_assoc. apply props_error_of_full. exact He.
  - (* auth *)
    rewrite (frame5 prof 240 n (V3.mk_header PAuth n) t _ Hn eq_refl). unfold body_decode_async.
    cbn [h_typ V3.mk_header]. unfold auth_decode. cbn [h_rl h_typ V3.mk_header].
    destruct (N.eqb_spec n 0) as [E|_]; [contradiction|]. cbn [app].
    ok_by ltac:(apply (reason_read_ok PAuth); assumption).
    rewrite ?V3RT.bind_assoc. apply props_error_of_full. exact He.
Qed.

(* the three front-ends: the section is followed by `d`, on which decode_props_full fails whatever
   follows; the declared remaining length is the length of the body *)
Theorem section5_fault_all prof cb nok pre ctx L d e : section5 cb nok pre ctx L -> is_io e = false ->
  (forall t sfx, decode_props_full ctx L t (d ++ sfx) = RErr e) ->
  let body := pre ++ d in
  len body < VMAX -> nok (len body) -> classified5 prof (cb :: write_var_int (len body) ++ body) e.
Proof.
  intros Hsec He Hd body Hn Hok. apply classify5; [exact Hn|exact He|]. intros t sfx.
  unfold body. rewrite <- app_assoc. apply (section5_fault prof cb nok pre ctx L Hsec); [exact Hn|exact Hok|apply Hd].
Qed.

Lemma ctx_err_det ctx id : is_io (ctx_err ctx id) = false.
Proof. destruct ctx; reflexivity. Qed.

Section SectionRows.
Variables (prof : profile) (cb : N) (nok : N -> Prop) (pre : bytes) (ctx : prop_ctx) (L : list prop_id).
Hypothesis Hsec : section5 cb nok pre ctx L.

(* -- async, any declared length that lets the decoder reach the section -- *)
Theorem C20_prop_unknown_id_5 n plen b : n < VMAX -> nok n -> 0 < plen < VMAX -> prop_of_u8 b = None ->
  forall t rest, F5.dec_async prof t (cb :: write_var_int n ++ pre ++ write_var_int plen ++ b :: rest)
                 = RErr (InvalidPropertyId b).
Proof.
  intros Hn Hok [Hp Hm] Hb t rest. apply (section5_fault prof cb nok pre ctx L Hsec); [exact Hn|exact Hok|].
  apply C20_props_unknown_id; assumption.
Qed.

Theorem C20_prop_disallowed_5 n plen id : n < VMAX -> nok n -> 0 < plen < VMAX -> prop_mem id L = false ->
  forall t rest, F5.dec_async prof t (cb :: write_var_int n ++ pre ++ write_var_int plen ++ prop_num id :: rest)
                 = RErr (ctx_err ctx id).
Proof.
  intros Hn Hok [Hp Hm] Hb t rest. apply (section5_fault prof cb nok pre ctx L Hsec); [exact Hn|exact Hok|].
  apply C20_props_disallowed; assumption.
Qed.

Theorem C20_prop_duplicated_5 n plen id v : n < VMAX -> nok n -> plen < VMAX -> prop_mem id L = true ->
  value_inv (prop_wtype id) v = true -> value_valid (prop_wtype id) v = true ->
  1 + value_len (prop_wtype id) v < plen ->
  forall t rest, F5.dec_async prof t (cb :: write_var_int n ++ pre ++ write_var_int plen
      ++ prop_num id :: concat (encode_value (prop_wtype id) v) ++ prop_num id :: rest)
    = RErr (DuplicatedProperty (prop_num id)).
Proof.
  intros Hn Hok Hm Hb Hi Hv Hl t rest. apply (section5_fault prof cb nok pre ctx L Hsec); [exact Hn|exact Hok|].
  apply C20_props_duplicated; try assumption. lia.
Qed.

Theorem C20_prop_bad_byte_5 n plen id v : n < VMAX -> nok n -> 0 < plen < VMAX -> prop_mem id L = true ->
  byte_valued id = true -> 1 < v ->
  forall t rest, F5.dec_async prof t (cb :: write_var_int n ++ pre ++ write_var_int plen ++ prop_num id :: v :: rest)
                 = RErr (InvalidByteProperty (prop_num id) v).
Proof.
  intros Hn Hok [Hp Hm] Hb Hbv Hv t rest. apply (section5_fault prof cb nok pre ctx L Hsec); [exact Hn|exact Hok|].
  apply C20_props_bad_byte; assumption.
Qed.

Theorem C20_prop_length_minus_one_5 n id v : n < VMAX -> nok n -> prop_mem id L = true ->
  value_inv (prop_wtype id) v = true -> value_valid (prop_wtype id) v = true ->
  forall t rest, F5.dec_async prof t (cb :: write_var_int n ++ pre ++ write_var_int (value_len (prop_wtype id) v)
      ++ prop_num id :: concat (encode_value (prop_wtype id) v) ++ rest)
    = RErr (InvalidPropertyLength (value_len (prop_wtype id) v)).
Proof.
  intros Hn Hok Hb Hi Hv t rest. apply (section5_fault prof cb nok pre ctx L Hsec); [exact Hn|exact Hok|].
  apply C20_props_length_minus_one; assumption.
Qed.

Theorem C20_prop_length_varint_5 n b0 b1 b2 b3 : n < VMAX -> nok n ->
  128 <= b0 -> 128 <= b1 -> 128 <= b2 -> 128 <= b3 ->
  forall t rest, F5.dec_async prof t (cb :: write_var_int n ++ pre ++ b0 :: b1 :: b2 :: b3 :: rest)
                 = RErr InvalidVarByteInt.
Proof.
  intros Hn Hok H0 H1 H2 H3 t rest. apply (section5_fault prof cb nok pre ctx L Hsec); [exact Hn|exact Hok|].
  apply C20_varint_props_full; assumption.
Qed.

(* a string-valued property whose text is not UTF-8 *)
Theorem C20_prop_string_not_utf8_5 n plen id s : n < VMAX -> nok n -> 0 < plen < VMAX -> prop_mem id L = true ->
  string_valued id = true -> len s <= 65535 -> utf8_valid s = false ->
  forall t rest, F5.dec_async prof t (cb :: write_var_int n ++ pre ++ write_var_int plen
      ++ prop_num id :: be16 (len s mod 65536) ++ s ++ rest) = RErr InvalidString.
Proof.
  intros Hn Hok [Hp Hm] Hb Hs Hl Hv t rest. apply (section5_fault prof cb nok pre ctx L Hsec); [exact Hn|exact Hok|].
  apply C20_props_value_error; try assumption. apply C20_string_property_value; assumption.
Qed.

(* a User Property whose name is not UTF-8 *)
Theorem C20_prop_user_not_utf8_5 n plen s : n < VMAX -> nok n -> 0 < plen < VMAX ->
  len s <= 65535 -> utf8_valid s = false ->
  forall t rest, F5.dec_async prof t (cb :: write_var_int n ++ pre ++ write_var_int plen
      ++ USER_PROPERTY :: be16 (len s mod 65536) ++ s ++ rest) = RErr InvalidString.
Proof.
  intros Hn Hok [Hp Hm] Hl Hv t rest. apply (section5_fault prof cb nok pre ctx L Hsec); [exact Hn|exact Hok|].
  apply C20_props_user_name_not_utf8; assumption.
Qed.

(* -- the three front-ends, consistent remaining length -- *)
Theorem C20_prop_unknown_id_5_all plen b x : 0 < plen < VMAX -> prop_of_u8 b = None ->
  let body := pre ++ write_var_int plen ++ b :: x in
  len body < VMAX -> nok (len body) ->
  classified5 prof (cb :: write_var_int (len body) ++ body) (InvalidPropertyId b).
Proof.
  intros [Hp Hm] Hb. apply (section5_fault_all prof cb nok pre ctx L _ _ Hsec); [reflexivity|].
  intros t sfx. rewrite <- app_assoc. cbn [app]. apply C20_props_unknown_id; assumption.
Qed.

Theorem C20_prop_disallowed_5_all plen id x : 0 < plen < VMAX -> prop_mem id L = false ->
  let body := pre ++ write_var_int plen ++ prop_num id :: x in
  len body < VMAX -> nok (len body) ->
  classified5 prof (cb :: write_var_int (len body) ++ body) (ctx_err ctx id).
Proof.
  intros [Hp Hm] Hb. apply (section5_fault_all prof cb nok pre ctx L _ _ Hsec); [apply ctx_err_det|].
  intros t sfx. rewrite <- app_assoc. cbn [app]. apply C20_props_disallowed; assumption.
Qed.

Theorem C20_prop_duplicated_5_all plen id v x : plen < VMAX -> prop_mem id L = true ->
  value_inv (prop_wtype id) v = true -> value_valid (prop_wtype id) v = true ->
  1 + value_len (prop_wtype id) v < plen ->
  let body := pre ++ write_var_int plen ++ prop_num id :: concat (encode_value (prop_wtype id) v) ++ prop_num id :: x in
  len body < VMAX -> nok (len body) ->
  classified5 prof (cb :: write_var_int (len body) ++ body) (DuplicatedProperty (prop_num id)).
Proof.
  intros Hm Hb Hi Hv Hl. apply (section5_fault_all prof cb nok pre ctx L _ _ Hsec); [reflexivity|].
  intros t sfx. rewrite <- app_assoc. cbn [app]. rewrite <- app_assoc. cbn [app].
  apply C20_props_duplicated; try assumption. lia.
Qed.

Theorem C20_prop_bad_byte_5_all plen id v x : 0 < plen < VMAX -> prop_mem id L = true ->
  byte_valued id = true -> 1 < v ->
  let body := pre ++ write_var_int plen ++ prop_num id :: v :: x in
  len body < VMAX -> nok (len body) ->
  classified5 prof (cb :: write_var_int (len body) ++ body) (InvalidByteProperty (prop_num id) v).
Proof.
  intros [Hp Hm] Hb Hbv Hv. apply (section5_fault_all prof cb nok pre ctx L _ _ Hsec); [reflexivity|].
  intros t sfx. rewrite <- app_assoc. cbn [app]. apply C20_props_bad_byte; assumption.
Qed.

Theorem C20_prop_length_minus_one_5_all id v x : prop_mem id L = true ->
  value_inv (prop_wtype id) v = true -> value_valid (prop_wtype id) v = true ->
  let body := pre ++ write_var_int (value_len (prop_wtype id) v)
              ++ prop_num id :: concat (encode_value (prop_wtype id) v) ++ x in
  len body < VMAX -> nok (len body) ->
  classified5 prof (cb :: write_var_int (len body) ++ body) (InvalidPropertyLength (value_len (prop_wtype id) v)).
Proof.
  intros Hb Hi Hv. apply (section5_fault_all prof cb nok pre ctx L _ _ Hsec); [reflexivity|].
  intros t sfx. rewrite <- app_assoc. cbn [app]. rewrite <- app_assoc.
  apply C20_props_length_minus_one; assumption.
Qed.

Theorem C20_prop_length_varint_5_all b0 b1 b2 b3 x : 128 <= b0 -> 128 <= b1 -> 128 <= b2 -> 128 <= b3 ->
  let body := pre ++ b0 :: b1 :: b2 :: b3 :: x in
  len body < VMAX -> nok (len body) ->
  classified5 prof (cb :: write_var_int (len body) ++ body) InvalidVarByteInt.
Proof.
  intros H0 H1 H2 H3. apply (section5_fault_all prof cb nok pre ctx L _ _ Hsec); [reflexivity|].
  intros t sfx. cbn [app]. apply C20_varint_props_full; assumption.
Qed.

Theorem C20_prop_string_not_utf8_5_all plen id s x : 0 < plen < VMAX -> prop_mem id L = true ->
  string_valued id = true -> len s <= 65535 -> utf8_valid s = false ->
  let body := pre ++ write_var_int plen ++ prop_num id :: be16 (len s mod 65536) ++ s ++ x in
  len body < VMAX -> nok (len body) ->
  classified5 prof (cb :: write_var_int (len body) ++ body) InvalidString.
Proof.
  intros [Hp Hm] Hb Hs Hl Hv. apply (section5_fault_all prof cb nok pre ctx L _ _ Hsec); [reflexivity|].
  intros t sfx. rewrite <- app_assoc. cbn [app]. rewrite <- !app_assoc.
  apply C20_props_value_error; try assumption. apply C20_string_property_value; assumption.
Qed.
End SectionRows.

(* Response Topic with a wildcard (PUBLISH, will); over-long Subscription Identifier (PUBLISH, SUBSCRIBE) *)
Theorem C20_prop_response_topic_5 prof cb nok pre ctx L n plen s :
  section5 cb nok pre ctx L -> n < VMAX -> nok n -> 0 < plen < VMAX -> prop_mem ResponseTopic L = true ->
  len s <= 65535 -> utf8_valid s = true -> name_is_invalid s = true ->
  forall t rest, F5.dec_async prof t (cb :: write_var_int n ++ pre ++ write_var_int plen
      ++ 8 :: be16 (len s mod 65536) ++ s ++ rest) = RErr InvalidResponseTopic.
Proof.
  intros Hsec Hn Hok [Hp Hm] Hb Hl Hv Hi t rest.
  apply (section5_fault prof cb nok pre ctx L Hsec); [exact Hn|exact Hok|].
  apply (C20_props_value_error ctx L plen t _ Hp Hm ResponseTopic); [exact Hb|].
  apply C20_response_topic; assumption.
Qed.

Theorem C20_prop_subscription_id_varint_5 prof cb nok pre ctx L n plen b0 b1 b2 b3 :
  section5 cb nok pre ctx L -> n < VMAX -> nok n -> 0 < plen < VMAX -> prop_mem SubscriptionIdentifier L = true ->
  128 <= b0 -> 128 <= b1 -> 128 <= b2 -> 128 <= b3 ->
  forall t rest, F5.dec_async prof t (cb :: write_var_int n ++ pre ++ write_var_int plen
      ++ 11 :: b0 :: b1 :: b2 :: b3 :: rest) = RErr InvalidVarByteInt.
Proof.
  intros Hsec Hn Hok [Hp Hm] Hb H0 H1 H2 H3 t rest.
  apply (section5_fault prof cb nok pre ctx L Hsec); [exact Hn|exact Hok|].
  apply (C20_props_value_error ctx L plen t _ Hp Hm SubscriptionIdentifier); [exact Hb|].
  apply C20_varint_subscription_id; assumption.
Qed.

(* ------------------------------------------------------------------------------------ *)
(* (c, continued) the k-th reason code of SUBACK / UNSUBACK                              *)
(* ------------------------------------------------------------------------------------ *)
Lemma codes_loop_bad table pt c t rest : mem_n c (codes_of table) = false ->
  forall codes fuel rl acc,
  forallb (fun x => mem_n x (codes_of table)) codes = true -> len codes < rl -> (length codes < fuel)%nat ->
  codes_loop table pt fuel rl acc t (codes ++ c :: rest) = RErr (InvalidReasonCode pt c).
Proof.
  intros Hc. induction codes as [|x codes IH]; intros fuel rl acc Hok Hl Hf.
  - destruct fuel as [|f]; [cbn [length] in Hf; lia|]. cbn [codes_loop app].
    destruct (N.eqb_spec rl 0) as [E|_]; [rewrite len_nil in Hl; lia|].
    apply bind_err. apply C20_reason_read. exact Hc.
  - destruct fuel as [|f]; [cbn [length] in Hf; lia|]. cbn [codes_loop app].
    rewrite len_cons in Hl. destruct (N.eqb_spec rl 0) as [E|_]; [lia|].
    cbn [forallb] in Hok. apply andb_true_iff in Hok as [Hx Hok].
    erewrite bind_ok by (apply reason_read_ok; exact Hx).
    apply IH; [exact Hok|lia|cbn [length] in Hf; lia].
Qed.

Definition suback_cb (table : ptype) : N := match table with PSuback => 144 | _ => 176 end.

Theorem C20_suback_code_5 prof table n pid ps codes c : table = PSuback \/ table = PUnsuback ->
  n < VMAX -> pid_ok pid = true -> props_good ACK_PROPS ps ->
  forallb (fun x => mem_n x (codes_of table)) codes = true -> mem_n c (codes_of table) = false ->
  2 + clen (props_enc ACK_PROPS ps) + len codes < n ->
  forall t rest, F5.dec_async prof t (suback_cb table :: write_var_int n ++ be16 pid ++ concat (props_enc ACK_PROPS ps)
                                        ++ codes ++ c :: rest) = RErr (InvalidReasonCode table c).
Proof.
  intros Ht Hn Hp Hps Hok Hc Hl t rest. destruct (props_good_len _ _ Hps) as (pl & Hpl & Hcl).
  assert (Hh : header_new_with (suback_cb table) n = Ok (V3.mk_header table n)) by (destruct Ht as [->| ->]; reflexivity).
  rewrite (frame5 prof _ n _ t _ Hn Hh). unfold body_decode_async. cbn [h_typ V3.mk_header].
  assert (E : suback_decode table (V3.mk_header table n) t
                (be16 pid ++ concat (props_enc ACK_PROPS ps) ++ codes ++ c :: rest) = RErr (InvalidReasonCode table c)).
  { unfold suback_decode. cbn [h_typ h_rl V3.mk_header].
    ok_by ltac:(apply pid_read_be16; exact Hp).
    ok_by ltac:(apply props_good_rt; exact Hps).
    rewrite Hpl. cbn [lift_outcome]. rewrite ?V3RT.bind_assoc, bind_ret.
    ok_by ltac:(apply checked_sub_ok; lia).
    apply bind_err. apply codes_loop_bad; [exact Hc|exact Hok|lia|]. rewrite app_length. lia. }
  destruct Ht as [-> | ->]; apply bind_err; exact E.
Qed.

Theorem C20_suback_code_5_all prof table pid ps codes c x : table = PSuback \/ table = PUnsuback ->
  pid_ok pid = true -> props_good ACK_PROPS ps ->
  forallb (fun y => mem_n y (codes_of table)) codes = true -> mem_n c (codes_of table) = false ->
  let body := be16 pid ++ concat (props_enc ACK_PROPS ps) ++ codes ++ c :: x in
  len body < VMAX ->
  classified5 prof (suback_cb table :: write_var_int (len body) ++ body) (InvalidReasonCode table c).
Proof.
  intros Ht Hp Hps Hok Hc body Hn. apply classify5; [exact Hn|reflexivity|]. intros t sfx.
  unfold body. rewrite <- !app_assoc. cbn [app].
  apply C20_suback_code_5; try assumption.
  unfold body. rewrite !len_app, len_be16, len_cons. unfold clen. lia.
Qed.

(* ------------------------------------------------------------------------------------ *)
(* (d) CONNECT rows                                                                     *)
(* ------------------------------------------------------------------------------------ *)
Theorem C20_connect_reserved_flag_5 h flags t r : bit flags 0 = true ->
  connect_decode_with_protocol h V500 t (flags :: r) = RErr (InvalidConnectFlags flags).
Proof.
  intros Hb. unfold connect_decode_with_protocol.
  erewrite bind_ok by apply read_u8_cons. rewrite Hb. reflexivity.
Qed.

(* will-QoS bits without the will flag: found after keep-alive, properties and client identifier *)
Theorem C20_connect_will_qos_without_will_5 h flags ka ps cid t r : bit flags 0 = false -> ka < 65536 ->
  props_good CONNECT_PROPS ps -> len cid <= 65535 -> utf8_valid cid = true ->
  bit flags 2 = false -> (flags / 8) mod 4 <> 0 ->
  connect_decode_with_protocol h V500 t
    (flags :: be16 ka ++ concat (props_enc CONNECT_PROPS ps) ++ be16 (len cid mod 65536) ++ cid ++ r)
  = RErr (InvalidConnectFlags flags).
Proof.
  intros Hb Hka Hps Hl Hv Hw Hq. rewrite connect5_prefix by assumption. unfold connect5_after.
  rewrite Hw. destruct (N.eqb_spec ((flags / 8) mod 4) 0) as [E|_]; [contradiction|]. reflexivity.
Qed.

(* will QoS 3: found right after the client identifier, before the will is read *)
Theorem C20_connect_will_qos3_5 h flags ka ps cid t r : bit flags 0 = false -> ka < 65536 ->
  props_good CONNECT_PROPS ps -> len cid <= 65535 -> utf8_valid cid = true ->
  bit flags 2 = true -> (flags / 8) mod 4 = 3 ->
  connect_decode_with_protocol h V500 t
    (flags :: be16 ka ++ concat (props_enc CONNECT_PROPS ps) ++ be16 (len cid mod 65536) ++ cid ++ r)
  = RErr (InvalidQos 3).
Proof.
  intros Hb Hka Hps Hl Hv Hw Hq. rewrite connect5_prefix by assumption. unfold connect5_after.
  rewrite Hw, Hq. reflexivity.
Qed.

Theorem C20_connect_client_id_not_utf8_5 h flags ka ps cid t r : bit flags 0 = false -> ka < 65536 ->
  props_good CONNECT_PROPS ps -> len cid <= 65535 -> utf8_valid cid = false ->
  connect_decode_with_protocol h V500 t
    (flags :: be16 ka ++ concat (props_enc CONNECT_PROPS ps) ++ be16 (len cid mod 65536) ++ cid ++ r)
  = RErr InvalidString.
Proof.
  intros Hb Hka Hps Hl Hv. unfold connect_decode_with_protocol.
  erewrite bind_ok by apply read_u8_cons. rewrite Hb.
  erewrite bind_ok by (apply read_u16_be16; exact Hka).
  erewrite bind_ok by (apply props_good_rt; exact Hps).
  erewrite bind_err by (apply read_string_invalid_lp; assumption). reflexivity.
Qed.

(* the will: what will_decode does after its properties *)
Lemma will_decode_after qos retain ps t d : props_good WILL_PROPS ps ->
  will_decode qos retain t (concat (props_enc WILL_PROPS ps) ++ d)
  = (topic <- read_string ;;
     topic' <- lift_outcome (name_try topic) ;;
     payload <- read_bytes ;;
     if (match pget ps PayloadFormatIndicator with Some (VN 1) => true | _ => false end)
        && negb (utf8_valid payload)
     then fail InvalidPayloadFormat
     else ret {| w_qos := qos; w_retain := retain; w_props := ps; w_topic := topic'; w_payload := payload |}) t d.
Proof. intros Hps. unfold will_decode. erewrite bind_ok by (apply props_good_rt; exact Hps). reflexivity. Qed.

(* wildcard / NUL in the will topic: found right after the topic is read *)
Theorem C20_will_topic_5 qos retain ps topic t r : props_good WILL_PROPS ps ->
  len topic <= 65535 -> utf8_valid topic = true -> name_is_invalid topic = true ->
  will_decode qos retain t (concat (props_enc WILL_PROPS ps) ++ be16 (len topic mod 65536) ++ topic ++ r)
  = RErr (InvalidTopicName topic).
Proof.
  intros Hps Hl Hv Hi. rewrite will_decode_after by exact Hps.
  ok_by ltac:(apply read_string_lp; assumption).
  rewrite (name_try_err topic Hi). reflexivity.
Qed.

Theorem C20_will_topic_not_utf8_5 qos retain ps topic t r : props_good WILL_PROPS ps ->
  len topic <= 65535 -> utf8_valid topic = false ->
  will_decode qos retain t (concat (props_enc WILL_PROPS ps) ++ be16 (len topic mod 65536) ++ topic ++ r)
  = RErr InvalidString.
Proof.
  intros Hps Hl Hv. rewrite will_decode_after by exact Hps.
  err_by ltac:(apply read_string_invalid_lp; assumption).
Qed.

(* will payload flagged as UTF-8 (Payload Format Indicator = 1) but not UTF-8 *)
Theorem C20_will_payload_format_5 qos retain ps topic payload t r : props_good WILL_PROPS ps ->
  len topic <= 65535 -> utf8_valid topic = true -> name_is_invalid topic = false ->
  pget ps PayloadFormatIndicator = Some (VN 1) -> len payload <= 65535 -> utf8_valid payload = false ->
  will_decode qos retain t (concat (props_enc WILL_PROPS ps) ++ be16 (len topic mod 65536) ++ topic
                              ++ be16 (len payload mod 65536) ++ payload ++ r)
  = RErr InvalidPayloadFormat.
Proof.
  intros Hps Hl Hv Hi Hf Hlp Hvp. rewrite will_decode_after by exact Hps.
  ok_by ltac:(apply read_string_lp; assumption).
  rewrite (name_try_ok topic Hi). cbn [lift_outcome]. rewrite bind_ret.
  ok_by ltac:(apply read_bytes_lp; assumption).
  rewrite Hf, Hvp. reflexivity.
Qed.

(* -- whole frames -- *)
Lemma connect_frame5_err prof n d t e : n < VMAX ->
  connect_decode_with_protocol (V3.mk_header PConnect n) V500 t d = RErr e ->
  F5.dec_async prof t (16 :: write_var_int n ++ concat (protocol_enc V500) ++ d) = RErr e.
Proof. intros Hn He. rewrite connect_frame5 by exact Hn. apply bind_err. exact He. Qed.

Theorem C20_connect_reserved_flag_5_frame prof n flags : n < VMAX -> bit flags 0 = true ->
  forall t rest, F5.dec_async prof t (16 :: write_var_int n ++ concat (protocol_enc V500) ++ flags :: rest)
                 = RErr (InvalidConnectFlags flags).
Proof. intros Hn Hb t rest. apply connect_frame5_err; [exact Hn|]. apply C20_connect_reserved_flag_5; exact Hb. Qed.

Theorem C20_connect_will_qos_without_will_5_frame prof n flags ka ps cid : n < VMAX ->
  bit flags 0 = false -> ka < 65536 -> props_good CONNECT_PROPS ps -> len cid <= 65535 -> utf8_valid cid = true ->
  bit flags 2 = false -> (flags / 8) mod 4 <> 0 ->
  forall t rest, F5.dec_async prof t (16 :: write_var_int n ++ concat (protocol_enc V500)
      ++ flags :: be16 ka ++ concat (props_enc CONNECT_PROPS ps) ++ be16 (len cid mod 65536) ++ cid ++ rest)
    = RErr (InvalidConnectFlags flags).
Proof.
  intros Hn Hb Hka Hps Hl Hv Hw Hq t rest. apply connect_frame5_err; [exact Hn|].
  apply C20_connect_will_qos_without_will_5; assumption.
Qed.

Theorem C20_connect_will_qos3_5_frame prof n flags ka ps cid : n < VMAX ->
  bit flags 0 = false -> ka < 65536 -> props_good CONNECT_PROPS ps -> len cid <= 65535 -> utf8_valid cid = true ->
  bit flags 2 = true -> (flags / 8) mod 4 = 3 ->
  forall t rest, F5.dec_async prof t (16 :: write_var_int n ++ concat (protocol_enc V500)
      ++ flags :: be16 ka ++ concat (props_enc CONNECT_PROPS ps) ++ be16 (len cid mod 65536) ++ cid ++ rest)
    = RErr (InvalidQos 3).
Proof.
  intros Hn Hb Hka Hps Hl Hv Hw Hq t rest. apply connect_frame5_err; [exact Hn|].
  apply C20_connect_will_qos3_5; assumption.
Qed.

Theorem C20_connect_client_id_not_utf8_5_frame prof n flags ka ps cid : n < VMAX ->
  bit flags 0 = false -> ka < 65536 -> props_good CONNECT_PROPS ps -> len cid <= 65535 -> utf8_valid cid = false ->
  forall t rest, F5.dec_async prof t (16 :: write_var_int n ++ concat (protocol_enc V500)
      ++ flags :: be16 ka ++ concat (props_enc CONNECT_PROPS ps) ++ be16 (len cid mod 65536) ++ cid ++ rest)
    = RErr InvalidString.
Proof.
  intros Hn Hb Hka Hps Hl Hv t rest. apply connect_frame5_err; [exact Hn|].
  apply C20_connect_client_id_not_utf8_5; assumption.
Qed.

(* a fault inside the will: everything before the will is valid *)
Lemma connect_will_frame5 prof n flags ka ps cid d e t : n < VMAX ->
  bit flags 0 = false -> ka < 65536 -> props_good CONNECT_PROPS ps -> len cid <= 65535 -> utf8_valid cid = true ->
  bit flags 2 = true -> (flags / 8) mod 4 < 3 ->
  will_decode ((flags / 8) mod 4) (bit flags 5) t d = RErr e ->
  F5.dec_async prof t (16 :: write_var_int n ++ concat (protocol_enc V500)
      ++ flags :: be16 ka ++ concat (props_enc CONNECT_PROPS ps) ++ be16 (len cid mod 65536) ++ cid ++ d) = RErr e.
Proof.
  intros Hn Hb Hka Hps Hl Hv Hw Hq He. apply connect_frame5_err; [exact Hn|].
  rewrite connect5_prefix by assumption. unfold connect5_after. rewrite Hw. unfold qos_of_u8.
  destruct (N.ltb_spec ((flags / 8) mod 4) 3) as [_|Hge]; [|lia]. cbn [lift_outcome].
  rewrite ?V3RT.bind_assoc, bind_ret. err_by ltac:(exact He).
Qed.

Theorem C20_connect_will_topic_5_frame prof n flags ka ps cid wps topic : n < VMAX ->
  bit flags 0 = false -> ka < 65536 -> props_good CONNECT_PROPS ps -> len cid <= 65535 -> utf8_valid cid = true ->
  bit flags 2 = true -> (flags / 8) mod 4 < 3 -> props_good WILL_PROPS wps ->
  len topic <= 65535 -> utf8_valid topic = true -> name_is_invalid topic = true ->
  forall t rest, F5.dec_async prof t (16 :: write_var_int n ++ concat (protocol_enc V500)
      ++ flags :: be16 ka ++ concat (props_enc CONNECT_PROPS ps) ++ be16 (len cid mod 65536) ++ cid
      ++ concat (props_enc WILL_PROPS wps) ++ be16 (len topic mod 65536) ++ topic ++ rest)
    = RErr (InvalidTopicName topic).
Proof.
  intros Hn Hb Hka Hps Hl Hv Hw Hq Hwps Hlt Hvt Hi t rest. apply connect_will_frame5; try assumption.
  apply C20_will_topic_5; assumption.
Qed.

Theorem C20_connect_will_payload_format_5_frame prof n flags ka ps cid wps topic payload : n < VMAX ->
  bit flags 0 = false -> ka < 65536 -> props_good CONNECT_PROPS ps -> len cid <= 65535 -> utf8_valid cid = true ->
  bit flags 2 = true -> (flags / 8) mod 4 < 3 -> props_good WILL_PROPS wps ->
  len topic <= 65535 -> utf8_valid topic = true -> name_is_invalid topic = false ->
  pget wps PayloadFormatIndicator = Some (VN 1) -> len payload <= 65535 -> utf8_valid payload = false ->
  forall t rest, F5.dec_async prof t (16 :: write_var_int n ++ concat (protocol_enc V500)
      ++ flags :: be16 ka ++ concat (props_enc CONNECT_PROPS ps) ++ be16 (len cid mod 65536) ++ cid
      ++ concat (props_enc WILL_PROPS wps) ++ be16 (len topic mod 65536) ++ topic
      ++ be16 (len payload mod 65536) ++ payload ++ rest)
    = RErr InvalidPayloadFormat.
Proof.
  intros Hn Hb Hka Hps Hl Hv Hw Hq Hwps Hlt Hvt Hi Hf Hlp Hvp t rest. apply connect_will_frame5; try assumption.
  apply C20_will_payload_format_5; assumption.
Qed.

Theorem C20_connect_protocol_5_frame prof n name lvl : n < VMAX -> len name <= 65535 ->
  ~ protocol_known name lvl -> utf8_valid name = true ->
  forall t rest, F5.dec_async prof t (16 :: write_var_int n ++ be16 (len name) ++ name ++ lvl :: rest)
                 = RErr (InvalidProtocol name lvl).
Proof.
  intros Hn Hl Hk Hv t rest. rewrite (frame5 prof 16 n _ t _ Hn (connect_header n)). unfold body_decode_async.
  cbn [h_typ V3.mk_header]. unfold connect_decode.
  err_by ltac:(apply C20_protocol_decode; assumption).
Qed.

Theorem C20_connect_protocol_not_utf8_5_frame prof n name lvl : n < VMAX -> len name <= 65535 ->
  ~ protocol_known name lvl -> utf8_valid name = false ->
  forall t rest, F5.dec_async prof t (16 :: write_var_int n ++ be16 (len name) ++ name ++ lvl :: rest)
                 = RErr InvalidString.
Proof.
  intros Hn Hl Hk Hv t rest. rewrite (frame5 prof 16 n _ t _ Hn (connect_header n)). unfold body_decode_async.
  cbn [h_typ V3.mk_header]. unfold connect_decode.
  err_by ltac:(apply C20_protocol_decode_not_utf8; assumption).
Qed.

(* MQTT 3.1 / 3.1.1 name and level on a v5 decoder *)
Theorem C20_connect_other_family_5_frame prof n pr : n < VMAX -> pr <> V500 ->
  forall t rest, F5.dec_async prof t (16 :: write_var_int n ++ concat (protocol_enc pr) ++ rest)
                 = RErr (UnexpectedProtocol pr).
Proof.
  intros Hn Hp t rest. rewrite (frame5 prof 16 n _ t _ Hn (connect_header n)). unfold body_decode_async.
  cbn [h_typ V3.mk_header]. unfold connect_decode.
  ok_by ltac:(apply V3RT.protocol_rt). err_by ltac:(apply C20_unexpected_protocol_5; exact Hp).
Qed.

(* three front-ends *)
Theorem C20_connect_reserved_flag_5_all prof flags x : bit flags 0 = true ->
  let body := concat (protocol_enc V500) ++ flags :: x in
  len body < VMAX -> classified5 prof (16 :: write_var_int (len body) ++ body) (InvalidConnectFlags flags).
Proof.
  intros Hb body Hn. apply classify5; [exact Hn|reflexivity|]. intros t sfx.
  unfold body. rewrite <- !app_assoc. cbn [app]. apply C20_connect_reserved_flag_5_frame; assumption.
Qed.

Theorem C20_connect_will_qos_without_will_5_all prof flags ka ps cid x :
  bit flags 0 = false -> ka < 65536 -> props_good CONNECT_PROPS ps -> len cid <= 65535 -> utf8_valid cid = true ->
  bit flags 2 = false -> (flags / 8) mod 4 <> 0 ->
  let body := concat (protocol_enc V500) ++ flags :: be16 ka ++ concat (props_enc CONNECT_PROPS ps)
              ++ be16 (len cid mod 65536) ++ cid ++ x in
  len body < VMAX -> classified5 prof (16 :: write_var_int (len body) ++ body) (InvalidConnectFlags flags).
Proof.
  intros Hb Hka Hps Hl Hv Hw Hq body Hn. apply classify5; [exact Hn|reflexivity|]. intros t sfx.
  unfold body. rewrite <- !app_assoc. cbn [app]. rewrite <- !app_assoc.
  apply C20_connect_will_qos_without_will_5_frame; assumption.
Qed.

Theorem C20_connect_protocol_5_all prof name lvl x : len name <= 65535 ->
  ~ protocol_known name lvl -> utf8_valid name = true ->
  let body := be16 (len name) ++ name ++ lvl :: x in
  len body < VMAX -> classified5 prof (16 :: write_var_int (len body) ++ body) (InvalidProtocol name lvl).
Proof.
  intros Hl Hk Hv body Hn. apply classify5; [exact Hn|reflexivity|]. intros t sfx.
  unfold body. rewrite <- !app_assoc. cbn [app]. apply C20_connect_protocol_5_frame; assumption.
Qed.

Theorem C20_connect_other_family_5_all prof pr x : pr <> V500 ->
  let body := concat (protocol_enc pr) ++ x in
  len body < VMAX -> classified5 prof (16 :: write_var_int (len body) ++ body) (UnexpectedProtocol pr).
Proof.
  intros Hp body Hn. apply classify5; [exact Hn|reflexivity|]. intros t sfx.
  unfold body. rewrite <- !app_assoc. apply C20_connect_other_family_5_frame; assumption.
Qed.

Theorem C20_connect_client_id_not_utf8_5_all prof flags ka ps cid x :
  bit flags 0 = false -> ka < 65536 -> props_good CONNECT_PROPS ps -> len cid <= 65535 -> utf8_valid cid = false ->
  let body := concat (protocol_enc V500) ++ flags :: be16 ka ++ concat (props_enc CONNECT_PROPS ps)
              ++ be16 (len cid mod 65536) ++ cid ++ x in
  len body < VMAX -> classified5 prof (16 :: write_var_int (len body) ++ body) InvalidString.
Proof.
  intros Hb Hka Hps Hl Hv body Hn. apply classify5; [exact Hn|reflexivity|]. intros t sfx.
  unfold body. rewrite <- !app_assoc. cbn [app]. rewrite <- !app_assoc.
  apply C20_connect_client_id_not_utf8_5_frame; assumption.
Qed.

Theorem C20_connect_will_topic_5_all prof flags ka ps cid wps topic x :
  bit flags 0 = false -> ka < 65536 -> props_good CONNECT_PROPS ps -> len cid <= 65535 -> utf8_valid cid = true ->
  bit flags 2 = true -> (flags / 8) mod 4 < 3 -> props_good WILL_PROPS wps ->
  len topic <= 65535 -> utf8_valid topic = true -> name_is_invalid topic = true ->
  let body := concat (protocol_enc V500) ++ flags :: be16 ka ++ concat (props_enc CONNECT_PROPS ps)
              ++ be16 (len cid mod 65536) ++ cid
              ++ concat (props_enc WILL_PROPS wps) ++ be16 (len topic mod 65536) ++ topic ++ x in
  len body < VMAX -> classified5 prof (16 :: write_var_int (len body) ++ body) (InvalidTopicName topic).
Proof.
  intros Hb Hka Hps Hl Hv Hw Hq Hwps Hlt Hvt Hi body Hn. apply classify5; [exact Hn|reflexivity|]. intros t sfx.
  unfold body. rewrite <- !app_assoc. cbn [app]. rewrite <- !app_assoc.
  apply C20_connect_will_topic_5_frame; assumption.
Qed.

Theorem C20_connect_will_payload_format_5_all prof flags ka ps cid wps topic payload x :
  bit flags 0 = false -> ka < 65536 -> props_good CONNECT_PROPS ps -> len cid <= 65535 -> utf8_valid cid = true ->
  bit flags 2 = true -> (flags / 8) mod 4 < 3 -> props_good WILL_PROPS wps ->
  len topic <= 65535 -> utf8_valid topic = true -> name_is_invalid topic = false ->
  pget wps PayloadFormatIndicator = Some (VN 1) -> len payload <= 65535 -> utf8_valid payload = false ->
  let body := concat (protocol_enc V500) ++ flags :: be16 ka ++ concat (props_enc CONNECT_PROPS ps)
              ++ be16 (len cid mod 65536) ++ cid
              ++ concat (props_enc WILL_PROPS wps) ++ be16 (len topic mod 65536) ++ topic
              ++ be16 (len payload mod 65536) ++ payload ++ x in
  len body < VMAX -> classified5 prof (16 :: write_var_int (len body) ++ body) InvalidPayloadFormat.
Proof.
  intros Hb Hka Hps Hl Hv Hw Hq Hwps Hlt Hvt Hi Hf Hlp Hvp body Hn.
  apply classify5; [exact Hn|reflexivity|]. intros t sfx.
  unfold body. rewrite <- !app_assoc. cbn [app]. rewrite <- !app_assoc.
  apply C20_connect_will_payload_format_5_frame; assumption.
Qed.

(* ------------------------------------------------------------------------------------ *)
(* (e) SUBSCRIBE / UNSUBSCRIBE: the k-th topic after k valid ones; the empty list       *)
(* ------------------------------------------------------------------------------------ *)
Definition topic_ok5 (x : tfilter * subopts) : bool := let '(f, o) := x in filter_ok f && I5.subopts_inv o.

Definition sub_item5 (x : tfilter * subopts) : bytes :=
  be16 (len (ftext (fst x)) mod 65536) ++ ftext (fst x) ++ [subopts_to_u8 (snd x)].

Lemma sub_enc5_cons tf o ts : concat (sub_enc5 ((tf, o) :: ts)) = sub_item5 (tf, o) ++ concat (sub_enc5 ts).
Proof.
  unfold sub_enc5, sub_item5. cbn [flat_map fst snd]. rewrite concat_app. cbn [concat].
  rewrite app_nil_r, <- !app_assoc. reflexivity.
Qed.

Lemma subscribe_loop_step5 prof f rl acc tf o t d : filter_ok tf = true -> I5.subopts_inv o = true ->
  3 + len (ftext tf) <= rl ->
  subscribe_loop prof (S f) rl acc t (sub_item5 (tf, o) ++ d)
  = subscribe_loop prof f (rl - (3 + len (ftext tf))) ((tf, o) :: acc) t d.
Proof.
  intros Hf Ho Hl. cbn [subscribe_loop]. destruct (N.eqb_spec rl 0) as [E|_]; [lia|].
  unfold sub_item5. cbn [fst snd]. rewrite <- !app_assoc. cbn [app].
  ok_by ltac:(apply (V5RT.filter_read_ok filter_profile_indep); exact Hf).
  ok_by ltac:(apply read_u8_cons).
  rewrite (subopts_rt o Ho). cbn [lift_outcome]. rewrite bind_ret.
  ok_by ltac:(apply checked_sub_ok; lia). reflexivity.
Qed.

Lemma subscribe_loop_skip5 prof t d : forall topics fuel rl acc,
  forallb topic_ok5 topics = true -> topics_len5 topics <= rl -> (length topics <= fuel)%nat ->
  exists acc', subscribe_loop prof fuel rl acc t (concat (sub_enc5 topics) ++ d)
               = subscribe_loop prof (fuel - length topics) (rl - topics_len5 topics) acc' t d.
Proof.
  induction topics as [|[tf o] topics IH]; intros fuel rl acc Hok Hl Hf.
  - exists acc. cbn [sub_enc5 flat_map concat app length]. change (topics_len5 []) with 0.
    rewrite N.sub_0_r, Nat.sub_0_r. reflexivity.
  - cbn [forallb topic_ok5] in Hok. apply andb_true_iff in Hok as [Hx Hok]. apply andb_true_iff in Hx as [Hfo Ho].
    rewrite topics_len5_cons in *. rewrite sub_enc5_cons, <- app_assoc.
    destruct fuel as [|f]; [cbn [length] in Hf; lia|].
    rewrite subscribe_loop_step5 by (try assumption; lia).
    destruct (IH f (rl - (3 + len (ftext tf))) ((tf, o) :: acc) Hok) as [acc' E]; [lia|cbn [length] in Hf; lia|].
    exists acc'. rewrite E. cbn [length Nat.sub]. f_equal. lia.
Qed.

Lemma subscribe_loop_bad_filter5 prof f rl acc t d e : rl <> 0 -> V3.filter_read prof t d = RErr e ->
  subscribe_loop prof (S f) rl acc t d = RErr e.
Proof.
  intros Hrl He. cbn [subscribe_loop]. destruct (N.eqb_spec rl 0) as [E|_]; [contradiction|].
  apply bind_err. exact He.
Qed.

Lemma subscribe_loop_bad_opts5 prof f rl acc tf b t r : rl <> 0 -> filter_ok tf = true ->
  64 <= b \/ b mod 4 = 3 \/ (b / 16) mod 4 = 3 ->
  subscribe_loop prof (S f) rl acc t (be16 (len (ftext tf) mod 65536) ++ ftext tf ++ b :: r)
  = RErr (InvalidSubscriptionOption b).
Proof.
  intros Hrl Hf Hb. cbn [subscribe_loop]. destruct (N.eqb_spec rl 0) as [E|_]; [contradiction|].
  ok_by ltac:(apply (V5RT.filter_read_ok filter_profile_indep); exact Hf).
  ok_by ltac:(apply read_u8_cons).
  rewrite (C20_subopts b Hb). reflexivity.
Qed.

(* SUBSCRIBE frame: header, packet identifier, valid properties, k valid entries, then `d` *)
Lemma subscribe_frame_kth5 prof n pid ps topics d e t : n < VMAX -> pid_ok pid = true ->
  props_good SUBSCRIBE_PROPS ps -> forallb topic_ok5 topics = true ->
  2 + clen (props_enc SUBSCRIBE_PROPS ps) + topics_len5 topics < n ->
  (forall f rl acc, rl <> 0 -> subscribe_loop prof (S f) rl acc t d = RErr e) ->
  F5.dec_async prof t (130 :: write_var_int n ++ be16 pid ++ concat (props_enc SUBSCRIBE_PROPS ps)
                         ++ concat (sub_enc5 topics) ++ d) = RErr e.
Proof.
  intros Hn Hp Hps Hok Hl Hbad. destruct (props_good_len _ _ Hps) as (pl & Hpl & Hcl).
  rewrite (frame5 prof 130 n (V3.mk_header PSubscribe n) t _ Hn eq_refl). unfold body_decode_async.
  cbn [h_typ V3.mk_header]. unfold subscribe_decode. cbn [h_typ h_rl V3.mk_header].
  ok_by ltac:(apply pid_read_be16; exact Hp).
  ok_by ltac:(apply props_good_rt; exact Hps).
  rewrite Hpl. cbn [lift_outcome]. rewrite ?V3RT.bind_assoc, bind_ret.
  ok_by ltac:(apply checked_sub_ok; lia).
  destruct (N.eqb_spec (n - (2 + pl)) 0) as [E|_]; [lia|].
  apply bind_err. cbv beta. apply bind_err.
  destruct (subscribe_loop_skip5 prof t d topics (S (length (concat (sub_enc5 topics) ++ d))) (n - (2 + pl)) [] Hok)
    as [acc' E]; [lia| |].
  { rewrite app_length. pose proof (sub_enc5_count topics). lia. }
  rewrite E.
  assert (Hfu : exists f, (S (length (concat (sub_enc5 topics) ++ d)) - length topics)%nat = S f).
  { rewrite app_length. pose proof (sub_enc5_count topics).
    exists (length (concat (sub_enc5 topics)) + length d - length topics)%nat. lia. }
  destruct Hfu as [f ->]. apply Hbad. lia.
Qed.

Theorem C20_subscribe_options_5 prof n pid ps topics tf b : n < VMAX -> pid_ok pid = true ->
  props_good SUBSCRIBE_PROPS ps -> forallb topic_ok5 topics = true ->
  2 + clen (props_enc SUBSCRIBE_PROPS ps) + topics_len5 topics < n ->
  filter_ok tf = true -> 64 <= b \/ b mod 4 = 3 \/ (b / 16) mod 4 = 3 ->
  forall t rest, F5.dec_async prof t (130 :: write_var_int n ++ be16 pid ++ concat (props_enc SUBSCRIBE_PROPS ps)
      ++ concat (sub_enc5 topics) ++ be16 (len (ftext tf) mod 65536) ++ ftext tf ++ b :: rest)
    = RErr (InvalidSubscriptionOption b).
Proof.
  intros Hn Hp Hps Hok Hl Hf Hb t rest. apply subscribe_frame_kth5; try assumption.
  intros f rl acc Hrl. apply subscribe_loop_bad_opts5; assumption.
Qed.

Theorem C20_subscribe_filter_5 prof n pid ps topics s : n < VMAX -> pid_ok pid = true ->
  props_good SUBSCRIBE_PROPS ps -> forallb topic_ok5 topics = true ->
  2 + clen (props_enc SUBSCRIBE_PROPS ps) + topics_len5 topics < n ->
  len s <= 65535 -> utf8_valid s = true -> Spec.topic_filter_ok s = false ->
  forall t rest, F5.dec_async prof t (130 :: write_var_int n ++ be16 pid ++ concat (props_enc SUBSCRIBE_PROPS ps)
      ++ concat (sub_enc5 topics) ++ be16 (len s mod 65536) ++ s ++ rest) = RErr (InvalidTopicFilter s).
Proof.
  intros Hn Hp Hps Hok Hl Hs Hv Hf t rest. apply subscribe_frame_kth5; try assumption.
  intros f rl acc Hrl. apply subscribe_loop_bad_filter5; [exact Hrl|]. apply C20_filter_read; assumption.
Qed.

Theorem C20_subscribe_filter_not_utf8_5 prof n pid ps topics s : n < VMAX -> pid_ok pid = true ->
  props_good SUBSCRIBE_PROPS ps -> forallb topic_ok5 topics = true ->
  2 + clen (props_enc SUBSCRIBE_PROPS ps) + topics_len5 topics < n ->
  len s <= 65535 -> utf8_valid s = false ->
  forall t rest, F5.dec_async prof t (130 :: write_var_int n ++ be16 pid ++ concat (props_enc SUBSCRIBE_PROPS ps)
      ++ concat (sub_enc5 topics) ++ be16 (len s mod 65536) ++ s ++ rest) = RErr InvalidString.
Proof.
  intros Hn Hp Hps Hok Hl Hs Hv t rest. apply subscribe_frame_kth5; try assumption.
  intros f rl acc Hrl. apply subscribe_loop_bad_filter5; [exact Hrl|].
  unfold V3.filter_read. apply bind_err. apply read_string_invalid_lp; assumption.
Qed.

Theorem C20_subscribe_empty_5 prof pid ps : pid_ok pid = true -> props_good SUBSCRIBE_PROPS ps ->
  2 + clen (props_enc SUBSCRIBE_PROPS ps) < VMAX ->
  forall t rest, F5.dec_async prof t (130 :: write_var_int (2 + clen (props_enc SUBSCRIBE_PROPS ps))
      ++ be16 pid ++ concat (props_enc SUBSCRIBE_PROPS ps) ++ rest) = RErr EmptySubscription.
Proof.
  intros Hp Hps Hn t rest. destruct (props_good_len _ _ Hps) as (pl & Hpl & Hcl). rewrite Hcl in *.
  rewrite (frame5 prof 130 _ (V3.mk_header PSubscribe (2 + pl)) t _ Hn eq_refl). unfold body_decode_async.
  cbn [h_typ V3.mk_header]. unfold subscribe_decode. cbn [h_typ h_rl V3.mk_header].
  ok_by ltac:(apply pid_read_be16; exact Hp).
  ok_by ltac:(apply props_good_rt; exact Hps).
  rewrite Hpl. cbn [lift_outcome]. rewrite ?V3RT.bind_assoc, bind_ret.
  ok_by ltac:(apply checked_sub_ok; lia).
  destruct (N.eqb_spec (2 + pl - (2 + pl)) 0) as [_|E]; [reflexivity|lia].
Qed.

(* -- UNSUBSCRIBE -- *)
Definition unsub_item5 (tf : tfilter) : bytes := be16 (len (ftext tf) mod 65536) ++ ftext tf.

Lemma unsub_enc5_cons tf ts : concat (unsub_enc5 (tf :: ts)) = unsub_item5 tf ++ concat (unsub_enc5 ts).
Proof.
  unfold unsub_enc5, unsub_item5. cbn [flat_map]. rewrite concat_app. cbn [concat].
  rewrite app_nil_r, <- !app_assoc. reflexivity.
Qed.

Lemma unsubscribe_loop_step5 prof f rl acc tf t d : filter_ok tf = true -> 2 + len (ftext tf) <= rl ->
  unsubscribe_loop prof (S f) rl acc t (unsub_item5 tf ++ d)
  = unsubscribe_loop prof f (rl - (2 + len (ftext tf))) (tf :: acc) t d.
Proof.
  intros Hf Hl. cbn [unsubscribe_loop]. destruct (N.eqb_spec rl 0) as [E|_]; [lia|].
  unfold unsub_item5. rewrite <- !app_assoc.
  ok_by ltac:(apply (V5RT.filter_read_ok filter_profile_indep); exact Hf).
  ok_by ltac:(apply checked_sub_ok; lia). reflexivity.
Qed.

Lemma unsubscribe_loop_skip5 prof t d : forall topics fuel rl acc,
  forallb filter_ok topics = true -> utopics_len5 topics <= rl -> (length topics <= fuel)%nat ->
  exists acc', unsubscribe_loop prof fuel rl acc t (concat (unsub_enc5 topics) ++ d)
               = unsubscribe_loop prof (fuel - length topics) (rl - utopics_len5 topics) acc' t d.
Proof.
  induction topics as [|tf topics IH]; intros fuel rl acc Hok Hl Hf.
  - exists acc. cbn [unsub_enc5 flat_map concat app length]. change (utopics_len5 []) with 0.
    rewrite N.sub_0_r, Nat.sub_0_r. reflexivity.
  - cbn [forallb] in Hok. apply andb_true_iff in Hok as [Hfo Hok].
    rewrite utopics_len5_cons in *. rewrite unsub_enc5_cons, <- app_assoc.
    destruct fuel as [|f]; [cbn [length] in Hf; lia|].
    rewrite unsubscribe_loop_step5 by (try assumption; lia).
    destruct (IH f (rl - (2 + len (ftext tf))) (tf :: acc) Hok) as [acc' E]; [lia|cbn [length] in Hf; lia|].
    exists acc'. rewrite E. cbn [length Nat.sub]. f_equal. lia.
Qed.

Lemma unsubscribe_loop_bad_filter5 prof f rl acc t d e : rl <> 0 -> V3.filter_read prof t d = RErr e ->
  unsubscribe_loop prof (S f) rl acc t d = RErr e.
Proof.
  intros Hrl He. cbn [unsubscribe_loop]. destruct (N.eqb_spec rl 0) as [E|_]; [contradiction|].
  apply bind_err. exact He.
Qed.

Lemma unsubscribe_frame_kth5 prof n pid ps topics d e t : n < VMAX -> pid_ok pid = true ->
  props_good UNSUBSCRIBE_PROPS ps -> forallb filter_ok topics = true ->
  2 + clen (props_enc UNSUBSCRIBE_PROPS ps) + utopics_len5 topics < n ->
  V3.filter_read prof t d = RErr e ->
  F5.dec_async prof t (162 :: write_var_int n ++ be16 pid ++ concat (props_enc UNSUBSCRIBE_PROPS ps)
                         ++ concat (unsub_enc5 topics) ++ d) = RErr e.
Proof.
  intros Hn Hp Hps Hok Hl Hbad.
  assert (Hcl : clen (props_enc UNSUBSCRIBE_PROPS ps)
                = props_body_len UNSUBSCRIBE_PROPS ps + width (props_body_len UNSUBSCRIBE_PROPS ps)).
  { destruct Hps as (_ & Hi & _ & Hb). apply (props_enc_len _ _ Hi Hb). }
  rewrite (frame5 prof 162 n (V3.mk_header PUnsubscribe n) t _ Hn eq_refl). unfold body_decode_async.
  cbn [h_typ V3.mk_header]. unfold unsubscribe_decode. cbn [h_typ h_rl V3.mk_header].
  ok_by ltac:(apply pid_read_be16; exact Hp).
  ok_by ltac:(apply props_good_rt_full; exact Hps). cbv iota.
  ok_by ltac:(apply checked_sub_ok; lia).
  match goal with |- context [?a =? 0] => destruct (N.eqb_spec a 0) as [E|_]; [lia|] end.
  apply bind_err. cbv beta. apply bind_err.
  match goal with |- unsubscribe_loop _ _ ?rl0 _ _ _ = _ =>
    destruct (unsubscribe_loop_skip5 prof t d topics (S (length (concat (unsub_enc5 topics) ++ d))) rl0 [] Hok)
      as [acc' E]; [lia| |] end.
  { rewrite app_length. pose proof (unsub_enc5_count topics). lia. }
  rewrite E.
  assert (Hfu : exists f, (S (length (concat (unsub_enc5 topics) ++ d)) - length topics)%nat = S f).
  { rewrite app_length. pose proof (unsub_enc5_count topics).
    exists (length (concat (unsub_enc5 topics)) + length d - length topics)%nat. lia. }
  destruct Hfu as [f ->]. apply unsubscribe_loop_bad_filter5; [lia|exact Hbad].
Qed.

Theorem C20_unsubscribe_filter_5 prof n pid ps topics s : n < VMAX -> pid_ok pid = true ->
  props_good UNSUBSCRIBE_PROPS ps -> forallb filter_ok topics = true ->
  2 + clen (props_enc UNSUBSCRIBE_PROPS ps) + utopics_len5 topics < n ->
  len s <= 65535 -> utf8_valid s = true -> Spec.topic_filter_ok s = false ->
  forall t rest, F5.dec_async prof t (162 :: write_var_int n ++ be16 pid ++ concat (props_enc UNSUBSCRIBE_PROPS ps)
      ++ concat (unsub_enc5 topics) ++ be16 (len s mod 65536) ++ s ++ rest) = RErr (InvalidTopicFilter s).
Proof.
  intros Hn Hp Hps Hok Hl Hs Hv Hf t rest. apply unsubscribe_frame_kth5; try assumption.
  apply C20_filter_read; assumption.
Qed.

Theorem C20_unsubscribe_filter_not_utf8_5 prof n pid ps topics s : n < VMAX -> pid_ok pid = true ->
  props_good UNSUBSCRIBE_PROPS ps -> forallb filter_ok topics = true ->
  2 + clen (props_enc UNSUBSCRIBE_PROPS ps) + utopics_len5 topics < n ->
  len s <= 65535 -> utf8_valid s = false ->
  forall t rest, F5.dec_async prof t (162 :: write_var_int n ++ be16 pid ++ concat (props_enc UNSUBSCRIBE_PROPS ps)
      ++ concat (unsub_enc5 topics) ++ be16 (len s mod 65536) ++ s ++ rest) = RErr InvalidString.
Proof.
  intros Hn Hp Hps Hok Hl Hs Hv t rest. apply unsubscribe_frame_kth5; try assumption.
  unfold V3.filter_read. apply bind_err. apply read_string_invalid_lp; assumption.
Qed.

Theorem C20_unsubscribe_empty_5 prof pid ps : pid_ok pid = true -> props_good UNSUBSCRIBE_PROPS ps ->
  2 + clen (props_enc UNSUBSCRIBE_PROPS ps) < VMAX ->
  forall t rest, F5.dec_async prof t (162 :: write_var_int (2 + clen (props_enc UNSUBSCRIBE_PROPS ps))
      ++ be16 pid ++ concat (props_enc UNSUBSCRIBE_PROPS ps) ++ rest) = RErr EmptySubscription.
Proof.
  intros Hp Hps Hn t rest.
  assert (Hcl : clen (props_enc UNSUBSCRIBE_PROPS ps)
                = props_body_len UNSUBSCRIBE_PROPS ps + width (props_body_len UNSUBSCRIBE_PROPS ps)).
  { destruct Hps as (_ & Hi & _ & Hb). apply (props_enc_len _ _ Hi Hb). }
  rewrite (frame5 prof 162 _ (V3.mk_header PUnsubscribe _) t _ Hn eq_refl). unfold body_decode_async.
  cbn [h_typ V3.mk_header]. unfold unsubscribe_decode. cbn [h_typ h_rl V3.mk_header].
  ok_by ltac:(apply pid_read_be16; exact Hp).
  ok_by ltac:(apply props_good_rt_full; exact Hps). cbv iota.
  ok_by ltac:(apply checked_sub_ok; lia).
  match goal with |- context [?a =? 0] => destruct (N.eqb_spec a 0) as [_|E]; [reflexivity|lia] end.
Qed.

(* -- three front-ends -- *)
Lemma len_concat_clen (cs : list bytes) : len (concat cs) = clen cs.
Proof. reflexivity. Qed.

Theorem C20_subscribe_options_5_all prof pid ps topics tf b x : pid_ok pid = true ->
  props_good SUBSCRIBE_PROPS ps -> forallb topic_ok5 topics = true ->
  filter_ok tf = true -> 64 <= b \/ b mod 4 = 3 \/ (b / 16) mod 4 = 3 ->
  let body := be16 pid ++ concat (props_enc SUBSCRIBE_PROPS ps) ++ concat (sub_enc5 topics)
              ++ be16 (len (ftext tf) mod 65536) ++ ftext tf ++ b :: x in
  len body < VMAX -> classified5 prof (130 :: write_var_int (len body) ++ body) (InvalidSubscriptionOption b).
Proof.
  intros Hp Hps Hok Hf Hb body Hn. apply classify5; [exact Hn|reflexivity|]. intros t sfx.
  unfold body. rewrite <- !app_assoc. cbn [app].
  apply C20_subscribe_options_5; try assumption.
  unfold body. rewrite !len_app, len_be16, !len_concat_clen, sub_enc5_len, len_cons. lia.
Qed.

Theorem C20_subscribe_filter_5_all prof pid ps topics s x : pid_ok pid = true ->
  props_good SUBSCRIBE_PROPS ps -> forallb topic_ok5 topics = true ->
  len s <= 65535 -> utf8_valid s = true -> Spec.topic_filter_ok s = false ->
  let body := be16 pid ++ concat (props_enc SUBSCRIBE_PROPS ps) ++ concat (sub_enc5 topics)
              ++ be16 (len s mod 65536) ++ s ++ x in
  len body < VMAX -> classified5 prof (130 :: write_var_int (len body) ++ body) (InvalidTopicFilter s).
Proof.
  intros Hp Hps Hok Hs Hv Hf body Hn. apply classify5; [exact Hn|reflexivity|]. intros t sfx.
  unfold body. rewrite <- !app_assoc.
  apply C20_subscribe_filter_5; try assumption.
  unfold body. rewrite !len_app, !len_be16, !len_concat_clen, sub_enc5_len. lia.
Qed.

Theorem C20_subscribe_empty_5_all prof pid ps : pid_ok pid = true -> props_good SUBSCRIBE_PROPS ps ->
  let body := be16 pid ++ concat (props_enc SUBSCRIBE_PROPS ps) in
  len body < VMAX -> classified5 prof (130 :: write_var_int (len body) ++ body) EmptySubscription.
Proof.
  intros Hp Hps body Hn.
  assert (El : len body = 2 + clen (props_enc SUBSCRIBE_PROPS ps)).
  { unfold body. rewrite len_app, len_be16, len_concat_clen. reflexivity. }
  apply classify5; [exact Hn|reflexivity|]. intros t sfx. unfold body at 2. rewrite <- !app_assoc. rewrite El.
  apply C20_subscribe_empty_5; try assumption. rewrite <- El. exact Hn.
Qed.

Theorem C20_unsubscribe_filter_5_all prof pid ps topics s x : pid_ok pid = true ->
  props_good UNSUBSCRIBE_PROPS ps -> forallb filter_ok topics = true ->
  len s <= 65535 -> utf8_valid s = true -> Spec.topic_filter_ok s = false ->
  let body := be16 pid ++ concat (props_enc UNSUBSCRIBE_PROPS ps) ++ concat (unsub_enc5 topics)
              ++ be16 (len s mod 65536) ++ s ++ x in
  len body < VMAX -> classified5 prof (162 :: write_var_int (len body) ++ body) (InvalidTopicFilter s).
Proof.
  intros Hp Hps Hok Hs Hv Hf body Hn. apply classify5; [exact Hn|reflexivity|]. intros t sfx.
  unfold body. rewrite <- !app_assoc.
  apply C20_unsubscribe_filter_5; try assumption.
  unfold body. rewrite !len_app, !len_be16, !len_concat_clen, unsub_enc5_len. lia.
Qed.

Theorem C20_unsubscribe_empty_5_all prof pid ps : pid_ok pid = true -> props_good UNSUBSCRIBE_PROPS ps ->
  let body := be16 pid ++ concat (props_enc UNSUBSCRIBE_PROPS ps) in
  len body < VMAX -> classified5 prof (162 :: write_var_int (len body) ++ body) EmptySubscription.
Proof.
  intros Hp Hps body Hn.
  assert (El : len body = 2 + clen (props_enc UNSUBSCRIBE_PROPS ps)).
  { unfold body. rewrite len_app, len_be16, len_concat_clen. reflexivity. }
  apply classify5; [exact Hn|reflexivity|]. intros t sfx. unfold body at 2. rewrite <- !app_assoc. rewrite El.
  apply C20_unsubscribe_empty_5; try assumption. rewrite <- El. exact Hn.
Qed.

(* ------------------------------------------------------------------------------------ *)
(* (g) PUBLISH: non-UTF-8 topic; wildcard topic; payload format                          *)
(* ------------------------------------------------------------------------------------ *)
Theorem C20_publish_topic_not_utf8_5 prof cb n h s : n < VMAX -> header_new_with cb n = Ok h ->
  h_typ h = PPublish -> len s <= 65535 -> utf8_valid s = false ->
  forall t rest, F5.dec_async prof t (cb :: write_var_int n ++ be16 (len s mod 65536) ++ s ++ rest) = RErr InvalidString.
Proof.
  intros Hn Hh Ht Hl Hv t rest. rewrite (frame5 prof cb n h t _ Hn Hh). unfold body_decode_async.
  rewrite Ht. unfold publish_decode. err_by ltac:(apply read_string_invalid_lp; assumption).
Qed.

Theorem C20_publish_topic_not_utf8_5_all prof cb s x : cb / 16 = 3 -> (cb mod 16 / 2) mod 4 <> 3 ->
  len s <= 65535 -> utf8_valid s = false ->
  let body := be16 (len s mod 65536) ++ s ++ x in
  len body < VMAX -> classified5 prof (cb :: write_var_int (len body) ++ body) InvalidString.
Proof.
  intros Hi Hq Hl Hv body Hn. destruct (publish_header cb (len body) Hi Hq) as (h & Hh & Ht & _).
  apply classify5; [exact Hn|reflexivity|]. intros t sfx. unfold body. rewrite <- !app_assoc.
  apply (C20_publish_topic_not_utf8_5 prof cb _ h s Hn Hh Ht Hl Hv).
Qed.

(* what publish_decode does after topic and packet identifier, on what is left of the remaining length *)
Definition publish5_tail (h : header) (qp : qospid) (topic : bytes) (rl : N) : reader publish :=
  props <- decode_props (CtxPacket (h_typ h)) PUBLISH_PROPS ;;
  pl <- lift_outcome (props_len PUBLISH_PROPS props) ;;
  rl <- checked_sub rl pl ;;
  payload <-
    (if 0 <? rl then
       data <- read_exact rl ;;
       if (match pget props PayloadFormatIndicator with Some (VN 1) => true | _ => false end)
          && negb (utf8_valid data)
       then fail InvalidPayloadFormat else ret data
     else ret []) ;;
  topic' <- lift_outcome (name_try topic) ;;
  ret {| p_dup := h_dup h; p_retain := h_retain h; p_qospid := qp; p_topic := topic';
         p_props := props; p_payload := payload |}.

Lemma publish5_prefix h topic qp t d : h_qos h = qospid_qos qp -> qospid_ok qp = true ->
  len topic <= 65535 -> utf8_valid topic = true -> 2 + len topic + V3.qospid_len qp <= h_rl h ->
  publish_decode h t (be16 (len topic mod 65536) ++ topic ++ concat (V3.qospid_enc qp) ++ d)
  = publish5_tail h qp topic (h_rl h - (2 + len topic) - V3.qospid_len qp) t d.
Proof.
  intros Hq Hqp Hl Hv Hrl. unfold publish_decode. rewrite Hq.
  ok_by ltac:(apply read_string_lp; assumption).
  ok_by ltac:(apply checked_sub_ok; lia).
  destruct qp as [|pid|pid]; cbn [qospid_qos V3.qospid_enc V3.qospid_len qospid_ok concat app] in *.
  - change (0 =? 0) with true. cbv iota. rewrite bind_ret. cbv beta iota. rewrite N.sub_0_r. reflexivity.
  - change (1 =? 0) with false. change (1 =? 1) with true. cbv iota.
    ok_by ltac:(apply checked_sub_ok; lia).
    rewrite app_nil_r. ok_by ltac:(apply pid_read_be16; exact Hqp).
    rewrite bind_ret. cbv beta iota. reflexivity.
  - change (2 =? 0) with false. change (2 =? 1) with false. cbv iota.
    ok_by ltac:(apply checked_sub_ok; lia).
    rewrite app_nil_r. ok_by ltac:(apply pid_read_be16; exact Hqp).
    rewrite bind_ret. cbv beta iota. reflexivity.
Qed.

(* payload flagged as UTF-8 but not UTF-8: found after the payload is read, before the topic check *)
Lemma publish5_tail_payload_format h qp topic ps payload rl t r : props_good PUBLISH_PROPS ps ->
  pget ps PayloadFormatIndicator = Some (VN 1) -> utf8_valid payload = false ->
  rl = clen (props_enc PUBLISH_PROPS ps) + len payload ->
  publish5_tail h qp topic rl t (concat (props_enc PUBLISH_PROPS ps) ++ payload ++ r) = RErr InvalidPayloadFormat.
Proof.
  intros Hps Hf Hv Hrl. destruct (props_good_len _ _ Hps) as (pl & Hpl & Hcl). rewrite Hcl in Hrl.
  unfold publish5_tail.
  ok_by ltac:(apply props_good_rt; exact Hps).
  rewrite Hpl. cbn [lift_outcome]. rewrite ?V3RT.bind_assoc, bind_ret.
  ok_by ltac:(apply checked_sub_ok; lia).
  replace (rl - pl) with (len payload) by lia.
  destruct (N.ltb_spec 0 (len payload)) as [Hp|Hp].
  - ok_by ltac:(apply read_exact_app; reflexivity). rewrite Hf, Hv. reflexivity.
  - assert (payload = []) as -> by (apply len_zero_nil; lia). discriminate Hv.
Qed.

(* wildcard / NUL in the topic: validated LAST, after properties, payload and payload format *)
Lemma publish5_tail_topic h qp topic ps payload rl t r : props_good PUBLISH_PROPS ps ->
  (if payload_flagged ps then utf8_valid payload else true) = true ->
  name_is_invalid topic = true ->
  rl = clen (props_enc PUBLISH_PROPS ps) + len payload ->
  publish5_tail h qp topic rl t (concat (props_enc PUBLISH_PROPS ps) ++ payload ++ r) = RErr (InvalidTopicName topic).
Proof.
  intros Hps Hf Hi Hrl. destruct (props_good_len _ _ Hps) as (pl & Hpl & Hcl). rewrite Hcl in Hrl.
  unfold publish5_tail.
  ok_by ltac:(apply props_good_rt; exact Hps).
  rewrite Hpl. cbn [lift_outcome]. rewrite ?V3RT.bind_assoc, bind_ret.
  ok_by ltac:(apply checked_sub_ok; lia).
  replace (rl - pl) with (len payload) by lia. rewrite (name_try_err topic Hi).
  destruct (N.ltb_spec 0 (len payload)) as [Hp|Hp].
  - ok_by ltac:(apply read_exact_app; reflexivity). rewrite (flag_check_ok _ _ Hf).
    rewrite bind_ret. reflexivity.
  - rewrite bind_ret. reflexivity.
Qed.

Section PublishLate.
Variables (prof : profile) (cb : N) (topic : bytes) (qp : qospid) (ps : props) (payload : bytes).
Hypothesis Hi : cb / 16 = 3.
Hypothesis Hq : (cb mod 16 / 2) mod 4 = qospid_qos qp.
Hypothesis Hqp : qospid_ok qp = true.
Hypothesis Hl : len topic <= 65535.
Hypothesis Hv : utf8_valid topic = true.
Hypothesis Hps : props_good PUBLISH_PROPS ps.

Let body := be16 (len topic mod 65536) ++ topic ++ concat (V3.qospid_enc qp)
            ++ concat (props_enc PUBLISH_PROPS ps) ++ payload.

Lemma publish_late e :
  (forall h rl t r, rl = clen (props_enc PUBLISH_PROPS ps) + len payload ->
     publish5_tail h qp topic rl t (concat (props_enc PUBLISH_PROPS ps) ++ payload ++ r) = RErr e) ->
  is_io e = false -> len body < VMAX -> classified5 prof (cb :: write_var_int (len body) ++ body) e.
Proof.
  intros Htail He Hn.
  assert (Hq3 : (cb mod 16 / 2) mod 4 <> 3) by (rewrite Hq; destruct qp; cbn [qospid_qos]; lia).
  destruct (publish_header cb (len body) Hi Hq3) as (h & Hh & Ht & Hqh & Hrl).
  assert (Hlen : len body = 2 + len topic + V3.qospid_len qp + clen (props_enc PUBLISH_PROPS ps) + len payload).
  { unfold body. rewrite !len_app, len_be16, !len_concat_clen.
    destruct qp; cbn [V3.qospid_enc V3.qospid_len]; rewrite ?clen_cons, ?clen_nil, ?len_be16; lia. }
  apply classify5; [exact Hn|exact He|]. intros t sfx.
  rewrite (frame5 prof cb _ h t _ Hn Hh). unfold body_decode_async. rewrite Ht. apply bind_err.
  unfold body. rewrite <- !app_assoc.
  rewrite publish5_prefix; [|congruence|assumption|assumption|assumption|rewrite Hrl; lia].
  apply Htail. rewrite Hrl. lia.
Qed.

Theorem C20_publish_payload_format_5_all :
  pget ps PayloadFormatIndicator = Some (VN 1) -> utf8_valid payload = false -> len body < VMAX ->
  classified5 prof (cb :: write_var_int (len body) ++ body) InvalidPayloadFormat.
Proof.
  intros Hf Hvp. apply publish_late; [|reflexivity]. intros h rl t r Hrl.
  apply publish5_tail_payload_format; assumption.
Qed.

Theorem C20_publish_topic_5_all :
  (if payload_flagged ps then utf8_valid payload else true) = true -> name_is_invalid topic = true ->
  len body < VMAX -> classified5 prof (cb :: write_var_int (len body) ++ body) (InvalidTopicName topic).
Proof.
  intros Hf Hn. apply publish_late; [|reflexivity]. intros h rl t r Hrl.
  apply publish5_tail_topic; assumption.
Qed.
End PublishLate.

(* layer 1 form: through publish_decode *)
Theorem C20_publish_payload_format_5 h topic qp ps payload t r : h_qos h = qospid_qos qp -> qospid_ok qp = true ->
  len topic <= 65535 -> utf8_valid topic = true -> props_good PUBLISH_PROPS ps ->
  pget ps PayloadFormatIndicator = Some (VN 1) -> utf8_valid payload = false ->
  h_rl h = 2 + len topic + V3.qospid_len qp + clen (props_enc PUBLISH_PROPS ps) + len payload ->
  publish_decode h t (be16 (len topic mod 65536) ++ topic ++ concat (V3.qospid_enc qp)
                        ++ concat (props_enc PUBLISH_PROPS ps) ++ payload ++ r) = RErr InvalidPayloadFormat.
Proof.
  intros Hq Hqp Hl Hv Hps Hf Hvp Hrl. rewrite publish5_prefix by (try assumption; lia).
  apply publish5_tail_payload_format; try assumption. lia.
Qed.

(* ------------------------------------------------------------------------------------ *)
(* Remaining length too small for the mandatory fields (layer 1, decoder level)         *)
(* ------------------------------------------------------------------------------------ *)
Theorem C20_publish_short_topic_5 h topic t r : len topic <= 65535 -> utf8_valid topic = true ->
  h_rl h < 2 + len topic ->
  publish_decode h t (be16 (len topic mod 65536) ++ topic ++ r) = RErr InvalidRemainingLength.
Proof.
  intros Hl Hv Hrl. unfold publish_decode. ok_by ltac:(apply read_string_lp; assumption).
  err_by ltac:(apply C20_checked_sub; exact Hrl).
Qed.

Theorem C20_publish_short_pid_5 h topic t r : len topic <= 65535 -> utf8_valid topic = true ->
  h_qos h <> 0 -> 2 + len topic <= h_rl h < 2 + len topic + 2 ->
  publish_decode h t (be16 (len topic mod 65536) ++ topic ++ r) = RErr InvalidRemainingLength.
Proof.
  intros Hl Hv Hq Hrl. unfold publish_decode. ok_by ltac:(apply read_string_lp; assumption).
  ok_by ltac:(apply checked_sub_ok; lia).
  destruct (N.eqb_spec (h_qos h) 0) as [E|_]; [contradiction|].
  destruct (h_qos h =? 1); err_by ltac:(apply C20_checked_sub; lia).
Qed.

(* the properties are longer than what is left of the remaining length *)
Theorem C20_publish_short_props_5 h topic qp ps t r : h_qos h = qospid_qos qp -> qospid_ok qp = true ->
  len topic <= 65535 -> utf8_valid topic = true -> props_good PUBLISH_PROPS ps ->
  2 + len topic + V3.qospid_len qp <= h_rl h < 2 + len topic + V3.qospid_len qp + clen (props_enc PUBLISH_PROPS ps) ->
  publish_decode h t (be16 (len topic mod 65536) ++ topic ++ concat (V3.qospid_enc qp)
                        ++ concat (props_enc PUBLISH_PROPS ps) ++ r) = RErr InvalidRemainingLength.
Proof.
  intros Hq Hqp Hl Hv Hps Hrl. destruct (props_good_len _ _ Hps) as (pl & Hpl & Hcl). rewrite Hcl in Hrl.
  rewrite publish5_prefix by (try assumption; lia). unfold publish5_tail.
  ok_by ltac:(apply props_good_rt; exact Hps).
  rewrite Hpl. cbn [lift_outcome]. rewrite ?V3RT.bind_assoc, bind_ret.
  err_by ltac:(apply C20_checked_sub; lia).
Qed.

Theorem C20_subscribe_short_5 prof h pid ps t r : pid_ok pid = true -> props_good SUBSCRIBE_PROPS ps ->
  h_rl h < 2 + clen (props_enc SUBSCRIBE_PROPS ps) ->
  subscribe_decode prof h t (be16 pid ++ concat (props_enc SUBSCRIBE_PROPS ps) ++ r) = RErr InvalidRemainingLength.
Proof.
  intros Hp Hps Hrl. destruct (props_good_len _ _ Hps) as (pl & Hpl & Hcl). rewrite Hcl in Hrl.
  unfold subscribe_decode. ok_by ltac:(apply pid_read_be16; exact Hp).
  ok_by ltac:(apply props_good_rt; exact Hps).
  rewrite Hpl. cbn [lift_outcome]. rewrite ?V3RT.bind_assoc, bind_ret.
  err_by ltac:(apply C20_checked_sub; lia).
Qed.

Theorem C20_suback_short_5 table h pid ps t r : pid_ok pid = true -> props_good ACK_PROPS ps ->
  h_rl h < 2 + clen (props_enc ACK_PROPS ps) ->
  suback_decode table h t (be16 pid ++ concat (props_enc ACK_PROPS ps) ++ r) = RErr InvalidRemainingLength.
Proof.
  intros Hp Hps Hrl. destruct (props_good_len _ _ Hps) as (pl & Hpl & Hcl). rewrite Hcl in Hrl.
  unfold suback_decode. ok_by ltac:(apply pid_read_be16; exact Hp).
  ok_by ltac:(apply props_good_rt; exact Hps).
  rewrite Hpl. cbn [lift_outcome]. rewrite ?V3RT.bind_assoc, bind_ret.
  err_by ltac:(apply C20_checked_sub; lia).
Qed.

Theorem C20_unsubscribe_short_5 prof h pid ps t r : pid_ok pid = true -> props_good UNSUBSCRIBE_PROPS ps ->
  h_rl h < 2 + clen (props_enc UNSUBSCRIBE_PROPS ps) ->
  unsubscribe_decode prof h t (be16 pid ++ concat (props_enc UNSUBSCRIBE_PROPS ps) ++ r) = RErr InvalidRemainingLength.
Proof.
  intros Hp Hps Hrl.
  assert (Hcl : clen (props_enc UNSUBSCRIBE_PROPS ps)
                = props_body_len UNSUBSCRIBE_PROPS ps + width (props_body_len UNSUBSCRIBE_PROPS ps)).
  { destruct Hps as (_ & Hi & _ & Hb). apply (props_enc_len _ _ Hi Hb). }
  unfold unsubscribe_decode. ok_by ltac:(apply pid_read_be16; exact Hp).
  ok_by ltac:(apply props_good_rt_full; exact Hps). cbv iota.
  err_by ltac:(apply C20_checked_sub; lia).
Qed.

(* ------------------------------------------------------------------------------------ *)
(* Poll only: bytes left over / the frame ends inside the body                          *)
(* ------------------------------------------------------------------------------------ *)
Theorem C20_poll_leftover_5 prof cb body sfx h p x xs t : len body < VMAX ->
  header_new_with cb (len body) = Ok h -> build_empty_packet h = None ->
  block_decode prof h TEof body = ROk p (x :: xs) ->
  rr_res _ (poll5 prof (cb :: write_var_int (len body) ++ body ++ sfx) t) = Some (Err InvalidRemainingLength).
Proof.
  intros Hn Hh Hb Hd.
  destruct (PollSched.poll1_frame packet header_new_with build_empty_packet (block_decode prof) prof t cb
              (write_var_int (len body)) (len body) body sfx PollSched.V5_new_with_rl
              (PollSched.vbi_of_write _ Hn) eq_refl) as [E _].
  unfold F5.poll1. rewrite E. f_equal. unfold PollSched.frame_result. rewrite Hh, Hb.
  destruct (N.eqb_spec (len body) 0) as [Ez|_]; [reflexivity|]. cbn [fst].
  eapply C20_poll_leftover. exact Hd.
Qed.

Theorem C20_poll_eof_inside_5 prof cb body sfx h t : len body < VMAX ->
  header_new_with cb (len body) = Ok h -> build_empty_packet h = None ->
  block_decode prof h TEof body = RErr (io_err TEof) ->
  rr_res _ (poll5 prof (cb :: write_var_int (len body) ++ body ++ sfx) t) = Some (Err InvalidRemainingLength) /\
  F5.dec_block prof (cb :: write_var_int (len body) ++ body) = BNone /\
  F5.dec_async prof TEof (cb :: write_var_int (len body) ++ body) = RErr (IoError KUnexpectedEof).
Proof.
  intros Hn Hh Hb Hd.
  assert (A : F5.dec_async prof TEof (cb :: write_var_int (len body) ++ body) = RErr (IoError KUnexpectedEof)).
  { rewrite (frame5 prof cb _ h TEof body Hn Hh). rewrite (same5 prof h Hb). exact Hd. }
  split; [|split; [|exact A]].
  - destruct (PollSched.poll1_frame packet header_new_with build_empty_packet (block_decode prof) prof t cb
              (write_var_int (len body)) (len body) body sfx PollSched.V5_new_with_rl
              (PollSched.vbi_of_write _ Hn) eq_refl) as [E _].
    unfold F5.poll1. rewrite E. f_equal. unfold PollSched.frame_result. rewrite Hh, Hb.
    destruct (N.eqb_spec (len body) 0) as [Ez|_]; [reflexivity|]. cbn [fst].
    apply C20_poll_eof_inside. exact Hd.
  - unfold F5.dec_block. unfold F5.dec_async in A. rewrite A. reflexivity.
Qed.

(* valid packets whose body decoder ignores the remaining length (CONNECT, CONNACK): one byte too
   many is refused by the strict poll decoder only; cut short, the three front-ends give the
   remaining-length error / "incomplete" / the transport's EOF *)
Definition ignores_rl5 (p : packet) : bool :=
  match p with Connect _ | Connack _ => true | _ => false end.

Lemma ignores_rl5_rt prof p chunks n m : I5.valid p = true -> ignores_rl5 p = true ->
  body_enc p = Some (chunks, Ok n) ->
  exists h, header_new_with (control_byte p) m = Ok h /\ build_empty_packet h = None /\
            forall t rest, block_decode prof h t (concat chunks ++ rest) = ROk p rest.
Proof.
  intros Hv Hi Hb. destruct p; try discriminate Hi; cbn [body_enc] in Hb; inversion Hb; subst chunks.
  - exists (V3.mk_header PConnect m). split; [reflexivity|]. split; [reflexivity|]. intros t rest.
    unfold block_decode. cbn [h_typ V3.mk_header].
    erewrite bind_ok by (eapply V5RT.connect_rt; eassumption). reflexivity.
  - exists (V3.mk_header PConnack m). split; [reflexivity|]. split; [reflexivity|]. intros t rest.
    unfold block_decode. cbn [h_typ V3.mk_header].
    erewrite bind_ok by (eapply V5RT.connack_rt; eassumption). reflexivity.
Qed.

Theorem C20_poll_extra_byte_5 prof p chunks n x sfx t : I5.valid p = true -> ignores_rl5 p = true ->
  body_enc p = Some (chunks, Ok n) -> n + 1 < VMAX ->
  rr_res _ (poll5 prof (control_byte p :: write_var_int (n + 1) ++ (concat chunks ++ [x]) ++ sfx) t)
  = Some (Err InvalidRemainingLength) /\
  F5.dec_async prof t (control_byte p :: write_var_int (n + 1) ++ (concat chunks ++ [x]) ++ sfx)
  = ROk p ([x] ++ sfx).
Proof.
  intros Hv Hi Hb Hn.
  assert (Hlen : len (concat chunks ++ [x]) = n + 1).
  { rewrite len_app. change (len (concat chunks)) with (clen chunks). rewrite (v5_parts_len p chunks n Hv Hb). reflexivity. }
  destruct (ignores_rl5_rt prof p chunks n (n + 1) Hv Hi Hb) as (h & Hh & Hbe & RT). split.
  - rewrite <- Hlen in Hh, Hn |- *. eapply C20_poll_leftover_5; try eassumption. apply RT.
  - rewrite (frame5 prof _ _ h t _ Hn Hh), (same5 prof h Hbe), <- app_assoc. apply RT.
Qed.

Theorem C20_truncated_5 prof p chunks n k sfx t : I5.valid p = true -> ignores_rl5 p = true ->
  body_enc p = Some (chunks, Ok n) -> n < VMAX -> (k < length (concat chunks))%nat ->
  let body := firstn k (concat chunks) in
  rr_res _ (poll5 prof (control_byte p :: write_var_int (len body) ++ body ++ sfx) t)
    = Some (Err InvalidRemainingLength) /\
  F5.dec_block prof (control_byte p :: write_var_int (len body) ++ body) = BNone /\
  F5.dec_async prof TEof (control_byte p :: write_var_int (len body) ++ body) = RErr (IoError KUnexpectedEof).
Proof.
  intros Hv Hi Hb Hn Hk body.
  assert (Hn' : len body < VMAX).
  { assert (Hle : len body <= n); [|lia].
    unfold body. rewrite <- (v5_parts_len p chunks n Hv Hb). unfold clen, len. rewrite firstn_length. lia. }
  destruct (ignores_rl5_rt prof p chunks n (len body) Hv Hi Hb) as (h & Hh & Hbe & RT).
  apply (C20_poll_eof_inside_5 prof _ body sfx h t Hn' Hh Hbe). unfold body.
  apply (ok_prefix_eof _ (stable_v5_block_decode prof h) TEof _ [] p (RT TEof []) k Hk TEof).
Qed.

(* ------------------------------------------------------------------------------------ *)
(* One concrete faulty frame per catalogue row, on the three front-ends                 *)
(* ------------------------------------------------------------------------------------ *)
Definition tag_res {A} (r : res A) : option err + bytes :=
  match r with ROk _ rest => inr rest | RErr e => inl (Some e) | RPanic _ => inl None end.
Definition tag_bres {A} (r : bres A) : option (option err) :=
  match r with BOk _ => None | BNone => Some None | BErr e => Some (Some e) | BPanic _ => Some None end.
Definition tag_poll {A} (r : option (outcome A)) : option err :=
  match r with Some (Err e) => Some e | _ => None end.
Definition run5 (d : bytes) : (option err + bytes) * option (option err) * option err :=
  (tag_res (F5.dec_async Debug TEof d), tag_bres (F5.dec_block Debug d), tag_poll (rr_res _ (F5.poll1 Debug d TEof))).
Definition all5 (e : err) : (option err + bytes) * option (option err) * option err :=
  (inl (Some e), Some (Some e), Some e).

Example ex5_header_flags : run5 [65; 2; 0; 1] = all5 InvalidHeader.
Proof. vm_compute. reflexivity. Qed.
Example ex5_header_type0 : run5 [0; 0] = all5 InvalidHeader.
Proof. vm_compute. reflexivity. Qed.
Example ex5_header_auth_flags : run5 [241; 0] = all5 InvalidHeader.
Proof. vm_compute. reflexivity. Qed.
Example ex5_header_qos3 : run5 [54; 4; 0; 1; 97; 0] = all5 (InvalidQos 3).
Proof. vm_compute. reflexivity. Qed.
Example ex5_header_pingresp_body : run5 [208; 1; 0] = all5 InvalidHeader.
Proof. vm_compute. reflexivity. Qed.
Example ex5_header_varint : run5 [48; 128; 128; 128; 128; 0] = all5 InvalidVarByteInt.
Proof. vm_compute. reflexivity. Qed.
Example ex5_pid_zero : run5 [64; 2; 0; 0] = all5 ZeroPid.
Proof. vm_compute. reflexivity. Qed.
Example ex5_pid_zero_publish : run5 [50; 6; 0; 1; 97; 0; 0; 0] = all5 ZeroPid.
Proof. vm_compute. reflexivity. Qed.
Example ex5_connack_flags : run5 [32; 3; 2; 0; 0] = all5 (InvalidConnackFlags 2).
Proof. vm_compute. reflexivity. Qed.
Example ex5_connack_code : run5 [32; 3; 0; 1; 0] = all5 (InvalidReasonCode PConnack 1).
Proof. vm_compute. reflexivity. Qed.
Example ex5_puback_code : run5 [64; 3; 0; 1; 1] = all5 (InvalidReasonCode PPuback 1).
Proof. vm_compute. reflexivity. Qed.
Example ex5_pubrel_code : run5 [98; 3; 0; 1; 16] = all5 (InvalidReasonCode PPubrel 16).
Proof. vm_compute. reflexivity. Qed.
Example ex5_disconnect_code : run5 [224; 1; 1] = all5 (InvalidReasonCode PDisconnect 1).
Proof. vm_compute. reflexivity. Qed.
Example ex5_auth_code : run5 [240; 2; 1; 0] = all5 (InvalidReasonCode PAuth 1).
Proof. vm_compute. reflexivity. Qed.
Example ex5_suback_code : run5 [144; 5; 0; 1; 0; 0; 3] = all5 (InvalidReasonCode PSuback 3).
Proof. vm_compute. reflexivity. Qed.
Example ex5_unsuback_code : run5 [176; 4; 0; 1; 0; 1] = all5 (InvalidReasonCode PUnsuback 1).
Proof. vm_compute. reflexivity. Qed.
Example ex5_connect_reserved : run5 [16; 13; 0; 4; 77; 81; 84; 84; 5; 1; 0; 10; 0; 0; 0] = all5 (InvalidConnectFlags 1).
Proof. vm_compute. reflexivity. Qed.
Example ex5_connect_will_qos_no_will :
  run5 [16; 13; 0; 4; 77; 81; 84; 84; 5; 8; 0; 10; 0; 0; 0] = all5 (InvalidConnectFlags 8).
Proof. vm_compute. reflexivity. Qed.
Example ex5_connect_will_qos3 : run5 [16; 13; 0; 4; 77; 81; 84; 84; 5; 28; 0; 10; 0; 0; 0] = all5 (InvalidQos 3).
Proof. vm_compute. reflexivity. Qed.
Example ex5_protocol_name :
  run5 [16; 13; 0; 4; 77; 81; 84; 88; 5; 2; 0; 10; 0; 0; 0] = all5 (InvalidProtocol [77; 81; 84; 88] 5).
Proof. vm_compute. reflexivity. Qed.
Example ex5_protocol_other_family_311 :
  run5 [16; 12; 0; 4; 77; 81; 84; 84; 4; 2; 0; 10; 0; 0] = all5 (UnexpectedProtocol V311).
Proof. vm_compute. reflexivity. Qed.
Example ex5_protocol_other_family_310 :
  run5 [16; 14; 0; 6; 77; 81; 73; 115; 100; 112; 3; 2; 0; 10; 0; 0] = all5 (UnexpectedProtocol V310).
Proof. vm_compute. reflexivity. Qed.
Example ex5_client_id_not_utf8 :
  run5 [16; 14; 0; 4; 77; 81; 84; 84; 5; 2; 0; 10; 0; 0; 1; 255] = all5 InvalidString.
Proof. vm_compute. reflexivity. Qed.
Example ex5_will_topic :
  run5 [16; 19; 0; 4; 77; 81; 84; 84; 5; 4; 0; 10; 0; 0; 0; 0; 0; 1; 35; 0; 0] = all5 (InvalidTopicName [35]).
Proof. vm_compute. reflexivity. Qed.
Example ex5_will_payload_format :
  run5 [16; 22; 0; 4; 77; 81; 84; 84; 5; 4; 0; 10; 0; 0; 0; 2; 1; 1; 0; 1; 119; 0; 1; 255] = all5 InvalidPayloadFormat.
Proof. vm_compute. reflexivity. Qed.
Example ex5_will_property :
  run5 [16; 19; 0; 4; 77; 81; 84; 84; 5; 4; 0; 10; 0; 0; 0; 5; 17; 0; 0; 0; 0] = all5 (InvalidWillProperty 17).
Proof. vm_compute. reflexivity. Qed.
Example ex5_subscribe_options_qos3 : run5 [130; 7; 0; 1; 0; 0; 1; 97; 3] = all5 (InvalidSubscriptionOption 3).
Proof. vm_compute. reflexivity. Qed.
Example ex5_subscribe_options_reserved : run5 [130; 7; 0; 1; 0; 0; 1; 97; 64] = all5 (InvalidSubscriptionOption 64).
Proof. vm_compute. reflexivity. Qed.
Example ex5_subscribe_options_rh3 : run5 [130; 7; 0; 1; 0; 0; 1; 97; 48] = all5 (InvalidSubscriptionOption 48).
Proof. vm_compute. reflexivity. Qed.
Example ex5_subscribe_filter : run5 [130; 8; 0; 1; 0; 0; 2; 97; 43; 0] = all5 (InvalidTopicFilter [97; 43]).
Proof. vm_compute. reflexivity. Qed.
Example ex5_subscribe_empty : run5 [130; 3; 0; 1; 0] = all5 EmptySubscription.
Proof. vm_compute. reflexivity. Qed.
Example ex5_unsubscribe_filter : run5 [162; 7; 0; 1; 0; 0; 2; 35; 97] = all5 (InvalidTopicFilter [35; 97]).
Proof. vm_compute. reflexivity. Qed.
Example ex5_unsubscribe_empty : run5 [162; 3; 0; 1; 0] = all5 EmptySubscription.
Proof. vm_compute. reflexivity. Qed.
Example ex5_prop_unknown : run5 [64; 6; 0; 1; 0; 2; 255; 0] = all5 (InvalidPropertyId 255).
Proof. vm_compute. reflexivity. Qed.
Example ex5_prop_disallowed : run5 [64; 6; 0; 1; 0; 2; 1; 0] = all5 (InvalidProperty PPuback 1).
Proof. vm_compute. reflexivity. Qed.
Example ex5_prop_duplicated : run5 [224; 8; 0; 6; 31; 0; 0; 31; 0; 0] = all5 (DuplicatedProperty 31).
Proof. vm_compute. reflexivity. Qed.
Example ex5_prop_bad_bool : run5 [32; 5; 0; 0; 2; 37; 2] = all5 (InvalidByteProperty 37 2).
Proof. vm_compute. reflexivity. Qed.
Example ex5_prop_max_qos : run5 [32; 5; 0; 0; 2; 36; 2] = all5 (InvalidByteProperty 36 2).
Proof. vm_compute. reflexivity. Qed.
Example ex5_prop_length_minus_one : run5 [240; 5; 0; 2; 31; 0; 0] = all5 (InvalidPropertyLength 2).
Proof. vm_compute. reflexivity. Qed.
Example ex5_prop_length_varint : run5 [64; 8; 0; 1; 0; 128; 128; 128; 128; 0] = all5 InvalidVarByteInt.
Proof. vm_compute. reflexivity. Qed.
Example ex5_prop_subscription_id_varint : run5 [130; 9; 0; 1; 6; 11; 128; 128; 128; 128; 0] = all5 InvalidVarByteInt.
Proof. vm_compute. reflexivity. Qed.
Example ex5_prop_response_topic : run5 [48; 8; 0; 1; 97; 4; 8; 0; 1; 43] = all5 InvalidResponseTopic.
Proof. vm_compute. reflexivity. Qed.
Example ex5_prop_string_not_utf8 : run5 [224; 6; 0; 4; 31; 0; 1; 255] = all5 InvalidString.
Proof. vm_compute. reflexivity. Qed.
Example ex5_publish_topic_not_utf8 : run5 [48; 3; 0; 1; 255] = all5 InvalidString.
Proof. vm_compute. reflexivity. Qed.
Example ex5_publish_topic_wildcard : run5 [48; 5; 0; 1; 43; 0; 7] = all5 (InvalidTopicName [43]).
Proof. vm_compute. reflexivity. Qed.
Example ex5_publish_payload_format : run5 [48; 7; 0; 1; 97; 2; 1; 1; 255] = all5 InvalidPayloadFormat.
Proof. vm_compute. reflexivity. Qed.
Example ex5_subscribe_short : run5 [130; 2; 0; 1; 0] = all5 InvalidRemainingLength.
Proof. vm_compute. reflexivity. Qed.
(* poll only *)
Example ex5_extra_byte : run5 [32; 4; 0; 0; 0; 9] = (inr [9], None, Some InvalidRemainingLength).
Proof. vm_compute. reflexivity. Qed.
Example ex5_inner_length_past_frame :
  run5 [16; 13; 0; 4; 77; 81; 84; 84; 5; 2; 0; 10; 0; 0; 9]
  = (inl (Some (IoError KUnexpectedEof)), Some None, Some InvalidRemainingLength).
Proof. vm_compute. reflexivity. Qed.

(* ------------------------------------------------------------------------------------ *)
(* Layer 1, decoder level: the empty topic list                                         *)
(* ------------------------------------------------------------------------------------ *)
Theorem C20_subscribe_decode_empty_5 prof h pid ps t r : pid_ok pid = true -> props_good SUBSCRIBE_PROPS ps ->
  h_rl h = 2 + clen (props_enc SUBSCRIBE_PROPS ps) ->
  subscribe_decode prof h t (be16 pid ++ concat (props_enc SUBSCRIBE_PROPS ps) ++ r) = RErr EmptySubscription.
Proof.
  intros Hp Hps Hrl. destruct (props_good_len _ _ Hps) as (pl & Hpl & Hcl). rewrite Hcl in Hrl.
  unfold subscribe_decode. ok_by ltac:(apply pid_read_be16; exact Hp).
  ok_by ltac:(apply props_good_rt; exact Hps).
  rewrite Hpl. cbn [lift_outcome]. rewrite ?V3RT.bind_assoc, bind_ret.
  ok_by ltac:(apply checked_sub_ok; lia).
  destruct (N.eqb_spec (h_rl h - (2 + pl)) 0) as [_|E]; [reflexivity|lia].
Qed.

Theorem C20_unsubscribe_decode_empty_5 prof h pid ps t r : pid_ok pid = true -> props_good UNSUBSCRIBE_PROPS ps ->
  h_rl h = 2 + clen (props_enc UNSUBSCRIBE_PROPS ps) ->
  unsubscribe_decode prof h t (be16 pid ++ concat (props_enc UNSUBSCRIBE_PROPS ps) ++ r) = RErr EmptySubscription.
Proof.
  intros Hp Hps Hrl.
  assert (Hcl : clen (props_enc UNSUBSCRIBE_PROPS ps)
                = props_body_len UNSUBSCRIBE_PROPS ps + width (props_body_len UNSUBSCRIBE_PROPS ps)).
  { destruct Hps as (_ & Hi & _ & Hb). apply (props_enc_len _ _ Hi Hb). }
  unfold unsubscribe_decode. ok_by ltac:(apply pid_read_be16; exact Hp).
  ok_by ltac:(apply props_good_rt_full; exact Hps). cbv iota.
  ok_by ltac:(apply checked_sub_ok; lia).
  match goal with |- context [?a =? 0] => destruct (N.eqb_spec a 0) as [_|E]; [reflexivity|lia] end.
Qed.

Theorem C20_subscribe_filter_not_utf8_5_all prof pid ps topics s x : pid_ok pid = true ->
  props_good SUBSCRIBE_PROPS ps -> forallb topic_ok5 topics = true ->
  len s <= 65535 -> utf8_valid s = false ->
  let body := be16 pid ++ concat (props_enc SUBSCRIBE_PROPS ps) ++ concat (sub_enc5 topics)
              ++ be16 (len s mod 65536) ++ s ++ x in
  len body < VMAX -> classified5 prof (130 :: write_var_int (len body) ++ body) InvalidString.
Proof.
  intros Hp Hps Hok Hs Hv body Hn. apply classify5; [exact Hn|reflexivity|]. intros t sfx.
  unfold body. rewrite <- !app_assoc.
  apply C20_subscribe_filter_not_utf8_5; try assumption.
  unfold body. rewrite !len_app, !len_be16, !len_concat_clen, sub_enc5_len. lia.
Qed.

Theorem C20_unsubscribe_filter_not_utf8_5_all prof pid ps topics s x : pid_ok pid = true ->
  props_good UNSUBSCRIBE_PROPS ps -> forallb filter_ok topics = true ->
  len s <= 65535 -> utf8_valid s = false ->
  let body := be16 pid ++ concat (props_enc UNSUBSCRIBE_PROPS ps) ++ concat (unsub_enc5 topics)
              ++ be16 (len s mod 65536) ++ s ++ x in
  len body < VMAX -> classified5 prof (162 :: write_var_int (len body) ++ body) InvalidString.
Proof.
  intros Hp Hps Hok Hs Hv body Hn. apply classify5; [exact Hn|reflexivity|]. intros t sfx.
  unfold body. rewrite <- !app_assoc.
  apply C20_unsubscribe_filter_not_utf8_5; try assumption.
  unfold body. rewrite !len_app, !len_be16, !len_concat_clen, unsub_enc5_len. lia.
Qed.

(* the empty property section of every packet is `props_good` *)
Lemma props_good_empty L : NoDup (map prop_num L) -> props_good L props_empty.
Proof.
  intros Hn. unfold props_good. split; [exact Hn|]. split; [reflexivity|]. split; [reflexivity|].
  rewrite body_len_split. cbn [pr_user props_empty users_len fold_right].
  assert (E : ids_len props_empty L = 0).
  { induction L as [|i L IH]; [reflexivity|]. rewrite ids_len_cons, pget_empty. apply IH.
    cbn [map] in Hn. inversion Hn. assumption. }
  rewrite E. reflexivity.
Qed.

Print Assumptions async_err_to_block_5.
Print Assumptions async_err_to_poll_5.
Print Assumptions async_err_to_poll_exact_5.
Print Assumptions C20_header_verdict_5.
Print Assumptions C20_header_varint_5.
Print Assumptions C20_pid_zero_5_all.
Print Assumptions C20_pid_zero_publish_5_all.
Print Assumptions C20_connack_flags_5_all.
Print Assumptions C20_connack_code_5_all.
Print Assumptions C20_ack_code_5_all.
Print Assumptions C20_disconnect_code_5_all.
Print Assumptions C20_auth_code_5_all.
Print Assumptions C20_suback_code_5_all.
Print Assumptions section5_fault.
Print Assumptions C20_prop_unknown_id_5_all.
Print Assumptions C20_prop_disallowed_5_all.
Print Assumptions C20_prop_duplicated_5_all.
Print Assumptions C20_prop_bad_byte_5_all.
Print Assumptions C20_prop_length_minus_one_5_all.
Print Assumptions C20_prop_length_varint_5_all.
Print Assumptions C20_prop_string_not_utf8_5_all.
Print Assumptions C20_prop_response_topic_5.
Print Assumptions C20_prop_subscription_id_varint_5.
Print Assumptions C20_connect_reserved_flag_5_all.
Print Assumptions C20_connect_will_qos_without_will_5_all.
Print Assumptions C20_connect_will_qos3_5_frame.
Print Assumptions C20_connect_protocol_5_all.
Print Assumptions C20_connect_protocol_not_utf8_5_frame.
Print Assumptions C20_connect_other_family_5_all.
Print Assumptions C20_connect_client_id_not_utf8_5_all.
Print Assumptions C20_connect_will_topic_5_all.
Print Assumptions C20_connect_will_payload_format_5_all.
Print Assumptions C20_subscribe_options_5_all.
Print Assumptions C20_subscribe_filter_5_all.
Print Assumptions C20_subscribe_filter_not_utf8_5_all.
Print Assumptions C20_subscribe_empty_5_all.
Print Assumptions C20_unsubscribe_filter_5_all.
Print Assumptions C20_unsubscribe_filter_not_utf8_5_all.
Print Assumptions C20_unsubscribe_empty_5_all.
Print Assumptions C20_publish_topic_not_utf8_5_all.
Print Assumptions C20_publish_topic_5_all.
Print Assumptions C20_publish_payload_format_5_all.
Print Assumptions C20_publish_short_props_5.
Print Assumptions C20_subscribe_short_5.
Print Assumptions C20_unsubscribe_short_5.
Print Assumptions C20_suback_short_5.
Print Assumptions C20_poll_leftover_5.
Print Assumptions C20_poll_eof_inside_5.
Print Assumptions C20_poll_extra_byte_5.
Print Assumptions C20_truncated_5.
