(* Proofs/FrontRT5.v — C01, C07, C14 (read side), C08 for the v5 family on the three decoder
   front-ends of Model/Frontends.v (F5.dec_async, F5.dec_block, F5.poll_drive / F5.poll1).
   Instance of Proofs/FrontGen.v; the async round trip is Proofs/V5RT.v with its filter premise
   discharged by Proofs/TopicFilterEq.v.  No hypotheses remain. *)
From MQ Require Import Proofs.Tactics Proofs.VarIntLaws Proofs.Parses Model.Valid Model.Stream.
From MQ Require Import Proofs.FrontGen.
From MQ Require Proofs.Stable Proofs.PollSched Proofs.V5Len Proofs.V5RT Proofs.TopicFilterEq.
Open Scope N_scope.

(* ---------- the section hypotheses of FrontGen for v5 ---------- *)
Lemma bridge5 (prof : profile) (h : header) : V5.build_empty_packet h = None ->
  forall t d, V5.body_decode_async prof h t d = V5.block_decode prof h t d.
Proof.
  unfold V5.build_empty_packet, V5.body_decode_async, V5.block_decode.
  destruct (h_typ h); intros Hb t d; try reflexivity; discriminate Hb.
Qed.

(* DISCONNECT and AUTH with remaining length 0: build_empty_packet returns the default packet,
   which is what disconnect_decode / auth_decode return without reading *)
Lemma empty5 (prof : profile) (h : header) (p : V5.packet) : V5.build_empty_packet h = Some p ->
  forall t d, V5.body_decode_async prof h t d = ROk p d.
Proof.
  unfold V5.build_empty_packet, V5.body_decode_async.
  destruct (h_typ h); intros Hb t d; try discriminate Hb;
    try (inversion Hb; reflexivity);
    destruct (h_rl h =? 0) eqn:E0; try discriminate Hb; inversion Hb;
    unfold V5.disconnect_decode, V5.auth_decode, bind; rewrite E0; reflexivity.
Qed.

Lemma cons5 (prof : profile) (h : header) : V5.build_empty_packet h = None ->
  forall t p d', V5.block_decode prof h t [] <> ROk p d'.
Proof.
  unfold V5.build_empty_packet, V5.block_decode.
  destruct (h_typ h) eqn:Et; intros Hb t p d' H; try discriminate Hb.
  (* DISCONNECT / AUTH: decide the tests on the remaining length before computing *)
  all: try (match type of Et with _ = PDisconnect => idtac | _ = PAuth => idtac end;
            destruct (h_rl h =? 0) eqn:E0; [discriminate Hb|];
            unfold V5.disconnect_decode, V5.auth_decode, bind in H; rewrite E0 in H;
            destruct (h_rl h =? 1) eqn:E1; try rewrite E1 in H).
  all: timeout 20 (vm_compute in H); discriminate H.
Qed.

Local Notation frame5 prof :=
  (frame V5.packet V5.header_new_with (V5.body_decode_async prof)).

(* the encoding of a valid packet is a frame *)
Lemma encode_frame5 (prof : profile) (p : V5.packet) (vb : varbytes) :
  I5.valid p = true -> V5.encode prof p = Ok vb -> frame5 prof (V5.control_byte p) p (as_ref vb).
Proof.
  intros Hv He.
  pose proof (V5RT.v5_roundtrip TopicFilterEq.filter_profile_indep prof p vb Hv He) as Hrt.
  destruct (V5.body_enc p) as [[chunks blen]|] eqn:Eb.
  - destruct (V5Len.encode_inv prof p vb chunks blen Eb He) as (n & -> & Hn & Hshape).
    exists n, (concat chunks).
    split; [exact Hshape|]. split; [exact Hn|].
    split; [exact (V5Len.v5_parts_len p chunks n Hv Eb)|exact Hrt].
  - exists 0, [].
    destruct (V5Len.body_enc_none p Eb) as [-> | ->]; cbn [V5.encode] in He; inversion He; subst vb;
      (split; [reflexivity|]); (split; [reflexivity|]); (split; [reflexivity|exact Hrt]).
Qed.

(* FrontGen's theorems with the v5 hypotheses discharged *)
Local Notation poll5 prof thm :=
  (thm V5.packet V5.header_new_with V5.build_empty_packet (V5.block_decode prof) (V5.body_decode_async prof)
       PollSched.V5_new_with_rl (bridge5 prof) (empty5 prof) (cons5 prof)).
Local Notation stab5 prof thm :=
  (thm V5.packet V5.header_new_with (V5.body_decode_async prof) (Stable.stable_v5_decode_async prof)).

(* ------------------------------------------------------------------------------------------ *)
(* C01: encode then decode is the identity on all three front-ends                            *)
(* ------------------------------------------------------------------------------------------ *)
Theorem C01_v5_async : forall prof p vb, I5.valid p = true -> V5.encode prof p = Ok vb ->
  forall t rest, F5.dec_async prof t (as_ref vb ++ rest) = ROk p rest.
Proof.
  intros prof p vb Hv He. exact (V5RT.v5_roundtrip TopicFilterEq.filter_profile_indep prof p vb Hv He).
Qed.

Theorem C01_v5_block : forall prof p vb, I5.valid p = true -> V5.encode prof p = Ok vb ->
  forall rest, F5.dec_block prof (as_ref vb ++ rest) = BOk p.
Proof.
  intros prof p vb Hv He rest. unfold F5.dec_block.
  change (V5.decode_async prof) with (F5.dec_async prof).
  rewrite (C01_v5_async prof p vb Hv He TEof rest). reflexivity.
Qed.

(* under EVERY delivery schedule l of the stream (cuts and Pendings anywhere), with anything after
   the packet, in either profile: the packet, its size, its raw body bytes, and exactly the
   packet's bytes consumed *)
Theorem C01_v5_poll : forall prof p vb, I5.valid p = true -> V5.encode prof p = Ok vb ->
  forall (l : list atom) t sfx, bytes_of l = as_ref vb ++ sfx ->
    let r := F5.poll_drive prof l t in
    exists body, rr_res _ r = Some (Ok (len (as_ref vb), body, p))
      /\ as_ref vb = V5.control_byte p :: write_var_int (len body) ++ body
      /\ bytes_of (rr_rest _ r) = sfx.
Proof.
  intros prof p vb Hv He l t sfx Hb.
  exact (poll5 prof G_poll (V5.control_byte p) p (as_ref vb) (encode_frame5 prof p vb Hv He) prof l t sfx Hb).
Qed.

(* the always-ready special case *)
Corollary C01_v5_poll1 : forall prof p vb, I5.valid p = true -> V5.encode prof p = Ok vb ->
  forall t sfx,
    let r := F5.poll1 prof (as_ref vb ++ sfx) t in
    exists body, rr_res _ r = Some (Ok (len (as_ref vb), body, p))
      /\ as_ref vb = V5.control_byte p :: write_var_int (len body) ++ body
      /\ bytes_of (rr_rest _ r) = sfx.
Proof.
  intros prof p vb Hv He t sfx.
  exact (C01_v5_poll prof p vb Hv He (map AB (as_ref vb ++ sfx)) t sfx (PollSched.bytes_of_map_AB _)).
Qed.

(* ------------------------------------------------------------------------------------------ *)
(* C07: incomplete input is incomplete (the "trailing bytes are ignored" half is C01's rest/sfx) *)
(* ------------------------------------------------------------------------------------------ *)
Theorem C07_v5_prefix : forall prof p vb, I5.valid p = true -> V5.encode prof p = Ok vb ->
  forall k, (k < length (as_ref vb))%nat ->
     F5.dec_block prof (firstn k (as_ref vb)) = BNone
  /\ F5.dec_async prof TEof (firstn k (as_ref vb)) = RErr (IoError KUnexpectedEof)
  /\ (forall l, bytes_of l = firstn k (as_ref vb) ->
        rr_res _ (F5.poll_drive prof l TEof) = Some (Err (IoError KUnexpectedEof)))
  /\ is_eof (IoError KUnexpectedEof) = true.
Proof.
  intros prof p vb Hv He k Hk. pose proof (encode_frame5 prof p vb Hv He) as Hf.
  split; [exact (stab5 prof G_prefix_block _ _ _ Hf k Hk)|].
  split; [exact (stab5 prof G_prefix_async _ _ _ Hf k Hk TEof)|].
  split; [|reflexivity].
  intros l Hb. exact (proj1 (poll5 prof G_prefix_poll _ _ _ Hf k Hk prof l TEof Hb)).
Qed.

(* ------------------------------------------------------------------------------------------ *)
(* C14, read side: a transport failure inside the packet surfaces as an I/O error of that kind *)
(* ------------------------------------------------------------------------------------------ *)
Theorem C14_v5_read_fault : forall prof p vb kind, I5.valid p = true -> V5.encode prof p = Ok vb ->
  forall k, (k < length (as_ref vb))%nat ->
     F5.dec_async prof (TFail kind) (firstn k (as_ref vb)) = RErr (IoError kind)
  /\ (forall l, bytes_of l = firstn k (as_ref vb) ->
        rr_res _ (F5.poll_drive prof l (TFail kind)) = Some (Err (IoError kind))).
Proof.
  intros prof p vb kind Hv He k Hk. pose proof (encode_frame5 prof p vb Hv He) as Hf.
  split; [exact (stab5 prof G_prefix_async _ _ _ Hf k Hk (TFail kind))|].
  intros l Hb. exact (proj1 (poll5 prof G_prefix_poll _ _ _ Hf k Hk prof l (TFail kind) Hb)).
Qed.

(* both at once, for any tail; the poll decoder also leaves nothing unread *)
Theorem C07_C14_v5_any_tail : forall prof p vb, I5.valid p = true -> V5.encode prof p = Ok vb ->
  forall k, (k < length (as_ref vb))%nat -> forall t,
     F5.dec_async prof t (firstn k (as_ref vb)) = RErr (io_err t)
  /\ (forall l, bytes_of l = firstn k (as_ref vb) ->
        rr_res _ (F5.poll_drive prof l t) = Some (Err (io_err t))
        /\ bytes_of (rr_rest _ (F5.poll_drive prof l t)) = []).
Proof.
  intros prof p vb Hv He k Hk t. pose proof (encode_frame5 prof p vb Hv He) as Hf.
  split; [exact (stab5 prof G_prefix_async _ _ _ Hf k Hk t)|].
  intros l Hb. exact (poll5 prof G_prefix_poll _ _ _ Hf k Hk prof l t Hb).
Qed.

(* ------------------------------------------------------------------------------------------ *)
(* C08: back-to-back packets are framed without loss or overlap                               *)
(* ------------------------------------------------------------------------------------------ *)
(* bs are the encodings of the valid packets ps *)
Definition encs5 (prof : profile) (ps : list V5.packet) (bs : list bytes) : Prop :=
  Forall2 (fun p b => I5.valid p = true /\ exists vb, V5.encode prof p = Ok vb /\ b = as_ref vb) ps bs.

Lemma encs5_frames prof ps bs : encs5 prof ps bs ->
  frames V5.packet V5.header_new_with (V5.body_decode_async prof) ps bs.
Proof.
  intros H. induction H as [|p b ps bs (Hv & vb & He & ->) _ IH]; constructor; [|exact IH].
  exists (V5.control_byte p). exact (encode_frame5 prof p vb Hv He).
Qed.

Lemma encs5_frames_len prof ps bs : encs5 prof ps bs ->
  frames_len V5.packet V5.header_new_with (V5.body_decode_async prof) V5.encode_len ps bs.
Proof.
  intros H. induction H as [|p b ps bs (Hv & vb & He & ->) _ IH]; constructor; [|exact IH].
  split; [exists (V5.control_byte p); exact (encode_frame5 prof p vb Hv He)|].
  exact (V5Len.v5_encode_len prof p vb Hv He).
Qed.

(* Any fuel above the number of packets gives the same result (S (length ps) is the least that
   does: the last iteration is the one that sees the end of the stream). *)
Theorem C08_v5_async_fuel : forall prof ps bs, encs5 prof ps bs ->
  forall fuel t, (length ps < fuel)%nat ->
    stream_async V5.packet (F5.dec_async prof) fuel t (concat bs) [] = (combine ps (map len bs), FErr (io_err t)).
Proof.
  intros prof ps bs H fuel t Hf.
  exact (G_stream_async V5.packet V5.header_new_with (V5.body_decode_async prof) ps bs (encs5_frames prof ps bs H) fuel t Hf).
Qed.

Theorem C08_v5_block_fuel : forall prof ps bs, encs5 prof ps bs ->
  forall fuel, (length ps < fuel)%nat ->
    stream_block V5.packet (F5.dec_async prof) V5.encode_len fuel (concat bs) [] = (combine ps (map len bs), FNone).
Proof.
  intros prof ps bs H fuel Hf.
  exact (G_stream_block V5.packet V5.header_new_with (V5.body_decode_async prof) V5.encode_len ps bs (encs5_frames_len prof ps bs H) fuel Hf).
Qed.

Theorem C08_v5_poll_fuel : forall prof ps bs, encs5 prof ps bs ->
  forall fuel t, (length ps < fuel)%nat ->
    stream_poll V5.packet (F5.poll1 prof) fuel t (concat bs) [] = (combine ps (map len bs), FErr (io_err t)).
Proof.
  intros prof ps bs H fuel t Hf.
  exact (poll5 prof G_stream_poll prof ps bs (encs5_frames prof ps bs H) fuel t Hf).
Qed.

Theorem C08_v5_async : forall prof ps bs, encs5 prof ps bs -> forall t,
  stream_async V5.packet (F5.dec_async prof) (S (length ps)) t (concat bs) [] = (combine ps (map len bs), FErr (io_err t)).
Proof. intros prof ps bs H t. apply C08_v5_async_fuel; [exact H|lia]. Qed.

Theorem C08_v5_block : forall prof ps bs, encs5 prof ps bs ->
  stream_block V5.packet (F5.dec_async prof) V5.encode_len (S (length ps)) (concat bs) [] = (combine ps (map len bs), FNone).
Proof. intros prof ps bs H. apply C08_v5_block_fuel; [exact H|lia]. Qed.

Theorem C08_v5_poll : forall prof ps bs, encs5 prof ps bs -> forall t,
  stream_poll V5.packet (F5.poll1 prof) (S (length ps)) t (concat bs) [] = (combine ps (map len bs), FErr (io_err t)).
Proof. intros prof ps bs H t. apply C08_v5_poll_fuel; [exact H|lia]. Qed.

(* the common answer lists every packet once, in order, and the sizes add up to the stream *)
Theorem C08_v5_sizes : forall prof ps bs, encs5 prof ps bs ->
  map fst (combine ps (map len bs)) = ps /\
  map snd (combine ps (map len bs)) = map len bs /\
  sizes_sum (combine ps (map len bs)) = len (concat bs).
Proof.
  intros prof ps bs H.
  exact (G_stream_sizes V5.packet V5.header_new_with (V5.body_decode_async prof) ps bs (encs5_frames prof ps bs H)).
Qed.

(* ------------------------------------------------------------------------------------------ *)
(* non-vacuity                                                                                *)
(* ------------------------------------------------------------------------------------------ *)
Definition ex5_connack : V5.packet :=
  V5.Connack {| V5.ca_sp := true; V5.ca_code := 0;
                V5.ca_props := pset (pset props_empty ReceiveMaximum (Some (VN 100)))
                                    AssignedClientIdentifier (Some (VB [99; 108; 105])) |}.
Definition ex5_bytes : bytes := [32; 12; 1; 0; 9; 33; 0; 100; 18; 0; 3; 99; 108; 105].

Example ex5_valid : I5.valid ex5_connack = true.
Proof. vm_compute. reflexivity. Qed.
Example ex5_encode : V5.encode Debug ex5_connack = Ok (Dynamic ex5_bytes).
Proof. vm_compute. reflexivity. Qed.

(* a 3-chunk schedule with a Pending: [32] cut [12 1 0 9 33 0] Pend [100 18 0 3 99 108 105], then a stray 7 *)
Definition ex5_schedule : list atom :=
  [AB 32; ACut; AB 12; AB 1; AB 0; AB 9; AB 33; AB 0; APend;
   AB 100; AB 18; AB 0; AB 3; AB 99; AB 108; AB 105; AB 7].
Example ex5_schedule_bytes : bytes_of ex5_schedule = ex5_bytes ++ [7].
Proof. vm_compute. reflexivity. Qed.
Example ex5_poll :
  let r := F5.poll_drive Release ex5_schedule TEof in
  rr_res _ r = Some (Ok (14, [1; 0; 9; 33; 0; 100; 18; 0; 3; 99; 108; 105], ex5_connack))
  /\ bytes_of (rr_rest _ r) = [7] /\ rr_pend _ r = 1.
Proof. vm_compute. repeat split. Qed.
Example ex5_prefix : F5.dec_block Debug (firstn 9 ex5_bytes) = BNone
  /\ rr_res _ (F5.poll1 Debug (firstn 9 ex5_bytes) (TFail KInterrupted)) = Some (Err (IoError KInterrupted)).
Proof. vm_compute. split; reflexivity. Qed.

(* the zero-length DISCONNECT and AUTH go through build_empty_packet *)
Definition ex5_disconnect0 : V5.packet := V5.Disconnect {| V5.d_code := 0; V5.d_props := props_empty |}.
Definition ex5_auth0 : V5.packet := V5.Auth {| V5.d_code := 0; V5.d_props := props_empty |}.
Example ex5_stream :
  encs5 Debug [ex5_connack; ex5_disconnect0; V5.Pingresp; ex5_auth0; ex5_connack]
              [ex5_bytes; [224; 0]; [208; 0]; [240; 0]; ex5_bytes].
Proof.
  repeat constructor; try (vm_compute; reflexivity);
    eexists; (split; [vm_compute; reflexivity|reflexivity]).
Qed.
Example ex5_stream_run :
  stream_poll V5.packet (F5.poll1 Debug) 6 TEof (concat [ex5_bytes; [224; 0]; [208; 0]; [240; 0]; ex5_bytes]) []
  = ([(ex5_connack, 14); (ex5_disconnect0, 2); (V5.Pingresp, 2); (ex5_auth0, 2); (ex5_connack, 14)],
     FErr (IoError KUnexpectedEof)).
Proof. vm_compute. reflexivity. Qed.

Print Assumptions C01_v5_async.
Print Assumptions C01_v5_block.
Print Assumptions C01_v5_poll.
Print Assumptions C01_v5_poll1.
Print Assumptions C07_v5_prefix.
Print Assumptions C14_v5_read_fault.
Print Assumptions C07_C14_v5_any_tail.
Print Assumptions C08_v5_async_fuel.
Print Assumptions C08_v5_block_fuel.
Print Assumptions C08_v5_poll_fuel.
Print Assumptions C08_v5_async.
Print Assumptions C08_v5_block.
Print Assumptions C08_v5_poll.
Print Assumptions C08_v5_sizes.
