(* Proofs/FrontRT3.v — C01, C07, C14 (read side), C08 for the v3 family on the three decoder
   front-ends of Model/Frontends.v (F3.dec_async, F3.dec_block, F3.poll_drive / F3.poll1).
   Instance of Proofs/FrontGen.v; the async round trip is Proofs/V3RT.v with its filter premise
   discharged by Proofs/TopicFilterEq.v.  No hypotheses remain. *)
From MQ Require Import Proofs.Tactics Proofs.VarIntLaws Proofs.Parses Model.Valid Model.Stream.
From MQ Require Import Proofs.FrontGen.
From MQ Require Proofs.Stable Proofs.PollSched Proofs.V3RT Proofs.TopicFilterEq.
Open Scope N_scope.

(* ---------- the section hypotheses of FrontGen for v3 ---------- *)
Lemma bridge3 (prof : profile) (h : header) : V3.build_empty_packet h = None ->
  forall t d, V3.body_decode_async prof h t d = V3.block_decode prof h t d.
Proof.
  unfold V3.build_empty_packet, V3.body_decode_async, V3.block_decode.
  destruct (h_typ h); intros Hb t d; try reflexivity; discriminate Hb.
Qed.

Lemma empty3 (prof : profile) (h : header) (p : V3.packet) : V3.build_empty_packet h = Some p ->
  forall t d, V3.body_decode_async prof h t d = ROk p d.
Proof.
  unfold V3.build_empty_packet, V3.body_decode_async.
  destruct (h_typ h); intros Hb t d; try discriminate Hb; inversion Hb; reflexivity.
Qed.

Lemma cons3 (prof : profile) (h : header) : V3.build_empty_packet h = None ->
  forall t p d', V3.block_decode prof h t [] <> ROk p d'.
Proof.
  unfold V3.build_empty_packet, V3.block_decode.
  destruct (h_typ h); intros Hb t p d' H; try discriminate Hb; vm_compute in H; discriminate H.
Qed.

Local Notation frame3 prof :=
  (frame V3.packet V3.header_new_with (V3.body_decode_async prof)).

(* the encoding of a valid packet is a frame *)
Lemma encode_frame3 (prof : profile) (p : V3.packet) (vb : varbytes) :
  I3.valid p = true -> V3.encode prof p = Ok vb -> frame3 prof (V3.control_byte p) p (as_ref vb).
Proof.
  intros Hv He. exists (V3RT.body_len3 p), (concat (V3RT.body_chunks3 p)).
  split; [exact (V3RT.encode_ok_shape prof p vb He)|].
  split; [exact (V3RT.encode_ok_bound prof p vb He)|].
  split; [exact (V3RT.body_chunks_len p)|].
  exact (V3RT.v3_roundtrip TopicFilterEq.filter_profile_indep prof p vb Hv He).
Qed.

(* FrontGen's theorems with the v3 hypotheses discharged *)
Local Notation poll3 prof thm :=
  (thm V3.packet V3.header_new_with V3.build_empty_packet (V3.block_decode prof) (V3.body_decode_async prof)
       PollSched.V3_new_with_rl (bridge3 prof) (empty3 prof) (cons3 prof)).
Local Notation stab3 prof thm :=
  (thm V3.packet V3.header_new_with (V3.body_decode_async prof) (Stable.stable_v3_decode_async prof)).

(* ------------------------------------------------------------------------------------------ *)
(* C01: encode then decode is the identity on all three front-ends                            *)
(* ------------------------------------------------------------------------------------------ *)
Theorem C01_v3_async : forall prof p vb, I3.valid p = true -> V3.encode prof p = Ok vb ->
  forall t rest, F3.dec_async prof t (as_ref vb ++ rest) = ROk p rest.
Proof.
  intros prof p vb Hv He. exact (V3RT.v3_roundtrip TopicFilterEq.filter_profile_indep prof p vb Hv He).
Qed.

Theorem C01_v3_block : forall prof p vb, I3.valid p = true -> V3.encode prof p = Ok vb ->
  forall rest, F3.dec_block prof (as_ref vb ++ rest) = BOk p.
Proof.
  intros prof p vb Hv He rest. unfold F3.dec_block.
  change (V3.decode_async prof) with (F3.dec_async prof).
  rewrite (C01_v3_async prof p vb Hv He TEof rest). reflexivity.
Qed.

(* under EVERY delivery schedule l of the stream (cuts and Pendings anywhere), with anything after
   the packet, in either profile: the packet, its size, its raw body bytes, and exactly the
   packet's bytes consumed *)
Theorem C01_v3_poll : forall prof p vb, I3.valid p = true -> V3.encode prof p = Ok vb ->
  forall (l : list atom) t sfx, bytes_of l = as_ref vb ++ sfx ->
    let r := F3.poll_drive prof l t in
    exists body, rr_res _ r = Some (Ok (len (as_ref vb), body, p))
      /\ as_ref vb = V3.control_byte p :: write_var_int (len body) ++ body
      /\ bytes_of (rr_rest _ r) = sfx.
Proof.
  intros prof p vb Hv He l t sfx Hb.
  exact (poll3 prof G_poll (V3.control_byte p) p (as_ref vb) (encode_frame3 prof p vb Hv He) prof l t sfx Hb).
Qed.

(* the always-ready special case *)
Corollary C01_v3_poll1 : forall prof p vb, I3.valid p = true -> V3.encode prof p = Ok vb ->
  forall t sfx,
    let r := F3.poll1 prof (as_ref vb ++ sfx) t in
    exists body, rr_res _ r = Some (Ok (len (as_ref vb), body, p))
      /\ as_ref vb = V3.control_byte p :: write_var_int (len body) ++ body
      /\ bytes_of (rr_rest _ r) = sfx.
Proof.
  intros prof p vb Hv He t sfx.
  exact (C01_v3_poll prof p vb Hv He (map AB (as_ref vb ++ sfx)) t sfx (PollSched.bytes_of_map_AB _)).
Qed.

(* ------------------------------------------------------------------------------------------ *)
(* C07: incomplete input is incomplete (the "trailing bytes are ignored" half is C01's rest/sfx) *)
(* ------------------------------------------------------------------------------------------ *)
Theorem C07_v3_prefix : forall prof p vb, I3.valid p = true -> V3.encode prof p = Ok vb ->
  forall k, (k < length (as_ref vb))%nat ->
     F3.dec_block prof (firstn k (as_ref vb)) = BNone
  /\ F3.dec_async prof TEof (firstn k (as_ref vb)) = RErr (IoError KUnexpectedEof)
  /\ (forall l, bytes_of l = firstn k (as_ref vb) ->
        rr_res _ (F3.poll_drive prof l TEof) = Some (Err (IoError KUnexpectedEof)))
  /\ is_eof (IoError KUnexpectedEof) = true.
Proof.
  intros prof p vb Hv He k Hk. pose proof (encode_frame3 prof p vb Hv He) as Hf.
  split; [exact (stab3 prof G_prefix_block _ _ _ Hf k Hk)|].
  split; [exact (stab3 prof G_prefix_async _ _ _ Hf k Hk TEof)|].
  split; [|reflexivity].
  intros l Hb. exact (proj1 (poll3 prof G_prefix_poll _ _ _ Hf k Hk prof l TEof Hb)).
Qed.

(* ------------------------------------------------------------------------------------------ *)
(* C14, read side: a transport failure inside the packet surfaces as an I/O error of that kind *)
(* ------------------------------------------------------------------------------------------ *)
Theorem C14_v3_read_fault : forall prof p vb kind, I3.valid p = true -> V3.encode prof p = Ok vb ->
  forall k, (k < length (as_ref vb))%nat ->
     F3.dec_async prof (TFail kind) (firstn k (as_ref vb)) = RErr (IoError kind)
  /\ (forall l, bytes_of l = firstn k (as_ref vb) ->
        rr_res _ (F3.poll_drive prof l (TFail kind)) = Some (Err (IoError kind))).
Proof.
  intros prof p vb kind Hv He k Hk. pose proof (encode_frame3 prof p vb Hv He) as Hf.
  split; [exact (stab3 prof G_prefix_async _ _ _ Hf k Hk (TFail kind))|].
  intros l Hb. exact (proj1 (poll3 prof G_prefix_poll _ _ _ Hf k Hk prof l (TFail kind) Hb)).
Qed.

(* both at once, for any tail; the poll decoder also leaves nothing unread *)
Theorem C07_C14_v3_any_tail : forall prof p vb, I3.valid p = true -> V3.encode prof p = Ok vb ->
  forall k, (k < length (as_ref vb))%nat -> forall t,
     F3.dec_async prof t (firstn k (as_ref vb)) = RErr (io_err t)
  /\ (forall l, bytes_of l = firstn k (as_ref vb) ->
        rr_res _ (F3.poll_drive prof l t) = Some (Err (io_err t))
        /\ bytes_of (rr_rest _ (F3.poll_drive prof l t)) = []).
Proof.
  intros prof p vb Hv He k Hk t. pose proof (encode_frame3 prof p vb Hv He) as Hf.
  split; [exact (stab3 prof G_prefix_async _ _ _ Hf k Hk t)|].
  intros l Hb. exact (poll3 prof G_prefix_poll _ _ _ Hf k Hk prof l t Hb).
Qed.

(* ------------------------------------------------------------------------------------------ *)
(* C08: back-to-back packets are framed without loss or overlap                               *)
(* ------------------------------------------------------------------------------------------ *)
(* bs are the encodings of the valid packets ps *)
Definition encs3 (prof : profile) (ps : list V3.packet) (bs : list bytes) : Prop :=
  Forall2 (fun p b => I3.valid p = true /\ exists vb, V3.encode prof p = Ok vb /\ b = as_ref vb) ps bs.

Lemma encs3_frames prof ps bs : encs3 prof ps bs ->
  frames V3.packet V3.header_new_with (V3.body_decode_async prof) ps bs.
Proof.
  intros H. induction H as [|p b ps bs (Hv & vb & He & ->) _ IH]; constructor; [|exact IH].
  exists (V3.control_byte p). exact (encode_frame3 prof p vb Hv He).
Qed.

Lemma encs3_frames_len prof ps bs : encs3 prof ps bs ->
  frames_len V3.packet V3.header_new_with (V3.body_decode_async prof) V3.encode_len ps bs.
Proof.
  intros H. induction H as [|p b ps bs (Hv & vb & He & ->) _ IH]; constructor; [|exact IH].
  split; [exists (V3.control_byte p); exact (encode_frame3 prof p vb Hv He)|].
  exact (V3RT.v3_encode_len prof p vb Hv He).
Qed.

(* Any fuel above the number of packets gives the same result (S (length ps) is the least that
   does: the last iteration is the one that sees the end of the stream). *)
Theorem C08_v3_async_fuel : forall prof ps bs, encs3 prof ps bs ->
  forall fuel t, (length ps < fuel)%nat ->
    stream_async V3.packet (F3.dec_async prof) fuel t (concat bs) [] = (combine ps (map len bs), FErr (io_err t)).
Proof.
  intros prof ps bs H fuel t Hf.
  exact (G_stream_async V3.packet V3.header_new_with (V3.body_decode_async prof) ps bs (encs3_frames prof ps bs H) fuel t Hf).
Qed.

Theorem C08_v3_block_fuel : forall prof ps bs, encs3 prof ps bs ->
  forall fuel, (length ps < fuel)%nat ->
    stream_block V3.packet (F3.dec_async prof) V3.encode_len fuel (concat bs) [] = (combine ps (map len bs), FNone).
Proof.
  intros prof ps bs H fuel Hf.
  exact (G_stream_block V3.packet V3.header_new_with (V3.body_decode_async prof) V3.encode_len ps bs (encs3_frames_len prof ps bs H) fuel Hf).
Qed.

Theorem C08_v3_poll_fuel : forall prof ps bs, encs3 prof ps bs ->
  forall fuel t, (length ps < fuel)%nat ->
    stream_poll V3.packet (F3.poll1 prof) fuel t (concat bs) [] = (combine ps (map len bs), FErr (io_err t)).
Proof.
  intros prof ps bs H fuel t Hf.
  exact (poll3 prof G_stream_poll prof ps bs (encs3_frames prof ps bs H) fuel t Hf).
Qed.

Theorem C08_v3_async : forall prof ps bs, encs3 prof ps bs -> forall t,
  stream_async V3.packet (F3.dec_async prof) (S (length ps)) t (concat bs) [] = (combine ps (map len bs), FErr (io_err t)).
Proof. intros prof ps bs H t. apply C08_v3_async_fuel; [exact H|lia]. Qed.

Theorem C08_v3_block : forall prof ps bs, encs3 prof ps bs ->
  stream_block V3.packet (F3.dec_async prof) V3.encode_len (S (length ps)) (concat bs) [] = (combine ps (map len bs), FNone).
Proof. intros prof ps bs H. apply C08_v3_block_fuel; [exact H|lia]. Qed.

Theorem C08_v3_poll : forall prof ps bs, encs3 prof ps bs -> forall t,
  stream_poll V3.packet (F3.poll1 prof) (S (length ps)) t (concat bs) [] = (combine ps (map len bs), FErr (io_err t)).
Proof. intros prof ps bs H t. apply C08_v3_poll_fuel; [exact H|lia]. Qed.

(* the common answer lists every packet once, in order, and the sizes add up to the stream *)
Theorem C08_v3_sizes : forall prof ps bs, encs3 prof ps bs ->
  map fst (combine ps (map len bs)) = ps /\
  map snd (combine ps (map len bs)) = map len bs /\
  sizes_sum (combine ps (map len bs)) = len (concat bs).
Proof.
  intros prof ps bs H.
  exact (G_stream_sizes V3.packet V3.header_new_with (V3.body_decode_async prof) ps bs (encs3_frames prof ps bs H)).
Qed.

(* ------------------------------------------------------------------------------------------ *)
(* non-vacuity                                                                                *)
(* ------------------------------------------------------------------------------------------ *)
Definition ex3_publish : V3.packet :=
  V3.Publish {| V3.p_dup := false; V3.p_retain := true; V3.p_qospid := QP1 7;
                V3.p_topic := [97; 47; 98]; V3.p_payload := [1; 2; 255] |}.
Definition ex3_bytes : bytes := [51; 10; 0; 3; 97; 47; 98; 0; 7; 1; 2; 255].

Example ex3_valid : I3.valid ex3_publish = true.
Proof. vm_compute. reflexivity. Qed.
Example ex3_encode : V3.encode Debug ex3_publish = Ok (Dynamic ex3_bytes).
Proof. vm_compute. reflexivity. Qed.

(* a 3-chunk schedule with a Pending: [51 10 0] cut [3 97 47 98 0] Pend [7 1 2 255], then a stray 9 *)
Definition ex3_schedule : list atom :=
  [AB 51; AB 10; AB 0; ACut; AB 3; AB 97; AB 47; AB 98; AB 0; APend; AB 7; AB 1; AB 2; AB 255; AB 9].
Example ex3_schedule_bytes : bytes_of ex3_schedule = ex3_bytes ++ [9].
Proof. vm_compute. reflexivity. Qed.
Example ex3_poll :
  let r := F3.poll_drive Debug ex3_schedule TEof in
  rr_res _ r = Some (Ok (12, [0; 3; 97; 47; 98; 0; 7; 1; 2; 255], ex3_publish))
  /\ bytes_of (rr_rest _ r) = [9] /\ rr_pend _ r = 1.
Proof. vm_compute. repeat split. Qed.
Example ex3_prefix : F3.dec_block Debug (firstn 5 ex3_bytes) = BNone
  /\ rr_res _ (F3.poll1 Debug (firstn 5 ex3_bytes) (TFail KInterrupted)) = Some (Err (IoError KInterrupted)).
Proof. vm_compute. split; reflexivity. Qed.
Example ex3_stream :
  encs3 Debug [ex3_publish; V3.Pingreq; ex3_publish] [ex3_bytes; [192; 0]; ex3_bytes].
Proof.
  repeat constructor; try (vm_compute; reflexivity);
    eexists; (split; [vm_compute; reflexivity|reflexivity]).
Qed.
Example ex3_stream_run :
  stream_poll V3.packet (F3.poll1 Debug) 4 TEof (concat [ex3_bytes; [192; 0]; ex3_bytes]) []
  = ([(ex3_publish, 12); (V3.Pingreq, 2); (ex3_publish, 12)], FErr (IoError KUnexpectedEof)).
Proof. vm_compute. reflexivity. Qed.

Print Assumptions C01_v3_async.
Print Assumptions C01_v3_block.
Print Assumptions C01_v3_poll.
Print Assumptions C01_v3_poll1.
Print Assumptions C07_v3_prefix.
Print Assumptions C14_v3_read_fault.
Print Assumptions C07_C14_v3_any_tail.
Print Assumptions C08_v3_async_fuel.
Print Assumptions C08_v3_block_fuel.
Print Assumptions C08_v3_poll_fuel.
Print Assumptions C08_v3_async.
Print Assumptions C08_v3_block.
Print Assumptions C08_v3_poll.
Print Assumptions C08_v3_sizes.
