(* Proofs/FrontAgreeC13.v — C13: a CONNECT of the other protocol family is identified
   (UnexpectedProtocol carrying the protocol that was announced), not misparsed; the refusal
   happens right after the protocol level byte; decoding can be resumed on the remaining bytes
   with the matching family's known-protocol entry point; which (name, level) pairs are
   protocols at all. *)
From MQ Require Import Proofs.Tactics Proofs.VarIntLaws Proofs.Parses Model.Valid.
From MQ Require Import Proofs.Stable Proofs.TopicFilterEq Proofs.PollSched Proofs.FrontAgree.
From MQ Require Proofs.V3RT Proofs.V5RT Proofs.V5Len.
Open Scope N_scope.

(* ====================================================================== *)
(* Protocol::new                                                           *)
(* ====================================================================== *)
Theorem C13_invalid_protocol : forall name lvl,
  protocol_new name lvl =
  if beq_bytes name MQISDP && (lvl =? 3) then Ok V310
  else if beq_bytes name MQTT && (lvl =? 4) then Ok V311
  else if beq_bytes name MQTT && (lvl =? 5) then Ok V500
  else if utf8_valid name then Err (InvalidProtocol name lvl) else Err InvalidString.
Proof. reflexivity. Qed.

Lemma beq_bytes_eq : forall a b, beq_bytes a b = true <-> a = b.
Proof.
  induction a as [|x a IH]; intros [|y b]; cbn [beq_bytes]; split; intros H;
    try reflexivity; try discriminate.
  - apply andb_true_iff in H as [H1 H2]. apply N.eqb_eq in H1. apply IH in H2. subst. reflexivity.
  - inversion H; subst. rewrite N.eqb_refl. cbn [andb]. apply IH. reflexivity.
Qed.

(* exactly the three (name, level) pairs are accepted *)
Theorem C13_protocol_new_ok : forall name lvl p,
  protocol_new name lvl = Ok p <-> (name = protocol_name p /\ lvl = protocol_level p).
Proof.
  intros name lvl p. split.
  - unfold protocol_new.
    destruct (beq_bytes name MQISDP && (lvl =? 3)) eqn:E1.
    { apply andb_true_iff in E1 as [Ea Eb]. apply beq_bytes_eq in Ea. apply N.eqb_eq in Eb.
      intros H; inversion H; subst. split; reflexivity. }
    destruct (beq_bytes name MQTT && (lvl =? 4)) eqn:E2.
    { apply andb_true_iff in E2 as [Ea Eb]. apply beq_bytes_eq in Ea. apply N.eqb_eq in Eb.
      intros H; inversion H; subst. split; reflexivity. }
    destruct (beq_bytes name MQTT && (lvl =? 5)) eqn:E3.
    { apply andb_true_iff in E3 as [Ea Eb]. apply beq_bytes_eq in Ea. apply N.eqb_eq in Eb.
      intros H; inversion H; subst. split; reflexivity. }
    destruct (utf8_valid name); discriminate.
  - intros [-> ->]. destruct p; reflexivity.
Qed.

(* every other pair is rejected, with InvalidProtocol when the name is text *)
Theorem C13_protocol_new_rejects : forall name lvl,
  (forall p, (name, lvl) <> protocol_to_pair p) ->
  protocol_new name lvl = if utf8_valid name then Err (InvalidProtocol name lvl) else Err InvalidString.
Proof.
  intros name lvl H.
  assert (Hno : forall p, protocol_new name lvl <> Ok p).
  { intros p Hp. apply C13_protocol_new_ok in Hp as [-> ->]. exact (H p eq_refl). }
  unfold protocol_new in *.
  destruct (beq_bytes name MQISDP && (lvl =? 3)); [exfalso; exact (Hno _ eq_refl)|].
  destruct (beq_bytes name MQTT && (lvl =? 4)); [exfalso; exact (Hno _ eq_refl)|].
  destruct (beq_bytes name MQTT && (lvl =? 5)); [exfalso; exact (Hno _ eq_refl)|].
  reflexivity.
Qed.

(* ====================================================================== *)
(* Shapes of the two CONNECT frames                                        *)
(* ====================================================================== *)
Lemma v3_hnw_connect n : V3.header_new_with 16 n = Ok (V3.mk_header PConnect n).
Proof. reflexivity. Qed.
Lemma v5_hnw_connect n : V5.header_new_with 16 n = Ok (V3.mk_header PConnect n).
Proof. reflexivity. Qed.

Lemma v3_header_connect n t x : n < VMAX ->
  V3.header_decode t (16 :: write_var_int n ++ x) = ROk (V3.mk_header PConnect n) x.
Proof.
  intros Hn. rewrite <- v3_hdec, (hdec_frame _ t 16 _ n x (vbi_of_write n Hn)), v3_hnw_connect.
  reflexivity.
Qed.

Lemma v5_header_connect n t x : n < VMAX ->
  V5.header_decode t (16 :: write_var_int n ++ x) = ROk (V3.mk_header PConnect n) x.
Proof.
  intros Hn. rewrite <- v5_hdec, (hdec_frame _ t 16 _ n x (vbi_of_write n Hn)), v5_hnw_connect.
  reflexivity.
Qed.

Lemma firstn_exact {A} (a b : list A) : firstn (length a) (a ++ b) = a.
Proof. induction a as [|x a IH]; [reflexivity|]. cbn [length app firstn]. rewrite IH. reflexivity. Qed.

Lemma firstn_strict {A} (n : nat) (pre post l : list A) :
  l = pre ++ post -> post <> [] -> firstn n l = pre -> (n < length l)%nat.
Proof.
  intros -> Hp Hf. destruct (Nat.lt_ge_cases n (length (pre ++ post))) as [H|H]; [exact H|exfalso].
  rewrite (firstn_all2 _ H) in Hf. rewrite <- (app_nil_r pre) in Hf at 2.
  apply app_inv_head in Hf. exact (Hp Hf).
Qed.

Lemma len_protocol pr : len (concat (protocol_enc pr)) = protocol_len pr.
Proof. destruct pr; reflexivity. Qed.

(* the bytes of a CONNECT body after the protocol name and level *)
Definition v5_after_proto (c : V5.connect) : bytes :=
  concat ([[V5.connect_flags c]; be16 (V5.c_keep_alive c)]
          ++ props_enc CONNECT_PROPS (V5.c_props c)
          ++ V5.lp_chunks (V5.c_client_id c)
          ++ (match V5.c_will c with Some w => V5.will_enc w | None => [] end)
          ++ V3.opt_lp (V5.c_username c) ++ V3.opt_lp (V5.c_password c)).

Definition v3_after_proto (c : V3.connect) : bytes :=
  concat ([[V3.connect_flags c]; be16 (V3.c_keep_alive c); be16 (len (V3.c_client_id c) mod 65536);
           V3.c_client_id c]
          ++ (match V3.c_will c with Some w => V3.will_enc w | None => [] end)
          ++ V3.opt_lp (V3.c_username c) ++ V3.opt_lp (V3.c_password c)).

Lemma v5_connect_enc_split c :
  concat (V5.connect_enc c) = concat (protocol_enc (V5.c_protocol c)) ++ v5_after_proto c.
Proof. unfold V5.connect_enc, v5_after_proto. rewrite concat_app. reflexivity. Qed.

Lemma v3_connect_enc_split c :
  concat (V3.connect_enc c) = concat (protocol_enc (V3.c_protocol c)) ++ v3_after_proto c.
Proof. unfold V3.connect_enc, v3_after_proto. rewrite concat_app. reflexivity. Qed.

Lemma v5_after_proto_nonempty c : v5_after_proto c <> [].
Proof. unfold v5_after_proto. cbn [app concat]. discriminate. Qed.
Lemma v3_after_proto_nonempty c : v3_after_proto c <> [].
Proof. unfold v3_after_proto. cbn [app concat]. discriminate. Qed.

Lemma v5_valid_protocol c : I5.valid (V5.Connect c) = true -> V5.c_protocol c = V500.
Proof.
  unfold I5.valid. intros H. apply andb_true_iff in H as [_ H].
  repeat (apply andb_true_iff in H as [H _]). destruct (V5.c_protocol c); [discriminate..|reflexivity].
Qed.

Lemma v3_valid_protocol c : I3.valid (V3.Connect c) = true -> V3.c_protocol c <> V500.
Proof.
  unfold I3.valid. intros H. apply andb_true_iff in H as [_ H].
  repeat (apply andb_true_iff in H as [H _]). destruct (V3.c_protocol c); discriminate.
Qed.

(* a valid, encodable v5 CONNECT is: 0x10, the remaining length n, "MQTT" 5, then n - 7 more bytes *)
Lemma v5_connect_frame prof c vb :
  I5.valid (V5.Connect c) = true -> V5.encode prof (V5.Connect c) = Ok vb ->
  exists n, V5.connect_len c = Ok n /\ n < VMAX /\
            as_ref vb = 16 :: write_var_int n ++ concat (protocol_enc V500) ++ v5_after_proto c /\
            len (concat (protocol_enc V500) ++ v5_after_proto c) = n.
Proof.
  intros Hv He.
  destruct (V5Len.encode_inv prof (V5.Connect c) vb (V5.connect_enc c) (V5.connect_len c) eq_refl He)
    as (n & Hl & Hn & Hr).
  exists n. split; [exact Hl|]. split; [exact Hn|].
  pose proof (V5Len.connect_parts_len c n Hl) as Hc. unfold clen in Hc.
  rewrite v5_connect_enc_split, (v5_valid_protocol c Hv) in Hr, Hc.
  split; [exact Hr|exact Hc].
Qed.

Lemma v3_connect_frame prof c vb :
  I3.valid (V3.Connect c) = true -> V3.encode prof (V3.Connect c) = Ok vb ->
  exists n, V3.connect_len c = n /\ n < VMAX /\
            as_ref vb = 16 :: write_var_int n ++ concat (protocol_enc (V3.c_protocol c)) ++ v3_after_proto c /\
            len (concat (protocol_enc (V3.c_protocol c)) ++ v3_after_proto c) = n.
Proof.
  intros Hv He. exists (V3.connect_len c). split; [reflexivity|].
  split; [exact (V3RT.encode_ok_bound prof (V3.Connect c) vb He)|].
  pose proof (V3RT.encode_ok_shape prof (V3.Connect c) vb He) as Hr.
  change (as_ref vb = 16 :: write_var_int (V3.connect_len c) ++ concat (V3.connect_enc c)) in Hr.
  pose proof (V3RT.connect_parts_len c) as Hc. unfold clen in Hc.
  rewrite v3_connect_enc_split in Hr, Hc. split; [exact Hr|exact Hc].
Qed.

(* ====================================================================== *)
(* The refusals                                                            *)
(* ====================================================================== *)
Lemma v3_connect_refuses t y :
  V3.connect_decode t (concat (protocol_enc V500) ++ y) = RErr (UnexpectedProtocol V500).
Proof.
  unfold V3.connect_decode. rewrite (bind_ok _ _ _ _ _ _ (V3RT.protocol_rt V500 t y)). reflexivity.
Qed.

Lemma v5_connect_refuses h pr t y : pr <> V500 ->
  V5.connect_decode h t (concat (protocol_enc pr) ++ y) = RErr (UnexpectedProtocol pr).
Proof.
  intros Hp. unfold V5.connect_decode. rewrite (bind_ok _ _ _ _ _ _ (V3RT.protocol_rt pr t y)).
  destruct pr; try reflexivity. contradiction.
Qed.

Lemma v3_async_refuses prof n t y : n < VMAX ->
  F3.dec_async prof t (16 :: write_var_int n ++ concat (protocol_enc V500) ++ y)
  = RErr (UnexpectedProtocol V500).
Proof.
  intros Hn. unfold F3.dec_async, V3.decode_async.
  rewrite (bind_ok _ _ _ _ _ _ (v3_header_connect n t _ Hn)).
  change (V3.body_decode_async prof (V3.mk_header PConnect n))
    with (c <- V3.connect_decode ;; ret (V3.Connect c)).
  rewrite (bind_err _ _ _ _ _ (v3_connect_refuses t y)). reflexivity.
Qed.

Lemma v5_async_refuses prof n pr t y : n < VMAX -> pr <> V500 ->
  F5.dec_async prof t (16 :: write_var_int n ++ concat (protocol_enc pr) ++ y)
  = RErr (UnexpectedProtocol pr).
Proof.
  intros Hn Hp. unfold F5.dec_async, V5.decode_async.
  rewrite (bind_ok _ _ _ _ _ _ (v5_header_connect n t _ Hn)).
  change (V5.body_decode_async prof (V3.mk_header PConnect n))
    with (c <- V5.connect_decode (V3.mk_header PConnect n) ;; ret (V5.Connect c)).
  rewrite (bind_err _ _ _ _ _ (v5_connect_refuses _ pr t y Hp)). reflexivity.
Qed.

Lemma v3_poll1_refuses prof n t y sfx : n < VMAX -> len (concat (protocol_enc V500) ++ y) = n ->
  rr_res _ (F3.poll1 prof (16 :: write_var_int n ++ (concat (protocol_enc V500) ++ y) ++ sfx) t)
  = Some (Err (UnexpectedProtocol V500)).
Proof.
  intros Hn Hl. unfold F3.poll1.
  destruct (poll1_frame V3.packet V3.header_new_with V3.build_empty_packet (V3.block_decode prof) prof t
              16 (write_var_int n) n (concat (protocol_enc V500) ++ y) sfx
              V3_new_with_rl (vbi_of_write n Hn) Hl) as [H _].
  rewrite H. unfold frame_result. rewrite v3_hnw_connect.
  change (V3.build_empty_packet (V3.mk_header PConnect n)) with (@None V3.packet). cbv iota.
  destruct (N.eqb_spec n 0) as [E0|E0].
  { exfalso. rewrite Parses.len_app, len_protocol in Hl. cbn [protocol_len] in Hl. lia. }
  cbn [fst]. unfold body_result.
  change (V3.block_decode prof (V3.mk_header PConnect n))
    with (c <- V3.connect_decode ;; ret (V3.Connect c)).
  rewrite (bind_err _ _ _ _ _ (v3_connect_refuses TEof y)). reflexivity.
Qed.

Lemma v5_poll1_refuses prof n pr t y sfx : n < VMAX -> pr <> V500 ->
  len (concat (protocol_enc pr) ++ y) = n ->
  rr_res _ (F5.poll1 prof (16 :: write_var_int n ++ (concat (protocol_enc pr) ++ y) ++ sfx) t)
  = Some (Err (UnexpectedProtocol pr)).
Proof.
  intros Hn Hp Hl. unfold F5.poll1.
  destruct (poll1_frame V5.packet V5.header_new_with V5.build_empty_packet (V5.block_decode prof) prof t
              16 (write_var_int n) n (concat (protocol_enc pr) ++ y) sfx
              V5_new_with_rl (vbi_of_write n Hn) Hl) as [H _].
  rewrite H. unfold frame_result. rewrite v5_hnw_connect.
  change (V5.build_empty_packet (V3.mk_header PConnect n)) with (@None V5.packet). cbv iota.
  destruct (N.eqb_spec n 0) as [E0|E0].
  { exfalso. rewrite Parses.len_app, len_protocol in Hl. destruct pr; cbn [protocol_len] in Hl; lia. }
  cbn [fst]. unfold body_result.
  change (V5.block_decode prof (V3.mk_header PConnect n))
    with (c <- V5.connect_decode (V3.mk_header PConnect n) ;; ret (V5.Connect c)).
  rewrite (bind_err _ _ _ _ _ (v5_connect_refuses _ pr TEof y Hp)). reflexivity.
Qed.

(* ---------------- the theorems ---------------- *)
Theorem C13_v5_connect_into_v3 : forall prof c vb,
  I5.valid (V5.Connect c) = true -> V5.encode prof (V5.Connect c) = Ok vb ->
  forall t sfx,
    F3.dec_async prof t (as_ref vb ++ sfx) = RErr (UnexpectedProtocol V500)
    /\ F3.dec_block prof (as_ref vb ++ sfx) = BErr (UnexpectedProtocol V500)
    /\ (forall l, bytes_of l = as_ref vb ++ sfx ->
                  rr_res _ (F3.poll_drive prof l t) = Some (Err (UnexpectedProtocol V500))).
Proof.
  intros prof c vb Hv He t sfx.
  destruct (v5_connect_frame prof c vb Hv He) as (n & _ & Hn & Hr & Hl).
  rewrite Hr. rewrite <- app_comm_cons, <- !app_assoc.
  split; [|split].
  - exact (v3_async_refuses prof n t _ Hn).
  - unfold F3.dec_block. fold (F3.dec_async prof). rewrite (v3_async_refuses prof n TEof _ Hn). reflexivity.
  - intros l Hb. destruct (C05_v3_same_as_one_read prof l t) as [H1 _]. rewrite H1, Hb.
    rewrite (app_assoc (concat (protocol_enc V500))).
    exact (v3_poll1_refuses prof n t _ sfx Hn Hl).
Qed.

Theorem C13_v3_connect_into_v5 : forall prof c vb,
  I3.valid (V3.Connect c) = true -> V3.encode prof (V3.Connect c) = Ok vb ->
  (V3.c_protocol c = V310 \/ V3.c_protocol c = V311) /\
  forall t sfx,
    F5.dec_async prof t (as_ref vb ++ sfx) = RErr (UnexpectedProtocol (V3.c_protocol c))
    /\ F5.dec_block prof (as_ref vb ++ sfx) = BErr (UnexpectedProtocol (V3.c_protocol c))
    /\ (forall l, bytes_of l = as_ref vb ++ sfx ->
                  rr_res _ (F5.poll_drive prof l t) = Some (Err (UnexpectedProtocol (V3.c_protocol c)))).
Proof.
  intros prof c vb Hv He. pose proof (v3_valid_protocol c Hv) as Hp.
  split; [destruct (V3.c_protocol c); [left|right|contradiction]; reflexivity|].
  intros t sfx.
  destruct (v3_connect_frame prof c vb Hv He) as (n & _ & Hn & Hr & Hl).
  rewrite Hr. rewrite <- app_comm_cons, <- !app_assoc.
  split; [|split].
  - exact (v5_async_refuses prof n _ t _ Hn Hp).
  - unfold F5.dec_block. fold (F5.dec_async prof). rewrite (v5_async_refuses prof n _ TEof _ Hn Hp). reflexivity.
  - intros l Hb. destruct (C05_v5_same_as_one_read prof l t) as [H1 _]. rewrite H1, Hb.
    rewrite (app_assoc (concat (protocol_enc (V3.c_protocol c)))).
    exact (v5_poll1_refuses prof n _ t _ sfx Hn Hp Hl).
Qed.

(* ---------------- no further read ---------------- *)
(* fixed header + 2-byte length of the protocol name + the name + the level byte *)
Definition refusal_point (vb : varbytes) (pr : protocol) : nat :=
  N.to_nat (header_len (len (as_ref vb)) + 2 + len (protocol_name pr) + 1).

Lemma refusal_point_prefix vb pr n y : n < VMAX ->
  as_ref vb = 16 :: write_var_int n ++ concat (protocol_enc pr) ++ y ->
  len (concat (protocol_enc pr) ++ y) = n ->
  firstn (refusal_point vb pr) (as_ref vb) = 16 :: write_var_int n ++ concat (protocol_enc pr).
Proof.
  intros Hn Hr Hl.
  assert (Hp : refusal_point vb pr = length (16 :: write_var_int n ++ concat (protocol_enc pr))).
  { unfold refusal_point. rewrite Hr.
    destruct (write_len n Hn) as [Hw _].
    assert (Hlen : len (16 :: write_var_int n ++ concat (protocol_enc pr) ++ y) = n + 1 + width n).
    { rewrite Parses.len_cons, Parses.len_app, Hl, Hw. lia. }
    rewrite Hlen, (header_len_total n Hn).
    cbn [length]. rewrite app_length. unfold len in Hw.
    assert (Hq : N.of_nat (length (concat (protocol_enc pr))) = 2 + len (protocol_name pr) + 1).
    { destruct pr; reflexivity. }
    lia. }
  rewrite Hp, Hr.
  replace (16 :: write_var_int n ++ concat (protocol_enc pr) ++ y)
    with ((16 :: write_var_int n ++ concat (protocol_enc pr)) ++ y)
    by (rewrite <- app_comm_cons, <- app_assoc; reflexivity).
  apply firstn_exact.
Qed.

(* the refusal is produced after consuming no more than the protocol name and level: the result is
   the same when the transport FAILS (any error kind), or ends, right after the level byte *)
Theorem C13_no_further_read_v5_into_v3 : forall prof c vb,
  I5.valid (V5.Connect c) = true -> V5.encode prof (V5.Connect c) = Ok vb ->
  let n := refusal_point vb V500 in
  (n < length (as_ref vb))%nat /\
  (forall kind, F3.dec_async prof (TFail kind) (firstn n (as_ref vb)) = RErr (UnexpectedProtocol V500)) /\
  F3.dec_block prof (firstn n (as_ref vb)) = BErr (UnexpectedProtocol V500).
Proof.
  intros prof c vb Hv He n.
  destruct (v5_connect_frame prof c vb Hv He) as (m & _ & Hm & Hr & Hl).
  pose proof (refusal_point_prefix vb V500 m _ Hm Hr Hl) as Hf. fold n in Hf.
  assert (Hx : forall t, F3.dec_async prof t (firstn n (as_ref vb)) = RErr (UnexpectedProtocol V500)).
  { intros t. rewrite Hf.
    replace (concat (protocol_enc V500)) with (concat (protocol_enc V500) ++ []) by apply app_nil_r.
    exact (v3_async_refuses prof m t [] Hm). }
  split; [|split].
  - apply (firstn_strict n (16 :: write_var_int m ++ concat (protocol_enc V500)) (v5_after_proto c));
      [|apply v5_after_proto_nonempty|exact Hf].
    rewrite Hr, <- app_comm_cons, <- app_assoc. reflexivity.
  - intros kind. exact (Hx (TFail kind)).
  - unfold F3.dec_block. fold (F3.dec_async prof). rewrite (Hx TEof). reflexivity.
Qed.

Theorem C13_no_further_read_v3_into_v5 : forall prof c vb,
  I3.valid (V3.Connect c) = true -> V3.encode prof (V3.Connect c) = Ok vb ->
  let n := refusal_point vb (V3.c_protocol c) in
  (n < length (as_ref vb))%nat /\
  (forall kind, F5.dec_async prof (TFail kind) (firstn n (as_ref vb))
                = RErr (UnexpectedProtocol (V3.c_protocol c))) /\
  F5.dec_block prof (firstn n (as_ref vb)) = BErr (UnexpectedProtocol (V3.c_protocol c)).
Proof.
  intros prof c vb Hv He n. pose proof (v3_valid_protocol c Hv) as Hp.
  destruct (v3_connect_frame prof c vb Hv He) as (m & _ & Hm & Hr & Hl).
  pose proof (refusal_point_prefix vb (V3.c_protocol c) m _ Hm Hr Hl) as Hf. fold n in Hf.
  assert (Hx : forall t, F5.dec_async prof t (firstn n (as_ref vb))
                         = RErr (UnexpectedProtocol (V3.c_protocol c))).
  { intros t. rewrite Hf.
    replace (concat (protocol_enc (V3.c_protocol c)))
      with (concat (protocol_enc (V3.c_protocol c)) ++ []) by apply app_nil_r.
    exact (v5_async_refuses prof m _ t [] Hm Hp). }
  split; [|split].
  - apply (firstn_strict n (16 :: write_var_int m ++ concat (protocol_enc (V3.c_protocol c))) (v3_after_proto c));
      [|apply v3_after_proto_nonempty|exact Hf].
    rewrite Hr, <- app_comm_cons, <- app_assoc. reflexivity.
  - intros kind. exact (Hx (TFail kind)).
  - unfold F5.dec_block. fold (F5.dec_async prof). rewrite (Hx TEof). reflexivity.
Qed.

(* the poll front-end, by contrast, buffers the whole frame before it looks at the body: on the same
   truncated input it reports the transport's error, not the refusal *)
Theorem C13_poll_needs_whole_frame_v5_into_v3 : forall prof c vb,
  I5.valid (V5.Connect c) = true -> V5.encode prof (V5.Connect c) = Ok vb ->
  forall t, rr_res _ (F3.poll1 prof (firstn (refusal_point vb V500) (as_ref vb)) t) = Some (Err (io_err t)).
Proof.
  intros prof c vb Hv He t.
  destruct (v5_connect_frame prof c vb Hv He) as (m & _ & Hm & Hr & Hl).
  rewrite (refusal_point_prefix vb V500 m _ Hm Hr Hl). unfold F3.poll1.
  destruct (poll1_short V3.packet V3.header_new_with V3.build_empty_packet (V3.block_decode prof) prof t
              16 (write_var_int m) m (concat (protocol_enc V500) ++ v5_after_proto c)
              (V3.mk_header PConnect m) (16 :: write_var_int m ++ concat (protocol_enc V500))
              (v5_after_proto c) (vbi_of_write m Hm) Hl (v3_hnw_connect m) eq_refl eq_refl) as [H _].
  - rewrite <- app_comm_cons, <- app_assoc. reflexivity.
  - apply v5_after_proto_nonempty.
  - exact H.
Qed.

Theorem C13_poll_needs_whole_frame_v3_into_v5 : forall prof c vb,
  I3.valid (V3.Connect c) = true -> V3.encode prof (V3.Connect c) = Ok vb ->
  forall t, rr_res _ (F5.poll1 prof (firstn (refusal_point vb (V3.c_protocol c)) (as_ref vb)) t)
            = Some (Err (io_err t)).
Proof.
  intros prof c vb Hv He t.
  destruct (v3_connect_frame prof c vb Hv He) as (m & _ & Hm & Hr & Hl).
  rewrite (refusal_point_prefix vb (V3.c_protocol c) m _ Hm Hr Hl). unfold F5.poll1.
  destruct (poll1_short V5.packet V5.header_new_with V5.build_empty_packet (V5.block_decode prof) prof t
              16 (write_var_int m) m (concat (protocol_enc (V3.c_protocol c)) ++ v3_after_proto c)
              (V3.mk_header PConnect m) (16 :: write_var_int m ++ concat (protocol_enc (V3.c_protocol c)))
              (v3_after_proto c) (vbi_of_write m Hm) Hl (v5_hnw_connect m) eq_refl eq_refl) as [H _].
  - rewrite <- app_comm_cons, <- app_assoc. reflexivity.
  - apply v3_after_proto_nonempty.
  - exact H.
Qed.

(* ---------------- resuming with the matching family ---------------- *)
(* The frame splits as header ++ protocol ++ rest.  The refusing family decoded the header `h`
   and the protocol and stopped with `rest_bytes` unread; the matching family decodes the same header
   value from the same bytes, and its known-protocol entry point on `rest_bytes` yields exactly the
   CONNECT that decoding the whole frame natively yields. *)
Theorem C13_resume_v5 : forall prof c vb,
  I5.valid (V5.Connect c) = true -> V5.encode prof (V5.Connect c) = Ok vb ->
  forall t sfx,
  exists (h : header) (hdr_bytes : bytes),
    let proto_bytes := concat (protocol_enc V500) in
    let rest_bytes := v5_after_proto c ++ sfx in
    as_ref vb ++ sfx = hdr_bytes ++ proto_bytes ++ rest_bytes /\
    V3.header_decode t (as_ref vb ++ sfx) = ROk h (proto_bytes ++ rest_bytes) /\
    protocol_decode t (proto_bytes ++ rest_bytes) = ROk V500 rest_bytes /\
    V3.connect_decode_with_protocol V500 t rest_bytes = RErr (UnexpectedProtocol V500) /\
    V5.header_decode t (as_ref vb ++ sfx) = ROk h (proto_bytes ++ rest_bytes) /\
    V5.connect_decode_with_protocol h V500 t rest_bytes = ROk c sfx /\
    F5.dec_async prof t (as_ref vb ++ sfx) = ROk (V5.Connect c) sfx.
Proof.
  intros prof c vb Hv He t sfx.
  destruct (v5_connect_frame prof c vb Hv He) as (n & Hlen & Hn & Hr & Hl).
  exists (V3.mk_header PConnect n), (16 :: write_var_int n). cbv zeta.
  assert (Hs : as_ref vb ++ sfx
               = (16 :: write_var_int n) ++ concat (protocol_enc V500) ++ v5_after_proto c ++ sfx).
  { rewrite Hr, <- !app_comm_cons, <- !app_assoc. reflexivity. }
  split; [exact Hs|]. rewrite Hs, <- app_comm_cons.
  split; [exact (v3_header_connect n t _ Hn)|].
  split; [exact (V3RT.protocol_rt V500 t _)|].
  split; [reflexivity|].
  split; [exact (v5_header_connect n t _ Hn)|].
  split.
  - pose proof (V5RT.connect_rt c (V3.mk_header PConnect n) n t sfx Hv Hlen) as Hc.
    rewrite v5_connect_enc_split, (v5_valid_protocol c Hv), <- app_assoc in Hc.
    unfold V5.connect_decode in Hc.
    rewrite (bind_ok _ _ _ _ _ _ (V3RT.protocol_rt V500 t _)) in Hc. exact Hc.
  - rewrite app_comm_cons, <- Hs.
    exact (V5RT.v5_roundtrip filter_profile_indep prof (V5.Connect c) vb Hv He t sfx).
Qed.

Theorem C13_resume_v3 : forall prof c vb,
  I3.valid (V3.Connect c) = true -> V3.encode prof (V3.Connect c) = Ok vb ->
  forall t sfx,
  exists (h : header) (hdr_bytes : bytes),
    let proto_bytes := concat (protocol_enc (V3.c_protocol c)) in
    let rest_bytes := v3_after_proto c ++ sfx in
    as_ref vb ++ sfx = hdr_bytes ++ proto_bytes ++ rest_bytes /\
    V5.header_decode t (as_ref vb ++ sfx) = ROk h (proto_bytes ++ rest_bytes) /\
    protocol_decode t (proto_bytes ++ rest_bytes) = ROk (V3.c_protocol c) rest_bytes /\
    V5.connect_decode_with_protocol h (V3.c_protocol c) t rest_bytes
      = RErr (UnexpectedProtocol (V3.c_protocol c)) /\
    V3.header_decode t (as_ref vb ++ sfx) = ROk h (proto_bytes ++ rest_bytes) /\
    V3.connect_decode_with_protocol (V3.c_protocol c) t rest_bytes = ROk c sfx /\
    F3.dec_async prof t (as_ref vb ++ sfx) = ROk (V3.Connect c) sfx.
Proof.
  intros prof c vb Hv He t sfx. pose proof (v3_valid_protocol c Hv) as Hp.
  destruct (v3_connect_frame prof c vb Hv He) as (n & Hlen & Hn & Hr & Hl).
  exists (V3.mk_header PConnect n), (16 :: write_var_int n). cbv zeta.
  assert (Hs : as_ref vb ++ sfx
               = (16 :: write_var_int n) ++ concat (protocol_enc (V3.c_protocol c)) ++ v3_after_proto c ++ sfx).
  { rewrite Hr, <- !app_comm_cons, <- !app_assoc. reflexivity. }
  split; [exact Hs|]. rewrite Hs, <- app_comm_cons.
  split; [exact (v5_header_connect n t _ Hn)|].
  split; [exact (V3RT.protocol_rt (V3.c_protocol c) t _)|].
  split; [destruct (V3.c_protocol c); [reflexivity|reflexivity|contradiction]|].
  split; [exact (v3_header_connect n t _ Hn)|].
  split.
  - pose proof (V3RT.connect_rt c t sfx Hv) as Hc.
    rewrite v3_connect_enc_split, <- app_assoc in Hc.
    unfold V3.connect_decode in Hc.
    rewrite (bind_ok _ _ _ _ _ _ (V3RT.protocol_rt (V3.c_protocol c) t _)) in Hc. exact Hc.
  - rewrite app_comm_cons, <- Hs.
    exact (V3RT.v3_roundtrip filter_profile_indep prof (V3.Connect c) vb Hv He t sfx).
Qed.

(* ====================================================================== *)
(* Non-vacuity                                                             *)
(* ====================================================================== *)
(* the v5 CONNECT of V5RT (properties, will, user name, password) offered to the v3 front-ends *)
Example C13_ex_v5_into_v3 :
  I5.valid V5RT.ex_connect = true /\
  exists vb, V5.encode Debug V5RT.ex_connect = Ok vb /\
    F3.dec_async Debug TEof (as_ref vb ++ [192; 0]) = RErr (UnexpectedProtocol V500) /\
    F3.dec_block Debug (as_ref vb ++ [192; 0]) = BErr (UnexpectedProtocol V500) /\
    rr_res _ (F3.poll1 Debug (as_ref vb ++ [192; 0]) TEof) = Some (Err (UnexpectedProtocol V500)) /\
    rr_res _ (F3.poll_drive Release (APend :: ACut :: map AB (as_ref vb) ++ [APend; AB 192]) (TFail 3))
      = Some (Err (UnexpectedProtocol V500)) /\
    refusal_point vb V500 = 9%nat /\
    F3.dec_async Debug (TFail 3) (firstn 9 (as_ref vb)) = RErr (UnexpectedProtocol V500) /\
    (* one byte less and it is the transport's error *)
    F3.dec_async Debug (TFail 3) (firstn 8 (as_ref vb)) = RErr (IoError 3) /\
    (* the poll front-end needs the whole frame *)
    rr_res _ (F3.poll1 Debug (firstn 9 (as_ref vb)) (TFail 3)) = Some (Err (IoError 3)) /\
    (* native decoding *)
    F5.dec_async Debug TEof (as_ref vb ++ [192; 0]) = ROk V5RT.ex_connect [192; 0].
Proof.
  split; [vm_compute; reflexivity|]. eexists. split; [vm_compute; reflexivity|].
  vm_compute. repeat split.
Qed.

(* the v3.1.1 CONNECT of V3RT, and a v3.1 ("MQIsdp", 3) one, offered to the v5 front-ends *)
Definition ex_connect_310 : V3.packet :=
  V3.Connect {| V3.c_protocol := V310; V3.c_clean := false; V3.c_keep_alive := 10;
                V3.c_client_id := [120]; V3.c_will := None; V3.c_username := None;
                V3.c_password := None |}.

Example C13_ex_v3_into_v5 :
  I3.valid V3RT.ex_connect = true /\ I3.valid ex_connect_310 = true /\
  exists vb vb', V3.encode Debug V3RT.ex_connect = Ok vb /\ V3.encode Release ex_connect_310 = Ok vb' /\
    F5.dec_async Debug TEof (as_ref vb ++ [192; 0]) = RErr (UnexpectedProtocol V311) /\
    F5.dec_block Debug (as_ref vb ++ [192; 0]) = BErr (UnexpectedProtocol V311) /\
    rr_res _ (F5.poll1 Debug (as_ref vb ++ [192; 0]) TEof) = Some (Err (UnexpectedProtocol V311)) /\
    F5.dec_async Release (TFail 1) (as_ref vb') = RErr (UnexpectedProtocol V310) /\
    rr_res _ (F5.poll1 Release (as_ref vb') (TFail 1)) = Some (Err (UnexpectedProtocol V310)) /\
    refusal_point vb V311 = 9%nat /\ refusal_point vb' V310 = 11%nat /\
    F5.dec_async Debug (TFail 3) (firstn 9 (as_ref vb)) = RErr (UnexpectedProtocol V311) /\
    F5.dec_async Debug (TFail 3) (firstn 11 (as_ref vb')) = RErr (UnexpectedProtocol V310) /\
    F5.dec_async Debug (TFail 3) (firstn 10 (as_ref vb')) = RErr (IoError 3) /\
    F3.dec_async Debug TEof (as_ref vb ++ [192; 0]) = ROk V3RT.ex_connect [192; 0].
Proof.
  split; [vm_compute; reflexivity|]. split; [vm_compute; reflexivity|].
  eexists. eexists. split; [vm_compute; reflexivity|]. split; [vm_compute; reflexivity|].
  vm_compute. repeat split.
Qed.

(* pairs that are no protocol at all *)
Example C13_invalid_protocol_ex :
  protocol_new MQTT 6 = Err (InvalidProtocol MQTT 6) /\
  protocol_new MQISDP 4 = Err (InvalidProtocol MQISDP 4) /\
  protocol_new MQTT 3 = Err (InvalidProtocol MQTT 3) /\
  protocol_new [255] 4 = Err InvalidString /\
  F3.dec_async Debug TEof [16; 7; 0; 4; 77; 81; 84; 84; 6] = RErr (InvalidProtocol MQTT 6) /\
  F5.dec_async Debug TEof [16; 7; 0; 4; 77; 81; 84; 84; 6] = RErr (InvalidProtocol MQTT 6) /\
  rr_res _ (F3.poll1 Debug [16; 7; 0; 4; 77; 81; 84; 84; 6] TEof) = Some (Err (InvalidProtocol MQTT 6)) /\
  rr_res _ (F5.poll1 Debug [16; 7; 0; 4; 77; 81; 84; 84; 6] TEof) = Some (Err (InvalidProtocol MQTT 6)).
Proof. vm_compute. repeat split. Qed.

Print Assumptions C13_v5_connect_into_v3.
Print Assumptions C13_v3_connect_into_v5.
Print Assumptions C13_no_further_read_v5_into_v3.
Print Assumptions C13_no_further_read_v3_into_v5.
Print Assumptions C13_poll_needs_whole_frame_v5_into_v3.
Print Assumptions C13_poll_needs_whole_frame_v3_into_v5.
Print Assumptions C13_resume_v5.
Print Assumptions C13_resume_v3.
Print Assumptions C13_invalid_protocol.
Print Assumptions C13_protocol_new_ok.
Print Assumptions C13_protocol_new_rejects.
Print Assumptions beq_bytes_eq.
