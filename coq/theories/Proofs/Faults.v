(* Proofs/Faults.v — C20 "Malformed input is classified with the specific documented error":
   index of the fault catalogue and the bridge to "every valid packet".

   Files
     FaultsBase.v  layer 1 (components): header tables header3_spec / header5_spec and the 256-byte
                   sweeps, pid, QoS and code tables, subscription options, strings, topic names and
                   filters, the property loop, over-long variable byte integers, protocol name /
                   level, checked_sub, the poll decoder's leftover / EOF mapping; the generic lemmas
                   frame_err_to_poll, async_err_to_poll_weak, header_err_to_poll.
     Faults3.v     MQTT 3.1 / 3.1.1: decoder-level rows and whole frames (F3.dec_async, F3.dec_block, F3.poll1).
     Faults5.v     MQTT 5.0: decoder-level rows, the eleven property sections (section5), whole frames.

   Naming: C20_<row>_<family>        the async decoder, any declared remaining length that lets the
                                     decoder reach the fault, arbitrary trailing bytes, arbitrary tail;
           C20_<row>_<family>_all    the three front-ends (`classified3` / `classified5`), the declared
                                     remaining length being the length of the (faulty) body.

   Row -> theorems (3 = v3 family, 5 = v5 family)
     illegal header                 C20_header_{reserved_type,flags,qos3,nonempty,sweep}_{3,5}, C20_header_verdict_{3,5},
                                    C20_header_every_packet_{3,5} (below)
     over-long remaining length     C20_header_varint_{3,5}
     packet identifier 0            C20_pid_zero, C20_pid_zero_{3,5}[_all], C20_pid_zero_publish_{3,5}[_all]
     QoS / return / reason codes    C20_qos_of_u8, C20_subscribe_return_code, C20_connect_return_code, C20_reason_read,
                                    C20_connack_{flags,code}_{3,5}[_frame,_all], C20_suback_code_{3,5}[_all],
                                    C20_ack_code_5[_all], C20_disconnect_code_5[_all], C20_auth_code_5[_all]
     CONNECT flags                  C20_connect_reserved_flag_{3,5}[_frame,_all], C20_connect_will_qos_without_will_{3,5}[..],
                                    C20_connect_will_qos3_{3,5}[..]
     subscription options / QoS     C20_subopts, C20_subscribe_options_5[_all], C20_subscribe_qos_3[_all]
     non-UTF-8 strings              C20_read_string_invalid, C20_connect_client_id_not_utf8_{3,5}[..],
                                    C20_publish_topic_not_utf8_{3,5}[_all], C20_{un,}subscribe_filter_not_utf8_{3,5}[_all],
                                    C20_prop_string_not_utf8_5[_all], C20_connect_protocol_not_utf8_{3,5}_frame
     topic names                    C20_name_try[_bytes], C20_publish_topic_{3,5}[_all], C20_connect_will_topic_{3,5}[..],
                                    C20_response_topic, C20_prop_response_topic_5
     topic filters                  C20_filter_try, C20_filter_read, C20_{un,}subscribe_filter_{3,5}[_all]
     properties                     C20_prop_{unknown_id,duplicated,disallowed,length_overshoot,bad_byte}, C20_props_*,
                                    section5_fault, C20_prop_{unknown_id,disallowed,duplicated,bad_byte,length_minus_one,
                                    length_varint}_5[_all], C20_prop_subscription_id_varint_5
     protocol                       C20_protocol_new[_not_utf8], C20_protocol_decode[_not_utf8], C20_unexpected_protocol_{3,5},
                                    C20_connect_protocol_{3,5}[_frame,_all], C20_connect_other_family_{3,5}[_frame,_all]
     empty subscription             C20_{un,}subscribe_decode_empty_{3,5}, C20_{un,}subscribe_empty_{3,5}[_all]
     payload format                 C20_publish_payload_format_5[_all], C20_will_payload_format_5, C20_connect_will_payload_format_5[..]
     remaining length too small     C20_checked_sub, C20_publish_short_{topic,pid}_{3,5}, C20_publish_short_props_5,
                                    C20_{subscribe,unsubscribe,suback}_short_{3,5}, C20_subscribe_item_overrun_3,
                                    C20_short_remaining_length_3
     poll only                      C20_poll_leftover, C20_poll_eof_inside, C20_block_eof_inside,
                                    C20_poll_{leftover,eof_inside}_{3,5}, C20_poll_extra_byte_3
     front-end lifting              async_err_to_block_{3,5}, async_err_to_poll_{3,5}, async_err_to_poll_exact_{3,5} *)
From MQ Require Import Spec.SpecTopic.
From MQ Require Import Proofs.Tactics Proofs.VarIntLaws Proofs.Parses Proofs.V5Len Model.Valid.
From MQ Require Proofs.V3RT.
From MQ Require Export Proofs.FaultsBase Proofs.Faults3 Proofs.Faults5.
Open Scope N_scope.

(* The header rows for EVERY valid packet: take the encoding of any valid packet of the family and
   replace its control byte by one the declarative table refuses (for the packet's remaining length);
   all three front-ends report the table's error. *)
Theorem C20_header_every_packet_3 prof p vb cb' e : I3.valid p = true -> V3.encode prof p = Ok vb ->
  header3_verdict (cb' / 16) (cb' mod 16) (V3RT.body_len3 p =? 0) = HReject e ->
  classified3 prof (cb' :: tl (as_ref vb)) e.
Proof.
  intros Hv He Hr. pose proof (V3RT.encode_ok_bound prof p vb He) as Hn.
  rewrite (V3RT.encode_ok_shape prof p vb He). cbn [tl].
  destruct (C20_header_verdict_3 prof cb' _ e Hn Hr) as (A & B & C).
  unfold classified3. cbn [app]. repeat split; intros; rewrite <- app_assoc; auto.
Qed.

Theorem C20_header_every_packet_5 prof p vb n cb' e : I5.valid p = true -> V5.encode prof p = Ok vb ->
  body_len5 p = Ok n ->
  header5_verdict (cb' / 16) (cb' mod 16) (n =? 0) = HReject e ->
  classified5 prof (cb' :: tl (as_ref vb)) e.
Proof.
  intros Hv He Hl Hr.
  assert (Hs : n < VMAX /\ exists body, as_ref vb = V5.control_byte p :: write_var_int n ++ body).
  { unfold body_len5 in Hl. destruct (V5.body_enc p) as [[chunks blen]|] eqn:Eb.
    - destruct (encode_inv _ _ _ _ _ Eb He) as (m & Em & Hm & Hshape). rewrite Hl in Em. inversion Em; subst m.
      split; [exact Hm|]. eexists. exact Hshape.
    - inversion Hl; subst n. split; [reflexivity|].
      destruct (body_enc_none _ Eb) as [-> | ->]; cbn [V5.encode] in He; inversion He; subst vb;
        exists []; reflexivity. }
  destruct Hs as (Hn & body & Hshape). rewrite Hshape. cbn [tl].
  destruct (C20_header_verdict_5 prof cb' _ e Hn Hr) as (A & B & C).
  unfold classified5. cbn [app]. repeat split; intros; rewrite <- app_assoc; auto.
Qed.

(* Order of checks (why some rows need the rest of the frame to be well-formed).  Not violations of
   the catalogue — every single localised fault is classified as documented — but two faults in one
   frame are resolved in the order the decoders read, and the topic name is validated LAST:
   - PUBLISH (both families): InvalidTopicName only after packet identifier, properties, payload and
     the payload-format check; so a zero packet identifier or a mis-flagged payload wins over a wildcard topic;
   - v3 will: the will topic is validated after the will message and the will QoS;
     v5 will: the will QoS is validated before the will is read, the topic right after it is read;
   - properties: "not allowed here" is tested before "duplicated". *)
Example order_pid_before_topic_3 : run3 [50; 5; 0; 1; 43; 0; 0] = all3 ZeroPid.
Proof. vm_compute. reflexivity. Qed.
Example order_will_qos_before_will_topic_3 :
  run3 [16; 18; 0; 4; 77; 81; 84; 84; 4; 28; 0; 10; 0; 0; 0; 1; 35; 0; 1; 109] = all3 (InvalidQos 3).
Proof. vm_compute. reflexivity. Qed.
Example order_payload_format_before_topic_5 : run5 [48; 7; 0; 1; 43; 2; 1; 1; 255] = all5 InvalidPayloadFormat.
Proof. vm_compute. reflexivity. Qed.
Example order_property_before_topic_5 : run5 [48; 6; 0; 1; 43; 2; 255; 0] = all5 (InvalidPropertyId 255).
Proof. vm_compute. reflexivity. Qed.
(* a wildcard topic in a frame whose payload is cut short is not classified at all: the decoders
   never get to the topic check *)
Example order_truncated_before_topic_3 :
  run3 [48; 5; 0; 1; 43; 7] = (RErr (IoError KUnexpectedEof), BNone, Some (Err (IoError KUnexpectedEof))).
Proof. vm_compute. reflexivity. Qed.

Print Assumptions C20_header_every_packet_3.
Print Assumptions C20_header_every_packet_5.
