(* Proofs/TopicFilterAcc.v — C17: the accessors of an accepted TopicFilter never panic (the cached
   separator index is a char boundary) and split a shared filter into the unique share name and
   the filter proper; Eq / Ord look at the text only; text -> TopicFilter -> text is the identity. *)
From MQ Require Import Proofs.Tactics Proofs.Utf8Facts Model.Topic Spec.SpecTopic Proofs.TopicFilterEq.
Open Scope N_scope.

(* ------------------------------------------------------------------ *)
(* 1. Bytes of well-formed strings                                     *)
(* ------------------------------------------------------------------ *)

Lemma valid_ascii b r : b < 128 -> utf8_valid (b :: r) = utf8_valid r.
Proof. intros H. cbn [utf8_valid]. destruct (N.ltb_spec b 128); [reflexivity|exfalso; lia]. Qed.
Lemma valid2 b0 b1 r : 194 <= b0 < 224 -> is_cont b1 = true -> utf8_valid r = true ->
  utf8_valid (b0 :: b1 :: r) = true.
Proof. intros H0 H1 Hr. cbn [utf8_valid]. btest. rewrite H1, Hr. reflexivity. Qed.
Lemma valid3 b0 b1 b2 r : 224 <= b0 < 240 -> second_ok b0 b1 = true -> is_cont b2 = true -> utf8_valid r = true ->
  utf8_valid (b0 :: b1 :: b2 :: r) = true.
Proof. intros H0 H1 H2 Hr. cbn [utf8_valid]. btest. rewrite H1, H2, Hr. reflexivity. Qed.
Lemma valid4 b0 b1 b2 b3 r : 240 <= b0 < 245 -> second_ok b0 b1 = true -> is_cont b2 = true -> is_cont b3 = true ->
  utf8_valid r = true -> utf8_valid (b0 :: b1 :: b2 :: b3 :: r) = true.
Proof. intros H0 H1 H2 H3 Hr. cbn [utf8_valid]. btest. rewrite H1, H2, H3, Hr. reflexivity. Qed.

(* a well-formed string does not begin with a continuation byte *)
Lemma valid_head_not_cont b r : utf8_valid (b :: r) = true -> is_cont b = false.
Proof.
  intros H. cbn [utf8_valid] in H. unfold is_cont, in_range.
  destruct (N.ltb_spec b 128); [btest; reflexivity|].
  destruct (N.ltb_spec b 194); [discriminate H|]. btest; reflexivity.
Qed.

Lemma chars_cons1 b r : b < 128 -> Spec.chars (b :: r) = b :: Spec.chars r.
Proof. intros H. unfold Spec.chars. rewrite chars1 by assumption. reflexivity. Qed.

Lemma ascii_app p : Forall (fun a => a < 128) p -> forall s,
  utf8_valid (p ++ s) = utf8_valid s /\ Spec.chars (p ++ s) = p ++ Spec.chars s.
Proof.
  induction 1 as [|a p Ha Hp IH]; intros s; [split; reflexivity|].
  cbn [app]. rewrite valid_ascii, chars_cons1 by assumption. destruct (IH s) as [E1 E2]. rewrite E1, E2. split; reflexivity.
Qed.

Lemma prefix_ascii : Forall (fun a => a < 128) SHARED_PREFIX.
Proof. repeat constructor; lia. Qed.

(* ASCII transparency of prefix tests *)
Lemma starts_ascii p : Forall (fun a => a < 128) p -> forall s, utf8_valid s = true ->
  Spec.starts p (Spec.chars s) = starts_with p s.
Proof.
  induction 1 as [|a p Ha Hp IH]; [intros s _; rewrite starts_nil; reflexivity|].
  apply (utf8_ind (fun s => Spec.starts (a :: p) (Spec.chars s) = starts_with (a :: p) s)).
  - reflexivity.
  - intros b r Hb Hr _. rewrite chars_cons1 by assumption. rewrite starts_cons. cbn [starts_with]. rewrite IH by assumption. reflexivity.
  - intros b0 b1 r H0 H1 Hr _. unfold Spec.chars. rewrite chars2 by assumption. cbn [map fst]. rewrite starts_cons.
    cbn [starts_with]. pose proof (char2_range b0 b1 H0 H1). btest. reflexivity.
  - intros b0 b1 b2 r H0 H1 H2 Hr _. unfold Spec.chars. rewrite chars3 by assumption. cbn [map fst]. rewrite starts_cons.
    cbn [starts_with]. pose proof (char3_range b0 b1 b2 H0 H1 H2). btest. reflexivity.
  - intros b0 b1 b2 b3 r H0 H1 H2 H3 Hr _. unfold Spec.chars. rewrite chars4 by assumption. cbn [map fst]. rewrite starts_cons.
    cbn [starts_with]. pose proof (char4_range b0 b1 b2 b3 H0 H1 H2 H3). btest. reflexivity.
Qed.

Lemma starts_with_split p : forall l, starts_with p l = true -> exists r, l = p ++ r.
Proof.
  induction p as [|a p IH]; intros l H; [exists l; reflexivity|].
  destruct l as [|b l]; [discriminate H|]. cbn [starts_with] in H. apply andb_true_iff in H as [E H].
  apply N.eqb_eq in E. subst b. destruct (IH l H) as [r ->]. exists r. reflexivity.
Qed.
Lemma starts_with_self p r : starts_with p (p ++ r) = true.
Proof. induction p as [|a p IH]; [reflexivity|]. cbn [app starts_with]. rewrite N.eqb_refl, IH. reflexivity. Qed.

Lemma blen_len s : utf8_valid s = true -> Spec.blen (Spec.chars s) = len s.
Proof. intros H. unfold Spec.chars. rewrite <- blen_chars by (apply chars_lenok, H). apply chars_blen_len, H. Qed.

Lemma chars_nil_inv s : utf8_valid s = true -> Spec.chars s = [] -> s = [].
Proof.
  intros Hv H. destruct s as [|b r]; [reflexivity|]. exfalso.
  apply (chars_nonnil (b :: r) Hv); [discriminate|]. unfold Spec.chars in H. destruct (utf8_chars (b :: r)); [reflexivity|discriminate H].
Qed.

(* cutting at the first '/' character is cutting at the first '/' byte *)
Lemma take_name_bytes : forall s, utf8_valid s = true -> forall acc,
  match Spec.take_name (Spec.chars s) acc with
  | (cname, None) => ~ In SL s
  | (cname, Some crest) =>
    exists name rest, s = name ++ SL :: rest /\ ~ In SL name /\ utf8_valid name = true /\ utf8_valid rest = true /\
                      cname = rev acc ++ Spec.chars name /\ crest = Spec.chars rest
  end.
Proof.
  apply (utf8_ind (fun s => forall acc,
    match Spec.take_name (Spec.chars s) acc with
    | (cname, None) => ~ In SL s
    | (cname, Some crest) =>
      exists name rest, s = name ++ SL :: rest /\ ~ In SL name /\ utf8_valid name = true /\ utf8_valid rest = true /\
                        cname = rev acc ++ Spec.chars name /\ crest = Spec.chars rest
    end)).
  - intros acc. cbn [Spec.chars utf8_chars map Spec.take_name In]. intros [].
  - intros b r Hb Hr IH acc. rewrite chars_cons1 by assumption. cbn [Spec.take_name]. unfold Spec.SLASH.
    destruct (N.eqb_spec b 47) as [->|Hne].
    + exists [], r. repeat split; try reflexivity; try assumption; [intros []|].
      rewrite rev'_rev. cbn [Spec.chars utf8_chars map]. rewrite app_nil_r. reflexivity.
    + specialize (IH (b :: acc)). destruct (Spec.take_name (Spec.chars r) (b :: acc)) as [cname [crest|]].
      * destruct IH as (name & rest & -> & Hn & Hvn & Hvr & -> & ->).
        exists (b :: name), rest. repeat split; try assumption; try reflexivity.
        { intros [E|E]; [unfold SL in E; lia|exact (Hn E)]. }
        { rewrite valid_ascii by assumption. assumption. }
        { rewrite chars_cons1 by assumption. cbn [rev]. rewrite <- app_assoc. reflexivity. }
      * intros [E|E]; [unfold SL in E; lia|exact (IH E)].
  - intros b0 b1 r H0 H1 Hr IH acc. pose proof (char2_range b0 b1 H0 H1) as Hc. pose proof (is_cont_range b1 H1) as Hb1.
    unfold Spec.chars. rewrite chars2 by assumption. cbn [map fst Spec.take_name]. unfold Spec.SLASH.
    destruct (N.eqb_spec (char2 b0 b1) 47) as [E|_]; [exfalso; lia|].
    specialize (IH (char2 b0 b1 :: acc)). fold (Spec.chars r).
    destruct (Spec.take_name (Spec.chars r) (char2 b0 b1 :: acc)) as [cname [crest|]].
    + destruct IH as (name & rest & -> & Hn & Hvn & Hvr & -> & ->).
      exists (b0 :: b1 :: name), rest. repeat split; try assumption; try reflexivity.
      { intros [E|[E|E]]; [unfold SL in E; lia|unfold SL in E; lia|exact (Hn E)]. }
      { apply valid2; assumption. }
      { unfold Spec.chars. rewrite chars2 by assumption. cbn [map fst rev]. rewrite <- app_assoc. reflexivity. }
    + intros [E|[E|E]]; [unfold SL in E; lia|unfold SL in E; lia|exact (IH E)].
  - intros b0 b1 b2 r H0 H1 H2 Hr IH acc. pose proof (char3_range b0 b1 b2 H0 H1 H2) as Hc.
    pose proof (second_ok_range b0 b1 H1) as Hb1. pose proof (is_cont_range b2 H2) as Hb2.
    unfold Spec.chars. rewrite chars3 by assumption. cbn [map fst Spec.take_name]. unfold Spec.SLASH.
    destruct (N.eqb_spec (char3 b0 b1 b2) 47) as [E|_]; [exfalso; lia|].
    specialize (IH (char3 b0 b1 b2 :: acc)). fold (Spec.chars r).
    destruct (Spec.take_name (Spec.chars r) (char3 b0 b1 b2 :: acc)) as [cname [crest|]].
    + destruct IH as (name & rest & -> & Hn & Hvn & Hvr & -> & ->).
      exists (b0 :: b1 :: b2 :: name), rest. repeat split; try assumption; try reflexivity.
      { intros [E|[E|[E|E]]]; try (unfold SL in E; lia). exact (Hn E). }
      { apply valid3; assumption. }
      { unfold Spec.chars. rewrite chars3 by assumption. cbn [map fst rev]. rewrite <- app_assoc. reflexivity. }
    + intros [E|[E|[E|E]]]; try (unfold SL in E; lia). exact (IH E).
  - intros b0 b1 b2 b3 r H0 H1 H2 H3 Hr IH acc. pose proof (char4_range b0 b1 b2 b3 H0 H1 H2 H3) as Hc.
    pose proof (second_ok_range b0 b1 H1) as Hb1. pose proof (is_cont_range b2 H2) as Hb2. pose proof (is_cont_range b3 H3) as Hb3.
    unfold Spec.chars. rewrite chars4 by assumption. cbn [map fst Spec.take_name]. unfold Spec.SLASH.
    destruct (N.eqb_spec (char4 b0 b1 b2 b3) 47) as [E|_]; [exfalso; lia|].
    specialize (IH (char4 b0 b1 b2 b3 :: acc)). fold (Spec.chars r).
    destruct (Spec.take_name (Spec.chars r) (char4 b0 b1 b2 b3 :: acc)) as [cname [crest|]].
    + destruct IH as (name & rest & -> & Hn & Hvn & Hvr & -> & ->).
      exists (b0 :: b1 :: b2 :: b3 :: name), rest. repeat split; try assumption; try reflexivity.
      { intros [E|[E|[E|[E|E]]]]; try (unfold SL in E; lia). exact (Hn E). }
      { apply valid4; assumption. }
      { unfold Spec.chars. rewrite chars4 by assumption. cbn [map fst rev]. rewrite <- app_assoc. reflexivity. }
    + intros [E|[E|[E|[E|E]]]]; try (unfold SL in E; lia). exact (IH E).
Qed.

(* ------------------------------------------------------------------ *)
(* 2. Shape of an accepted filter                                      *)
(* ------------------------------------------------------------------ *)

Lemma accepted_shape s : utf8_valid s = true -> Spec.topic_filter_ok s = true ->
  (starts_with SHARED_PREFIX s = false /\ Spec.share_sep s = 0) \/
  (exists name rest, s = SHARED_PREFIX ++ name ++ SL :: rest /\ ~ In SL name /\ name <> [] /\ rest <> [] /\
                     utf8_valid (name ++ SL :: rest) = true /\ utf8_valid rest = true /\
                     Spec.share_sep s = 7 + len name).
Proof.
  intros Hv Hok. unfold Spec.share_sep. rewrite Hok.
  unfold Spec.topic_filter_ok in Hok. apply andb_true_iff in Hok as [_ Hsh].
  unfold Spec.share_ok_sep in *.
  change Spec.share_prefix with SHARED_PREFIX in *. rewrite (starts_ascii _ prefix_ascii s Hv) in *.
  destruct (starts_with SHARED_PREFIX s) eqn:Hst; [|left; split; reflexivity].
  right. apply starts_with_split in Hst as [s' ->].
  destruct (ascii_app _ prefix_ascii s') as [Ev Ec]. rewrite Ev in Hv. rewrite Ec in *.
  change (skipn 7 (SHARED_PREFIX ++ Spec.chars s')) with (Spec.chars s') in *.
  pose proof (take_name_bytes s' Hv []) as Ht.
  destruct (Spec.take_name (Spec.chars s') []) as [cname [crest|]]; [|discriminate Hsh].
  destruct Ht as (name & rest & -> & Hn & Hvn & Hvr & -> & ->). cbn [rev app fst snd] in *.
  apply andb_true_iff in Hsh as [Hsh Hr]. apply andb_true_iff in Hsh as [Hsh _]. apply andb_true_iff in Hsh as [Hna _].
  exists name, rest. repeat split; try assumption.
  - intros ->. discriminate Hna.
  - intros ->. discriminate Hr.
  - rewrite blen_len by assumption. reflexivity.
Qed.

(* ------------------------------------------------------------------ *)
(* 3. Slicing on char boundaries                                       *)
(* ------------------------------------------------------------------ *)

Lemma len_app a b : len (a ++ b) = len a + len b.
Proof. unfold len. rewrite app_length. lia. Qed.

Lemma boundary_at x y : utf8_valid y = true -> is_char_boundary (x ++ y) (len x) = true.
Proof.
  intros Hy. unfold is_char_boundary. destruct (len x =? 0); [reflexivity|].
  destruct (N.eqb_spec (len x) (len (x ++ y))) as [|Hne]; [reflexivity|].
  rewrite len_app in *. destruct (N.ltb_spec (len x + len y) (len x)); [exfalso; lia|].
  unfold len at 1. rewrite Nat2N.id. replace (length x) with (length x + 0)%nat by lia. rewrite app_nth2_plus.
  destruct y as [|b y]; [exfalso; apply Hne; unfold len; cbn [length]; lia|].
  cbn [nth]. rewrite (valid_head_not_cont b y Hy). reflexivity.
Qed.

Lemma skipn_len_app {A} (p x : list A) : skipn (length p) (p ++ x) = x.
Proof. induction p as [|a p IH]; [reflexivity|exact IH]. Qed.
Lemma firstn_len_app {A} (p x : list A) : firstn (length p) (p ++ x) = p.
Proof. induction p as [|a p IH]; [reflexivity|]. cbn [length app firstn]. rewrite IH. reflexivity. Qed.

Lemma str_slice_mid x y z : utf8_valid (y ++ z) = true -> utf8_valid z = true ->
  str_slice (x ++ y ++ z) (len x) (len x + len y) = Ok y.
Proof.
  intros Hyz Hz. unfold str_slice.
  destruct (N.leb_spec (len x) (len x + len y)); [|exfalso; lia].
  destruct (N.leb_spec (len x + len y) (len (x ++ y ++ z))); [|rewrite !len_app in *; exfalso; lia].
  rewrite boundary_at by assumption.
  replace (is_char_boundary (x ++ y ++ z) (len x + len y)) with true
    by (rewrite app_assoc, <- len_app; symmetry; apply boundary_at; assumption).
  cbn [andb]. f_equal.
  replace (N.to_nat (len x)) with (length x) by (unfold len; lia).
  replace (N.to_nat (len x + len y - len x)) with (length y) by (unfold len; lia).
  rewrite skipn_len_app, firstn_len_app. reflexivity.
Qed.

(* ------------------------------------------------------------------ *)
(* 4. C17                                                              *)
(* ------------------------------------------------------------------ *)

Lemma filter_try_inv prof s f : utf8_valid s = true -> filter_try prof s = Ok f ->
  Spec.topic_filter_ok s = true /\ f = {| ftext := s; fsepidx := Spec.share_sep s |}.
Proof.
  intros Hv H. rewrite filter_try_spec in H by assumption.
  destruct (Spec.topic_filter_ok s); [|discriminate H]. inversion H. split; reflexivity.
Qed.

Theorem accessors_split : forall prof s f, utf8_valid s = true -> filter_try prof s = Ok f ->
  ftext f = s /\
  filter_is_shared f = starts_with SHARED_PREFIX s /\
  (filter_is_shared f = true ->
     exists name rest, s = SHARED_PREFIX ++ name ++ [SL] ++ rest /\ ~ In SL name /\ name <> [] /\ rest <> [] /\
       shared_group_name f = Ok (Some name) /\ shared_filter f = Ok (Some rest) /\
       shared_info f = Ok (Some (name, rest))) /\
  (filter_is_shared f = false ->
     shared_group_name f = Ok None /\ shared_filter f = Ok None /\ shared_info f = Ok None).
Proof.
  intros prof s f Hv Ht. destruct (filter_try_inv prof s f Hv Ht) as [Hok ->].
  split; [reflexivity|].
  assert (H4 : forall f, filter_is_shared f = false ->
     shared_group_name f = Ok None /\ shared_filter f = Ok None /\ shared_info f = Ok None).
  { intros f Hf. unfold shared_group_name, shared_filter, shared_info. rewrite Hf. repeat split. }
  destruct (accepted_shape s Hv Hok) as [[Hst Hsep]|(name & rest & Es & Hn & Hne & Hre & Hvs' & Hvr & Hsep)].
  - assert (Hsh : filter_is_shared {| ftext := s; fsepidx := Spec.share_sep s |} = false)
      by (unfold filter_is_shared; cbn [fsepidx]; rewrite Hsep; reflexivity).
    split; [rewrite Hsh, Hst; reflexivity|]. split; [rewrite Hsh; discriminate|apply H4].
  - assert (Hsh : filter_is_shared {| ftext := s; fsepidx := Spec.share_sep s |} = true).
    { unfold filter_is_shared. cbn [fsepidx]. rewrite Hsep. destruct (N.ltb_spec 0 (7 + len name)); [reflexivity|exfalso; lia]. }
    split; [rewrite Hsh, Es, starts_with_self; reflexivity|]. split; [|apply H4].
    intros _. exists name, rest. cbn [app].
    assert (Hvsr : utf8_valid (SL :: rest) = true) by (rewrite valid_ascii by (unfold SL; lia); assumption).
    assert (E1 : str_slice s 7 (Spec.share_sep s) = Ok name).
    { rewrite Hsep, Es. change 7 with (len SHARED_PREFIX). apply str_slice_mid; assumption. }
    assert (E2 : str_slice s (Spec.share_sep s + 1) (len s) = Ok rest).
    { rewrite Hsep, Es.
      replace (SHARED_PREFIX ++ name ++ SL :: rest) with ((SHARED_PREFIX ++ name ++ [SL]) ++ rest ++ [])
        by (rewrite app_nil_r, <- !app_assoc; reflexivity).
      replace (7 + len name + 1) with (len (SHARED_PREFIX ++ name ++ [SL]))
        by (rewrite !len_app; change (len SHARED_PREFIX) with 7; change (len [SL]) with 1; lia).
      rewrite (len_app (SHARED_PREFIX ++ name ++ [SL])). rewrite (app_nil_r rest) at 2.
      apply str_slice_mid; [rewrite app_nil_r; assumption|reflexivity]. }
    repeat split; try assumption.
    + unfold shared_group_name. rewrite Hsh. cbn [ftext fsepidx]. rewrite E1. reflexivity.
    + unfold shared_filter. rewrite Hsh. cbn [ftext fsepidx]. rewrite E2. reflexivity.
    + unfold shared_info. rewrite Hsh. cbn [ftext fsepidx]. rewrite E1, E2. reflexivity.
Qed.

(* the split at the first '/' is the only one with a '/'-free name *)
Theorem split_unique : forall name rest name' rest', ~ In SL name -> ~ In SL name' ->
  name ++ [SL] ++ rest = name' ++ [SL] ++ rest' -> name = name' /\ rest = rest'.
Proof.
  induction name as [|b name IH]; intros rest name' rest' Hn Hn' E; destruct name' as [|b' name']; cbn [app] in E.
  - inversion E. split; reflexivity.
  - inversion E as [[Eb Er]]. exfalso. apply Hn'. left. symmetry. exact Eb.
  - inversion E as [[Eb Er]]. exfalso. apply Hn. left. exact Eb.
  - inversion E as [[Eb Er]]. subst b'.
    destruct (IH rest name' rest') as [-> ->]; [intros H; apply Hn; right; exact H|intros H; apply Hn'; right; exact H|exact Er|].
    split; reflexivity.
Qed.

(* hence the accessors return the components of any such decomposition of the text *)
Corollary accessors_unique prof s f name rest : utf8_valid s = true -> filter_try prof s = Ok f ->
  s = SHARED_PREFIX ++ name ++ [SL] ++ rest -> ~ In SL name ->
  shared_group_name f = Ok (Some name) /\ shared_filter f = Ok (Some rest) /\ shared_info f = Ok (Some (name, rest)).
Proof.
  intros Hv Ht Es Hn. destruct (accessors_split prof s f Hv Ht) as (_ & Hsh & H3 & _).
  rewrite Es, starts_with_self in Hsh. destruct (H3 Hsh) as (name0 & rest0 & Es0 & Hn0 & _ & _ & E1 & E2 & E3).
  rewrite Es in Es0. apply app_inv_head in Es0. destruct (split_unique _ _ _ _ Hn Hn0 Es0) as [-> ->].
  repeat split; assumption.
Qed.

(* text -> TopicFilter -> text -> TopicFilter is the identity, in either profile *)
Theorem filter_reparse prof prof' s f : utf8_valid s = true -> filter_try prof s = Ok f ->
  filter_try prof' (ftext f) = Ok f.
Proof.
  intros Hv Ht. destruct (filter_try_inv prof s f Hv Ht) as [Hok ->]. cbn [ftext].
  rewrite filter_try_spec by assumption. rewrite Hok. reflexivity.
Qed.

Theorem filter_try_text_inj prof s s' f f' : utf8_valid s = true -> utf8_valid s' = true ->
  filter_try prof s = Ok f -> filter_try prof s' = Ok f' -> ftext f = ftext f' -> f = f'.
Proof.
  intros Hv Hv' Ht Ht' E. destruct (filter_try_inv prof s f Hv Ht) as [_ ->].
  destruct (filter_try_inv prof s' f' Hv' Ht') as [_ ->]. cbn [ftext] in E. subst s'. reflexivity.
Qed.

(* ------------------------------------------------------------------ *)
(* 5. Eq / Ord use the text only                                       *)
(* ------------------------------------------------------------------ *)

Lemma beq_bytes_spec a : forall b, beq_bytes a b = true <-> a = b.
Proof.
  induction a as [|x a IH]; intros [|y b]; cbn [beq_bytes]; try (split; [discriminate|discriminate]).
  - split; reflexivity.
  - rewrite andb_true_iff, N.eqb_eq, IH. split; [intros [-> ->]; reflexivity|intros E; inversion E; split; reflexivity].
Qed.

Lemma bytes_cmp_eq a : forall b, bytes_cmp a b = Eq <-> a = b.
Proof.
  induction a as [|x a IH]; intros [|y b]; cbn [bytes_cmp]; try (split; [discriminate|discriminate]).
  - split; reflexivity.
  - destruct (N.compare_spec x y) as [E|L|L].
    + subst y. rewrite IH. split; [intros ->; reflexivity|intros E; inversion E; reflexivity].
    + split; [discriminate|intros E; inversion E; lia].
    + split; [discriminate|intros E; inversion E; lia].
Qed.

Lemma bytes_cmp_antisym a : forall b, bytes_cmp a b = CompOpp (bytes_cmp b a).
Proof.
  induction a as [|x a IH]; intros [|y b]; cbn [bytes_cmp]; try reflexivity.
  rewrite (N.compare_antisym y x). destruct (y ?= x); cbn [CompOpp]; [apply IH|reflexivity|reflexivity].
Qed.

Lemma bytes_cmp_trans a : forall b c, bytes_cmp a b = Lt -> bytes_cmp b c = Lt -> bytes_cmp a c = Lt.
Proof.
  induction a as [|x a IH]; intros [|y b] [|z c]; cbn [bytes_cmp]; try discriminate; try reflexivity.
  destruct (N.compare_spec x y) as [E1|L1|L1]; try discriminate;
    destruct (N.compare_spec y z) as [E2|L2|L2]; try discriminate;
    destruct (N.compare_spec x z) as [E3|L3|L3]; try (exfalso; lia); try reflexivity.
  apply IH.
Qed.

Theorem filter_eq_text a b : filter_eq a b = true <-> ftext a = ftext b.
Proof. apply beq_bytes_spec. Qed.
Theorem filter_cmp_text a b : filter_cmp a b = Eq <-> ftext a = ftext b.
Proof. apply bytes_cmp_eq. Qed.
Theorem filter_cmp_antisym a b : filter_cmp a b = CompOpp (filter_cmp b a).
Proof. apply bytes_cmp_antisym. Qed.
Theorem filter_cmp_trans a b c : filter_cmp a b = Lt -> filter_cmp b c = Lt -> filter_cmp a c = Lt.
Proof. apply bytes_cmp_trans. Qed.
(* Eq agrees with Ord *)
Theorem filter_eq_cmp a b : filter_eq a b = true <-> filter_cmp a b = Eq.
Proof. rewrite filter_eq_text, filter_cmp_text. reflexivity. Qed.

Print Assumptions accessors_split.
Print Assumptions split_unique.
Print Assumptions accessors_unique.
Print Assumptions filter_reparse.
Print Assumptions filter_try_text_inj.
Print Assumptions filter_eq_text.
Print Assumptions filter_cmp_text.
Print Assumptions filter_cmp_antisym.
Print Assumptions filter_cmp_trans.
Print Assumptions filter_eq_cmp.
