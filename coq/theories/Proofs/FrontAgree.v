(* Proofs/FrontAgree.v — the three decoder front-ends of each family (poll state machine,
   async reader, blocking wrapper) related to each other.

     C05  the generic scheduling theorems of Proofs/PollSched.v instantiated for F3 and F5,
          restated in full;
     C03  (poll part) the poll front-end never panics and never runs out of fuel, for every
          schedule, every tail and both profiles;
     C06  poll / async / blocking agree on accepted frames and on deterministic rejections;
          the I/O case is characterised separately (and is where they may differ, see
          C06_io_counterexample: known finding KF2, the async decoder ignores the declared
          remaining length).

   C13 (CONNECT of the other family) is in Proofs/FrontAgreeC13.v. *)
From MQ Require Import Proofs.Tactics Proofs.VarIntLaws Proofs.Parses Model.Valid.
From MQ Require Import Proofs.Stable Proofs.Totality Proofs.TopicFilterEq Proofs.PollSched.
Open Scope N_scope.

(* ====================================================================== *)
(* C05 — the scheduling theorems, instantiated                             *)
(* ====================================================================== *)

(* ---------------- v3 ---------------- *)
Theorem C05_v3_schedule_independent : forall (prof : profile) (l1 l2 : list atom) (t : tail),
  bytes_of l1 = bytes_of l2 ->
  rr_res _ (F3.poll_drive prof l1 t) = rr_res _ (F3.poll_drive prof l2 t) /\
  bytes_of (rr_rest _ (F3.poll_drive prof l1 t)) = bytes_of (rr_rest _ (F3.poll_drive prof l2 t)).
Proof.
  intros prof l1 l2 t.
  exact (schedule_independent V3.packet V3.header_new_with V3.build_empty_packet (V3.block_decode prof)
                              prof prof l1 l2 t).
Qed.

Theorem C05_v3_same_as_one_read : forall (prof : profile) (l : list atom) (t : tail),
  rr_res _ (F3.poll_drive prof l t) = rr_res _ (F3.poll1 prof (bytes_of l) t) /\
  bytes_of (rr_rest _ (F3.poll_drive prof l t)) = bytes_of (rr_rest _ (F3.poll1 prof (bytes_of l) t)).
Proof.
  intros prof l t.
  exact (same_as_one_read V3.packet V3.header_new_with V3.build_empty_packet (V3.block_decode prof) prof l t).
Qed.

(* Pending is returned exactly as often as the transport returned it *)
Theorem C05_v3_pending : forall (prof : profile) (l : list atom) (t : tail),
  rr_pend _ (F3.poll_drive prof l t) + count_pend (rr_rest _ (F3.poll_drive prof l t)) = count_pend l /\
  rr_pend _ (F3.poll_drive prof l t) = count_pend l - count_pend (rr_rest _ (F3.poll_drive prof l t)) /\
  count_evpend (rr_trace _ (F3.poll_drive prof l t)) = rr_pend _ (F3.poll_drive prof l t).
Proof.
  intros prof l t.
  exact (pending_only_when_transport_did V3.packet V3.header_new_with V3.build_empty_packet
                                         (V3.block_decode prof) prof l t).
Qed.

Theorem C05_v3_consumed_eq_total : forall (prof : profile) (l : list atom) (t : tail)
    (total : N) (body : bytes) (p : V3.packet),
  rr_res _ (F3.poll_drive prof l t) = Some (Ok (total, body, p)) ->
  len (bytes_of l) = total + len (bytes_of (rr_rest _ (F3.poll_drive prof l t))) /\
  len (bytes_of l) - len (bytes_of (rr_rest _ (F3.poll_drive prof l t))) = total /\
  exists (cb : N) (vbytes : bytes) (v : N) (h : header),
    bytes_of l = cb :: vbytes ++ body ++ bytes_of (rr_rest _ (F3.poll_drive prof l t)) /\
    vbi_of vbytes v /\ V3.header_new_with cb v = Ok h /\
    total = 1 + len vbytes + len body /\
    ((V3.build_empty_packet h = Some p /\ body = []) \/
     (V3.build_empty_packet h = None /\ h_rl h <> 0 /\ len body = h_rl h /\
      V3.block_decode prof h TEof body = ROk p [])).
Proof.
  intros prof l t total body p.
  exact (consumed_eq_total V3.packet V3.header_new_with V3.build_empty_packet (V3.block_decode prof)
                           prof l t total body p).
Qed.

Theorem C05_v3_never_reads_past_frame : forall (prof : profile) (l : list atom) (t : tail),
  Forall ev_ok (rr_trace _ (F3.poll_drive prof l t)) /\
  data_total (rr_trace _ (F3.poll_drive prof l t)) + len (bytes_of (rr_rest _ (F3.poll_drive prof l t)))
    = len (bytes_of l) /\
  forall (total : N) (body : bytes) (p : V3.packet),
    rr_res _ (F3.poll_drive prof l t) = Some (Ok (total, body, p)) ->
    data_total (rr_trace _ (F3.poll_drive prof l t)) = total /\
    frame_ok 0 (rr_trace _ (F3.poll_drive prof l t)) total.
Proof.
  intros prof l t.
  exact (never_reads_past_frame V3.packet V3.header_new_with V3.build_empty_packet (V3.block_decode prof)
                                prof l t).
Qed.

(* dropping the future after k steps and driving the kept state on the remaining transport
   (under either profile's assertion regime prof2) gives the result of the uninterrupted run *)
Theorem C05_v3_drop_recreate : forall (prof prof2 : profile) (k : nat) (l : list atom) (t : tail),
  let r1 := prun V3.packet V3.header_new_with V3.build_empty_packet (V3.block_decode prof)
                 prof k pinit l t 0 [] in
  rr_res _ r1 = None ->
  let r2 := prun V3.packet V3.header_new_with V3.build_empty_packet (V3.block_decode prof)
                 prof2 (S (length (rr_rest _ r1))) (rr_state _ r1) (rr_rest _ r1) t
                 (rr_pend _ r1) (rev (rr_trace _ r1)) in
  rr_res _ r2 = rr_res _ (F3.poll_drive prof l t) /\
  bytes_of (rr_rest _ r2) = bytes_of (rr_rest _ (F3.poll_drive prof l t)).
Proof.
  intros prof prof2 k l t.
  exact (drop_recreate_drive V3.packet V3.header_new_with V3.build_empty_packet (V3.block_decode prof)
                             prof prof2 k l t).
Qed.

(* ---------------- v5 ---------------- *)
Theorem C05_v5_schedule_independent : forall (prof : profile) (l1 l2 : list atom) (t : tail),
  bytes_of l1 = bytes_of l2 ->
  rr_res _ (F5.poll_drive prof l1 t) = rr_res _ (F5.poll_drive prof l2 t) /\
  bytes_of (rr_rest _ (F5.poll_drive prof l1 t)) = bytes_of (rr_rest _ (F5.poll_drive prof l2 t)).
Proof.
  intros prof l1 l2 t.
  exact (schedule_independent V5.packet V5.header_new_with V5.build_empty_packet (V5.block_decode prof)
                              prof prof l1 l2 t).
Qed.

Theorem C05_v5_same_as_one_read : forall (prof : profile) (l : list atom) (t : tail),
  rr_res _ (F5.poll_drive prof l t) = rr_res _ (F5.poll1 prof (bytes_of l) t) /\
  bytes_of (rr_rest _ (F5.poll_drive prof l t)) = bytes_of (rr_rest _ (F5.poll1 prof (bytes_of l) t)).
Proof.
  intros prof l t.
  exact (same_as_one_read V5.packet V5.header_new_with V5.build_empty_packet (V5.block_decode prof) prof l t).
Qed.

Theorem C05_v5_pending : forall (prof : profile) (l : list atom) (t : tail),
  rr_pend _ (F5.poll_drive prof l t) + count_pend (rr_rest _ (F5.poll_drive prof l t)) = count_pend l /\
  rr_pend _ (F5.poll_drive prof l t) = count_pend l - count_pend (rr_rest _ (F5.poll_drive prof l t)) /\
  count_evpend (rr_trace _ (F5.poll_drive prof l t)) = rr_pend _ (F5.poll_drive prof l t).
Proof.
  intros prof l t.
  exact (pending_only_when_transport_did V5.packet V5.header_new_with V5.build_empty_packet
                                         (V5.block_decode prof) prof l t).
Qed.

Theorem C05_v5_consumed_eq_total : forall (prof : profile) (l : list atom) (t : tail)
    (total : N) (body : bytes) (p : V5.packet),
  rr_res _ (F5.poll_drive prof l t) = Some (Ok (total, body, p)) ->
  len (bytes_of l) = total + len (bytes_of (rr_rest _ (F5.poll_drive prof l t))) /\
  len (bytes_of l) - len (bytes_of (rr_rest _ (F5.poll_drive prof l t))) = total /\
  exists (cb : N) (vbytes : bytes) (v : N) (h : header),
    bytes_of l = cb :: vbytes ++ body ++ bytes_of (rr_rest _ (F5.poll_drive prof l t)) /\
    vbi_of vbytes v /\ V5.header_new_with cb v = Ok h /\
    total = 1 + len vbytes + len body /\
    ((V5.build_empty_packet h = Some p /\ body = []) \/
     (V5.build_empty_packet h = None /\ h_rl h <> 0 /\ len body = h_rl h /\
      V5.block_decode prof h TEof body = ROk p [])).
Proof.
  intros prof l t total body p.
  exact (consumed_eq_total V5.packet V5.header_new_with V5.build_empty_packet (V5.block_decode prof)
                           prof l t total body p).
Qed.

Theorem C05_v5_never_reads_past_frame : forall (prof : profile) (l : list atom) (t : tail),
  Forall ev_ok (rr_trace _ (F5.poll_drive prof l t)) /\
  data_total (rr_trace _ (F5.poll_drive prof l t)) + len (bytes_of (rr_rest _ (F5.poll_drive prof l t)))
    = len (bytes_of l) /\
  forall (total : N) (body : bytes) (p : V5.packet),
    rr_res _ (F5.poll_drive prof l t) = Some (Ok (total, body, p)) ->
    data_total (rr_trace _ (F5.poll_drive prof l t)) = total /\
    frame_ok 0 (rr_trace _ (F5.poll_drive prof l t)) total.
Proof.
  intros prof l t.
  exact (never_reads_past_frame V5.packet V5.header_new_with V5.build_empty_packet (V5.block_decode prof)
                                prof l t).
Qed.

Theorem C05_v5_drop_recreate : forall (prof prof2 : profile) (k : nat) (l : list atom) (t : tail),
  let r1 := prun V5.packet V5.header_new_with V5.build_empty_packet (V5.block_decode prof)
                 prof k pinit l t 0 [] in
  rr_res _ r1 = None ->
  let r2 := prun V5.packet V5.header_new_with V5.build_empty_packet (V5.block_decode prof)
                 prof2 (S (length (rr_rest _ r1))) (rr_state _ r1) (rr_rest _ r1) t
                 (rr_pend _ r1) (rev (rr_trace _ r1)) in
  rr_res _ r2 = rr_res _ (F5.poll_drive prof l t) /\
  bytes_of (rr_rest _ r2) = bytes_of (rr_rest _ (F5.poll_drive prof l t)).
Proof.
  intros prof prof2 k l t.
  exact (drop_recreate_drive V5.packet V5.header_new_with V5.build_empty_packet (V5.block_decode prof)
                             prof prof2 k l t).
Qed.

(* ====================================================================== *)
(* C03 (poll part) — no panic, no fuel exhaustion                          *)
(* ====================================================================== *)
(* PollSched.poll_panic_origin only says that a panic comes from `new_with` or from
   `block_decode h TEof buf` for SOME h; v3's block_decode does panic (SiteUnreachable) on
   headers of the empty packets.  The invariant needed is that the header of a body state was
   produced by new_with and has build_empty h = None; it is proved here over `sem`. *)
Section PollNoPanic.
Variable P : Type.
Variable new_with : N -> N -> outcome header.
Variable build_empty : header -> option P.
Variable block_decode : header -> reader P.
Hypothesis Hnw : forall cb v, onp (new_with cb v).
Hypothesis Hbd : forall cb v h, new_with cb v = Ok h -> build_empty h = None -> nopanic (block_decode h).

Local Notation feed := (feed P new_with build_empty block_decode).
Local Notation sem := (sem P new_with build_empty block_decode).
Local Notation header_done := (header_done P new_with build_empty).

Definition from_header (s : pstate) : Prop :=
  match s with
  | SHeader _ _ _ => True
  | SBody h _ _ _ => exists cb v, new_with cb v = Ok h /\ build_empty h = None
  end.

Lemma header_done_nopanic cb vidx vint r st : header_done cb vidx vint = inl r -> r <> Panic st.
Proof.
  unfold Poll.header_done. destruct (new_with cb vint) as [h|e|s] eqn:En.
  - destruct (build_empty h) as [p|].
    + intros H; inversion H; discriminate.
    + destruct (h_rl h =? 0); intros H; inversion H; discriminate.
  - intros H; inversion H; discriminate.
  - exfalso. exact (Hnw cb vint s En).
Qed.

Lemma header_done_from_header cb vidx vint s' : header_done cb vidx vint = inr s' -> from_header s'.
Proof.
  intros H. destruct (header_done_inr _ _ _ _ _ _ _ H) as (h & En & Hb & _ & ->).
  cbn [from_header]. exists cb, vint. split; assumption.
Qed.

Lemma feed_from_header s b s' : from_header s -> feed s b = inl s' -> from_header s'.
Proof.
  destruct s as [[cb|] vidx vint | h total idx buf]; cbn [PollSched.feed]; intros Hs H.
  - destruct (b <? 128).
    + destruct (header_done cb vidx (vint + b mod 128 * 2 ^ (7 * vidx))) as [r|s1] eqn:Eh; [discriminate|].
      inversion H; subst s'. exact (header_done_from_header _ _ _ _ Eh).
    + destruct (vidx <? 3); [|discriminate]. inversion H; subst s'. exact I.
  - inversion H; subst s'. exact I.
  - destruct (idx + 1 =? h_rl h); [discriminate|]. inversion H; subst s'. exact Hs.
Qed.

Lemma feed_nopanic s b r st : from_header s -> feed s b = inr r -> r <> Panic st.
Proof.
  destruct s as [[cb|] vidx vint | h total idx buf]; cbn [PollSched.feed]; intros Hs H.
  - destruct (b <? 128).
    + destruct (header_done cb vidx (vint + b mod 128 * 2 ^ (7 * vidx))) as [r1|s1] eqn:Eh; [|discriminate].
      inversion H; subst r. exact (header_done_nopanic _ _ _ _ _ Eh).
    + destruct (vidx <? 3); [discriminate|]. inversion H; discriminate.
  - discriminate.
  - destruct (idx + 1 =? h_rl h); [|discriminate]. inversion H; subst r.
    destruct Hs as (cb & v & En & Hb).
    apply body_result_nopanic. exact (Hbd cb v h En Hb).
Qed.

Lemma sem_nopanic (t : tail) (st : site) : forall (d : bytes) (s : pstate),
  from_header s -> fst (sem s d t) <> Panic st.
Proof.
  induction d as [|b r IH]; intros s Hs; cbn [PollSched.sem].
  - cbn [fst]. discriminate.
  - destruct (feed s b) as [s'|res] eqn:Ef.
    + apply IH. exact (feed_from_header _ _ _ Hs Ef).
    + cbn [fst]. exact (feed_nopanic _ _ _ _ Hs Ef).
Qed.

Theorem poll_drive_total (prof : profile) (l : list atom) (t : tail) :
  exists r, rr_res P (poll_drive P new_with build_empty block_decode prof l t) = Some r /\
            forall s, r <> Panic s.
Proof.
  destruct (poll_drive_is_sem P new_with build_empty block_decode prof l t) as [H _].
  eexists. split; [exact H|]. intros s. apply sem_nopanic. exact I.
Qed.
End PollNoPanic.

Theorem C03_v3_poll_total : forall prof l t,
  exists r, rr_res _ (F3.poll_drive prof l t) = Some r /\ (forall s, r <> Panic s).
Proof.
  intros prof l t. unfold F3.poll_drive. apply poll_drive_total.
  - exact v3_header_new_with_nopanic.
  - intros cb v h. exact (v3_block_decode_total filter_profile_indep prof cb v h).
Qed.

Theorem C03_v5_poll_total : forall prof l t,
  exists r, rr_res _ (F5.poll_drive prof l t) = Some r /\ (forall s, r <> Panic s).
Proof.
  intros prof l t. unfold F5.poll_drive. apply poll_drive_total.
  - exact v5_header_new_with_nopanic.
  - intros cb v h. exact (v5_block_decode_total filter_profile_indep prof cb v h).
Qed.

(* the same, as inequalities on the result *)
Corollary C03_v3_poll_no_fuel_no_panic : forall prof l t,
  rr_res _ (F3.poll_drive prof l t) <> None /\ forall s, rr_res _ (F3.poll_drive prof l t) <> Some (Panic s).
Proof.
  intros prof l t. destruct (C03_v3_poll_total prof l t) as (r & -> & Hr).
  split; [discriminate|]. intros s H. inversion H. exact (Hr s H1).
Qed.

Corollary C03_v5_poll_no_fuel_no_panic : forall prof l t,
  rr_res _ (F5.poll_drive prof l t) <> None /\ forall s, rr_res _ (F5.poll_drive prof l t) <> Some (Panic s).
Proof.
  intros prof l t. destruct (C03_v5_poll_total prof l t) as (r & -> & Hr).
  split; [discriminate|]. intros s H. inversion H. exact (Hr s H1).
Qed.

(* ====================================================================== *)
(* C06 — the three decoders agree                                          *)
(* ====================================================================== *)

(* `d` starts with a complete frame: control byte, a variable byte integer, that many bytes *)
Definition complete_frame (d : bytes) : Prop :=
  exists (cb : N) (vbytes : bytes) (v : N) (body rest : bytes),
    d = cb :: vbytes ++ body ++ rest /\ vbi_of vbytes v /\ len body = v.

Lemma is_io_false_not_eof e : is_io e = false -> is_eof e = false.
Proof. destruct e; try reflexivity. discriminate. Qed.

Section Agree.
Variable P : Type.
Variable new_with : N -> N -> outcome header.
Variable build_empty : header -> option P.
Variable block_decode : header -> reader P.
Variable body_async : header -> reader P.

Hypothesis Hbridge : forall h, build_empty h = None -> forall t d, body_async h t d = block_decode h t d.
Hypothesis Hempty : forall h p, build_empty h = Some p -> forall t d, body_async h t d = ROk p d.
Hypothesis Hst : forall h, stable (block_decode h).
Hypothesis Hodet : forall cb v, odet (new_with cb v).
Hypothesis Hrl : new_with_rl new_with.

(* Header::decode_async and Packet::decode_async, as both families write them *)
Definition hdec : reader header := '(typ, rl) <- decode_raw_header ;; lift_outcome (new_with typ rl).
Definition adec : reader P := h <- hdec ;; body_async h.

Local Notation sem := (sem P new_with build_empty block_decode).
Local Notation poll1 := (poll1 P new_with build_empty block_decode).
Local Notation body_result := (body_result P block_decode).

Lemma hdec_var t cb d' v k r : decode_var_int t d' = ROk (v, k) r ->
  hdec t (cb :: d') = lift_outcome (new_with cb v) t r.
Proof. intros H. unfold hdec, decode_raw_header, bind. cbn [read_u8]. rewrite H. reflexivity. Qed.

Lemma hdec_var_err t cb d' e : decode_var_int t d' = RErr e -> hdec t (cb :: d') = RErr e.
Proof. intros H. unfold hdec, decode_raw_header, bind. cbn [read_u8]. rewrite H. reflexivity. Qed.

Lemma hdec_nil t : hdec t [] = RErr (io_err t).
Proof. reflexivity. Qed.

Lemma adec_hdec_ok t d h r : hdec t d = ROk h r -> adec t d = body_async h t r.
Proof. intros H. unfold adec, bind. rewrite H. reflexivity. Qed.

Lemma adec_hdec_err t d e : hdec t d = RErr e -> adec t d = RErr e.
Proof. intros H. unfold adec, bind. rewrite H. reflexivity. Qed.

Lemma hdec_frame t cb vbytes v x : vbi_of vbytes v ->
  hdec t (cb :: vbytes ++ x) = lift_outcome (new_with cb v) t x.
Proof. intros Hv. exact (hdec_var t cb (vbytes ++ x) v (len vbytes) x (Hv t x)). Qed.

(* what the async decoder does on the frame the poll decoder accepted *)
Lemma adec_frame_ok t cb vbytes v h body rest p :
  vbi_of vbytes v -> new_with cb v = Ok h ->
  ((build_empty h = Some p /\ body = []) \/
   (build_empty h = None /\ h_rl h <> 0 /\ len body = h_rl h /\ block_decode h TEof body = ROk p [])) ->
  adec t (cb :: vbytes ++ body ++ rest) = ROk p rest.
Proof.
  intros Hv Hn Hc. rewrite (adec_hdec_ok t _ h (body ++ rest)).
  2:{ rewrite (hdec_frame t cb vbytes v _ Hv), Hn. reflexivity. }
  destruct Hc as [[He ->] | (He & _ & _ & Hb)].
  - cbn [app]. exact (Hempty h p He t rest).
  - rewrite (Hbridge h He).
    destruct (ok_extend (block_decode h) (Hst h) TEof body p [] Hb) as (c & Hc & Hext).
    rewrite app_nil_r in Hc. subst c. exact (Hext t rest).
Qed.

Theorem accept_agree prof d t n body p :
  rr_res P (poll1 prof d t) = Some (Ok (n, body, p)) ->
  exists rest, (forall t2, adec t2 d = ROk p rest) /\ len d = n + len rest.
Proof.
  unfold Poll.poll1. intros H.
  destruct (consumed_eq_total P new_with build_empty block_decode prof (map AB d) t n body p H)
    as (Hlen & _ & cb & vbytes & v & h & Hd & Hv & Hn & _ & Hc).
  rewrite bytes_of_map_AB in Hlen, Hd.
  exists (bytes_of (rr_rest P (poll_drive P new_with build_empty block_decode prof (map AB d) t))).
  split; [|exact Hlen].
  intros t2. rewrite Hd at 1. exact (adec_frame_ok t2 cb vbytes v h body _ p Hv Hn Hc).
Qed.

(* a deterministic poll error other than InvalidRemainingLength is the async decoder's error *)
Lemma sem_err_adec t d e : fst (sem pinit d t) = Err e -> e <> InvalidRemainingLength -> is_io e = false ->
  forall t2, adec t2 d = RErr e.
Proof.
  intros H Hne Hio t2. destruct d as [|cb d'].
  - cbn [PollSched.sem fst] in H. inversion H; subst e. rewrite io_err_is_io in Hio. discriminate.
  - pose proof (poll_header_eq P new_with build_empty block_decode cb t d') as Hh.
    destruct (decode_var_int t d') as [[v k] r|e'|s] eqn:Ev; [| |contradiction].
    + destruct (ok_extend decode_var_int stable_decode_var_int t d' (v, k) r Ev) as (c & Hc & Hext).
      subst d'. rewrite Hh in H. clear Hh.
      unfold Poll.header_done in H. destruct (new_with cb v) as [h|e'|s] eqn:En.
      * destruct (build_empty h) as [p|] eqn:Eb; [discriminate|].
        destruct (N.eqb_spec (h_rl h) 0) as [E0|E0].
        { cbn [fst] in H. inversion H; subst e. contradiction. }
        destruct (sem_body_cases P new_with build_empty block_decode h (1 + 1 + (k - 1) + h_rl h) t r [] 0)
          as [[_ Hs] | (body & rest & -> & Hl & Hs)]; [lia| |]; rewrite Hs in H; cbn [fst app] in H.
        { inversion H; subst e. rewrite io_err_is_io in Hio. discriminate. }
        unfold Poll.body_result in H.
        destruct (block_decode h TEof body) as [p [|x y]|e0|s] eqn:Ebd; try discriminate.
        { inversion H; subst e. contradiction. }
        destruct (is_eof e0); [inversion H; subst e; contradiction|]. inversion H; subst e0.
        rewrite (adec_hdec_ok t2 _ h (body ++ rest)).
        2:{ rewrite (hdec_var t2 cb _ v k _ (Hext t2 _)), En. reflexivity. }
        rewrite (Hbridge h Eb).
        exact (det_err_extend (block_decode h) (Hst h) TEof body e Ebd Hio t2 rest).
      * cbn [fst] in H. inversion H; subst e'.
        apply adec_hdec_err. rewrite (hdec_var t2 cb _ v k _ (Hext t2 _)), En. reflexivity.
      * discriminate.
    + destruct Hh as [Hh _]. rewrite Hh in H. inversion H; subst e'.
      apply adec_hdec_err. apply hdec_var_err.
      pose proof (det_err_extend decode_var_int stable_decode_var_int t d' e Ev Hio t2 []) as Hx.
      rewrite app_nil_r in Hx. exact Hx.
Qed.

Theorem reject_agree prof d t e :
  rr_res P (poll1 prof d t) = Some (Err e) -> e <> InvalidRemainingLength -> is_io e = false ->
  (forall t2, adec t2 d = RErr e) /\ map_eof (adec TEof d) = BErr e.
Proof.
  intros H Hne Hio.
  destruct (poll1_is_sem P new_with build_empty block_decode prof d t) as [Hs _].
  rewrite Hs in H. inversion H as [H1].
  pose proof (sem_err_adec t d e H1 Hne Hio) as Ha. split; [exact Ha|].
  rewrite (Ha TEof). unfold map_eof. rewrite (is_io_false_not_eof e Hio). reflexivity.
Qed.

(* ---- the I/O case ---- *)
Lemma body_result_not_io h total buf k : body_result h total buf <> Err (IoError k).
Proof.
  unfold Poll.body_result. destruct (block_decode h TEof buf) as [p [|x r]|e|s] eqn:Eb; try discriminate.
  destruct (is_eof e) eqn:Ee; [discriminate|]. intros H. inversion H; subst e.
  destruct (io_err_is_tail (block_decode h) (Hst h) TEof buf (IoError k) Eb eq_refl) as [He _].
  unfold io_err in He. inversion He; subst k. vm_compute in Ee. discriminate.
Qed.

(* when the input starts with a complete frame the poll decoder's verdict is never an I/O error *)
Theorem frame_not_io prof t d k : complete_frame d -> rr_res P (poll1 prof d t) <> Some (Err (IoError k)).
Proof.
  intros (cb & vb & v & body & rest & -> & Hv & Hl).
  destruct (poll1_frame P new_with build_empty block_decode prof t cb vb v body rest Hrl Hv Hl) as [H _].
  rewrite H. unfold frame_result. destruct (new_with cb v) as [h|e|s] eqn:En.
  - destruct (build_empty h) as [p|]; [cbn [fst]; discriminate|].
    destruct (v =? 0); cbn [fst]; [discriminate|].
    intros H'. inversion H' as [H1]. exact (body_result_not_io _ _ _ _ H1).
  - cbn [fst]. intros H'. inversion H'; subst e.
    pose proof (Hodet cb v) as Ho. rewrite En in Ho. discriminate Ho.
  - cbn [fst]. discriminate.
Qed.

(* an I/O error from the poll decoder is the transport's own error, the input does not start with a
   complete frame, and either the header is incomplete (then async reports the same error) or the
   header is complete and fewer than h_rl body bytes follow (then async runs the body decoder on the
   short body: it need not fail, see C06_io_counterexample) *)
Theorem io_case prof d t k :
  rr_res P (poll1 prof d t) = Some (Err (IoError k)) ->
  IoError k = io_err t /\ ~ complete_frame d /\
  (((forall t2, hdec t2 d = RErr (io_err t2)) /\ (forall t2, adec t2 d = RErr (io_err t2))) \/
   (exists h r, (forall t2, hdec t2 d = ROk h r) /\ build_empty h = None /\ len r < h_rl h /\
                forall t2, adec t2 d = block_decode h t2 r)).
Proof.
  intros H0. split; [|split; [intros Hc; exact (frame_not_io prof t d k Hc H0)|]];
  destruct (poll1_is_sem P new_with build_empty block_decode prof d t) as [Hs _];
  rewrite Hs in H0; inversion H0 as [H]; clear H0 Hs.
  - (* the error is the tail's *)
    destruct d as [|cb d'].
    + cbn [PollSched.sem fst] in H. inversion H. reflexivity.
    + pose proof (poll_header_eq P new_with build_empty block_decode cb t d') as Hh.
      destruct (decode_var_int t d') as [[v k0] r|e'|s] eqn:Ev; [| |contradiction].
      * rewrite Hh in H. clear Hh. unfold Poll.header_done in H.
        destruct (new_with cb v) as [h|e'|s] eqn:En.
        -- destruct (build_empty h) as [p|] eqn:Eb; [discriminate|].
           destruct (N.eqb_spec (h_rl h) 0) as [E0|E0]; [discriminate|].
           destruct (sem_body_cases P new_with build_empty block_decode h (1 + 1 + (k0 - 1) + h_rl h) t r [] 0)
             as [[_ Hs] | (body & rest & -> & Hl & Hs)]; [lia| |]; rewrite Hs in H; cbn [fst app] in H.
           ++ inversion H. reflexivity.
           ++ exfalso. exact (body_result_not_io _ _ _ _ H).
        -- cbn [fst] in H. inversion H; subst e'.
           pose proof (Hodet cb v) as Ho. rewrite En in Ho. discriminate Ho.
        -- discriminate.
      * destruct Hh as [Hh _]. rewrite Hh in H. inversion H; subst e'.
        destruct (io_err_is_tail decode_var_int stable_decode_var_int t d' (IoError k) Ev eq_refl) as [He _].
        exact He.
  - destruct d as [|cb d'].
    + left. split; intros t2; reflexivity.
    + pose proof (poll_header_eq P new_with build_empty block_decode cb t d') as Hh.
      destruct (decode_var_int t d') as [[v k0] r|e'|s] eqn:Ev; [| |contradiction].
      * destruct (ok_extend decode_var_int stable_decode_var_int t d' (v, k0) r Ev) as (c & Hc & Hext).
        subst d'. rewrite Hh in H. clear Hh. unfold Poll.header_done in H.
        destruct (new_with cb v) as [h|e'|s] eqn:En.
        -- destruct (build_empty h) as [p|] eqn:Eb; [discriminate|].
           destruct (N.eqb_spec (h_rl h) 0) as [E0|E0]; [discriminate|].
           destruct (sem_body_cases P new_with build_empty block_decode h (1 + 1 + (k0 - 1) + h_rl h) t r [] 0)
             as [[Hshort Hs] | (body & rest & -> & Hl & Hs)]; [lia| |]; rewrite Hs in H; cbn [fst app] in H.
           ++ right. exists h, r.
              assert (Hhd : forall t2, hdec t2 (cb :: c ++ r) = ROk h r).
              { intros t2. rewrite (hdec_var t2 cb _ v k0 _ (Hext t2 _)), En. reflexivity. }
              split; [exact Hhd|]. split; [exact Eb|]. split; [lia|].
              intros t2. rewrite (adec_hdec_ok t2 _ h r (Hhd t2)). exact (Hbridge h Eb t2 r).
           ++ exfalso. exact (body_result_not_io _ _ _ _ H).
        -- cbn [fst] in H. inversion H; subst e'.
           pose proof (Hodet cb v) as Ho. rewrite En in Ho. discriminate Ho.
        -- discriminate.
      * destruct Hh as [Hh _]. rewrite Hh in H. inversion H; subst e'.
        destruct (io_err_is_tail decode_var_int stable_decode_var_int t d' (IoError k) Ev eq_refl) as [_ He].
        left. assert (Hhd : forall t2, hdec t2 (cb :: d') = RErr (io_err t2)).
        { intros t2. apply hdec_var_err. exact (He t2). }
        split; [exact Hhd|]. intros t2. apply adec_hdec_err. exact (Hhd t2).
Qed.

End Agree.

(* ---------------- the bridges between body_decode_async and block_decode ---------------- *)
Lemma v3_bridge prof h : V3.build_empty_packet h = None ->
  forall t d, V3.body_decode_async prof h t d = V3.block_decode prof h t d.
Proof.
  unfold V3.build_empty_packet, V3.body_decode_async, V3.block_decode.
  destruct (h_typ h); intros H t d; try reflexivity; discriminate.
Qed.

Lemma v3_empty prof h p : V3.build_empty_packet h = Some p ->
  forall t d, V3.body_decode_async prof h t d = ROk p d.
Proof.
  unfold V3.build_empty_packet, V3.body_decode_async.
  destruct (h_typ h); intros H t d; try discriminate; inversion H; reflexivity.
Qed.

Lemma v5_bridge prof h : V5.build_empty_packet h = None ->
  forall t d, V5.body_decode_async prof h t d = V5.block_decode prof h t d.
Proof.
  unfold V5.build_empty_packet, V5.body_decode_async, V5.block_decode.
  destruct (h_typ h); intros H t d; try reflexivity; discriminate.
Qed.

Lemma v5_empty prof h p : V5.build_empty_packet h = Some p ->
  forall t d, V5.body_decode_async prof h t d = ROk p d.
Proof.
  unfold V5.build_empty_packet, V5.body_decode_async, V5.disconnect_decode, V5.auth_decode.
  destruct (h_typ h); intros H t d; try discriminate;
    try (inversion H; reflexivity);
    destruct (h_rl h =? 0); try discriminate; inversion H; reflexivity.
Qed.

(* the generic async decoder is the family's *)
Lemma v3_adec prof : adec V3.packet V3.header_new_with (V3.body_decode_async prof) = V3.decode_async prof.
Proof. reflexivity. Qed.
Lemma v5_adec prof : adec V5.packet V5.header_new_with (V5.body_decode_async prof) = V5.decode_async prof.
Proof. reflexivity. Qed.
Lemma v3_hdec : hdec V3.header_new_with = V3.header_decode.
Proof. reflexivity. Qed.
Lemma v5_hdec : hdec V5.header_new_with = V5.header_decode.
Proof. reflexivity. Qed.

(* ---------------- v3 ---------------- *)
Theorem C06_v3_accept_agree : forall prof d t n body p,
  rr_res _ (F3.poll1 prof d t) = Some (Ok (n, body, p)) ->
  exists rest, F3.dec_async prof t d = ROk p rest /\ F3.dec_block prof d = BOk p /\ len d = n + len rest.
Proof.
  intros prof d t n body p H.
  destruct (accept_agree V3.packet V3.header_new_with V3.build_empty_packet (V3.block_decode prof)
              (V3.body_decode_async prof) (v3_bridge prof) (v3_empty prof) (stable_v3_block_decode prof)
              prof d t n body p H) as (rest & Ha & Hl).
  rewrite v3_adec in Ha. exists rest. unfold F3.dec_async, F3.dec_block.
  rewrite (Ha t), (Ha TEof). repeat split. exact Hl.
Qed.

Theorem C06_v3_reject_agree : forall prof d t e,
  rr_res _ (F3.poll1 prof d t) = Some (Err e) -> e <> InvalidRemainingLength -> is_io e = false ->
  F3.dec_async prof t d = RErr e /\ F3.dec_block prof d = BErr e.
Proof.
  intros prof d t e H Hne Hio.
  destruct (reject_agree V3.packet V3.header_new_with V3.build_empty_packet (V3.block_decode prof)
              (V3.body_decode_async prof) (v3_bridge prof) (v3_empty prof) (stable_v3_block_decode prof)
              odet_v3_header_new_with prof d t e H Hne Hio) as (Ha & Hb).
  rewrite v3_adec in Ha, Hb. split; [exact (Ha t)|exact Hb].
Qed.

Theorem C06_v3_block_is_async : forall prof d, F3.dec_block prof d = map_eof (F3.dec_async prof TEof d).
Proof. reflexivity. Qed.

Theorem C06_v3_header_block_is_async : forall d, F3.header_dec d = V3.header_decode TEof d.
Proof. reflexivity. Qed.

Theorem C06_v3_frame_not_io : forall prof d t k,
  complete_frame d -> rr_res _ (F3.poll1 prof d t) <> Some (Err (IoError k)).
Proof.
  intros prof d t k.
  exact (frame_not_io V3.packet V3.header_new_with V3.build_empty_packet (V3.block_decode prof)
           (stable_v3_block_decode prof) odet_v3_header_new_with V3_new_with_rl prof t d k).
Qed.

Theorem C06_v3_io_case : forall prof d t k,
  rr_res _ (F3.poll1 prof d t) = Some (Err (IoError k)) ->
  IoError k = io_err t /\ ~ complete_frame d /\
  ((V3.header_decode t d = RErr (io_err t) /\ F3.header_dec d = RErr (io_err TEof) /\
    F3.dec_async prof t d = RErr (io_err t) /\ F3.dec_block prof d = BNone) \/
   (exists h r, V3.header_decode t d = ROk h r /\ F3.header_dec d = ROk h r /\
                V3.build_empty_packet h = None /\ len r < h_rl h /\
                F3.dec_async prof t d = V3.block_decode prof h t r /\
                F3.dec_block prof d = map_eof (V3.block_decode prof h TEof r))).
Proof.
  intros prof d t k H.
  destruct (io_case V3.packet V3.header_new_with V3.build_empty_packet (V3.block_decode prof)
              (V3.body_decode_async prof) (v3_bridge prof) (v3_empty prof) (stable_v3_block_decode prof)
              odet_v3_header_new_with V3_new_with_rl prof d t k H) as (Hk & Hnf & Hc).
  split; [exact Hk|]. split; [exact Hnf|].
  rewrite v3_adec, v3_hdec in Hc. unfold F3.dec_async, F3.dec_block, F3.header_dec.
  destruct Hc as [[Hh Ha] | (h & r & Hh & Hb & Hl & Ha)].
  - left. rewrite (Hh t), (Hh TEof), (Ha t), (Ha TEof). repeat split.
  - right. exists h, r. rewrite (Hh t), (Hh TEof), (Ha t), (Ha TEof). repeat split; assumption.
Qed.

(* ---------------- v5 ---------------- *)
Theorem C06_v5_accept_agree : forall prof d t n body p,
  rr_res _ (F5.poll1 prof d t) = Some (Ok (n, body, p)) ->
  exists rest, F5.dec_async prof t d = ROk p rest /\ F5.dec_block prof d = BOk p /\ len d = n + len rest.
Proof.
  intros prof d t n body p H.
  destruct (accept_agree V5.packet V5.header_new_with V5.build_empty_packet (V5.block_decode prof)
              (V5.body_decode_async prof) (v5_bridge prof) (v5_empty prof) (stable_v5_block_decode prof)
              prof d t n body p H) as (rest & Ha & Hl).
  rewrite v5_adec in Ha. exists rest. unfold F5.dec_async, F5.dec_block.
  rewrite (Ha t), (Ha TEof). repeat split. exact Hl.
Qed.

Theorem C06_v5_reject_agree : forall prof d t e,
  rr_res _ (F5.poll1 prof d t) = Some (Err e) -> e <> InvalidRemainingLength -> is_io e = false ->
  F5.dec_async prof t d = RErr e /\ F5.dec_block prof d = BErr e.
Proof.
  intros prof d t e H Hne Hio.
  destruct (reject_agree V5.packet V5.header_new_with V5.build_empty_packet (V5.block_decode prof)
              (V5.body_decode_async prof) (v5_bridge prof) (v5_empty prof) (stable_v5_block_decode prof)
              odet_v5_header_new_with prof d t e H Hne Hio) as (Ha & Hb).
  rewrite v5_adec in Ha, Hb. split; [exact (Ha t)|exact Hb].
Qed.

Theorem C06_v5_block_is_async : forall prof d, F5.dec_block prof d = map_eof (F5.dec_async prof TEof d).
Proof. reflexivity. Qed.

Theorem C06_v5_header_block_is_async : forall d, F5.header_dec d = V5.header_decode TEof d.
Proof. reflexivity. Qed.

Theorem C06_v5_frame_not_io : forall prof d t k,
  complete_frame d -> rr_res _ (F5.poll1 prof d t) <> Some (Err (IoError k)).
Proof.
  intros prof d t k.
  exact (frame_not_io V5.packet V5.header_new_with V5.build_empty_packet (V5.block_decode prof)
           (stable_v5_block_decode prof) odet_v5_header_new_with V5_new_with_rl prof t d k).
Qed.

Theorem C06_v5_io_case : forall prof d t k,
  rr_res _ (F5.poll1 prof d t) = Some (Err (IoError k)) ->
  IoError k = io_err t /\ ~ complete_frame d /\
  ((V5.header_decode t d = RErr (io_err t) /\ F5.header_dec d = RErr (io_err TEof) /\
    F5.dec_async prof t d = RErr (io_err t) /\ F5.dec_block prof d = BNone) \/
   (exists h r, V5.header_decode t d = ROk h r /\ F5.header_dec d = ROk h r /\
                V5.build_empty_packet h = None /\ len r < h_rl h /\
                F5.dec_async prof t d = V5.block_decode prof h t r /\
                F5.dec_block prof d = map_eof (V5.block_decode prof h TEof r))).
Proof.
  intros prof d t k H.
  destruct (io_case V5.packet V5.header_new_with V5.build_empty_packet (V5.block_decode prof)
              (V5.body_decode_async prof) (v5_bridge prof) (v5_empty prof) (stable_v5_block_decode prof)
              odet_v5_header_new_with V5_new_with_rl prof d t k H) as (Hk & Hnf & Hc).
  split; [exact Hk|]. split; [exact Hnf|].
  rewrite v5_adec, v5_hdec in Hc. unfold F5.dec_async, F5.dec_block, F5.header_dec.
  destruct Hc as [[Hh Ha] | (h & r & Hh & Hb & Hl & Ha)].
  - left. rewrite (Hh t), (Hh TEof), (Ha t), (Ha TEof). repeat split.
  - right. exists h, r. rewrite (Hh t), (Hh TEof), (Ha t), (Ha TEof). repeat split; assumption.
Qed.

(* ====================================================================== *)
(* Non-vacuity and the boundary of C06                                     *)
(* ====================================================================== *)
Definition ex3_connect_body : bytes := [0; 4; 77; 81; 84; 84; 4; 2; 0; 60; 0; 2; 97; 98].
Definition ex3_connect_pkt : V3.packet :=
  V3.Connect {| V3.c_protocol := V311; V3.c_clean := true; V3.c_keep_alive := 60;
                V3.c_client_id := [97; 98]; V3.c_will := None; V3.c_username := None;
                V3.c_password := None |}.
Definition ex5_connect_body : bytes := [0; 4; 77; 81; 84; 84; 5; 2; 0; 60; 0; 0; 2; 97; 98].

(* accept: a v3 CONNECT frame followed by a PINGREQ; all three front-ends return the CONNECT,
   the poll decoder consumed 16 bytes, the async decoder leaves the 2 PINGREQ bytes *)
Example C06_v3_accept_ex :
  rr_res _ (F3.poll1 Debug ([16; 14] ++ ex3_connect_body ++ [192; 0]) TEof)
    = Some (Ok (16, ex3_connect_body, ex3_connect_pkt)) /\
  F3.dec_async Debug TEof ([16; 14] ++ ex3_connect_body ++ [192; 0]) = ROk ex3_connect_pkt [192; 0] /\
  F3.dec_block Debug ([16; 14] ++ ex3_connect_body ++ [192; 0]) = BOk ex3_connect_pkt.
Proof. vm_compute. repeat split. Qed.

(* accept, empty packets: v3 PINGREQ, v5 DISCONNECT and AUTH with remaining length 0 *)
Example C06_empty_accept_ex :
  rr_res _ (F3.poll1 Release [192; 0; 7] TEof) = Some (Ok (2, [], V3.Pingreq)) /\
  F3.dec_async Release TEof [192; 0; 7] = ROk V3.Pingreq [7] /\
  rr_res _ (F5.poll1 Release [224; 0; 7] TEof)
    = Some (Ok (2, [], V5.Disconnect {| V5.d_code := 0; V5.d_props := props_empty |})) /\
  F5.dec_async Release TEof [224; 0; 7]
    = ROk (V5.Disconnect {| V5.d_code := 0; V5.d_props := props_empty |}) [7] /\
  rr_res _ (F5.poll1 Release [240; 0; 7] TEof)
    = Some (Ok (2, [], V5.Auth {| V5.d_code := 0; V5.d_props := props_empty |})) /\
  F5.dec_async Release TEof [240; 0; 7]
    = ROk (V5.Auth {| V5.d_code := 0; V5.d_props := props_empty |}) [7].
Proof. vm_compute. repeat split. Qed.

(* reject: header error, varint error, body error (reserved connect flag bit) *)
Example C06_v3_reject_ex :
  rr_res _ (F3.poll1 Debug [0; 14] TEof) = Some (Err InvalidHeader) /\
  F3.dec_async Debug TEof [0; 14] = RErr InvalidHeader /\
  rr_res _ (F3.poll1 Debug [16; 128; 128; 128; 128; 1] TEof) = Some (Err InvalidVarByteInt) /\
  F3.dec_block Debug [16; 128; 128; 128; 128; 1] = BErr InvalidVarByteInt /\
  rr_res _ (F3.poll1 Debug [16; 14; 0; 4; 77; 81; 84; 84; 4; 3; 0; 60; 0; 2; 97; 98] (TFail 3))
    = Some (Err (InvalidConnectFlags 3)) /\
  F3.dec_async Debug (TFail 3) [16; 14; 0; 4; 77; 81; 84; 84; 4; 3; 0; 60; 0; 2; 97; 98]
    = RErr (InvalidConnectFlags 3).
Proof. vm_compute. repeat split. Qed.

(* why InvalidRemainingLength is excluded from C06_reject_agree: the poll decoder compares the
   body decoder's consumption with the declared remaining length, the async and blocking decoders
   do not (known finding KF2).  PUBACK declaring 3 bytes (one left over) and PUBACK declaring 1 byte
   (body decoder hits the end of the frame buffer): *)
Example C06_invalid_remaining_length_boundary :
  rr_res _ (F3.poll1 Debug [64; 3; 0; 1; 9] TEof) = Some (Err InvalidRemainingLength) /\
  F3.dec_async Debug TEof [64; 3; 0; 1; 9] = ROk (V3.Puback 1) [9] /\
  F3.dec_block Debug [64; 3; 0; 1; 9] = BOk (V3.Puback 1) /\
  rr_res _ (F3.poll1 Debug [64; 1; 0; 1; 9] TEof) = Some (Err InvalidRemainingLength) /\
  F3.dec_async Debug TEof [64; 1; 0; 1; 9] = ROk (V3.Puback 1) [9].
Proof. vm_compute. repeat split. Qed.

(* COUNTEREXAMPLE to "poll returns an I/O error -> async returns an I/O error": the header declares
   127 body bytes, only 14 (resp. 15) follow, and they happen to be a complete CONNECT body.  The poll
   decoder waits for the declared length and reports the transport's error; the async / blocking
   decoders, which never look at the declared length of a CONNECT, return the packet.  This is the
   second disjunct of C06_v3_io_case / C06_v5_io_case. *)
Example C06_io_counterexample :
  rr_res _ (F3.poll1 Debug ([16; 127] ++ ex3_connect_body) TEof) = Some (Err (IoError KUnexpectedEof)) /\
  F3.dec_async Debug TEof ([16; 127] ++ ex3_connect_body) = ROk ex3_connect_pkt [] /\
  F3.dec_block Debug ([16; 127] ++ ex3_connect_body) = BOk ex3_connect_pkt /\
  rr_res _ (F5.poll1 Debug ([16; 127] ++ ex5_connect_body) (TFail KInterrupted))
    = Some (Err (IoError KInterrupted)) /\
  (exists c, F5.dec_async Debug (TFail KInterrupted) ([16; 127] ++ ex5_connect_body) = ROk (V5.Connect c) []).
Proof. vm_compute. repeat split. eexists. reflexivity. Qed.

(* the I/O case proper: a frame cut inside the header, and inside the body of a packet whose body
   decoder needs all its bytes *)
Example C06_io_ex :
  rr_res _ (F3.poll1 Debug [48; 200] (TFail 3)) = Some (Err (IoError 3)) /\
  F3.dec_async Debug (TFail 3) [48; 200] = RErr (IoError 3) /\
  F3.dec_block Debug [48; 200] = BNone /\
  rr_res _ (F3.poll1 Debug [64; 2; 0] TEof) = Some (Err (IoError KUnexpectedEof)) /\
  F3.dec_async Debug TEof [64; 2; 0] = RErr (IoError KUnexpectedEof) /\
  F3.dec_block Debug [64; 2; 0] = BNone.
Proof. vm_compute. repeat split. Qed.

(* a schedule with cuts and pendings: same verdict as one read, one Pending per transport Pending *)
Example C05_schedule_ex :
  let l := [AB 64; ACut; APend; AB 2; APend; ACut; ACut; AB 0; AB 7; ACut; AB 192] in
  rr_res _ (F3.poll_drive Debug l TEof) = Some (Ok (4, [0; 7], V3.Puback 7)) /\
  rr_pend _ (F3.poll_drive Debug l TEof) = 2 /\
  bytes_of (rr_rest _ (F3.poll_drive Debug l TEof)) = [192].
Proof. vm_compute. repeat split. Qed.

Print Assumptions C05_v3_schedule_independent.
Print Assumptions C05_v3_same_as_one_read.
Print Assumptions C05_v3_pending.
Print Assumptions C05_v3_consumed_eq_total.
Print Assumptions C05_v3_never_reads_past_frame.
Print Assumptions C05_v3_drop_recreate.
Print Assumptions C05_v5_schedule_independent.
Print Assumptions C05_v5_same_as_one_read.
Print Assumptions C05_v5_pending.
Print Assumptions C05_v5_consumed_eq_total.
Print Assumptions C05_v5_never_reads_past_frame.
Print Assumptions C05_v5_drop_recreate.
Print Assumptions C03_v3_poll_total.
Print Assumptions C03_v5_poll_total.
Print Assumptions C03_v3_poll_no_fuel_no_panic.
Print Assumptions C03_v5_poll_no_fuel_no_panic.
Print Assumptions C06_v3_accept_agree.
Print Assumptions C06_v3_reject_agree.
Print Assumptions C06_v3_block_is_async.
Print Assumptions C06_v3_header_block_is_async.
Print Assumptions C06_v3_frame_not_io.
Print Assumptions C06_v3_io_case.
Print Assumptions C06_v5_accept_agree.
Print Assumptions C06_v5_reject_agree.
Print Assumptions C06_v5_block_is_async.
Print Assumptions C06_v5_header_block_is_async.
Print Assumptions C06_v5_frame_not_io.
Print Assumptions C06_v5_io_case.
