(* Proofs/Faults3.v — C20 for the MQTT 3.1 / 3.1.1 family: the catalogue rows through the v3
   decoders (layer 1, decoder level) and through whole frames on the three front-ends (layer 2). *)
From MQ Require Import Spec.SpecTopic.
From MQ Require Import Proofs.Tactics Proofs.VarIntLaws Proofs.Parses Proofs.Stable
  Proofs.TopicFilterEq Proofs.TopicNameEq Proofs.V3RT Proofs.FaultsBase Model.Valid.
From MQ Require Proofs.PollSched.
Open Scope N_scope.
Import V3.

(* ------------------------------------------------------------------------------------ *)
(* 0. The family's front-ends                                                           *)
(* ------------------------------------------------------------------------------------ *)
Definition frame_async3 (prof : profile) := frame_async packet header_new_with (body_decode_async prof).

Lemma dec_async3_frame prof cb n t rest : n < VMAX ->
  F3.dec_async prof t (cb :: write_var_int n ++ rest) = frame_async3 prof cb n t rest.
Proof.
  intros Hn. unfold F3.dec_async, decode_async, header_decode, frame_async3, frame_async.
  rewrite bind_assoc. erewrite bind_ok by (apply decode_raw_header_rt; exact Hn). cbv beta iota.
  unfold bind, lift_outcome. destruct (header_new_with cb n); reflexivity.
Qed.

Lemma same3 prof h : build_empty_packet h = None -> forall t d, body_decode_async prof h t d = block_decode prof h t d.
Proof.
  unfold build_empty_packet, body_decode_async, block_decode.
  destruct (h_typ h); intros H t d; try discriminate H; reflexivity.
Qed.

Lemma empty3 prof h p : build_empty_packet h = Some p -> forall t d, body_decode_async prof h t d = ROk p d.
Proof.
  unfold build_empty_packet, body_decode_async.
  destruct (h_typ h); intros H t d; try discriminate H; inversion H; reflexivity.
Qed.

Lemma reads3 prof h e : build_empty_packet h = None -> block_decode prof h TEof [] = RErr e -> is_io e = true.
Proof.
  unfold build_empty_packet, block_decode.
  destruct h as [ty dup q rt rl]. cbn [h_typ h_rl].
  destruct ty; intros Hb H; try discriminate Hb; vm_compute in H; inversion H; reflexivity.
Qed.

Notation poll3 prof := (F3.poll1 prof).

Lemma frame_err_to_poll3 prof cb body sfx t e : len body < VMAX ->
  frame_async3 prof cb (len body) TEof body = RErr e -> is_io e = false ->
  rr_res _ (poll3 prof (cb :: write_var_int (len body) ++ body ++ sfx) t) = Some (Err e).
Proof.
  apply (frame_err_to_poll packet header_new_with build_empty_packet (block_decode prof)
           (body_decode_async prof) prof PollSched.V3_new_with_rl (same3 prof) (empty3 prof) (reads3 prof)).
Qed.

(* the two generic lemmas of the task *)
Theorem async_err_to_block_3 prof d e :
  F3.dec_async prof TEof d = RErr e -> is_eof e = false -> F3.dec_block prof d = BErr e.
Proof. intros H He. unfold F3.dec_block. apply map_eof_err; assumption. Qed.

Theorem async_err_to_poll_3 prof cb body sfx t t' e : len body < VMAX ->
  F3.dec_async prof t (cb :: write_var_int (len body) ++ body ++ sfx) = RErr e -> is_io e = false ->
  rr_res _ (poll3 prof (cb :: write_var_int (len body) ++ body ++ sfx) t') = Some (Err e) \/
  rr_res _ (poll3 prof (cb :: write_var_int (len body) ++ body ++ sfx) t') = Some (Err InvalidRemainingLength).
Proof.
  intros Hn Ha He. rewrite dec_async3_frame in Ha by exact Hn.
  apply (async_err_to_poll_weak packet header_new_with build_empty_packet (block_decode prof)
           (body_decode_async prof) prof PollSched.V3_new_with_rl (stable_v3_block_decode prof)
           (same3 prof) (empty3 prof) cb body sfx t t' e Hn Ha He).
Qed.

(* ... and it is the same error whenever the fault is detected inside the frame, i.e. when the
   async decoder reports it on the frame alone *)
Theorem async_err_to_poll_exact_3 prof cb body sfx t e : len body < VMAX ->
  F3.dec_async prof TEof (cb :: write_var_int (len body) ++ body) = RErr e -> is_io e = false ->
  rr_res _ (poll3 prof (cb :: write_var_int (len body) ++ body ++ sfx) t) = Some (Err e).
Proof.
  intros Hn Ha He. rewrite dec_async3_frame in Ha by exact Hn.
  apply frame_err_to_poll3; assumption.
Qed.

(* "classified": the three front-ends report e on the frame followed by anything *)
Definition classified3 (prof : profile) (frame : bytes) (e : err) : Prop :=
  (forall t sfx, F3.dec_async prof t (frame ++ sfx) = RErr e) /\
  (forall sfx, F3.dec_block prof (frame ++ sfx) = BErr e) /\
  (forall t sfx, rr_res _ (poll3 prof (frame ++ sfx) t) = Some (Err e)).

Lemma classify3 prof cb body e : len body < VMAX -> is_io e = false ->
  (forall t sfx, F3.dec_async prof t (cb :: write_var_int (len body) ++ body ++ sfx) = RErr e) ->
  classified3 prof (cb :: write_var_int (len body) ++ body) e.
Proof.
  intros Hn He Ha. unfold classified3. cbn [app]. repeat split.
  - intros t sfx. rewrite <- app_assoc. apply Ha.
  - intros sfx. rewrite <- app_assoc. apply async_err_to_block_3; [apply Ha|apply not_io_not_eof; exact He].
  - intros t sfx. rewrite <- app_assoc. apply async_err_to_poll_exact_3; try assumption.
    specialize (Ha TEof []). rewrite app_nil_r in Ha. exact Ha.
Qed.

(* one step of a monadic decoder: the next primitive succeeds / fails *)
Ltac ok_by tac := rewrite ?bind_assoc; (erewrite bind_ok by tac); cbv beta.
Ltac err_by tac := rewrite ?bind_assoc; (erewrite bind_err by tac); reflexivity.

Lemma frame3 prof cb n h t rest : n < VMAX -> header_new_with cb n = Ok h ->
  F3.dec_async prof t (cb :: write_var_int n ++ rest) = body_decode_async prof h t rest.
Proof. intros Hn Hh. rewrite dec_async3_frame by exact Hn. unfold frame_async3, frame_async. rewrite Hh. reflexivity. Qed.

Lemma header3_err_det cb n e : header_new_with cb n = Err e -> is_io e = false.
Proof. intros H. pose proof (odet_v3_header_new_with cb n) as O. rewrite H in O. exact O. Qed.

(* ------------------------------------------------------------------------------------ *)
(* (a) header rows, every packet type                                                   *)
(* ------------------------------------------------------------------------------------ *)
Theorem C20_header_3 prof cb n e : n < VMAX -> header_new_with cb n = Err e ->
  forall t rest, F3.dec_async prof t (cb :: write_var_int n ++ rest) = RErr e.
Proof.
  intros Hn He t rest. rewrite dec_async3_frame by exact Hn. unfold frame_async3, frame_async.
  rewrite He. reflexivity.
Qed.

(* all three front-ends; the bytes after the header are arbitrary (any number of them) *)
Theorem C20_header_3_all prof cb n e : n < VMAX -> header_new_with cb n = Err e ->
  (forall t rest, F3.dec_async prof t (cb :: write_var_int n ++ rest) = RErr e) /\
  (forall rest, F3.dec_block prof (cb :: write_var_int n ++ rest) = BErr e) /\
  (forall t rest, rr_res _ (poll3 prof (cb :: write_var_int n ++ rest) t) = Some (Err e)).
Proof.
  intros Hn He. pose proof (header3_err_det _ _ _ He) as Hd. repeat split.
  - apply C20_header_3; assumption.
  - intros rest. apply async_err_to_block_3; [apply C20_header_3; assumption|apply not_io_not_eof; exact Hd].
  - intros t rest. apply (header_err_to_poll packet header_new_with build_empty_packet (block_decode prof) prof);
      assumption.
Qed.

(* in terms of the declarative table: every control byte the table refuses, for every packet type *)
Corollary C20_header_verdict_3 prof cb n e : n < VMAX ->
  header3_verdict (cb / 16) (cb mod 16) (n =? 0) = HReject e ->
  (forall t rest, F3.dec_async prof t (cb :: write_var_int n ++ rest) = RErr e) /\
  (forall rest, F3.dec_block prof (cb :: write_var_int n ++ rest) = BErr e) /\
  (forall t rest, rr_res _ (poll3 prof (cb :: write_var_int n ++ rest) t) = Some (Err e)).
Proof.
  intros Hn Hv. apply C20_header_3_all; [exact Hn|].
  rewrite header3_spec. unfold header3_table. rewrite Hv. reflexivity.
Qed.

(* the over-long remaining length *)
Theorem C20_header_varint_3 prof cb b0 b1 b2 b3 : 128 <= b0 -> 128 <= b1 -> 128 <= b2 -> 128 <= b3 ->
  (forall t rest, F3.dec_async prof t (cb :: b0 :: b1 :: b2 :: b3 :: rest) = RErr InvalidVarByteInt) /\
  (forall rest, F3.dec_block prof (cb :: b0 :: b1 :: b2 :: b3 :: rest) = BErr InvalidVarByteInt) /\
  (forall t rest, rr_res _ (poll3 prof (cb :: b0 :: b1 :: b2 :: b3 :: rest) t) = Some (Err InvalidVarByteInt)).
Proof.
  intros H0 H1 H2 H3.
  assert (A : forall t rest, F3.dec_async prof t (cb :: b0 :: b1 :: b2 :: b3 :: rest) = RErr InvalidVarByteInt).
  { intros t rest. unfold F3.dec_async, decode_async, header_decode. rewrite bind_assoc.
    erewrite bind_err by (apply C20_varint_header; assumption). reflexivity. }
  repeat split.
  - exact A.
  - intros rest. apply async_err_to_block_3; [apply A|reflexivity].
  - intros t rest. apply varint_err_to_poll; assumption.
Qed.

(* ------------------------------------------------------------------------------------ *)
(* (b) packet identifier 0                                                              *)
(* ------------------------------------------------------------------------------------ *)
Definition pid_first (t : ptype) : bool :=
  match t with
  | PPuback | PPubrec | PPubrel | PPubcomp | PUnsuback | PSubscribe | PSuback | PUnsubscribe => true
  | _ => false
  end.

Theorem C20_pid_zero_3 prof cb n h : n < VMAX -> header_new_with cb n = Ok h -> pid_first (h_typ h) = true ->
  forall t rest, F3.dec_async prof t (cb :: write_var_int n ++ 0 :: 0 :: rest) = RErr ZeroPid.
Proof.
  intros Hn Hh Hp t rest. rewrite (frame3 prof cb n h t _ Hn Hh). unfold body_decode_async.
  destruct (h_typ h); try discriminate Hp;
    try (erewrite bind_err by apply pid_zero_bytes; reflexivity).
  - unfold subscribe_decode. rewrite bind_assoc. erewrite bind_err by apply pid_zero_bytes. reflexivity.
  - unfold suback_decode. rewrite bind_assoc. erewrite bind_err by apply pid_zero_bytes. reflexivity.
  - unfold unsubscribe_decode. rewrite bind_assoc. erewrite bind_err by apply pid_zero_bytes. reflexivity.
Qed.

(* the control bytes of the eight packet types that start with a packet identifier *)
Definition PID_FIRST_CBS : list N := [64; 80; 98; 112; 130; 144; 162; 176].

Lemma pid_first_header cb n : In cb PID_FIRST_CBS ->
  exists h, header_new_with cb n = Ok h /\ pid_first (h_typ h) = true.
Proof.
  cbn [In PID_FIRST_CBS]. intros H.
  repeat (destruct H as [<-|H]; [eexists; split; reflexivity|]). contradiction.
Qed.

Theorem C20_pid_zero_3_all prof cb x : In cb PID_FIRST_CBS -> len (0 :: 0 :: x) < VMAX ->
  classified3 prof (cb :: write_var_int (len (0 :: 0 :: x)) ++ 0 :: 0 :: x) ZeroPid.
Proof.
  intros Hc Hn. destruct (pid_first_header cb (len (0 :: 0 :: x)) Hc) as (h & Hh & Hp).
  apply classify3; [exact Hn|reflexivity|]. intros t sfx. cbn [app].
  apply (C20_pid_zero_3 prof cb _ h Hn Hh Hp).
Qed.

(* PUBLISH with QoS 1 or 2: the identifier follows the topic *)
Theorem C20_pid_zero_publish_3 prof cb n h topic : n < VMAX -> header_new_with cb n = Ok h ->
  h_typ h = PPublish -> h_qos h <> 0 ->
  utf8_valid topic = true -> len topic <= 65535 -> 2 + len topic + 2 <= n ->
  forall t rest, F3.dec_async prof t (cb :: write_var_int n ++ be16 (len topic mod 65536) ++ topic ++ 0 :: 0 :: rest)
                 = RErr ZeroPid.
Proof.
  intros Hn Hh Ht Hq Hv Hl Hrl t rest. rewrite (frame3 prof cb n h t _ Hn Hh). unfold body_decode_async.
  rewrite Ht. unfold publish_decode. rewrite (PollSched.V3_new_with_rl _ _ _ Hh).
  ok_by ltac:(apply read_string_lp; assumption).
  ok_by ltac:(apply checked_sub_ok; lia).
  destruct (N.eqb_spec (h_qos h) 0) as [E|_]; [contradiction|].
  destruct (h_qos h =? 1);
    (ok_by ltac:(apply checked_sub_ok; lia)); err_by ltac:(apply pid_zero_bytes).
Qed.

(* the header of a PUBLISH control byte with QoS bits 1 or 2 *)
Lemma publish_qos_header cb n : cb / 16 = 3 -> (cb mod 16 / 2) mod 4 = 1 \/ (cb mod 16 / 2) mod 4 = 2 ->
  exists h, header_new_with cb n = Ok h /\ h_typ h = PPublish /\ h_qos h <> 0.
Proof.
  intros Hi Hq. rewrite header3_spec, Hi. unfold header3_table, header3_verdict, header_verdict.
  cbn [ptype_of_nibble3 ptype_of_nibble5].
  destruct (N.eqb_spec ((cb mod 16 / 2) mod 4) 3) as [E|_]; [lia|].
  eexists. split; [reflexivity|]. cbn [header_fields h_typ h_qos]. split; [reflexivity|lia].
Qed.

Theorem C20_pid_zero_publish_3_all prof cb topic x :
  cb / 16 = 3 -> (cb mod 16 / 2) mod 4 = 1 \/ (cb mod 16 / 2) mod 4 = 2 ->
  utf8_valid topic = true -> len topic <= 65535 ->
  let body := be16 (len topic mod 65536) ++ topic ++ 0 :: 0 :: x in
  len body < VMAX ->
  classified3 prof (cb :: write_var_int (len body) ++ body) ZeroPid.
Proof.
  intros Hi Hq Hv Hl body Hn. destruct (publish_qos_header cb (len body) Hi Hq) as (h & Hh & Ht & Hq').
  apply classify3; [exact Hn|reflexivity|]. intros t sfx. unfold body. rewrite <- !app_assoc. cbn [app].
  apply (C20_pid_zero_publish_3 prof cb _ h topic Hn Hh Ht Hq' Hv Hl).
  unfold body. rewrite !len_app, len_be16, !len_cons. lia.
Qed.

(* ------------------------------------------------------------------------------------ *)
(* (c) code rows: CONNACK flags / return code, the k-th SUBACK code                      *)
(* ------------------------------------------------------------------------------------ *)
Lemma connack_header n : header_new_with 32 n = Ok (mk_header PConnack n).
Proof. reflexivity. Qed.

Theorem C20_connack_flags_3_frame prof n f c : n < VMAX -> 2 <= f ->
  forall t rest, F3.dec_async prof t (32 :: write_var_int n ++ f :: c :: rest) = RErr (InvalidConnackFlags f).
Proof.
  intros Hn Hf t rest. rewrite (frame3 prof 32 n _ t _ Hn (connack_header n)). unfold body_decode_async.
  cbn [h_typ mk_header]. erewrite bind_err by (apply (C20_connack_flags_3 f c t rest); exact Hf). reflexivity.
Qed.

Theorem C20_connack_code_3_frame prof n f c : n < VMAX -> f < 2 -> 6 <= c ->
  forall t rest, F3.dec_async prof t (32 :: write_var_int n ++ f :: c :: rest) = RErr (InvalidConnectReturnCode c).
Proof.
  intros Hn Hf Hc t rest. rewrite (frame3 prof 32 n _ t _ Hn (connack_header n)). unfold body_decode_async.
  cbn [h_typ mk_header]. erewrite bind_err by (apply (C20_connack_code_3 f c t rest); assumption). reflexivity.
Qed.

Theorem C20_connack_flags_3_all prof f c : 2 <= f ->
  classified3 prof (32 :: write_var_int 2 ++ [f; c]) (InvalidConnackFlags f).
Proof.
  intros Hf. apply (classify3 prof 32 [f; c]); [reflexivity|reflexivity|]. intros t sfx.
  apply C20_connack_flags_3_frame; [reflexivity|exact Hf].
Qed.
Theorem C20_connack_code_3_all prof f c : f < 2 -> 6 <= c ->
  classified3 prof (32 :: write_var_int 2 ++ [f; c]) (InvalidConnectReturnCode c).
Proof.
  intros Hf Hc. apply (classify3 prof 32 [f; c]); [reflexivity|reflexivity|]. intros t sfx.
  apply C20_connack_code_3_frame; [reflexivity|exact Hf|exact Hc].
Qed.

Definition suback_code_ok (c : N) : bool := (c =? 128) || (c <? 3).

Lemma suback_loop_bad v t rest : suback_code_ok v = false ->
  forall codes fuel rl acc,
  forallb suback_code_ok codes = true -> len codes < rl -> (length codes < fuel)%nat ->
  suback_loop fuel rl acc t (codes ++ v :: rest) = RErr (InvalidQos v).
Proof.
  intros Hv. induction codes as [|c codes IH]; intros fuel rl acc Hok Hl Hf.
  - destruct fuel as [|f]; [cbn [length] in Hf; lia|]. cbn [suback_loop app].
    destruct (N.eqb_spec rl 0) as [E|_]; [rewrite len_nil in Hl; lia|].
    erewrite bind_ok by apply read_u8_cons.
    unfold subscribe_return_code_of_u8. unfold suback_code_ok in Hv. rewrite Hv. reflexivity.
  - destruct fuel as [|f]; [cbn [length] in Hf; lia|]. cbn [suback_loop app].
    rewrite len_cons in Hl. destruct (N.eqb_spec rl 0) as [E|_]; [lia|].
    cbn [forallb] in Hok. apply andb_true_iff in Hok as [Hc Hok].
    erewrite bind_ok by apply read_u8_cons.
    unfold subscribe_return_code_of_u8. unfold suback_code_ok in Hc. rewrite Hc.
    cbn [lift_outcome]. rewrite bind_ret. apply IH; [exact Hok|lia|cbn [length] in Hf; lia].
Qed.

(* the k-th return code is bad, after k good ones *)
Theorem C20_suback_code_3 prof n pid codes v : n < VMAX -> pid_ok pid = true ->
  forallb suback_code_ok codes = true -> suback_code_ok v = false -> 2 + len codes < n ->
  forall t rest, F3.dec_async prof t (144 :: write_var_int n ++ be16 pid ++ codes ++ v :: rest) = RErr (InvalidQos v).
Proof.
  intros Hn Hp Hok Hv Hl t rest.
  rewrite (frame3 prof 144 n (mk_header PSuback n) t _ Hn eq_refl). unfold body_decode_async.
  cbn [h_typ h_rl mk_header]. unfold suback_decode.
  ok_by ltac:(apply pid_read_be16; exact Hp).
  ok_by ltac:(apply checked_sub_ok; lia).
  apply bind_err. cbv beta. apply bind_err.
  apply suback_loop_bad; [exact Hv|exact Hok|lia|].
  rewrite app_length. lia.
Qed.

Theorem C20_suback_code_3_all prof pid codes v x : pid_ok pid = true ->
  forallb suback_code_ok codes = true -> suback_code_ok v = false ->
  let body := be16 pid ++ codes ++ v :: x in
  len body < VMAX -> classified3 prof (144 :: write_var_int (len body) ++ body) (InvalidQos v).
Proof.
  intros Hp Hok Hv body Hn. apply classify3; [exact Hn|reflexivity|]. intros t sfx.
  unfold body. rewrite <- !app_assoc. cbn [app].
  apply C20_suback_code_3; try assumption.
  unfold body. rewrite !len_app, len_be16, len_cons. lia.
Qed.

(* ------------------------------------------------------------------------------------ *)
(* (d) CONNECT rows                                                                     *)
(* ------------------------------------------------------------------------------------ *)
Lemma level_ok_3 pr : pr <> V500 -> (4 <? protocol_level pr) = false.
Proof. destruct pr; intros H; try reflexivity. congruence. Qed.

(* layer 1: the reserved bit is tested right after the flags byte *)
Theorem C20_connect_reserved_flag_3 pr flags t r : pr <> V500 -> bit flags 0 = true ->
  connect_decode_with_protocol pr t (flags :: r) = RErr (InvalidConnectFlags flags).
Proof.
  intros Hp Hb. unfold connect_decode_with_protocol. rewrite (level_ok_3 pr Hp).
  erewrite bind_ok by apply read_u8_cons. rewrite Hb. reflexivity.
Qed.

(* what connect_decode_with_protocol does after flags, keep-alive and client identifier *)
Definition connect3_after (pr : protocol) (flags keep_alive : N) (client_id : bytes) : reader connect :=
  last_will <-
    (if bit flags 2 then
       topic <- read_string ;;
       message <- read_bytes ;;
       qos <- lift_outcome (qos_of_u8 ((flags / 8) mod 4)) ;;
       topic' <- lift_outcome (name_try topic) ;;
       ret (Some {| w_qos := qos; w_retain := bit flags 5; w_topic := topic'; w_message := message |})
     else if negb ((flags / 8) mod 4 =? 0) then fail (InvalidConnectFlags flags)
     else ret None) ;;
  username <- (if bit flags 7 then s <- read_string ;; ret (Some s) else ret None) ;;
  password <- (if bit flags 6 then s <- read_bytes ;; ret (Some s) else ret None) ;;
  ret {| c_protocol := pr; c_clean := bit flags 1; c_keep_alive := keep_alive;
         c_client_id := client_id; c_will := last_will; c_username := username; c_password := password |}.

Lemma connect3_prefix pr flags ka cid t r : pr <> V500 -> bit flags 0 = false ->
  ka < 65536 -> len cid <= 65535 -> utf8_valid cid = true ->
  connect_decode_with_protocol pr t (flags :: be16 ka ++ be16 (len cid mod 65536) ++ cid ++ r)
  = connect3_after pr flags ka cid t r.
Proof.
  intros Hp Hb Hka Hl Hv. unfold connect_decode_with_protocol. rewrite (level_ok_3 pr Hp).
  erewrite bind_ok by apply read_u8_cons. rewrite Hb.
  erewrite bind_ok by (apply read_u16_be16; exact Hka).
  erewrite bind_ok by (apply read_string_lp; assumption). reflexivity.
Qed.

(* layer 1: will-QoS bits without the will flag — found after keep-alive and client identifier *)
Theorem C20_connect_will_qos_without_will_3 pr flags ka cid t r : pr <> V500 -> bit flags 0 = false ->
  ka < 65536 -> len cid <= 65535 -> utf8_valid cid = true ->
  bit flags 2 = false -> (flags / 8) mod 4 <> 0 ->
  connect_decode_with_protocol pr t (flags :: be16 ka ++ be16 (len cid mod 65536) ++ cid ++ r)
  = RErr (InvalidConnectFlags flags).
Proof.
  intros Hp Hb Hka Hl Hv Hw Hq. rewrite connect3_prefix by assumption. unfold connect3_after.
  rewrite Hw. destruct (N.eqb_spec ((flags / 8) mod 4) 0) as [E|_]; [contradiction|]. reflexivity.
Qed.

(* layer 1: will QoS 3 — found after the will topic and message have been read *)
Theorem C20_connect_will_qos3_3 pr flags ka cid topic msg t r : pr <> V500 -> bit flags 0 = false ->
  ka < 65536 -> len cid <= 65535 -> utf8_valid cid = true ->
  bit flags 2 = true -> (flags / 8) mod 4 = 3 ->
  len topic <= 65535 -> utf8_valid topic = true -> len msg <= 65535 ->
  connect_decode_with_protocol pr t
    (flags :: be16 ka ++ be16 (len cid mod 65536) ++ cid
           ++ be16 (len topic mod 65536) ++ topic ++ be16 (len msg mod 65536) ++ msg ++ r)
  = RErr (InvalidQos 3).
Proof.
  intros Hp Hb Hka Hl Hv Hw Hq Hlt Hvt Hlm. rewrite connect3_prefix by assumption. unfold connect3_after.
  rewrite Hw, Hq.
  ok_by ltac:(apply read_string_lp; assumption).
  ok_by ltac:(apply read_bytes_lp; assumption).
  reflexivity.
Qed.

(* layer 1: wildcard / NUL in the will topic — found after the will message and the will QoS *)
Theorem C20_connect_will_topic_3 pr flags ka cid topic msg t r : pr <> V500 -> bit flags 0 = false ->
  ka < 65536 -> len cid <= 65535 -> utf8_valid cid = true ->
  bit flags 2 = true -> (flags / 8) mod 4 < 3 ->
  len topic <= 65535 -> utf8_valid topic = true -> len msg <= 65535 -> name_is_invalid topic = true ->
  connect_decode_with_protocol pr t
    (flags :: be16 ka ++ be16 (len cid mod 65536) ++ cid
           ++ be16 (len topic mod 65536) ++ topic ++ be16 (len msg mod 65536) ++ msg ++ r)
  = RErr (InvalidTopicName topic).
Proof.
  intros Hp Hb Hka Hl Hv Hw Hq Hlt Hvt Hlm Hn. rewrite connect3_prefix by assumption. unfold connect3_after.
  rewrite Hw.
  ok_by ltac:(apply read_string_lp; assumption).
  ok_by ltac:(apply read_bytes_lp; assumption).
  unfold qos_of_u8. destruct (N.ltb_spec ((flags / 8) mod 4) 3) as [_|Hge]; [|lia].
  cbn [lift_outcome]. rewrite ?bind_assoc, bind_ret.
  rewrite (name_try_err topic Hn). reflexivity.
Qed.

(* layer 1: non-UTF-8 client identifier / will topic *)
Theorem C20_connect_client_id_not_utf8_3 pr flags ka cid t r : pr <> V500 -> bit flags 0 = false ->
  ka < 65536 -> len cid <= 65535 -> utf8_valid cid = false ->
  connect_decode_with_protocol pr t (flags :: be16 ka ++ be16 (len cid mod 65536) ++ cid ++ r)
  = RErr InvalidString.
Proof.
  intros Hp Hb Hka Hl Hv. unfold connect_decode_with_protocol. rewrite (level_ok_3 pr Hp).
  erewrite bind_ok by apply read_u8_cons. rewrite Hb.
  erewrite bind_ok by (apply read_u16_be16; exact Hka).
  erewrite bind_err by (apply read_string_invalid_lp; assumption). reflexivity.
Qed.

Theorem C20_connect_will_topic_not_utf8_3 pr flags ka cid topic t r : pr <> V500 -> bit flags 0 = false ->
  ka < 65536 -> len cid <= 65535 -> utf8_valid cid = true ->
  bit flags 2 = true -> len topic <= 65535 -> utf8_valid topic = false ->
  connect_decode_with_protocol pr t
    (flags :: be16 ka ++ be16 (len cid mod 65536) ++ cid ++ be16 (len topic mod 65536) ++ topic ++ r)
  = RErr InvalidString.
Proof.
  intros Hp Hb Hka Hl Hv Hw Hlt Hvt. rewrite connect3_prefix by assumption. unfold connect3_after.
  rewrite Hw. err_by ltac:(apply read_string_invalid_lp; assumption).
Qed.

(* -- whole frames -- *)
Lemma connect_header n : header_new_with 16 n = Ok (mk_header PConnect n).
Proof. reflexivity. Qed.

(* a CONNECT frame: header, a protocol name/level the family accepts, then `d` *)
Lemma connect_frame3 prof n pr d t : n < VMAX ->
  F3.dec_async prof t (16 :: write_var_int n ++ concat (protocol_enc pr) ++ d)
  = (c <- connect_decode_with_protocol pr ;; ret (Connect c)) t d.
Proof.
  intros Hn. rewrite (frame3 prof 16 n _ t _ Hn (connect_header n)). unfold body_decode_async.
  cbn [h_typ mk_header]. unfold connect_decode.
  ok_by ltac:(apply protocol_rt). reflexivity.
Qed.

Lemma connect_frame3_err prof n pr d t e : n < VMAX ->
  connect_decode_with_protocol pr t d = RErr e ->
  F3.dec_async prof t (16 :: write_var_int n ++ concat (protocol_enc pr) ++ d) = RErr e.
Proof. intros Hn He. rewrite connect_frame3 by exact Hn. apply bind_err. exact He. Qed.

Theorem C20_connect_reserved_flag_3_frame prof n pr flags : n < VMAX -> pr <> V500 -> bit flags 0 = true ->
  forall t rest, F3.dec_async prof t (16 :: write_var_int n ++ concat (protocol_enc pr) ++ flags :: rest)
                 = RErr (InvalidConnectFlags flags).
Proof. intros Hn Hp Hb t rest. apply connect_frame3_err; [exact Hn|]. apply C20_connect_reserved_flag_3; assumption. Qed.

Theorem C20_connect_will_qos_without_will_3_frame prof n pr flags ka cid : n < VMAX -> pr <> V500 ->
  bit flags 0 = false -> ka < 65536 -> len cid <= 65535 -> utf8_valid cid = true ->
  bit flags 2 = false -> (flags / 8) mod 4 <> 0 ->
  forall t rest, F3.dec_async prof t (16 :: write_var_int n ++ concat (protocol_enc pr)
                                         ++ flags :: be16 ka ++ be16 (len cid mod 65536) ++ cid ++ rest)
                 = RErr (InvalidConnectFlags flags).
Proof.
  intros Hn Hp Hb Hka Hl Hv Hw Hq t rest. apply connect_frame3_err; [exact Hn|].
  apply C20_connect_will_qos_without_will_3; assumption.
Qed.

Theorem C20_connect_protocol_3_frame prof n name lvl : n < VMAX -> len name <= 65535 ->
  ~ protocol_known name lvl -> utf8_valid name = true ->
  forall t rest, F3.dec_async prof t (16 :: write_var_int n ++ be16 (len name) ++ name ++ lvl :: rest)
                 = RErr (InvalidProtocol name lvl).
Proof.
  intros Hn Hl Hk Hv t rest. rewrite (frame3 prof 16 n _ t _ Hn (connect_header n)). unfold body_decode_async.
  cbn [h_typ mk_header]. unfold connect_decode.
  err_by ltac:(apply C20_protocol_decode; assumption).
Qed.

Theorem C20_connect_protocol_not_utf8_3_frame prof n name lvl : n < VMAX -> len name <= 65535 ->
  ~ protocol_known name lvl -> utf8_valid name = false ->
  forall t rest, F3.dec_async prof t (16 :: write_var_int n ++ be16 (len name) ++ name ++ lvl :: rest)
                 = RErr InvalidString.
Proof.
  intros Hn Hl Hk Hv t rest. rewrite (frame3 prof 16 n _ t _ Hn (connect_header n)). unfold body_decode_async.
  cbn [h_typ mk_header]. unfold connect_decode.
  err_by ltac:(apply C20_protocol_decode_not_utf8; assumption).
Qed.

(* MQTT 5 name/level on a v3 decoder *)
Theorem C20_connect_other_family_3_frame prof n : n < VMAX ->
  forall t rest, F3.dec_async prof t (16 :: write_var_int n ++ concat (protocol_enc V500) ++ rest)
                 = RErr (UnexpectedProtocol V500).
Proof. intros Hn t rest. apply connect_frame3_err; [exact Hn|]. apply C20_unexpected_protocol_3. Qed.

(* the same rows on the three front-ends: the declared length is the length of the body *)
Theorem C20_connect_reserved_flag_3_all prof pr flags x : pr <> V500 -> bit flags 0 = true ->
  let body := concat (protocol_enc pr) ++ flags :: x in
  len body < VMAX -> classified3 prof (16 :: write_var_int (len body) ++ body) (InvalidConnectFlags flags).
Proof.
  intros Hp Hb body Hn. apply classify3; [exact Hn|reflexivity|]. intros t sfx.
  unfold body. rewrite <- !app_assoc. cbn [app]. apply C20_connect_reserved_flag_3_frame; assumption.
Qed.

Theorem C20_connect_will_qos_without_will_3_all prof pr flags ka cid x : pr <> V500 ->
  bit flags 0 = false -> ka < 65536 -> len cid <= 65535 -> utf8_valid cid = true ->
  bit flags 2 = false -> (flags / 8) mod 4 <> 0 ->
  let body := concat (protocol_enc pr) ++ flags :: be16 ka ++ be16 (len cid mod 65536) ++ cid ++ x in
  len body < VMAX -> classified3 prof (16 :: write_var_int (len body) ++ body) (InvalidConnectFlags flags).
Proof.
  intros Hp Hb Hka Hl Hv Hw Hq body Hn. apply classify3; [exact Hn|reflexivity|]. intros t sfx.
  unfold body. rewrite <- !app_assoc. cbn [app]. rewrite <- !app_assoc.
  apply C20_connect_will_qos_without_will_3_frame; assumption.
Qed.

Theorem C20_connect_protocol_3_all prof name lvl x : len name <= 65535 ->
  ~ protocol_known name lvl -> utf8_valid name = true ->
  let body := be16 (len name) ++ name ++ lvl :: x in
  len body < VMAX -> classified3 prof (16 :: write_var_int (len body) ++ body) (InvalidProtocol name lvl).
Proof.
  intros Hl Hk Hv body Hn. apply classify3; [exact Hn|reflexivity|]. intros t sfx.
  unfold body. rewrite <- !app_assoc. cbn [app]. apply C20_connect_protocol_3_frame; assumption.
Qed.

Theorem C20_connect_other_family_3_all prof x :
  let body := concat (protocol_enc V500) ++ x in
  len body < VMAX -> classified3 prof (16 :: write_var_int (len body) ++ body) (UnexpectedProtocol V500).
Proof.
  intros body Hn. apply classify3; [exact Hn|reflexivity|]. intros t sfx.
  unfold body. rewrite <- !app_assoc. apply C20_connect_other_family_3_frame; assumption.
Qed.

Theorem C20_connect_client_id_not_utf8_3_frame prof n pr flags ka cid : n < VMAX -> pr <> V500 ->
  bit flags 0 = false -> ka < 65536 -> len cid <= 65535 -> utf8_valid cid = false ->
  forall t rest, F3.dec_async prof t (16 :: write_var_int n ++ concat (protocol_enc pr)
                                         ++ flags :: be16 ka ++ be16 (len cid mod 65536) ++ cid ++ rest)
                 = RErr InvalidString.
Proof.
  intros Hn Hp Hb Hka Hl Hv t rest. apply connect_frame3_err; [exact Hn|].
  apply C20_connect_client_id_not_utf8_3; assumption.
Qed.

Theorem C20_connect_will_topic_3_frame prof n pr flags ka cid topic msg : n < VMAX -> pr <> V500 ->
  bit flags 0 = false -> ka < 65536 -> len cid <= 65535 -> utf8_valid cid = true ->
  bit flags 2 = true -> (flags / 8) mod 4 < 3 ->
  len topic <= 65535 -> utf8_valid topic = true -> len msg <= 65535 -> name_is_invalid topic = true ->
  forall t rest, F3.dec_async prof t (16 :: write_var_int n ++ concat (protocol_enc pr)
       ++ flags :: be16 ka ++ be16 (len cid mod 65536) ++ cid
       ++ be16 (len topic mod 65536) ++ topic ++ be16 (len msg mod 65536) ++ msg ++ rest)
     = RErr (InvalidTopicName topic).
Proof.
  intros Hn Hp Hb Hka Hl Hv Hw Hq Hlt Hvt Hlm Hi t rest. apply connect_frame3_err; [exact Hn|].
  apply C20_connect_will_topic_3; assumption.
Qed.

Theorem C20_connect_will_qos3_3_frame prof n pr flags ka cid topic msg : n < VMAX -> pr <> V500 ->
  bit flags 0 = false -> ka < 65536 -> len cid <= 65535 -> utf8_valid cid = true ->
  bit flags 2 = true -> (flags / 8) mod 4 = 3 ->
  len topic <= 65535 -> utf8_valid topic = true -> len msg <= 65535 ->
  forall t rest, F3.dec_async prof t (16 :: write_var_int n ++ concat (protocol_enc pr)
       ++ flags :: be16 ka ++ be16 (len cid mod 65536) ++ cid
       ++ be16 (len topic mod 65536) ++ topic ++ be16 (len msg mod 65536) ++ msg ++ rest)
     = RErr (InvalidQos 3).
Proof.
  intros Hn Hp Hb Hka Hl Hv Hw Hq Hlt Hvt Hlm t rest. apply connect_frame3_err; [exact Hn|].
  apply C20_connect_will_qos3_3; assumption.
Qed.

Theorem C20_connect_client_id_not_utf8_3_all prof pr flags ka cid x : pr <> V500 ->
  bit flags 0 = false -> ka < 65536 -> len cid <= 65535 -> utf8_valid cid = false ->
  let body := concat (protocol_enc pr) ++ flags :: be16 ka ++ be16 (len cid mod 65536) ++ cid ++ x in
  len body < VMAX -> classified3 prof (16 :: write_var_int (len body) ++ body) InvalidString.
Proof.
  intros Hp Hb Hka Hl Hv body Hn. apply classify3; [exact Hn|reflexivity|]. intros t sfx.
  unfold body. rewrite <- !app_assoc. cbn [app]. rewrite <- !app_assoc.
  apply C20_connect_client_id_not_utf8_3_frame; assumption.
Qed.

Theorem C20_connect_will_topic_3_all prof pr flags ka cid topic msg x : pr <> V500 ->
  bit flags 0 = false -> ka < 65536 -> len cid <= 65535 -> utf8_valid cid = true ->
  bit flags 2 = true -> (flags / 8) mod 4 < 3 ->
  len topic <= 65535 -> utf8_valid topic = true -> len msg <= 65535 -> name_is_invalid topic = true ->
  let body := concat (protocol_enc pr) ++ flags :: be16 ka ++ be16 (len cid mod 65536) ++ cid
              ++ be16 (len topic mod 65536) ++ topic ++ be16 (len msg mod 65536) ++ msg ++ x in
  len body < VMAX -> classified3 prof (16 :: write_var_int (len body) ++ body) (InvalidTopicName topic).
Proof.
  intros Hp Hb Hka Hl Hv Hw Hq Hlt Hvt Hlm Hi body Hn. apply classify3; [exact Hn|reflexivity|]. intros t sfx.
  unfold body. rewrite <- !app_assoc. cbn [app]. rewrite <- !app_assoc.
  apply C20_connect_will_topic_3_frame; assumption.
Qed.

Theorem C20_connect_will_qos3_3_all prof pr flags ka cid topic msg x : pr <> V500 ->
  bit flags 0 = false -> ka < 65536 -> len cid <= 65535 -> utf8_valid cid = true ->
  bit flags 2 = true -> (flags / 8) mod 4 = 3 ->
  len topic <= 65535 -> utf8_valid topic = true -> len msg <= 65535 ->
  let body := concat (protocol_enc pr) ++ flags :: be16 ka ++ be16 (len cid mod 65536) ++ cid
              ++ be16 (len topic mod 65536) ++ topic ++ be16 (len msg mod 65536) ++ msg ++ x in
  len body < VMAX -> classified3 prof (16 :: write_var_int (len body) ++ body) (InvalidQos 3).
Proof.
  intros Hp Hb Hka Hl Hv Hw Hq Hlt Hvt Hlm body Hn. apply classify3; [exact Hn|reflexivity|]. intros t sfx.
  unfold body. rewrite <- !app_assoc. cbn [app]. rewrite <- !app_assoc.
  apply C20_connect_will_qos3_3_frame; assumption.
Qed.

(* ------------------------------------------------------------------------------------ *)
(* (e) SUBSCRIBE / UNSUBSCRIBE: the k-th topic after k valid ones; the empty list       *)
(* ------------------------------------------------------------------------------------ *)
Definition topic_ok3 (x : tfilter * N) : bool := let '(f, q) := x in filter_ok f && (q <? 3).

Lemma topics_ok3_eq l : forallb (fun '(f, q) => filter_ok f && (q <? 3)) l = forallb topic_ok3 l.
Proof. induction l as [|[f q] l IH]; [reflexivity|]. cbn [forallb topic_ok3]. rewrite IH. reflexivity. Qed.

(* one valid (filter, QoS) pair *)
Lemma subscribe_loop_step prof f rl acc tf q t d : filter_ok tf = true -> q < 3 -> 3 + len (ftext tf) <= rl ->
  subscribe_loop prof (S f) rl acc t (concat (sub_item (tf, q)) ++ d)
  = subscribe_loop prof f (rl - (3 + len (ftext tf))) ((tf, q) :: acc) t d.
Proof.
  intros Hf Hq Hl. cbn [subscribe_loop]. destruct (N.eqb_spec rl 0) as [E|_]; [lia|].
  rewrite concat_sub_item, <- !app_assoc. cbn [app].
  ok_by ltac:(apply (filter_read_rt filter_profile_indep); exact Hf).
  ok_by ltac:(apply read_u8_cons).
  unfold qos_of_u8. destruct (N.ltb_spec q 3) as [_|Hge]; [|lia]. cbn [lift_outcome]. rewrite bind_ret.
  ok_by ltac:(apply checked_sub_ok; lia). reflexivity.
Qed.

(* k valid pairs are consumed; the loop is then at the (k+1)-th position with some accumulator *)
Lemma subscribe_loop_skip prof t d : forall topics fuel rl acc,
  forallb topic_ok3 topics = true -> clen (flat_map sub_item topics) <= rl -> (length topics <= fuel)%nat ->
  exists acc', subscribe_loop prof fuel rl acc t (concat (flat_map sub_item topics) ++ d)
               = subscribe_loop prof (fuel - length topics) (rl - clen (flat_map sub_item topics)) acc' t d.
Proof.
  induction topics as [|[tf q] topics IH]; intros fuel rl acc Hok Hl Hf.
  - exists acc. cbn [flat_map concat app length]. rewrite clen_nil, N.sub_0_r, Nat.sub_0_r. reflexivity.
  - cbn [forallb topic_ok3] in Hok. apply andb_true_iff in Hok as [Hx Hok]. apply andb_true_iff in Hx as [Hfo Hq].
    apply N.ltb_lt in Hq.
    cbn [flat_map] in *. rewrite clen_app, clen_sub_item in *. rewrite concat_app, <- app_assoc.
    destruct fuel as [|f]; [cbn [length] in Hf; lia|].
    rewrite subscribe_loop_step by (try assumption; lia).
    destruct (IH f (rl - (3 + len (ftext tf))) ((tf, q) :: acc) Hok) as [acc' E]; [lia|cbn [length] in Hf; lia|].
    exists acc'. rewrite E. cbn [length Nat.sub]. f_equal. lia.
Qed.

(* a (k+1)-th item whose filter cannot be read *)
Lemma subscribe_loop_bad_filter prof f rl acc t d e : rl <> 0 -> filter_read prof t d = RErr e ->
  subscribe_loop prof (S f) rl acc t d = RErr e.
Proof.
  intros Hrl He. cbn [subscribe_loop]. destruct (N.eqb_spec rl 0) as [E|_]; [contradiction|].
  apply bind_err. exact He.
Qed.

(* a (k+1)-th item with a requested QoS above 2 *)
Lemma subscribe_loop_bad_qos prof f rl acc tf q t r : rl <> 0 -> filter_ok tf = true -> 3 <= q ->
  subscribe_loop prof (S f) rl acc t (be16 (len (ftext tf) mod 65536) ++ ftext tf ++ q :: r) = RErr (InvalidQos q).
Proof.
  intros Hrl Hf Hq. cbn [subscribe_loop]. destruct (N.eqb_spec rl 0) as [E|_]; [contradiction|].
  ok_by ltac:(apply (filter_read_rt filter_profile_indep); exact Hf).
  ok_by ltac:(apply read_u8_cons).
  rewrite (C20_qos_of_u8 q Hq). reflexivity.
Qed.

Lemma subscribe_header n : header_new_with 130 n = Ok (mk_header PSubscribe n).
Proof. reflexivity. Qed.
Lemma unsubscribe_header n : header_new_with 162 n = Ok (mk_header PUnsubscribe n).
Proof. reflexivity. Qed.

(* SUBSCRIBE frame: header, packet identifier, k valid pairs, then `d`, on which the loop fails *)
Lemma subscribe_frame_kth prof n pid topics d e t : n < VMAX -> pid_ok pid = true ->
  forallb topic_ok3 topics = true -> 2 + clen (flat_map sub_item topics) < n ->
  (forall f rl acc, rl <> 0 -> subscribe_loop prof (S f) rl acc t d = RErr e) ->
  F3.dec_async prof t (130 :: write_var_int n ++ be16 pid ++ concat (flat_map sub_item topics) ++ d) = RErr e.
Proof.
  intros Hn Hp Hok Hl Hbad. rewrite (frame3 prof 130 n _ t _ Hn (subscribe_header n)). unfold body_decode_async.
  cbn [h_typ h_rl mk_header]. unfold subscribe_decode.
  ok_by ltac:(apply pid_read_be16; exact Hp).
  ok_by ltac:(apply checked_sub_ok; lia).
  destruct (N.eqb_spec (n - 2) 0) as [E|_]; [lia|].
  apply bind_err. cbv beta. apply bind_err.
  destruct (subscribe_loop_skip prof t d topics (S (length (concat (flat_map sub_item topics) ++ d))) (n - 2) [] Hok)
    as [acc' E]; [lia| |].
  { rewrite app_length. pose proof (length_sub_items topics). lia. }
  rewrite E.
  assert (Hfu : exists f, (S (length (concat (flat_map sub_item topics) ++ d)) - length topics)%nat = S f).
  { rewrite app_length. pose proof (length_sub_items topics).
    exists (length (concat (flat_map sub_item topics)) + length d - length topics)%nat. lia. }
  destruct Hfu as [f ->]. apply Hbad. lia.
Qed.

Theorem C20_subscribe_qos_3 prof n pid topics tf q : n < VMAX -> pid_ok pid = true ->
  forallb topic_ok3 topics = true -> 2 + clen (flat_map sub_item topics) < n ->
  filter_ok tf = true -> 3 <= q ->
  forall t rest, F3.dec_async prof t (130 :: write_var_int n ++ be16 pid ++ concat (flat_map sub_item topics)
                    ++ be16 (len (ftext tf) mod 65536) ++ ftext tf ++ q :: rest) = RErr (InvalidQos q).
Proof.
  intros Hn Hp Hok Hl Hf Hq t rest. apply subscribe_frame_kth; try assumption.
  intros f rl acc Hrl. apply subscribe_loop_bad_qos; assumption.
Qed.

Theorem C20_subscribe_filter_3 prof n pid topics s : n < VMAX -> pid_ok pid = true ->
  forallb topic_ok3 topics = true -> 2 + clen (flat_map sub_item topics) < n ->
  len s <= 65535 -> utf8_valid s = true -> Spec.topic_filter_ok s = false ->
  forall t rest, F3.dec_async prof t (130 :: write_var_int n ++ be16 pid ++ concat (flat_map sub_item topics)
                    ++ be16 (len s mod 65536) ++ s ++ rest) = RErr (InvalidTopicFilter s).
Proof.
  intros Hn Hp Hok Hl Hs Hv Hf t rest. apply subscribe_frame_kth; try assumption.
  intros f rl acc Hrl. apply subscribe_loop_bad_filter; [exact Hrl|]. apply C20_filter_read; assumption.
Qed.

Theorem C20_subscribe_filter_not_utf8_3 prof n pid topics s : n < VMAX -> pid_ok pid = true ->
  forallb topic_ok3 topics = true -> 2 + clen (flat_map sub_item topics) < n ->
  len s <= 65535 -> utf8_valid s = false ->
  forall t rest, F3.dec_async prof t (130 :: write_var_int n ++ be16 pid ++ concat (flat_map sub_item topics)
                    ++ be16 (len s mod 65536) ++ s ++ rest) = RErr InvalidString.
Proof.
  intros Hn Hp Hok Hl Hs Hv t rest. apply subscribe_frame_kth; try assumption.
  intros f rl acc Hrl. apply subscribe_loop_bad_filter; [exact Hrl|].
  unfold filter_read. apply bind_err. apply read_string_invalid_lp; assumption.
Qed.

Theorem C20_subscribe_empty_3 prof pid : pid_ok pid = true ->
  forall t rest, F3.dec_async prof t (130 :: write_var_int 2 ++ be16 pid ++ rest) = RErr EmptySubscription.
Proof.
  intros Hp t rest. rewrite (frame3 prof 130 2 _ t _ eq_refl (subscribe_header 2)). unfold body_decode_async.
  cbn [h_typ h_rl mk_header]. unfold subscribe_decode.
  ok_by ltac:(apply pid_read_be16; exact Hp).
  ok_by ltac:(apply checked_sub_ok; lia). reflexivity.
Qed.

(* -- UNSUBSCRIBE -- *)
Lemma unsubscribe_loop_step prof f rl acc tf t d : filter_ok tf = true -> 2 + len (ftext tf) <= rl ->
  unsubscribe_loop prof (S f) rl acc t (concat (unsub_item tf) ++ d)
  = unsubscribe_loop prof f (rl - (2 + len (ftext tf))) (tf :: acc) t d.
Proof.
  intros Hf Hl. cbn [unsubscribe_loop]. destruct (N.eqb_spec rl 0) as [E|_]; [lia|].
  rewrite concat_unsub_item, <- !app_assoc.
  ok_by ltac:(apply (filter_read_rt filter_profile_indep); exact Hf).
  ok_by ltac:(apply checked_sub_ok; lia). reflexivity.
Qed.

Lemma unsubscribe_loop_skip prof t d : forall topics fuel rl acc,
  forallb filter_ok topics = true -> clen (flat_map unsub_item topics) <= rl -> (length topics <= fuel)%nat ->
  exists acc', unsubscribe_loop prof fuel rl acc t (concat (flat_map unsub_item topics) ++ d)
               = unsubscribe_loop prof (fuel - length topics) (rl - clen (flat_map unsub_item topics)) acc' t d.
Proof.
  induction topics as [|tf topics IH]; intros fuel rl acc Hok Hl Hf.
  - exists acc. cbn [flat_map concat app length]. rewrite clen_nil, N.sub_0_r, Nat.sub_0_r. reflexivity.
  - cbn [forallb] in Hok. apply andb_true_iff in Hok as [Hfo Hok].
    cbn [flat_map] in *. rewrite clen_app, clen_unsub_item in *. rewrite concat_app, <- app_assoc.
    destruct fuel as [|f]; [cbn [length] in Hf; lia|].
    rewrite unsubscribe_loop_step by (try assumption; lia).
    destruct (IH f (rl - (2 + len (ftext tf))) (tf :: acc) Hok) as [acc' E]; [lia|cbn [length] in Hf; lia|].
    exists acc'. rewrite E. cbn [length Nat.sub]. f_equal. lia.
Qed.

Lemma unsubscribe_loop_bad_filter prof f rl acc t d e : rl <> 0 -> filter_read prof t d = RErr e ->
  unsubscribe_loop prof (S f) rl acc t d = RErr e.
Proof.
  intros Hrl He. cbn [unsubscribe_loop]. destruct (N.eqb_spec rl 0) as [E|_]; [contradiction|].
  apply bind_err. exact He.
Qed.

Lemma unsubscribe_frame_kth prof n pid topics d e t : n < VMAX -> pid_ok pid = true ->
  forallb filter_ok topics = true -> 2 + clen (flat_map unsub_item topics) < n ->
  filter_read prof t d = RErr e ->
  F3.dec_async prof t (162 :: write_var_int n ++ be16 pid ++ concat (flat_map unsub_item topics) ++ d) = RErr e.
Proof.
  intros Hn Hp Hok Hl Hbad. rewrite (frame3 prof 162 n _ t _ Hn (unsubscribe_header n)). unfold body_decode_async.
  cbn [h_typ h_rl mk_header]. unfold unsubscribe_decode.
  ok_by ltac:(apply pid_read_be16; exact Hp).
  ok_by ltac:(apply checked_sub_ok; lia).
  destruct (N.eqb_spec (n - 2) 0) as [E|_]; [lia|].
  apply bind_err. cbv beta. apply bind_err.
  destruct (unsubscribe_loop_skip prof t d topics (S (length (concat (flat_map unsub_item topics) ++ d))) (n - 2) [] Hok)
    as [acc' E]; [lia| |].
  { rewrite app_length. pose proof (length_unsub_items topics). lia. }
  rewrite E.
  assert (Hfu : exists f, (S (length (concat (flat_map unsub_item topics) ++ d)) - length topics)%nat = S f).
  { rewrite app_length. pose proof (length_unsub_items topics).
    exists (length (concat (flat_map unsub_item topics)) + length d - length topics)%nat. lia. }
  destruct Hfu as [f ->]. apply unsubscribe_loop_bad_filter; [lia|exact Hbad].
Qed.

Theorem C20_unsubscribe_filter_3 prof n pid topics s : n < VMAX -> pid_ok pid = true ->
  forallb filter_ok topics = true -> 2 + clen (flat_map unsub_item topics) < n ->
  len s <= 65535 -> utf8_valid s = true -> Spec.topic_filter_ok s = false ->
  forall t rest, F3.dec_async prof t (162 :: write_var_int n ++ be16 pid ++ concat (flat_map unsub_item topics)
                    ++ be16 (len s mod 65536) ++ s ++ rest) = RErr (InvalidTopicFilter s).
Proof.
  intros Hn Hp Hok Hl Hs Hv Hf t rest. apply unsubscribe_frame_kth; try assumption.
  apply C20_filter_read; assumption.
Qed.

Theorem C20_unsubscribe_filter_not_utf8_3 prof n pid topics s : n < VMAX -> pid_ok pid = true ->
  forallb filter_ok topics = true -> 2 + clen (flat_map unsub_item topics) < n ->
  len s <= 65535 -> utf8_valid s = false ->
  forall t rest, F3.dec_async prof t (162 :: write_var_int n ++ be16 pid ++ concat (flat_map unsub_item topics)
                    ++ be16 (len s mod 65536) ++ s ++ rest) = RErr InvalidString.
Proof.
  intros Hn Hp Hok Hl Hs Hv t rest. apply unsubscribe_frame_kth; try assumption.
  unfold filter_read. apply bind_err. apply read_string_invalid_lp; assumption.
Qed.

Theorem C20_unsubscribe_empty_3 prof pid : pid_ok pid = true ->
  forall t rest, F3.dec_async prof t (162 :: write_var_int 2 ++ be16 pid ++ rest) = RErr EmptySubscription.
Proof.
  intros Hp t rest. rewrite (frame3 prof 162 2 _ t _ eq_refl (unsubscribe_header 2)). unfold body_decode_async.
  cbn [h_typ h_rl mk_header]. unfold unsubscribe_decode.
  ok_by ltac:(apply pid_read_be16; exact Hp).
  ok_by ltac:(apply checked_sub_ok; lia). reflexivity.
Qed.

(* -- the same rows on the three front-ends (declared length = length of the body) -- *)
Lemma len_concat_clen (cs : list bytes) : len (concat cs) = clen cs.
Proof. reflexivity. Qed.

Theorem C20_subscribe_qos_3_all prof pid topics tf q x : pid_ok pid = true ->
  forallb topic_ok3 topics = true -> filter_ok tf = true -> 3 <= q ->
  let body := be16 pid ++ concat (flat_map sub_item topics)
              ++ be16 (len (ftext tf) mod 65536) ++ ftext tf ++ q :: x in
  len body < VMAX -> classified3 prof (130 :: write_var_int (len body) ++ body) (InvalidQos q).
Proof.
  intros Hp Hok Hf Hq body Hn. apply classify3; [exact Hn|reflexivity|]. intros t sfx.
  unfold body. rewrite <- !app_assoc. cbn [app].
  apply C20_subscribe_qos_3; try assumption.
  unfold body. rewrite !len_app, len_be16, len_concat_clen, len_cons. lia.
Qed.

Theorem C20_subscribe_filter_3_all prof pid topics s x : pid_ok pid = true ->
  forallb topic_ok3 topics = true -> len s <= 65535 -> utf8_valid s = true -> Spec.topic_filter_ok s = false ->
  let body := be16 pid ++ concat (flat_map sub_item topics) ++ be16 (len s mod 65536) ++ s ++ x in
  len body < VMAX -> classified3 prof (130 :: write_var_int (len body) ++ body) (InvalidTopicFilter s).
Proof.
  intros Hp Hok Hs Hv Hf body Hn. apply classify3; [exact Hn|reflexivity|]. intros t sfx.
  unfold body. rewrite <- !app_assoc.
  apply C20_subscribe_filter_3; try assumption.
  unfold body. rewrite !len_app, !len_be16, len_concat_clen. lia.
Qed.

Theorem C20_subscribe_filter_not_utf8_3_all prof pid topics s x : pid_ok pid = true ->
  forallb topic_ok3 topics = true -> len s <= 65535 -> utf8_valid s = false ->
  let body := be16 pid ++ concat (flat_map sub_item topics) ++ be16 (len s mod 65536) ++ s ++ x in
  len body < VMAX -> classified3 prof (130 :: write_var_int (len body) ++ body) InvalidString.
Proof.
  intros Hp Hok Hs Hv body Hn. apply classify3; [exact Hn|reflexivity|]. intros t sfx.
  unfold body. rewrite <- !app_assoc.
  apply C20_subscribe_filter_not_utf8_3; try assumption.
  unfold body. rewrite !len_app, !len_be16, len_concat_clen. lia.
Qed.

Theorem C20_subscribe_empty_3_all prof pid : pid_ok pid = true ->
  classified3 prof (130 :: write_var_int 2 ++ be16 pid) EmptySubscription.
Proof.
  intros Hp. apply (classify3 prof 130 (be16 pid)); [reflexivity|reflexivity|]. intros t sfx.
  apply C20_subscribe_empty_3; exact Hp.
Qed.

Theorem C20_unsubscribe_filter_3_all prof pid topics s x : pid_ok pid = true ->
  forallb filter_ok topics = true -> len s <= 65535 -> utf8_valid s = true -> Spec.topic_filter_ok s = false ->
  let body := be16 pid ++ concat (flat_map unsub_item topics) ++ be16 (len s mod 65536) ++ s ++ x in
  len body < VMAX -> classified3 prof (162 :: write_var_int (len body) ++ body) (InvalidTopicFilter s).
Proof.
  intros Hp Hok Hs Hv Hf body Hn. apply classify3; [exact Hn|reflexivity|]. intros t sfx.
  unfold body. rewrite <- !app_assoc.
  apply C20_unsubscribe_filter_3; try assumption.
  unfold body. rewrite !len_app, !len_be16, len_concat_clen. lia.
Qed.

Theorem C20_unsubscribe_filter_not_utf8_3_all prof pid topics s x : pid_ok pid = true ->
  forallb filter_ok topics = true -> len s <= 65535 -> utf8_valid s = false ->
  let body := be16 pid ++ concat (flat_map unsub_item topics) ++ be16 (len s mod 65536) ++ s ++ x in
  len body < VMAX -> classified3 prof (162 :: write_var_int (len body) ++ body) InvalidString.
Proof.
  intros Hp Hok Hs Hv body Hn. apply classify3; [exact Hn|reflexivity|]. intros t sfx.
  unfold body. rewrite <- !app_assoc.
  apply C20_unsubscribe_filter_not_utf8_3; try assumption.
  unfold body. rewrite !len_app, !len_be16, len_concat_clen. lia.
Qed.

Theorem C20_unsubscribe_empty_3_all prof pid : pid_ok pid = true ->
  classified3 prof (162 :: write_var_int 2 ++ be16 pid) EmptySubscription.
Proof.
  intros Hp. apply (classify3 prof 162 (be16 pid)); [reflexivity|reflexivity|]. intros t sfx.
  apply C20_unsubscribe_empty_3; exact Hp.
Qed.

(* ------------------------------------------------------------------------------------ *)
(* (g) PUBLISH: non-UTF-8 topic; wildcard / NUL in the topic                            *)
(* ------------------------------------------------------------------------------------ *)
Theorem C20_publish_topic_not_utf8_3 prof cb n h s : n < VMAX -> header_new_with cb n = Ok h ->
  h_typ h = PPublish -> len s <= 65535 -> utf8_valid s = false ->
  forall t rest, F3.dec_async prof t (cb :: write_var_int n ++ be16 (len s mod 65536) ++ s ++ rest) = RErr InvalidString.
Proof.
  intros Hn Hh Ht Hl Hv t rest. rewrite (frame3 prof cb n h t _ Hn Hh). unfold body_decode_async.
  rewrite Ht. unfold publish_decode. err_by ltac:(apply read_string_invalid_lp; assumption).
Qed.

(* every PUBLISH control byte the header accepts *)
Lemma publish_header cb n : cb / 16 = 3 -> (cb mod 16 / 2) mod 4 <> 3 ->
  exists h, header_new_with cb n = Ok h /\ h_typ h = PPublish /\ h_qos h = (cb mod 16 / 2) mod 4.
Proof.
  intros Hi Hq. rewrite header3_spec, Hi. unfold header3_table, header3_verdict, header_verdict.
  cbn [ptype_of_nibble3 ptype_of_nibble5].
  destruct (N.eqb_spec ((cb mod 16 / 2) mod 4) 3) as [E|_]; [contradiction|].
  eexists. split; [reflexivity|]. split; reflexivity.
Qed.

Theorem C20_publish_topic_not_utf8_3_all prof cb s x : cb / 16 = 3 -> (cb mod 16 / 2) mod 4 <> 3 ->
  len s <= 65535 -> utf8_valid s = false ->
  let body := be16 (len s mod 65536) ++ s ++ x in
  len body < VMAX -> classified3 prof (cb :: write_var_int (len body) ++ body) InvalidString.
Proof.
  intros Hi Hq Hl Hv body Hn. destruct (publish_header cb (len body) Hi Hq) as (h & Hh & Ht & _).
  apply classify3; [exact Hn|reflexivity|]. intros t sfx. unfold body. rewrite <- !app_assoc.
  apply (C20_publish_topic_not_utf8_3 prof cb _ h s Hn Hh Ht Hl Hv).
Qed.

(* The topic name is validated LAST (after the packet identifier and the payload have been read):
   the frame must be complete up to the end of the payload for InvalidTopicName to come out. *)
Theorem C20_publish_topic_3 prof cb n h topic qp payload : n < VMAX -> header_new_with cb n = Ok h ->
  h_typ h = PPublish -> h_qos h = qospid_qos qp -> qospid_ok qp = true ->
  len topic <= 65535 -> utf8_valid topic = true -> name_is_invalid topic = true ->
  n = 2 + len topic + qospid_len qp + len payload ->
  forall t rest, F3.dec_async prof t (cb :: write_var_int n ++ be16 (len topic mod 65536) ++ topic
                                         ++ concat (qospid_enc qp) ++ payload ++ rest)
                 = RErr (InvalidTopicName topic).
Proof.
  intros Hn Hh Ht Hq Hqp Hl Hv Hi Hlen t rest. rewrite (frame3 prof cb n h t _ Hn Hh). unfold body_decode_async.
  rewrite Ht. unfold publish_decode. rewrite (PollSched.V3_new_with_rl _ _ _ Hh), Hq.
  ok_by ltac:(apply read_string_lp; assumption).
  ok_by ltac:(apply checked_sub_ok; lia).
  assert (Hfin : forall (q : qospid) (rl : N) (d : bytes), rl = len payload -> d = payload ++ rest ->
    (payload0 <- (if 0 <? rl then read_exact rl else ret []) ;;
     topic' <- lift_outcome (name_try topic) ;;
     ret {| p_dup := h_dup h; p_retain := h_retain h; p_qospid := q; p_topic := topic'; p_payload := payload0 |}) t d
    = RErr (InvalidTopicName topic)).
  { intros q rl d -> ->. rewrite (name_try_err topic Hi).
    destruct (N.ltb_spec 0 (len payload)) as [Hp|Hp].
    - ok_by ltac:(apply read_exact_app; reflexivity). reflexivity.
    - rewrite bind_ret. reflexivity. }
  destruct qp as [|pid|pid]; cbn [qospid_qos qospid_enc qospid_len qospid_ok concat app] in *.
  - change (0 =? 0) with true. cbv iota. rewrite ?bind_assoc, bind_ret.
    assert (E : (p <- (let '(qp, rl) := (QP0, n - (2 + len topic)) in
                 payload0 <- (if 0 <? rl then read_exact rl else ret []) ;;
                 topic' <- lift_outcome (name_try topic) ;;
                 ret {| p_dup := h_dup h; p_retain := h_retain h; p_qospid := qp; p_topic := topic'; p_payload := payload0 |}) ;;
                 ret (Publish p)) t (payload ++ rest) = RErr (InvalidTopicName topic)).
    { cbv beta iota. apply bind_err. apply Hfin; [lia|reflexivity]. }
    exact E.
  - change (1 =? 0) with false. change (1 =? 1) with true. cbv iota.
    ok_by ltac:(apply checked_sub_ok; lia).
    rewrite app_nil_r. ok_by ltac:(apply pid_read_be16; exact Hqp).
    rewrite bind_ret. cbv beta iota. apply bind_err. apply Hfin; [lia|reflexivity].
  - change (2 =? 0) with false. change (2 =? 1) with false. cbv iota.
    ok_by ltac:(apply checked_sub_ok; lia).
    rewrite app_nil_r. ok_by ltac:(apply pid_read_be16; exact Hqp).
    rewrite bind_ret. cbv beta iota. apply bind_err. apply Hfin; [lia|reflexivity].
Qed.

Theorem C20_publish_topic_3_all prof cb topic qp payload :
  cb / 16 = 3 -> (cb mod 16 / 2) mod 4 = qospid_qos qp -> qospid_ok qp = true ->
  len topic <= 65535 -> utf8_valid topic = true -> name_is_invalid topic = true ->
  let body := be16 (len topic mod 65536) ++ topic ++ concat (qospid_enc qp) ++ payload in
  len body < VMAX -> classified3 prof (cb :: write_var_int (len body) ++ body) (InvalidTopicName topic).
Proof.
  intros Hi Hq Hqp Hl Hv Hn body Hb.
  assert (Hq3 : (cb mod 16 / 2) mod 4 <> 3) by (rewrite Hq; destruct qp; cbn [qospid_qos]; lia).
  destruct (publish_header cb (len body) Hi Hq3) as (h & Hh & Ht & Hqh).
  apply classify3; [exact Hb|reflexivity|]. intros t sfx. unfold body. rewrite <- !app_assoc.
  apply (C20_publish_topic_3 prof cb _ h topic qp payload Hb Hh Ht); try assumption; [congruence|].
  unfold body. rewrite !len_app, len_be16.
  destruct qp; cbn [qospid_enc qospid_len concat app]; rewrite ?app_nil_r, ?len_be16, ?len_nil; lia.
Qed.

(* ------------------------------------------------------------------------------------ *)
(* Remaining length too small for the mandatory fields (layer 1, decoder level)         *)
(* ------------------------------------------------------------------------------------ *)
Theorem C20_publish_short_topic_3 h topic t r : len topic <= 65535 -> utf8_valid topic = true ->
  h_rl h < 2 + len topic ->
  publish_decode h t (be16 (len topic mod 65536) ++ topic ++ r) = RErr InvalidRemainingLength.
Proof.
  intros Hl Hv Hrl. unfold publish_decode. ok_by ltac:(apply read_string_lp; assumption).
  err_by ltac:(apply C20_checked_sub; exact Hrl).
Qed.

Theorem C20_publish_short_pid_3 h topic t r : len topic <= 65535 -> utf8_valid topic = true ->
  h_qos h <> 0 -> 2 + len topic <= h_rl h < 2 + len topic + 2 ->
  publish_decode h t (be16 (len topic mod 65536) ++ topic ++ r) = RErr InvalidRemainingLength.
Proof.
  intros Hl Hv Hq Hrl. unfold publish_decode. ok_by ltac:(apply read_string_lp; assumption).
  ok_by ltac:(apply checked_sub_ok; lia).
  destruct (N.eqb_spec (h_qos h) 0) as [E|_]; [contradiction|].
  destruct (h_qos h =? 1); err_by ltac:(apply C20_checked_sub; lia).
Qed.

Theorem C20_subscribe_short_3 prof rl0 pid t r : pid_ok pid = true -> rl0 < 2 ->
  subscribe_decode prof rl0 t (be16 pid ++ r) = RErr InvalidRemainingLength.
Proof.
  intros Hp Hrl. unfold subscribe_decode. ok_by ltac:(apply pid_read_be16; exact Hp).
  err_by ltac:(apply C20_checked_sub; exact Hrl).
Qed.

Theorem C20_unsubscribe_short_3 prof rl0 pid t r : pid_ok pid = true -> rl0 < 2 ->
  unsubscribe_decode prof rl0 t (be16 pid ++ r) = RErr InvalidRemainingLength.
Proof.
  intros Hp Hrl. unfold unsubscribe_decode. ok_by ltac:(apply pid_read_be16; exact Hp).
  err_by ltac:(apply C20_checked_sub; exact Hrl).
Qed.

Theorem C20_suback_short_3 rl0 pid t r : pid_ok pid = true -> rl0 < 2 ->
  suback_decode rl0 t (be16 pid ++ r) = RErr InvalidRemainingLength.
Proof.
  intros Hp Hrl. unfold suback_decode. ok_by ltac:(apply pid_read_be16; exact Hp).
  err_by ltac:(apply C20_checked_sub; exact Hrl).
Qed.

(* a topic entry that does not fit into what is left of the remaining length *)
Theorem C20_subscribe_item_overrun_3 prof f rl acc tf q t r : rl <> 0 -> filter_ok tf = true -> q < 3 ->
  rl < 3 + len (ftext tf) ->
  subscribe_loop prof (S f) rl acc t (be16 (len (ftext tf) mod 65536) ++ ftext tf ++ q :: r)
  = RErr InvalidRemainingLength.
Proof.
  intros Hrl Hf Hq Hl. cbn [subscribe_loop]. destruct (N.eqb_spec rl 0) as [E|_]; [contradiction|].
  ok_by ltac:(apply (filter_read_rt filter_profile_indep); exact Hf).
  ok_by ltac:(apply read_u8_cons).
  unfold qos_of_u8. destruct (N.ltb_spec q 3) as [_|Hge]; [|lia]. cbn [lift_outcome]. rewrite bind_ret.
  err_by ltac:(apply C20_checked_sub; exact Hl).
Qed.

(* whole frames: the declared remaining length is 0 or 1 although a packet identifier follows *)
Theorem C20_short_remaining_length_3 prof cb n pid : In cb [130; 144; 162] -> n < 2 -> pid_ok pid = true ->
  forall t rest, F3.dec_async prof t (cb :: write_var_int n ++ be16 pid ++ rest) = RErr InvalidRemainingLength.
Proof.
  intros Hc Hn Hp t rest. assert (Hn' : n < VMAX) by (unfold VMAX; lia).
  cbn [In] in Hc. destruct Hc as [<-|[<-|[<-|[]]]].
  - rewrite (frame3 prof 130 n _ t _ Hn' (subscribe_header n)). unfold body_decode_async. cbn [h_typ h_rl mk_header].
    apply bind_err. apply C20_subscribe_short_3; assumption.
  - rewrite (frame3 prof 144 n (mk_header PSuback n) t _ Hn' eq_refl). unfold body_decode_async. cbn [h_typ h_rl mk_header].
    apply bind_err. apply C20_suback_short_3; assumption.
  - rewrite (frame3 prof 162 n _ t _ Hn' (unsubscribe_header n)). unfold body_decode_async. cbn [h_typ h_rl mk_header].
    apply bind_err. apply C20_unsubscribe_short_3; assumption.
Qed.

(* ------------------------------------------------------------------------------------ *)
(* Poll only: bytes left over / the frame ends inside the body                          *)
(* ------------------------------------------------------------------------------------ *)
Theorem C20_poll_leftover_3 prof cb body sfx h p x xs t : len body < VMAX ->
  header_new_with cb (len body) = Ok h -> build_empty_packet h = None -> body <> [] ->
  block_decode prof h TEof body = ROk p (x :: xs) ->
  rr_res _ (poll3 prof (cb :: write_var_int (len body) ++ body ++ sfx) t) = Some (Err InvalidRemainingLength).
Proof.
  intros Hn Hh Hb Hne Hd.
  destruct (PollSched.poll1_frame packet header_new_with build_empty_packet (block_decode prof) prof t cb
              (write_var_int (len body)) (len body) body sfx PollSched.V3_new_with_rl
              (PollSched.vbi_of_write _ Hn) eq_refl) as [E _].
  unfold F3.poll1. rewrite E. f_equal. unfold PollSched.frame_result. rewrite Hh, Hb.
  destruct (N.eqb_spec (len body) 0) as [Ez|_]; [reflexivity|]. cbn [fst].
  eapply C20_poll_leftover. exact Hd.
Qed.

Theorem C20_poll_eof_inside_3 prof cb body sfx h t : len body < VMAX ->
  header_new_with cb (len body) = Ok h -> build_empty_packet h = None ->
  block_decode prof h TEof body = RErr (io_err TEof) ->
  rr_res _ (poll3 prof (cb :: write_var_int (len body) ++ body ++ sfx) t) = Some (Err InvalidRemainingLength) /\
  F3.dec_block prof (cb :: write_var_int (len body) ++ body) = BNone /\
  F3.dec_async prof TEof (cb :: write_var_int (len body) ++ body) = RErr (IoError KUnexpectedEof).
Proof.
  intros Hn Hh Hb Hd.
  assert (A : F3.dec_async prof TEof (cb :: write_var_int (len body) ++ body) = RErr (IoError KUnexpectedEof)).
  { rewrite (frame3 prof cb _ h TEof body Hn Hh). rewrite (same3 prof h Hb). exact Hd. }
  split; [|split; [|exact A]].
  - destruct (PollSched.poll1_frame packet header_new_with build_empty_packet (block_decode prof) prof t cb
              (write_var_int (len body)) (len body) body sfx PollSched.V3_new_with_rl
              (PollSched.vbi_of_write _ Hn) eq_refl) as [E _].
    unfold F3.poll1. rewrite E. f_equal. unfold PollSched.frame_result. rewrite Hh, Hb.
    destruct (N.eqb_spec (len body) 0) as [Ez|_]; [reflexivity|]. cbn [fst].
    apply C20_poll_eof_inside. exact Hd.
  - unfold F3.dec_block. unfold F3.dec_async in A. rewrite A. reflexivity.
Qed.

(* a valid packet whose body decoder ignores the remaining length, declared one byte too long with
   one extra byte: the strict poll decoder refuses, the other two accept (pinned leniency) *)
Definition ignores_rl3 (p : packet) : bool :=
  match p with
  | Connect _ | Connack _ | Puback _ | Pubrec _ | Pubrel _ | Pubcomp _ | Unsuback _ => true
  | _ => false
  end.

Theorem C20_poll_extra_byte_3 prof p x sfx t : I3.valid p = true -> ignores_rl3 p = true ->
  body_len3 p + 1 < VMAX ->
  rr_res _ (poll3 prof (control_byte p :: write_var_int (body_len3 p + 1) ++ (concat (body_chunks3 p) ++ [x]) ++ sfx) t)
  = Some (Err InvalidRemainingLength) /\
  F3.dec_async prof t (control_byte p :: write_var_int (body_len3 p + 1) ++ (concat (body_chunks3 p) ++ [x]) ++ sfx)
  = ROk p ([x] ++ sfx).
Proof.
  intros Hv Hi Hn.
  assert (Hlen : len (concat (body_chunks3 p) ++ [x]) = body_len3 p + 1).
  { rewrite len_app. change (len (concat (body_chunks3 p))) with (clen (body_chunks3 p)).
    rewrite body_chunks_len. reflexivity. }
  pose proof (body_rt filter_profile_indep prof p) as RT.
  assert (Hh : exists h, header_new_with (control_byte p) (body_len3 p + 1) = Ok h /\ build_empty_packet h = None /\
               forall t d, body_decode_async prof h t d = body_decode_async prof (header_of p) t d).
  { destruct p; try discriminate Hi; eexists; (split; [reflexivity|split; reflexivity]). }
  destruct Hh as (h & Hh & Hb & Hsame). split.
  - rewrite <- Hlen in Hh, Hn |- *.
    eapply C20_poll_leftover_3; try eassumption.
    + destruct (concat (body_chunks3 p)); discriminate.
    + rewrite <- (same3 prof h Hb), Hsame. apply RT. exact Hv.
  - rewrite (frame3 prof _ _ h t _ Hn Hh), Hsame, <- app_assoc. apply RT. exact Hv.
Qed.

(* the same packets cut short: the frame announces k bytes, fewer than the body needs — an inner
   length runs past the end of the frame.  Remaining-length error for the strict poll decoder,
   "incomplete" (None) for the blocking one, the transport's EOF for the async one. *)
Theorem C20_truncated_3 prof p k sfx t : I3.valid p = true -> ignores_rl3 p = true -> body_len3 p < VMAX ->
  (k < length (concat (body_chunks3 p)))%nat ->
  let body := firstn k (concat (body_chunks3 p)) in
  rr_res _ (poll3 prof (control_byte p :: write_var_int (len body) ++ body ++ sfx) t)
    = Some (Err InvalidRemainingLength) /\
  F3.dec_block prof (control_byte p :: write_var_int (len body) ++ body) = BNone /\
  F3.dec_async prof TEof (control_byte p :: write_var_int (len body) ++ body) = RErr (IoError KUnexpectedEof).
Proof.
  intros Hv Hi Hb Hk body.
  pose proof (body_rt filter_profile_indep prof p TEof [] Hv) as RT.
  assert (Hn : len body < VMAX).
  { assert (Hle : len body <= body_len3 p); [|lia].
    unfold body. rewrite <- body_chunks_len. unfold clen, len. rewrite firstn_length. lia. }
  assert (Hh : exists h, header_new_with (control_byte p) (len body) = Ok h /\ build_empty_packet h = None /\
               forall t d, block_decode prof h t d = body_decode_async prof (header_of p) t d).
  { destruct p; try discriminate Hi; eexists; (split; [reflexivity|split; reflexivity]). }
  destruct Hh as (h & Hh & Hbe & Hsame).
  apply (C20_poll_eof_inside_3 prof _ body sfx h t Hn Hh Hbe).
  rewrite Hsame. unfold body.
  apply (ok_prefix_eof _ (stable_v3_body_decode_async prof (header_of p)) TEof _ [] p RT k Hk TEof).
Qed.

(* ------------------------------------------------------------------------------------ *)
(* Layer 1, decoder level: the empty topic list                                         *)
(* ------------------------------------------------------------------------------------ *)
Theorem C20_subscribe_decode_empty_3 prof pid t r : pid_ok pid = true ->
  subscribe_decode prof 2 t (be16 pid ++ r) = RErr EmptySubscription.
Proof.
  intros Hp. unfold subscribe_decode. ok_by ltac:(apply pid_read_be16; exact Hp).
  ok_by ltac:(apply checked_sub_ok; lia). reflexivity.
Qed.

Theorem C20_unsubscribe_decode_empty_3 prof pid t r : pid_ok pid = true ->
  unsubscribe_decode prof 2 t (be16 pid ++ r) = RErr EmptySubscription.
Proof.
  intros Hp. unfold unsubscribe_decode. ok_by ltac:(apply pid_read_be16; exact Hp).
  ok_by ltac:(apply checked_sub_ok; lia). reflexivity.
Qed.

(* ------------------------------------------------------------------------------------ *)
(* One concrete faulty frame per catalogue row, on the three front-ends                 *)
(* ------------------------------------------------------------------------------------ *)
Definition run3 (d : bytes) : res packet * bres packet * option (outcome (N * bytes * packet)) :=
  (F3.dec_async Debug TEof d, F3.dec_block Debug d, rr_res _ (F3.poll1 Debug d TEof)).
Definition all3 (e : err) : res packet * bres packet * option (outcome (N * bytes * packet)) :=
  (RErr e, BErr e, Some (Err e)).

Example ex3_header_flags : run3 [65; 2; 0; 1] = all3 InvalidHeader.                 (* PUBACK, flags 1 *)
Proof. vm_compute. reflexivity. Qed.
Example ex3_header_type0 : run3 [0; 0] = all3 InvalidHeader.
Proof. vm_compute. reflexivity. Qed.
Example ex3_header_type15 : run3 [240; 0] = all3 InvalidHeader.
Proof. vm_compute. reflexivity. Qed.
Example ex3_header_qos3 : run3 [54; 3; 0; 1; 97] = all3 (InvalidQos 3).            (* PUBLISH, QoS bits 11 *)
Proof. vm_compute. reflexivity. Qed.
Example ex3_header_pingreq_body : run3 [192; 1; 0] = all3 InvalidHeader.
Proof. vm_compute. reflexivity. Qed.
Example ex3_header_disconnect_body : run3 [224; 1; 0] = all3 InvalidHeader.
Proof. vm_compute. reflexivity. Qed.
Example ex3_header_varint : run3 [48; 128; 128; 128; 128; 0] = all3 InvalidVarByteInt.
Proof. vm_compute. reflexivity. Qed.
Example ex3_pid_zero : run3 [64; 2; 0; 0] = all3 ZeroPid.
Proof. vm_compute. reflexivity. Qed.
Example ex3_pid_zero_publish : run3 [50; 5; 0; 1; 97; 0; 0] = all3 ZeroPid.
Proof. vm_compute. reflexivity. Qed.
Example ex3_connack_flags : run3 [32; 2; 2; 0] = all3 (InvalidConnackFlags 2).
Proof. vm_compute. reflexivity. Qed.
Example ex3_connack_code : run3 [32; 2; 0; 6] = all3 (InvalidConnectReturnCode 6).
Proof. vm_compute. reflexivity. Qed.
Example ex3_suback_code : run3 [144; 4; 0; 1; 0; 3] = all3 (InvalidQos 3).
Proof. vm_compute. reflexivity. Qed.
Example ex3_connect_reserved : run3 [16; 12; 0; 4; 77; 81; 84; 84; 4; 3; 0; 10; 0; 0] = all3 (InvalidConnectFlags 3).
Proof. vm_compute. reflexivity. Qed.
Example ex3_connect_will_qos_no_will :
  run3 [16; 12; 0; 4; 77; 81; 84; 84; 4; 8; 0; 10; 0; 0] = all3 (InvalidConnectFlags 8).
Proof. vm_compute. reflexivity. Qed.
Example ex3_connect_will_qos3 :
  run3 [16; 18; 0; 4; 77; 81; 84; 84; 4; 28; 0; 10; 0; 0; 0; 1; 119; 0; 1; 109] = all3 (InvalidQos 3).
Proof. vm_compute. reflexivity. Qed.
Example ex3_connect_will_topic :
  run3 [16; 18; 0; 4; 77; 81; 84; 84; 4; 4; 0; 10; 0; 0; 0; 1; 35; 0; 1; 109] = all3 (InvalidTopicName [35]).
Proof. vm_compute. reflexivity. Qed.
Example ex3_protocol_name :
  run3 [16; 12; 0; 4; 77; 81; 84; 88; 4; 2; 0; 10; 0; 0] = all3 (InvalidProtocol [77; 81; 84; 88] 4).
Proof. vm_compute. reflexivity. Qed.
Example ex3_protocol_level :
  run3 [16; 12; 0; 4; 77; 81; 84; 84; 6; 2; 0; 10; 0; 0] = all3 (InvalidProtocol MQTT 6).
Proof. vm_compute. reflexivity. Qed.
Example ex3_protocol_name_not_utf8 :
  run3 [16; 12; 0; 4; 77; 81; 84; 255; 4; 2; 0; 10; 0; 0] = all3 InvalidString.
Proof. vm_compute. reflexivity. Qed.
Example ex3_protocol_other_family :
  run3 [16; 13; 0; 4; 77; 81; 84; 84; 5; 2; 0; 10; 0; 0; 0] = all3 (UnexpectedProtocol V500).
Proof. vm_compute. reflexivity. Qed.
Example ex3_client_id_not_utf8 :
  run3 [16; 13; 0; 4; 77; 81; 84; 84; 4; 2; 0; 10; 0; 1; 255] = all3 InvalidString.
Proof. vm_compute. reflexivity. Qed.
Example ex3_subscribe_qos : run3 [130; 6; 0; 1; 0; 1; 97; 3] = all3 (InvalidQos 3).
Proof. vm_compute. reflexivity. Qed.
Example ex3_subscribe_second_filter :
  run3 [130; 11; 0; 1; 0; 1; 97; 1; 0; 2; 97; 43; 0] = all3 (InvalidTopicFilter [97; 43]).
Proof. vm_compute. reflexivity. Qed.
Example ex3_subscribe_empty : run3 [130; 2; 0; 1] = all3 EmptySubscription.
Proof. vm_compute. reflexivity. Qed.
Example ex3_unsubscribe_filter : run3 [162; 6; 0; 1; 0; 2; 35; 97] = all3 (InvalidTopicFilter [35; 97]).
Proof. vm_compute. reflexivity. Qed.
Example ex3_unsubscribe_empty : run3 [162; 2; 0; 1] = all3 EmptySubscription.
Proof. vm_compute. reflexivity. Qed.
Example ex3_publish_topic_not_utf8 : run3 [48; 3; 0; 1; 255] = all3 InvalidString.
Proof. vm_compute. reflexivity. Qed.
Example ex3_publish_topic_wildcard : run3 [48; 4; 0; 1; 43; 7] = all3 (InvalidTopicName [43]).
Proof. vm_compute. reflexivity. Qed.
Example ex3_subscribe_short : run3 [130; 1; 0; 1] = all3 InvalidRemainingLength.
Proof. vm_compute. reflexivity. Qed.
Example ex3_publish_short : run3 [48; 2; 0; 1; 97] = all3 InvalidRemainingLength.
Proof. vm_compute. reflexivity. Qed.
(* poll only: one byte more than the body decoder uses; a length prefix running past the frame *)
Example ex3_extra_byte :
  run3 [64; 3; 0; 1; 9] = (ROk (Puback 1) [9], BOk (Puback 1), Some (Err InvalidRemainingLength)).
Proof. vm_compute. reflexivity. Qed.
Example ex3_inner_length_past_frame :
  run3 [16; 12; 0; 4; 77; 81; 84; 84; 4; 2; 0; 10; 0; 9] = (RErr (IoError KUnexpectedEof), BNone, Some (Err InvalidRemainingLength)).
Proof. vm_compute. reflexivity. Qed.

Print Assumptions async_err_to_block_3.
Print Assumptions async_err_to_poll_3.
Print Assumptions async_err_to_poll_exact_3.
Print Assumptions C20_header_verdict_3.
Print Assumptions C20_header_varint_3.
Print Assumptions C20_pid_zero_3_all.
Print Assumptions C20_pid_zero_publish_3_all.
Print Assumptions C20_connack_flags_3_all.
Print Assumptions C20_connack_code_3_all.
Print Assumptions C20_suback_code_3_all.
Print Assumptions C20_connect_reserved_flag_3_all.
Print Assumptions C20_connect_will_qos_without_will_3_all.
Print Assumptions C20_connect_will_qos3_3_all.
Print Assumptions C20_connect_will_topic_3_all.
Print Assumptions C20_connect_protocol_3_all.
Print Assumptions C20_connect_protocol_not_utf8_3_frame.
Print Assumptions C20_connect_other_family_3_all.
Print Assumptions C20_connect_client_id_not_utf8_3_all.
Print Assumptions C20_subscribe_qos_3_all.
Print Assumptions C20_subscribe_filter_3_all.
Print Assumptions C20_subscribe_filter_not_utf8_3_all.
Print Assumptions C20_subscribe_empty_3_all.
Print Assumptions C20_unsubscribe_filter_3_all.
Print Assumptions C20_unsubscribe_filter_not_utf8_3_all.
Print Assumptions C20_unsubscribe_empty_3_all.
Print Assumptions C20_publish_topic_not_utf8_3_all.
Print Assumptions C20_publish_topic_3_all.
Print Assumptions C20_short_remaining_length_3.
Print Assumptions C20_subscribe_item_overrun_3.
Print Assumptions C20_poll_leftover_3.
Print Assumptions C20_poll_eof_inside_3.
Print Assumptions C20_poll_extra_byte_3.
Print Assumptions C20_truncated_3.
