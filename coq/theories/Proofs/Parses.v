(* Proofs/Parses.v — the round-trip toolkit: what each read primitive returns on the bytes the
   corresponding write primitive emits, followed by anything.  Everything is stated in the form
        m t (encoding ++ rest) = ROk value rest
   for every tail t and every continuation rest, so that the per-packet proofs are rewriting. *)
From MQ Require Import Proofs.Tactics Proofs.VarIntLaws Model.Valid.
Open Scope N_scope.

(* ---------- lists and lengths ---------- *)
Lemma len_nil : len [] = 0.
Proof. reflexivity. Qed.
Lemma len_cons b l : len (b :: l) = 1 + len l.
Proof. unfold len. cbn [length]. lia. Qed.
Lemma len_app a b : len (a ++ b) = len a + len b.
Proof. unfold len. rewrite app_length. lia. Qed.
Lemma len_be16 n : len (be16 n) = 2.
Proof. reflexivity. Qed.
Lemma len_be32 n : len (be32 n) = 4.
Proof. reflexivity. Qed.
Lemma len_zero_nil (l : bytes) : len l = 0 -> l = [].
Proof. destruct l; [reflexivity|]. rewrite len_cons. lia. Qed.


(* total length of a chunk list *)
Definition clen (chunks : list bytes) : N := len (concat chunks).
Lemma clen_nil : clen [] = 0.
Proof. reflexivity. Qed.
Lemma clen_cons c cs : clen (c :: cs) = len c + clen cs.
Proof. unfold clen. rewrite ?concat_cons, len_app. reflexivity. Qed.
Lemma clen_app a b : clen (a ++ b) = clen a + clen b.
Proof. unfold clen. rewrite concat_app, len_app. reflexivity. Qed.

(* ---------- bind ---------- *)
Lemma bind_ok {A B} (m : reader A) (f : A -> reader B) t d a d' :
  m t d = ROk a d' -> bind m f t d = f a t d'.
Proof. unfold bind. intros ->. reflexivity. Qed.
Lemma bind_err {A B} (m : reader A) (f : A -> reader B) t d e :
  m t d = RErr e -> bind m f t d = RErr e.
Proof. unfold bind. intros ->. reflexivity. Qed.
Lemma bind_ret {A B} (a : A) (f : A -> reader B) t d : bind (ret a) f t d = f a t d.
Proof. reflexivity. Qed.

(* ---------- take / read_exact ---------- *)
Lemma take_app (a b : bytes) : take (a ++ b) (len a) = Some (a, b).
Proof.
  induction a as [|x a IH]; cbn [app].
  - destruct b; reflexivity.
  - cbn [take]. rewrite len_cons.
    destruct (N.eqb_spec (1 + len a) 0) as [E|E]; [exfalso; lia|].
    replace (N.pred (1 + len a)) with (len a) by lia. rewrite IH. reflexivity.
Qed.

Lemma take_zero d : take d 0 = Some ([], d).
Proof. destruct d; reflexivity. Qed.

Lemma take_some d n a b : take d n = Some (a, b) -> d = a ++ b /\ len a = n.
Proof.
  revert n a b. induction d as [|x d IH]; intros n a b H; cbn [take] in H.
  - destruct (N.eqb_spec n 0) as [E|E]; [|discriminate]. inversion H; subst. split; reflexivity.
  - destruct (N.eqb_spec n 0) as [E|E].
    + inversion H; subst. split; reflexivity.
    + destruct (take d (N.pred n)) as [[a' b']|] eqn:Et; [|discriminate].
      inversion H; subst. destruct (IH _ _ _ Et) as [-> Hl]. split; [reflexivity|].
      rewrite len_cons. lia.
Qed.

Lemma take_none d n : take d n = None <-> len d < n.
Proof.
  revert n. induction d as [|x d IH]; intros n; cbn [take].
  - destruct (N.eqb_spec n 0) as [E|E]; rewrite len_nil; split; intros H; try discriminate; try lia. reflexivity.
  - rewrite len_cons. destruct (N.eqb_spec n 0) as [E|E]; [split; [discriminate|lia]|].
    destruct (take d (N.pred n)) as [[a b]|] eqn:Et.
    + split; [discriminate|]. intros H. assert (Hn : len d < N.pred n) by lia.
      apply IH in Hn. congruence.
    + split; [|reflexivity]. intros _. apply IH in Et. lia.
Qed.

Lemma read_exact_app s n t rest : n = len s -> read_exact n t (s ++ rest) = ROk s rest.
Proof. intros ->. unfold read_exact. rewrite take_app. reflexivity. Qed.

(* ---------- fixed-width integers ---------- *)
Lemma read_u8_cons b t rest : read_u8 t (b :: rest) = ROk b rest.
Proof. reflexivity. Qed.
Lemma read_u8_one b t rest : read_u8 t ([b] ++ rest) = ROk b rest.
Proof. reflexivity. Qed.

Lemma read_u16_be16 n t rest : n < 65536 -> read_u16 t (be16 n ++ rest) = ROk n rest.
Proof. intros H. unfold be16. cbn [app read_u16]. f_equal. lia. Qed.

Lemma read_u32_be32 n t rest : n < 4294967296 -> read_u32 t (be32 n ++ rest) = ROk n rest.
Proof. intros H. unfold be32. cbn [app read_u32]. f_equal. lia. Qed.

(* ---------- length-prefixed binary data and strings ---------- *)
Lemma read_bytes_lp s t rest : len s <= 65535 ->
  read_bytes t (be16 (len s mod 65536) ++ s ++ rest) = ROk s rest.
Proof.
  intros H. unfold read_bytes. rewrite N.mod_small by lia.
  erewrite bind_ok by (apply read_u16_be16; lia). apply read_exact_app. reflexivity.
Qed.

Lemma read_string_lp s t rest : len s <= 65535 -> utf8_valid s = true ->
  read_string t (be16 (len s mod 65536) ++ s ++ rest) = ROk s rest.
Proof.
  intros H Hv. unfold read_string. erewrite bind_ok by (apply read_bytes_lp; assumption).
  rewrite Hv. reflexivity.
Qed.

(* ---------- variable byte integers ---------- *)
Lemma decode_var_int_write n t rest : n < 268435456 ->
  decode_var_int t (write_var_int n ++ rest) = ROk (n, width n) rest.
Proof. intros H. apply read_write. exact H. Qed.

(* the writer emits one-byte chunks: `map (fun b => [b])` then concat is the identity *)
Lemma concat_singletons (l : bytes) : concat (map (fun b => [b]) l) = l.
Proof. induction l as [|x l IH]; [reflexivity|]. cbn [map concat app]. rewrite IH. reflexivity. Qed.

(* ---------- small monadic helpers ---------- *)
Lemma checked_sub_ok a b t d : b <= a -> checked_sub a b t d = ROk (a - b) d.
Proof. intros H. unfold checked_sub. destruct (N.leb_spec b a); [reflexivity|lia]. Qed.
Lemma lift_ok {A} (a : A) t d : lift_outcome (Ok a) t d = ROk a d.
Proof. reflexivity. Qed.

(* ---------- packet identifiers ---------- *)
Lemma pid_read_be16 p t rest : pid_ok p = true -> V3.pid_read t (be16 p ++ rest) = ROk p rest.
Proof.
  unfold pid_ok, u16. intros H. apply andb_true_iff in H as [H0 H1].
  unfold V3.pid_read. erewrite bind_ok by (apply read_u16_be16; lia).
  unfold pid_try. destruct (N.eqb_spec p 0); [lia|]. reflexivity.
Qed.

(* ---------- booleans packed into bytes ---------- *)
Lemma bit_spec b k : bit b k = ((b / 2 ^ k) mod 2 =? 1).
Proof. reflexivity. Qed.

(* ---------- tactic: normalise the byte string of a goal `m t (…) = ROk …` ---------- *)
Ltac norm_bytes :=
  repeat rewrite ?concat_cons, ?concat_nil, ?concat_app, <- ?app_assoc, ?app_nil_r, ?app_nil_l.

(* one step of a monadic decoder whose next primitive has a lemma in the hint database *)
Create HintDb rt discriminated.
#[export] Hint Resolve read_u16_be16 read_u32_be32 read_bytes_lp read_string_lp decode_var_int_write
  pid_read_be16 read_exact_app read_u8_cons read_u8_one : rt.

(* decide comparisons between literals (N.eqb etc. are `simpl never`) *)
Ltac ground_tests :=
  repeat match goal with
  | |- context [?a =? ?b] => is_ground a; is_ground b;
      let v := eval vm_compute in (a =? b) in change (a =? b) with v
  | |- context [?a <? ?b] => is_ground a; is_ground b;
      let v := eval vm_compute in (a <? b) in change (a <? b) with v
  | |- context [?a <=? ?b] => is_ground a; is_ground b;
      let v := eval vm_compute in (a <=? b) in change (a <=? b) with v
  end; cbv iota.
