(* Proofs/DecParts.v — the per-part decoders that are public entry points of their own (C12):
   what LastWill::decode_async returns satisfies the will's invariants, whoever calls it. *)
From MQ Require Import Base.Prelude Base.Utf8 Base.Reader Base.VarInt Model.Types Model.Topic Model.Props Model.V5 Model.Valid.
From MQ Require Import Proofs.DecInv.
Require Import NArith.
Local Open Scope N_scope.

Lemma v5_will_decode_direct_inv qos retain t d w d' :
  qos < 3 -> bytes_okb d = true -> V5.will_decode qos retain t d = ROk w d' -> I5.will_inv w = true.
Proof.
  intros Hq Hd H.
  destruct (v5_post_will qos retain Hq t d w d' Hd H) as [[Hi _] _]. exact Hi.
Qed.

Lemma v5_will_decode_direct_rest qos retain t d w d' :
  qos < 3 -> bytes_okb d = true -> V5.will_decode qos retain t d = ROk w d' -> bytes_okb d' = true.
Proof.
  intros Hq Hd H.
  destruct (v5_post_will qos retain Hq t d w d' Hd H) as [_ Hr]. exact Hr.
Qed.
