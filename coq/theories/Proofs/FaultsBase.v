(* Proofs/FaultsBase.v — C20, layer 1: every row of the fault catalogue, at the level of the
   component that raises the error (header tables, packet identifier, QoS / code tables, flags,
   strings, topics, properties, variable byte integers, protocol, remaining-length arithmetic,
   the poll decoder's leftover / EOF mapping), and the two generic lemmas that carry a
   classification from the async front-end to the blocking and the poll front-end. *)
From MQ Require Import Spec.SpecTopic.
From MQ Require Import Proofs.Tactics Proofs.VarIntLaws Proofs.Parses Proofs.Stable Proofs.PropsRT
  Proofs.TopicFilterEq Proofs.TopicFilterAcc Proofs.TopicNameEq Model.Valid.
From MQ Require Proofs.PollSched Proofs.V3RT Proofs.V5RT.
Open Scope N_scope.

(* ------------------------------------------------------------------------------------ *)
(* 1. Fixed header: total characterisation of Header::new_with                          *)
(* ------------------------------------------------------------------------------------ *)

(* MQTT 2.2.1 / 2.2.2, written from the tables of the standard *)
Definition ptype_of_nibble5 (n : N) : option ptype :=
  match n with
  | 1 => Some PConnect | 2 => Some PConnack | 3 => Some PPublish | 4 => Some PPuback
  | 5 => Some PPubrec | 6 => Some PPubrel | 7 => Some PPubcomp | 8 => Some PSubscribe
  | 9 => Some PSuback | 10 => Some PUnsubscribe | 11 => Some PUnsuback | 12 => Some PPingreq
  | 13 => Some PPingresp | 14 => Some PDisconnect | 15 => Some PAuth
  | _ => None
  end.
Definition ptype_of_nibble3 (n : N) : option ptype :=
  match n with 15 => None | _ => ptype_of_nibble5 n end.

(* the one legal flag nibble of every type but PUBLISH *)
Definition required_flags (t : ptype) : N :=
  match t with PPubrel | PSubscribe | PUnsubscribe => 2 | _ => 0 end.
(* types whose remaining length must be 0 (after fix F5) *)
Definition must_be_empty3 (t : ptype) : bool :=
  match t with PPingreq | PPingresp | PDisconnect => true | _ => false end.
Definition must_be_empty5 (t : ptype) : bool :=
  match t with PPingreq | PPingresp => true | _ => false end.

(* verdict as a function of (type nibble, flag nibble, remaining length = 0) *)
Inductive hverdict := HAccept (t : ptype) | HReject (e : err).

Definition header_verdict (nib : N -> option ptype) (empty : ptype -> bool) (hi lo : N) (rl0 : bool) : hverdict :=
  match nib hi with
  | None => HReject InvalidHeader
  | Some PPublish => if (lo / 2) mod 4 =? 3 then HReject (InvalidQos 3) else HAccept PPublish
  | Some t => if (lo =? required_flags t) && (negb (empty t) || rl0) then HAccept t
              else HReject InvalidHeader
  end.
Definition header3_verdict := header_verdict ptype_of_nibble3 must_be_empty3.
Definition header5_verdict := header_verdict ptype_of_nibble5 must_be_empty5.

(* the header value of an accepted control byte *)
Definition header_fields (t : ptype) (lo rl : N) : header :=
  match t with
  | PPublish => {| h_typ := PPublish; h_dup := bit lo 3; h_qos := (lo / 2) mod 4; h_retain := bit lo 0; h_rl := rl |}
  | _ => V3.mk_header t rl
  end.

Definition header_table (v : hverdict) (lo rl : N) : outcome header :=
  match v with HAccept t => Ok (header_fields t lo rl) | HReject e => Err e end.

Definition header3_table (hi lo rl : N) : outcome header := header_table (header3_verdict hi lo (rl =? 0)) lo rl.
Definition header5_table (hi lo rl : N) : outcome header := header_table (header5_verdict hi lo (rl =? 0)) lo rl.

Lemma nibble_facts cb :
  (cb / 2) mod 4 = (cb mod 16 / 2) mod 4 /\ bit cb 3 = bit (cb mod 16) 3 /\ bit cb 0 = bit (cb mod 16) 0.
Proof.
  unfold bit. change (2 ^ 3) with 8. change (2 ^ 0) with 1.
  repeat split.
  - lia.
  - f_equal. lia.
  - f_equal. lia.
Qed.

Lemma qos_bits_table q : q < 4 ->
  qos_of_u8 q = if q =? 3 then Err (InvalidQos 3) else Ok q.
Proof.
  intros H. unfold qos_of_u8. destruct (N.ltb_spec q 3), (N.eqb_spec q 3); try reflexivity; try lia.
  f_equal. f_equal. lia.
Qed.

Ltac nibble_cases hi :=
  destruct hi as [|hi]; [|do 4 (try destruct hi as [hi|hi|])].

Theorem header3_spec cb rl : V3.header_new_with cb rl = header3_table (cb / 16) (cb mod 16) rl.
Proof.
  unfold V3.header_new_with, header3_table, header3_verdict, header_verdict, header_table.
  destruct (nibble_facts cb) as (Eq & E3 & E0). rewrite Eq, E3, E0.
  rewrite (qos_bits_table ((cb mod 16 / 2) mod 4)) by lia.
  generalize (cb mod 16). generalize (cb / 16). intros hi lo.
  nibble_cases hi; cbn [ptype_of_nibble3 ptype_of_nibble5 required_flags must_be_empty3 negb orb];
    rewrite ?andb_true_r;
    try reflexivity;
    try (destruct (lo =? _); cbn [andb]; try reflexivity; destruct (rl =? 0); reflexivity);
    destruct ((lo / 2) mod 4 =? 3); reflexivity.
Qed.

Theorem header5_spec cb rl : V5.header_new_with cb rl = header5_table (cb / 16) (cb mod 16) rl.
Proof.
  unfold V5.header_new_with, header5_table, header5_verdict, header_verdict, header_table.
  destruct (nibble_facts cb) as (Eq & E3 & E0). rewrite Eq, E3, E0.
  rewrite (qos_bits_table ((cb mod 16 / 2) mod 4)) by lia.
  generalize (cb mod 16). generalize (cb / 16). intros hi lo.
  nibble_cases hi; cbn [ptype_of_nibble5 required_flags must_be_empty5 negb orb];
    rewrite ?andb_true_r;
    try reflexivity;
    try (destruct (lo =? _); cbn [andb]; try reflexivity; destruct (rl =? 0); reflexivity);
    destruct ((lo / 2) mod 4 =? 3); reflexivity.
Qed.

(* ---- the catalogue rows as corollaries ---- *)
Definition nibble_of (t : ptype) : N :=
  match t with
  | PConnect => 1 | PConnack => 2 | PPublish => 3 | PPuback => 4 | PPubrec => 5 | PPubrel => 6
  | PPubcomp => 7 | PSubscribe => 8 | PSuback => 9 | PUnsubscribe => 10 | PUnsuback => 11
  | PPingreq => 12 | PPingresp => 13 | PDisconnect => 14 | PAuth => 15
  end.

Lemma nibble_of_5 t : ptype_of_nibble5 (nibble_of t) = Some t.
Proof. destruct t; reflexivity. Qed.
Lemma nibble_of_3 t : t <> PAuth -> ptype_of_nibble3 (nibble_of t) = Some t.
Proof. destruct t; try reflexivity. congruence. Qed.

(* type nibble 0 (reserved); v3: also 15; any nibble above 15 cannot occur for a byte *)
Theorem C20_header_reserved_type_3 cb rl : cb / 16 = 0 \/ 15 <= cb / 16 ->
  V3.header_new_with cb rl = Err InvalidHeader.
Proof.
  intros H. rewrite header3_spec. unfold header3_table, header3_verdict, header_verdict.
  generalize dependent (cb / 16). intros hi H.
  assert (E : ptype_of_nibble3 hi = None).
  { destruct H as [->|H]; [reflexivity|]. nibble_cases hi; try reflexivity; exfalso; lia. }
  rewrite E. reflexivity.
Qed.

Theorem C20_header_reserved_type_5 cb rl : cb / 16 = 0 \/ 16 <= cb / 16 ->
  V5.header_new_with cb rl = Err InvalidHeader.
Proof.
  intros H. rewrite header5_spec. unfold header5_table, header5_verdict, header_verdict.
  generalize dependent (cb / 16). intros hi H.
  assert (E : ptype_of_nibble5 hi = None).
  { destruct H as [->|H]; [reflexivity|]. nibble_cases hi; try reflexivity; exfalso; lia. }
  rewrite E. reflexivity.
Qed.

(* a wrong flag nibble on every type but PUBLISH *)
Theorem C20_header_flags_3 t cb rl : t <> PPublish -> t <> PAuth ->
  cb / 16 = nibble_of t -> cb mod 16 <> required_flags t ->
  V3.header_new_with cb rl = Err InvalidHeader.
Proof.
  intros Hp Ha Hi Hlo. rewrite header3_spec, Hi. unfold header3_table, header3_verdict, header_verdict.
  rewrite (nibble_of_3 t Ha).
  destruct (N.eqb_spec (cb mod 16) (required_flags t)) as [E|_]; [contradiction|].
  destruct t; try reflexivity; congruence.
Qed.

Theorem C20_header_flags_5 t cb rl : t <> PPublish ->
  cb / 16 = nibble_of t -> cb mod 16 <> required_flags t ->
  V5.header_new_with cb rl = Err InvalidHeader.
Proof.
  intros Hp Hi Hlo. rewrite header5_spec, Hi. unfold header5_table, header5_verdict, header_verdict.
  rewrite (nibble_of_5 t).
  destruct (N.eqb_spec (cb mod 16) (required_flags t)) as [E|_]; [contradiction|].
  destruct t; try reflexivity; congruence.
Qed.

(* PUBLISH with both QoS bits set *)
Theorem C20_header_qos3_3 cb rl : cb / 16 = 3 -> (cb mod 16 / 2) mod 4 = 3 ->
  V3.header_new_with cb rl = Err (InvalidQos 3).
Proof.
  intros Hi Hq. rewrite header3_spec, Hi. unfold header3_table, header3_verdict, header_verdict.
  cbn [ptype_of_nibble3 ptype_of_nibble5]. rewrite Hq. reflexivity.
Qed.
Theorem C20_header_qos3_5 cb rl : cb / 16 = 3 -> (cb mod 16 / 2) mod 4 = 3 ->
  V5.header_new_with cb rl = Err (InvalidQos 3).
Proof.
  intros Hi Hq. rewrite header5_spec, Hi. unfold header5_table, header5_verdict, header_verdict.
  cbn [ptype_of_nibble5]. rewrite Hq. reflexivity.
Qed.

(* PINGREQ / PINGRESP (both families) and v3 DISCONNECT with a body (fix F5) *)
Theorem C20_header_nonempty_3 t cb rl : must_be_empty3 t = true ->
  cb / 16 = nibble_of t -> rl <> 0 -> V3.header_new_with cb rl = Err InvalidHeader.
Proof.
  intros Hm Hi Hrl. rewrite header3_spec, Hi. unfold header3_table, header3_verdict, header_verdict.
  destruct (N.eqb_spec rl 0) as [E|_]; [contradiction|].
  destruct t; try discriminate Hm; cbn [nibble_of ptype_of_nibble3 ptype_of_nibble5 must_be_empty3 negb orb];
    rewrite andb_false_r; reflexivity.
Qed.
Theorem C20_header_nonempty_5 t cb rl : must_be_empty5 t = true ->
  cb / 16 = nibble_of t -> rl <> 0 -> V5.header_new_with cb rl = Err InvalidHeader.
Proof.
  intros Hm Hi Hrl. rewrite header5_spec, Hi. unfold header5_table, header5_verdict, header_verdict.
  destruct (N.eqb_spec rl 0) as [E|_]; [contradiction|].
  destruct t; try discriminate Hm; cbn [nibble_of ptype_of_nibble5 must_be_empty5 negb orb];
    rewrite andb_false_r; reflexivity.
Qed.

(* ---- the finite sweep: all 256 control bytes against explicit lists ---- *)
Definition memN (v : N) (l : list N) : bool := existsb (N.eqb v) l.
(* control bytes accepted with any remaining length / only with remaining length 0 *)
Definition LEGAL_ANY_3 : list N :=
  [16; 32; 48; 49; 50; 51; 52; 53; 56; 57; 58; 59; 60; 61; 64; 80; 98; 112; 130; 144; 162; 176].
Definition LEGAL_EMPTY_3 : list N := [192; 208; 224].
Definition LEGAL_ANY_5 : list N := LEGAL_ANY_3 ++ [224; 240].
Definition LEGAL_EMPTY_5 : list N := [192; 208].
Definition QOS3_CBS : list N := [54; 55; 62; 63].

(* None = accepted *)
Definition expected_header (any empty : list N) (cb : N) (rl0 : bool) : option err :=
  if memN cb QOS3_CBS then Some (InvalidQos 3)
  else if memN cb any || (memN cb empty && rl0) then None
  else Some InvalidHeader.

Definition verdict_matches (v : hverdict) (x : option err) : bool :=
  match v, x with
  | HAccept _, None => true
  | HReject InvalidHeader, Some InvalidHeader => true
  | HReject (InvalidQos a), Some (InvalidQos b) => a =? b
  | _, _ => false
  end.

Definition all_bytes : list N := map N.of_nat (seq 0 256).
Lemma all_bytes_complete cb : cb < 256 -> In cb all_bytes.
Proof.
  intros H. unfold all_bytes. rewrite <- (N2Nat.id cb). apply in_map. apply in_seq. lia.
Qed.

Lemma header3_sweep_check :
  forallb (fun cb => forallb (fun z => verdict_matches (header3_verdict (cb / 16) (cb mod 16) z)
                                                        (expected_header LEGAL_ANY_3 LEGAL_EMPTY_3 cb z))
                             [true; false]) all_bytes = true.
Proof. vm_compute. reflexivity. Qed.
Lemma header5_sweep_check :
  forallb (fun cb => forallb (fun z => verdict_matches (header5_verdict (cb / 16) (cb mod 16) z)
                                                        (expected_header LEGAL_ANY_5 LEGAL_EMPTY_5 cb z))
                             [true; false]) all_bytes = true.
Proof. vm_compute. reflexivity. Qed.

Lemma verdict_matches_spec v x lo rl : verdict_matches v x = true ->
  match x with
  | Some e => header_table v lo rl = Err e
  | None => exists h, header_table v lo rl = Ok h
  end.
Proof.
  destruct v as [t|e], x as [e'|]; cbn [verdict_matches header_table]; try discriminate.
  - intros _. eexists. reflexivity.
  - destruct e; try discriminate; destruct e'; try discriminate.
    + intros H. apply N.eqb_eq in H. subst. reflexivity.
    + reflexivity.
  - destruct e; discriminate.
Qed.

Theorem C20_header_sweep_3 cb rl : cb < 256 ->
  match expected_header LEGAL_ANY_3 LEGAL_EMPTY_3 cb (rl =? 0) with
  | Some e => V3.header_new_with cb rl = Err e
  | None => exists h, V3.header_new_with cb rl = Ok h
  end.
Proof.
  intros H. rewrite header3_spec. unfold header3_table.
  pose proof header3_sweep_check as S. rewrite forallb_forall in S.
  specialize (S cb (all_bytes_complete cb H)). rewrite forallb_forall in S.
  apply verdict_matches_spec. apply S. destruct (rl =? 0); cbn [In]; auto.
Qed.

Theorem C20_header_sweep_5 cb rl : cb < 256 ->
  match expected_header LEGAL_ANY_5 LEGAL_EMPTY_5 cb (rl =? 0) with
  | Some e => V5.header_new_with cb rl = Err e
  | None => exists h, V5.header_new_with cb rl = Ok h
  end.
Proof.
  intros H. rewrite header5_spec. unfold header5_table.
  pose proof header5_sweep_check as S. rewrite forallb_forall in S.
  specialize (S cb (all_bytes_complete cb H)). rewrite forallb_forall in S.
  apply verdict_matches_spec. apply S. destruct (rl =? 0); cbn [In]; auto.
Qed.

(* ------------------------------------------------------------------------------------ *)
(* 2. Packet identifier, QoS, return codes, reason codes, subscription options          *)
(* ------------------------------------------------------------------------------------ *)

Theorem C20_pid_zero t r : V3.pid_read t (be16 0 ++ r) = RErr ZeroPid.
Proof. reflexivity. Qed.
Lemma pid_zero_bytes t r : V3.pid_read t (0 :: 0 :: r) = RErr ZeroPid.
Proof. reflexivity. Qed.

Theorem C20_qos_of_u8 q : 3 <= q -> qos_of_u8 q = Err (InvalidQos q).
Proof. intros H. unfold qos_of_u8. destruct (N.ltb_spec q 3); [lia|reflexivity]. Qed.

Theorem C20_subscribe_return_code v : v <> 0 -> v <> 1 -> v <> 2 -> v <> 128 ->
  V3.subscribe_return_code_of_u8 v = Err (InvalidQos v).
Proof.
  intros. unfold V3.subscribe_return_code_of_u8.
  destruct (N.eqb_spec v 128); [contradiction|]. destruct (N.ltb_spec v 3); [lia|]. reflexivity.
Qed.

Theorem C20_connect_return_code c : 6 <= c ->
  V3.connect_return_code_of_u8 c = Err (InvalidConnectReturnCode c).
Proof. intros H. unfold V3.connect_return_code_of_u8. destruct (N.ltb_spec c 6); [lia|reflexivity]. Qed.

Lemma read_exact_2 a b t r : read_exact 2 t (a :: b :: r) = ROk [a; b] r.
Proof. change (a :: b :: r) with ([a; b] ++ r). apply read_exact_app. reflexivity. Qed.

Theorem C20_connack_flags_3 f c t r : 2 <= f ->
  V3.connack_decode t ([f; c] ++ r) = RErr (InvalidConnackFlags f).
Proof.
  intros H. unfold V3.connack_decode. cbn [app]. erewrite bind_ok by apply read_exact_2. cbv iota.
  destruct (N.eqb_spec f 0); [lia|]. destruct (N.eqb_spec f 1); [lia|]. reflexivity.
Qed.

Theorem C20_connack_code_3 f c t r : f < 2 -> 6 <= c ->
  V3.connack_decode t ([f; c] ++ r) = RErr (InvalidConnectReturnCode c).
Proof.
  intros Hf H. unfold V3.connack_decode. cbn [app]. erewrite bind_ok by apply read_exact_2. cbv iota.
  rewrite (C20_connect_return_code c H).
  destruct (N.eqb_spec f 0); [reflexivity|]. destruct (N.eqb_spec f 1); [reflexivity|lia].
Qed.

Theorem C20_connack_flags_5 h f c t r : 2 <= f ->
  V5.connack_decode h t ([f; c] ++ r) = RErr (InvalidConnackFlags f).
Proof.
  intros H. unfold V5.connack_decode. cbn [app]. erewrite bind_ok by apply read_exact_2. cbv iota.
  destruct (N.eqb_spec f 0); [lia|]. destruct (N.eqb_spec f 1); [lia|]. reflexivity.
Qed.

Theorem C20_connack_code_5 h f c t r : f < 2 -> V5.mem_n c V5.CONNECT_CODES = false ->
  V5.connack_decode h t ([f; c] ++ r) = RErr (InvalidReasonCode (h_typ h) c).
Proof.
  intros Hf H. unfold V5.connack_decode. cbn [app]. erewrite bind_ok by apply read_exact_2. cbv iota.
  rewrite H.
  destruct (N.eqb_spec f 0); [reflexivity|]. destruct (N.eqb_spec f 1); [reflexivity|lia].
Qed.

Theorem C20_reason_read table pt b t r : V5.mem_n b (V5.codes_of table) = false ->
  V5.reason_read table pt t (b :: r) = RErr (InvalidReasonCode pt b).
Proof. intros H. unfold V5.reason_read, bind. cbn [read_u8]. rewrite H. reflexivity. Qed.

(* reserved bits 6-7, QoS 3, retain handling 3 *)
Theorem C20_subopts b : 64 <= b \/ b mod 4 = 3 \/ (b / 16) mod 4 = 3 ->
  V5.subopts_of_u8 b = Err (InvalidSubscriptionOption b).
Proof.
  intros H. unfold V5.subopts_of_u8.
  destruct (N.ltb_spec 0 (b / 64)); [reflexivity|].
  destruct (N.eqb_spec (b mod 4) 3); [reflexivity|].
  destruct (N.eqb_spec ((b / 16) mod 4) 3); [reflexivity|]. exfalso. lia.
Qed.
(* ... and nothing else is refused *)
Lemma subopts_ok_iff b : (exists o, V5.subopts_of_u8 b = Ok o) <->
  ~ (64 <= b \/ b mod 4 = 3 \/ (b / 16) mod 4 = 3).
Proof.
  unfold V5.subopts_of_u8.
  destruct (N.ltb_spec 0 (b / 64)); [split; [intros [o Ho]; discriminate|intros Hn; exfalso; apply Hn; lia]|].
  destruct (N.eqb_spec (b mod 4) 3); [split; [intros [o Ho]; discriminate|intros Hn; exfalso; apply Hn; lia]|].
  destruct (N.eqb_spec ((b / 16) mod 4) 3); [split; [intros [o Ho]; discriminate|intros Hn; exfalso; apply Hn; lia]|].
  split; [intros _; lia|intros _; eexists; reflexivity].
Qed.

(* ------------------------------------------------------------------------------------ *)
(* 3. Strings, topic names, topic filters                                               *)
(* ------------------------------------------------------------------------------------ *)

Theorem C20_read_string_invalid s t r : len s <= 65535 -> utf8_valid s = false ->
  read_string t (be16 (len s) ++ s ++ r) = RErr InvalidString.
Proof.
  intros Hl Hv. unfold read_string.
  erewrite bind_ok.
  2:{ pose proof (read_bytes_lp s t r Hl) as E. rewrite N.mod_small in E by lia. exact E. }
  rewrite Hv. reflexivity.
Qed.
Lemma read_string_invalid_lp s t r : len s <= 65535 -> utf8_valid s = false ->
  read_string t (be16 (len s mod 65536) ++ s ++ r) = RErr InvalidString.
Proof. intros Hl Hv. rewrite N.mod_small by lia. apply C20_read_string_invalid; assumption. Qed.

Theorem C20_name_try s : name_is_invalid s = true -> name_try s = Err (InvalidTopicName s).
Proof. apply name_try_err. Qed.

(* in terms of the bytes: a valid UTF-8 string that contains '+', '#' or NUL *)
Theorem C20_name_try_bytes s : utf8_valid s = true -> len s <= 65535 ->
  (In 43 s \/ In 35 s \/ In 0 s) -> name_try s = Err (InvalidTopicName s).
Proof.
  intros Hv Hl Hin. apply name_try_err. rewrite (name_bytes s Hv).
  assert (Hx : existsb forbidden s = true).
  { apply existsb_exists. unfold forbidden.
    destruct Hin as [H1|[H1|H1]]; eexists; (split; [exact H1|reflexivity]). }
  rewrite Hx. apply orb_true_r.
Qed.

Theorem C20_response_topic s t r : len s <= 65535 -> utf8_valid s = true -> name_is_invalid s = true ->
  decode_value ResponseTopic t (be16 (len s mod 65536) ++ s ++ r) = RErr InvalidResponseTopic.
Proof.
  intros Hl Hv Hi. rewrite response_topic_value. rewrite (read_string_lp s t r Hl Hv), Hi. reflexivity.
Qed.

Theorem C20_filter_try prof s : utf8_valid s = true -> Spec.topic_filter_ok s = false ->
  filter_try prof s = Err (InvalidTopicFilter s).
Proof. intros Hv Hf. rewrite (filter_try_spec prof s Hv), Hf. reflexivity. Qed.

Theorem C20_filter_read prof s t r : len s <= 65535 -> utf8_valid s = true -> Spec.topic_filter_ok s = false ->
  V3.filter_read prof t (be16 (len s mod 65536) ++ s ++ r) = RErr (InvalidTopicFilter s).
Proof.
  intros Hl Hv Hf. unfold V3.filter_read. erewrite bind_ok by (apply read_string_lp; assumption).
  rewrite (C20_filter_try prof s Hv Hf). reflexivity.
Qed.

(* ------------------------------------------------------------------------------------ *)
(* 4. Properties                                                                        *)
(* ------------------------------------------------------------------------------------ *)

(* -- single steps of the loop that end in the documented error -- *)
Theorem C20_prop_unknown_id f ctx allowed plen n acc b t r :
  n < plen -> prop_of_u8 b = None ->
  decode_props_loop (S f) ctx allowed plen n acc t (b :: r) = RErr (InvalidPropertyId b).
Proof.
  intros Hn Hb. cbn [decode_props_loop].
  destruct (N.leb_spec plen n) as [Hle|_]; [lia|].
  erewrite bind_ok by apply read_u8_cons. rewrite Hb. reflexivity.
Qed.

Theorem C20_prop_duplicated f ctx allowed plen n acc id v0 t r :
  n < plen -> prop_mem id allowed = true -> pget acc id = Some v0 ->
  decode_props_loop (S f) ctx allowed plen n acc t (prop_num id :: r) = RErr (DuplicatedProperty (prop_num id)).
Proof.
  intros Hn Hm Hg. cbn [decode_props_loop].
  destruct (N.leb_spec plen n) as [Hle|_]; [lia|].
  erewrite bind_ok by apply read_u8_cons. rewrite prop_of_num, Hm, Hg. reflexivity.
Qed.

Theorem C20_prop_disallowed f ctx allowed plen n acc id t r :
  n < plen -> prop_mem id allowed = false ->
  decode_props_loop (S f) ctx allowed plen n acc t (prop_num id :: r) = RErr (ctx_err ctx id).
Proof.
  intros Hn Hm. cbn [decode_props_loop].
  destruct (N.leb_spec plen n) as [Hle|_]; [lia|].
  erewrite bind_ok by apply read_u8_cons. rewrite prop_of_num, Hm. reflexivity.
Qed.

Theorem C20_prop_length_overshoot f ctx allowed plen n acc t d :
  plen < n -> decode_props_loop f ctx allowed plen n acc t d = RErr (InvalidPropertyLength plen).
Proof.
  intros Hn. destruct f; cbn [decode_props_loop];
    (destruct (N.leb_spec plen n) as [_|Hlt]; [|lia]);
    (destruct (N.eqb_spec plen n) as [E|_]; [lia|reflexivity]).
Qed.

(* a byte-valued property: boolean (ids 1 23 25 37 40 41 42) or Maximum QoS (36) *)
Definition byte_valued (id : prop_id) : bool :=
  match prop_wtype id with WBool | WQos => true | _ => false end.

Theorem C20_byte_property_value id v t r : byte_valued id = true -> 1 < v ->
  decode_value id t (v :: r) = RErr (InvalidByteProperty (prop_num id) v).
Proof.
  intros Hb Hv. unfold byte_valued in Hb. unfold decode_value.
  destruct (prop_wtype id); try discriminate Hb;
    (erewrite bind_ok by apply read_u8_cons); (destruct (N.ltb_spec 1 v); [reflexivity|lia]).
Qed.
Corollary C20_maximum_qos_value v t r : 1 < v ->
  decode_value MaximumQoS t (v :: r) = RErr (InvalidByteProperty 36 v).
Proof. apply (C20_byte_property_value MaximumQoS). reflexivity. Qed.

Theorem C20_prop_bad_byte f ctx allowed plen n acc id v t r :
  n < plen -> prop_mem id allowed = true -> pget acc id = None -> byte_valued id = true -> 1 < v ->
  decode_props_loop (S f) ctx allowed plen n acc t (prop_num id :: v :: r)
  = RErr (InvalidByteProperty (prop_num id) v).
Proof.
  intros Hn Hm Hg Hb Hv. cbn [decode_props_loop].
  destruct (N.leb_spec plen n) as [Hle|_]; [lia|].
  erewrite bind_ok by apply read_u8_cons. rewrite prop_of_num, Hm, Hg.
  erewrite bind_err by (apply C20_byte_property_value; assumption). reflexivity.
Qed.

(* an error raised by a value decoder inside the loop (non-UTF-8 string, bad response topic, ...) *)
Lemma prop_value_error f ctx allowed plen n acc id e t r :
  n < plen -> prop_mem id allowed = true -> pget acc id = None -> decode_value id t r = RErr e ->
  decode_props_loop (S f) ctx allowed plen n acc t (prop_num id :: r) = RErr e.
Proof.
  intros Hn Hm Hg He. cbn [decode_props_loop].
  destruct (N.leb_spec plen n) as [Hle|_]; [lia|].
  erewrite bind_ok by apply read_u8_cons. rewrite prop_of_num, Hm, Hg.
  erewrite bind_err by exact He. reflexivity.
Qed.

(* -- the section decoders: from the loop to decode_props_full / decode_props -- *)
Lemma props_full_unfold ctx allowed plen t d : plen < VMAX ->
  decode_props_full ctx allowed t (write_var_int plen ++ d) =
  (p <- decode_props_loop (S (length d)) ctx allowed plen 0 props_empty ;; ret (p, plen, width plen)) t d.
Proof.
  intros H. unfold decode_props_full. erewrite bind_ok by (apply decode_var_int_write; exact H). reflexivity.
Qed.

Lemma props_full_error ctx allowed plen t d e : plen < VMAX ->
  decode_props_loop (S (length d)) ctx allowed plen 0 props_empty t d = RErr e ->
  decode_props_full ctx allowed t (write_var_int plen ++ d) = RErr e.
Proof. intros H He. rewrite props_full_unfold by exact H. apply bind_err. exact He. Qed.

Lemma props_error_of_full {B} ctx allowed t d e (k : props -> reader B) :
  decode_props_full ctx allowed t d = RErr e -> bind (decode_props ctx allowed) k t d = RErr e.
Proof. intros H. apply bind_err. unfold decode_props. apply bind_err. exact H. Qed.

Lemma props_error ctx allowed plen t d e : plen < VMAX ->
  decode_props_loop (S (length d)) ctx allowed plen 0 props_empty t d = RErr e ->
  decode_props ctx allowed t (write_var_int plen ++ d) = RErr e.
Proof. intros H He. unfold decode_props. apply bind_err. apply props_full_error; assumption. Qed.

(* the value of every valid property occupies at least one byte and fewer than 2^16 + 2 *)
Lemma value_len_bounds ty v : value_inv ty v = true -> value_valid ty v = true ->
  0 < value_len ty v < 65538.
Proof.
  destruct ty, v; cbn [value_inv value_valid value_len pv_n pv_b]; intros H Hv; try discriminate;
    try (unfold short in Hv); try lia.
  apply N.ltb_lt in H. rewrite (var_int_len_ok n) by exact H. unfold width. repeat dtest; lia.
Qed.


(* an error of decode_props_full is an error of decode_props *)
Lemma props_of_full ctx allowed t d e :
  decode_props_full ctx allowed t d = RErr e -> decode_props ctx allowed t d = RErr e.
Proof. intros H. unfold decode_props. apply bind_err. exact H. Qed.

(* -- the catalogue rows at the FIRST property position of a section (stated for decode_props_full;
      props_of_full carries them to decode_props) -- *)
Section FirstProperty.
Variables (ctx : prop_ctx) (allowed : list prop_id) (plen : N) (t : tail) (r : bytes).
Hypothesis Hpos : 0 < plen.
Hypothesis Hmax : plen < VMAX.

Theorem C20_props_unknown_id b : prop_of_u8 b = None ->
  decode_props_full ctx allowed t (write_var_int plen ++ b :: r) = RErr (InvalidPropertyId b).
Proof. intros Hb. apply props_full_error; [exact Hmax|]. apply C20_prop_unknown_id; assumption. Qed.

Theorem C20_props_disallowed id : prop_mem id allowed = false ->
  decode_props_full ctx allowed t (write_var_int plen ++ prop_num id :: r) = RErr (ctx_err ctx id).
Proof. intros Hb. apply props_full_error; [exact Hmax|]. apply C20_prop_disallowed; assumption. Qed.

Theorem C20_props_bad_byte id v : prop_mem id allowed = true -> byte_valued id = true -> 1 < v ->
  decode_props_full ctx allowed t (write_var_int plen ++ prop_num id :: v :: r)
  = RErr (InvalidByteProperty (prop_num id) v).
Proof.
  intros Hm Hb Hv. apply props_full_error; [exact Hmax|].
  apply C20_prop_bad_byte; try assumption. apply pget_empty.
Qed.

(* second occurrence right after a first valid one *)
Theorem C20_props_duplicated id v :
  prop_mem id allowed = true ->
  value_inv (prop_wtype id) v = true -> value_valid (prop_wtype id) v = true ->
  1 + value_len (prop_wtype id) v < plen ->
  decode_props_full ctx allowed t
    (write_var_int plen ++ prop_num id :: concat (encode_value (prop_wtype id) v) ++ prop_num id :: r)
  = RErr (DuplicatedProperty (prop_num id)).
Proof.
  intros Hm Hi Hv Hl. apply props_full_error; [exact Hmax|].
  erewrite loop_step_prop; [|exact Hpos|exact Hm|apply pget_empty|apply decode_value_rt; assumption].
  cbn [length]. rewrite app_length. cbn [length]. rewrite Nat.add_succ_r.
  eapply C20_prop_duplicated; [lia|exact Hm|apply pget_pset_same].
Qed.

(* a value decoder's own error at the first position: non-UTF-8 string, wildcard in the Response
   Topic, over-long Subscription Identifier *)
Theorem C20_props_value_error id e : prop_mem id allowed = true -> decode_value id t r = RErr e ->
  decode_props_full ctx allowed t (write_var_int plen ++ prop_num id :: r) = RErr e.
Proof.
  intros Hm He. apply props_full_error; [exact Hmax|].
  apply prop_value_error; [exact Hpos|exact Hm|apply pget_empty|exact He].
Qed.
(* a User Property (id 38, allowed everywhere) whose name or value is not UTF-8 *)
Theorem C20_props_user_name_not_utf8 s : len s <= 65535 -> utf8_valid s = false ->
  decode_props_full ctx allowed t (write_var_int plen ++ USER_PROPERTY :: be16 (len s mod 65536) ++ s ++ r)
  = RErr InvalidString.
Proof.
  intros Hl Hv. apply props_full_error; [exact Hmax|]. cbn [decode_props_loop].
  destruct (N.leb_spec plen 0) as [Hle|_]; [lia|].
  erewrite bind_ok by apply read_u8_cons. change (prop_of_u8 USER_PROPERTY) with (Some KUser). cbv iota.
  erewrite bind_err by (apply read_string_invalid_lp; assumption). reflexivity.
Qed.

Theorem C20_props_user_value_not_utf8 name s : len name <= 65535 -> utf8_valid name = true ->
  len s <= 65535 -> utf8_valid s = false ->
  decode_props_full ctx allowed t
    (write_var_int plen ++ USER_PROPERTY :: be16 (len name mod 65536) ++ name ++ be16 (len s mod 65536) ++ s ++ r)
  = RErr InvalidString.
Proof.
  intros Hln Hvn Hl Hv. apply props_full_error; [exact Hmax|]. cbn [decode_props_loop].
  destruct (N.leb_spec plen 0) as [Hle|_]; [lia|].
  erewrite bind_ok by apply read_u8_cons. change (prop_of_u8 USER_PROPERTY) with (Some KUser). cbv iota.
  erewrite bind_ok by (apply read_string_lp; assumption).
  erewrite bind_err by (apply read_string_invalid_lp; assumption). reflexivity.
Qed.
End FirstProperty.

(* property length - 1 for a section that holds exactly one property *)
Theorem C20_props_length_minus_one ctx allowed id v t r :
  prop_mem id allowed = true ->
  value_inv (prop_wtype id) v = true -> value_valid (prop_wtype id) v = true ->
  decode_props_full ctx allowed t
    (write_var_int (value_len (prop_wtype id) v) ++ prop_num id :: concat (encode_value (prop_wtype id) v) ++ r)
  = RErr (InvalidPropertyLength (value_len (prop_wtype id) v)).
Proof.
  intros Hm Hi Hv. destruct (value_len_bounds _ _ Hi Hv) as [Hpos Hmax].
  assert (Hmax' : value_len (prop_wtype id) v < VMAX) by (unfold VMAX; lia).
  apply props_full_error; [exact Hmax'|].
  erewrite loop_step_prop; [|exact Hpos|exact Hm|apply pget_empty|apply decode_value_rt; assumption].
  apply C20_prop_length_overshoot. lia.
Qed.

(* string-valued properties *)
Definition string_valued (id : prop_id) : bool :=
  match prop_wtype id with WStr | WTopic => true | _ => false end.

Theorem C20_string_property_value id s t r : string_valued id = true -> len s <= 65535 -> utf8_valid s = false ->
  decode_value id t (be16 (len s mod 65536) ++ s ++ r) = RErr InvalidString.
Proof.
  intros Hs Hl Hv. unfold string_valued in Hs. unfold decode_value.
  destruct (prop_wtype id); try discriminate Hs;
    (erewrite bind_err by (apply read_string_invalid_lp; assumption)); reflexivity.
Qed.

(* ------------------------------------------------------------------------------------ *)
(* 5. Over-long variable byte integers                                                  *)
(* ------------------------------------------------------------------------------------ *)
Section TooLong.
Variables (b0 b1 b2 b3 : N) (r : bytes) (t : tail).
Hypothesis H0 : 128 <= b0.
Hypothesis H1 : 128 <= b1.
Hypothesis H2 : 128 <= b2.
Hypothesis H3 : 128 <= b3.

Theorem C20_varint_header cb : decode_raw_header t (cb :: b0 :: b1 :: b2 :: b3 :: r) = RErr InvalidVarByteInt.
Proof.
  unfold decode_raw_header. erewrite bind_ok by apply read_u8_cons.
  erewrite bind_err by (apply read_too_long; assumption). reflexivity.
Qed.

Theorem C20_varint_props_full ctx allowed :
  decode_props_full ctx allowed t (b0 :: b1 :: b2 :: b3 :: r) = RErr InvalidVarByteInt.
Proof. unfold decode_props_full. erewrite bind_err by (apply read_too_long; assumption). reflexivity. Qed.

Theorem C20_varint_props ctx allowed :
  decode_props ctx allowed t (b0 :: b1 :: b2 :: b3 :: r) = RErr InvalidVarByteInt.
Proof. unfold decode_props. apply bind_err. apply C20_varint_props_full. Qed.

Theorem C20_varint_subscription_id :
  decode_value SubscriptionIdentifier t (b0 :: b1 :: b2 :: b3 :: r) = RErr InvalidVarByteInt.
Proof.
  unfold decode_value. cbn [prop_wtype]. erewrite bind_err by (apply read_too_long; assumption). reflexivity.
Qed.
End TooLong.

(* ------------------------------------------------------------------------------------ *)
(* 6. Protocol name and level                                                           *)
(* ------------------------------------------------------------------------------------ *)
Definition protocol_known (name : bytes) (lvl : N) : Prop :=
  (name = MQISDP /\ lvl = 3) \/ (name = MQTT /\ lvl = 4) \/ (name = MQTT /\ lvl = 5).

Lemma protocol_new_unknown name lvl : ~ protocol_known name lvl ->
  protocol_new name lvl = if utf8_valid name then Err (InvalidProtocol name lvl) else Err InvalidString.
Proof.
  intros Hn. unfold protocol_new, protocol_known in *.
  destruct (beq_bytes name MQISDP && (lvl =? 3)) eqn:E1.
  { apply andb_true_iff in E1 as [A B]. apply beq_bytes_spec in A. apply N.eqb_eq in B. tauto. }
  destruct (beq_bytes name MQTT && (lvl =? 4)) eqn:E2.
  { apply andb_true_iff in E2 as [A B]. apply beq_bytes_spec in A. apply N.eqb_eq in B. tauto. }
  destruct (beq_bytes name MQTT && (lvl =? 5)) eqn:E3.
  { apply andb_true_iff in E3 as [A B]. apply beq_bytes_spec in A. apply N.eqb_eq in B. tauto. }
  reflexivity.
Qed.

Theorem C20_protocol_new name lvl : ~ protocol_known name lvl -> utf8_valid name = true ->
  protocol_new name lvl = Err (InvalidProtocol name lvl).
Proof. intros Hn Hv. rewrite (protocol_new_unknown name lvl Hn), Hv. reflexivity. Qed.

Theorem C20_protocol_new_not_utf8 name lvl : ~ protocol_known name lvl -> utf8_valid name = false ->
  protocol_new name lvl = Err InvalidString.
Proof. intros Hn Hv. rewrite (protocol_new_unknown name lvl Hn), Hv. reflexivity. Qed.

Lemma protocol_decode_bytes name lvl t r : len name <= 65535 ->
  protocol_decode t (be16 (len name) ++ name ++ lvl :: r) = lift_outcome (protocol_new name lvl) t r.
Proof.
  intros Hl. unfold protocol_decode.
  erewrite bind_ok.
  2:{ pose proof (read_bytes_lp name t (lvl :: r) Hl) as E. rewrite N.mod_small in E by lia. exact E. }
  erewrite bind_ok by apply read_u8_cons. reflexivity.
Qed.

Theorem C20_protocol_decode name lvl t r : len name <= 65535 -> ~ protocol_known name lvl ->
  utf8_valid name = true ->
  protocol_decode t (be16 (len name) ++ name ++ lvl :: r) = RErr (InvalidProtocol name lvl).
Proof.
  intros Hl Hn Hv. rewrite protocol_decode_bytes by exact Hl. rewrite (C20_protocol_new _ _ Hn Hv). reflexivity.
Qed.

Theorem C20_protocol_decode_not_utf8 name lvl t r : len name <= 65535 -> ~ protocol_known name lvl ->
  utf8_valid name = false ->
  protocol_decode t (be16 (len name) ++ name ++ lvl :: r) = RErr InvalidString.
Proof.
  intros Hl Hn Hv. rewrite protocol_decode_bytes by exact Hl.
  rewrite (C20_protocol_new_not_utf8 _ _ Hn Hv). reflexivity.
Qed.

(* the other family's level *)
Theorem C20_unexpected_protocol_3 t d :
  V3.connect_decode_with_protocol V500 t d = RErr (UnexpectedProtocol V500).
Proof. reflexivity. Qed.
Theorem C20_unexpected_protocol_5 h p t d : p <> V500 ->
  V5.connect_decode_with_protocol h p t d = RErr (UnexpectedProtocol p).
Proof. intros H. destruct p; try reflexivity. congruence. Qed.

(* ------------------------------------------------------------------------------------ *)
(* 7. Remaining-length arithmetic; the poll decoder's leftover / EOF mapping            *)
(* ------------------------------------------------------------------------------------ *)
Theorem C20_checked_sub a b t d : a < b -> checked_sub a b t d = RErr InvalidRemainingLength.
Proof. intros H. unfold checked_sub. destruct (N.leb_spec b a); [lia|reflexivity]. Qed.

Section BodyResult.
Variable P : Type.
Variable block_decode : header -> reader P.

Theorem C20_poll_leftover h total buf p x xs : block_decode h TEof buf = ROk p (x :: xs) ->
  body_result P block_decode h total buf = Err InvalidRemainingLength.
Proof. intros H. unfold body_result. rewrite H. reflexivity. Qed.

Theorem C20_poll_eof_inside h total buf : block_decode h TEof buf = RErr (io_err TEof) ->
  body_result P block_decode h total buf = Err InvalidRemainingLength.
Proof. intros H. unfold body_result. rewrite H. reflexivity. Qed.

Theorem C20_poll_body_error h total buf e : block_decode h TEof buf = RErr e -> is_io e = false ->
  body_result P block_decode h total buf = Err e.
Proof.
  intros H He. unfold body_result. rewrite H.
  destruct e; try reflexivity. discriminate He.
Qed.
End BodyResult.

Theorem C20_block_eof_inside {A} : @map_eof A (RErr (io_err TEof)) = BNone.
Proof. reflexivity. Qed.

(* ------------------------------------------------------------------------------------ *)
(* 8. From the async front-end to the blocking and the poll front-end                   *)
(* ------------------------------------------------------------------------------------ *)
Lemma not_io_not_eof e : is_io e = false -> is_eof e = false.
Proof. destruct e; try reflexivity. discriminate. Qed.

Lemma map_eof_err {A} (r : res A) e : r = RErr e -> is_eof e = false -> map_eof r = BErr e.
Proof. intros -> H. unfold map_eof. rewrite H. reflexivity. Qed.

(* The poll decoder cuts the body out of the stream and runs the body decoder on exactly those
   bytes with an EOF transport.  Generic in the PollHeader implementation. *)
Section PollLift.
Variable P : Type.
Variable new_with : N -> N -> outcome header.
Variable build_empty : header -> option P.
Variable block_decode : header -> reader P.
Variable body_async : header -> reader P.      (* what decode_async runs after the header *)
Variable prof : profile.

Hypothesis Hrl : PollSched.new_with_rl new_with.
Hypothesis Hstable : forall h, stable (block_decode h).
(* the two body dispatchers agree whenever the poll decoder runs block_decode *)
Hypothesis Hsame : forall h, build_empty h = None -> forall t d, body_async h t d = block_decode h t d.
(* a header that needs no body is answered without reading *)
Hypothesis Hempty : forall h p, build_empty h = Some p -> forall t d, body_async h t d = ROk p d.
(* every body decoder starts by reading *)
Hypothesis Hreads : forall h e, build_empty h = None -> block_decode h TEof [] = RErr e -> is_io e = true.

Definition frame_async (cb n : N) (t : tail) (rest : bytes) : res P :=
  match new_with cb n with
  | Ok h => body_async h t rest
  | Err e => RErr e
  | Panic s => RPanic s
  end.

Notation poll1 := (Poll.poll1 P new_with build_empty block_decode prof).

(* the error is raised inside the frame: the poll decoder reports the same error *)
Theorem frame_err_to_poll cb body sfx t e : len body < VMAX ->
  frame_async cb (len body) TEof body = RErr e -> is_io e = false ->
  rr_res P (poll1 (cb :: write_var_int (len body) ++ body ++ sfx) t) = Some (Err e).
Proof.
  intros Hn Ha He.
  destruct (PollSched.poll1_frame P new_with build_empty block_decode prof t cb
              (write_var_int (len body)) (len body) body sfx Hrl
              (PollSched.vbi_of_write _ Hn) eq_refl) as [E _].
  rewrite E. f_equal. unfold PollSched.frame_result. unfold frame_async in Ha.
  destruct (new_with cb (len body)) as [h|e'|s] eqn:En.
  - destruct (build_empty h) as [p|] eqn:Eb.
    + rewrite (Hempty h p Eb) in Ha. discriminate.
    + rewrite (Hsame h Eb) in Ha.
      destruct (N.eqb_spec (len body) 0) as [Ez|Ez].
      * apply len_zero_nil in Ez. subst body. apply (Hreads h e Eb) in Ha. congruence.
      * cbn [fst]. apply C20_poll_body_error; assumption.
  - inversion Ha. reflexivity.
  - discriminate.
Qed.

(* in general: the same error, or the remaining-length error when an inner length runs past the
   end of the frame (then the async decoder went on reading into the bytes after the frame) *)
Theorem async_err_to_poll_weak cb body sfx t t' e : len body < VMAX ->
  frame_async cb (len body) t (body ++ sfx) = RErr e -> is_io e = false ->
  rr_res P (poll1 (cb :: write_var_int (len body) ++ body ++ sfx) t') = Some (Err e) \/
  rr_res P (poll1 (cb :: write_var_int (len body) ++ body ++ sfx) t') = Some (Err InvalidRemainingLength).
Proof.
  intros Hn Ha He.
  destruct (PollSched.poll1_frame P new_with build_empty block_decode prof t' cb
              (write_var_int (len body)) (len body) body sfx Hrl
              (PollSched.vbi_of_write _ Hn) eq_refl) as [E _].
  rewrite E. unfold PollSched.frame_result. unfold frame_async in Ha.
  destruct (new_with cb (len body)) as [h|e'|s] eqn:En.
  - destruct (build_empty h) as [p|] eqn:Eb.
    + rewrite (Hempty h p Eb) in Ha. discriminate.
    + rewrite (Hsame h Eb) in Ha.
      destruct (N.eqb_spec (len body) 0) as [Ez|Ez]; [right; reflexivity|].
      cbn [fst]. unfold body_result.
      pose proof (Hstable h TEof body) as S.
      destruct (block_decode h TEof body) as [a d'|e0|s0] eqn:Eb0.
      * destruct S as (c & Hc & Hok & _). exfalso.
        destruct (ok_extend _ (Hstable h) _ _ _ _ Eb0) as (c0 & Hc0 & Hext).
        rewrite Hc0, <- app_assoc, Hext in Ha. discriminate.
      * destruct (is_io e0) eqn:Eio.
        -- destruct (io_err_is_tail _ (Hstable h) _ _ _ Eb0 Eio) as [-> _]. right. reflexivity.
        -- rewrite (det_err_extend _ (Hstable h) _ _ _ Eb0 Eio t sfx) in Ha. inversion Ha. subst e0.
           left. rewrite (not_io_not_eof e He). reflexivity.
      * exfalso. rewrite (panic_extend _ (Hstable h) _ _ _ Eb0 t sfx) in Ha. discriminate.
  - inversion Ha. left. reflexivity.
  - discriminate.
Qed.

(* a control byte that Header::new_with refuses is reported by the poll decoder as soon as the
   variable byte integer is complete, whatever follows *)
Theorem header_err_to_poll cb n d t e : n < VMAX -> new_with cb n = Err e ->
  rr_res P (poll1 (cb :: write_var_int n ++ d) t) = Some (Err e).
Proof.
  intros Hn He.
  destruct (PollSched.poll1_is_sem P new_with build_empty block_decode prof (cb :: write_var_int n ++ d) t) as [A _].
  rewrite A. f_equal.
  pose proof (PollSched.poll_header_eq P new_with build_empty block_decode cb t (write_var_int n ++ d)) as Hh.
  rewrite (decode_var_int_write n t d Hn) in Hh. rewrite Hh.
  unfold Poll.header_done. rewrite He. reflexivity.
Qed.

Theorem varint_err_to_poll cb b0 b1 b2 b3 d t : 128 <= b0 -> 128 <= b1 -> 128 <= b2 -> 128 <= b3 ->
  rr_res P (poll1 (cb :: b0 :: b1 :: b2 :: b3 :: d) t) = Some (Err InvalidVarByteInt).
Proof.
  intros. apply PollSched.poll1_bad_varint. apply read_too_long; assumption.
Qed.
End PollLift.

Print Assumptions header3_spec.
Print Assumptions header5_spec.
Print Assumptions C20_header_sweep_3.
Print Assumptions C20_header_sweep_5.
Print Assumptions C20_props_duplicated.
Print Assumptions C20_props_length_minus_one.
Print Assumptions C20_filter_read.
Print Assumptions C20_name_try_bytes.
Print Assumptions frame_err_to_poll.
Print Assumptions async_err_to_poll_weak.
Print Assumptions header_err_to_poll.
