(* Proofs/FrontRT.v — C01, C07, C14 (read side) and C08 on the three decoder front-ends, both
   families.  Umbrella over
     Proofs/FrontGen.v    the generic development (Section over the PollHeader implementation)
     Proofs/FrontRT3.v    the v3 instance and its examples
     Proofs/FrontRT5.v    the v5 instance and its examples
   Compile in that order, then this file. *)
From MQ Require Export Proofs.FrontGen Proofs.FrontRT3 Proofs.FrontRT5.

(* C01 *)
Check C01_v3_async. Check C01_v3_block. Check C01_v3_poll. Check C01_v3_poll1.
Check C01_v5_async. Check C01_v5_block. Check C01_v5_poll. Check C01_v5_poll1.
(* C07, C14 read side *)
Check C07_v3_prefix. Check C14_v3_read_fault. Check C07_C14_v3_any_tail.
Check C07_v5_prefix. Check C14_v5_read_fault. Check C07_C14_v5_any_tail.
(* C08 *)
Check C08_v3_async. Check C08_v3_block. Check C08_v3_poll. Check C08_v3_sizes.
Check C08_v3_async_fuel. Check C08_v3_block_fuel. Check C08_v3_poll_fuel.
Check C08_v5_async. Check C08_v5_block. Check C08_v5_poll. Check C08_v5_sizes.
Check C08_v5_async_fuel. Check C08_v5_block_fuel. Check C08_v5_poll_fuel.

Print Assumptions C01_v3_async.
Print Assumptions C01_v3_block.
Print Assumptions C01_v3_poll.
Print Assumptions C07_v3_prefix.
Print Assumptions C14_v3_read_fault.
Print Assumptions C08_v3_async.
Print Assumptions C08_v3_block.
Print Assumptions C08_v3_poll.
Print Assumptions C01_v5_async.
Print Assumptions C01_v5_block.
Print Assumptions C01_v5_poll.
Print Assumptions C07_v5_prefix.
Print Assumptions C14_v5_read_fault.
Print Assumptions C08_v5_async.
Print Assumptions C08_v5_block.
Print Assumptions C08_v5_poll.
