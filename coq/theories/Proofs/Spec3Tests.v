(* Proofs/Spec3Tests.v — executable sanity checks of the C04 statement on hand-made v3 frames. *)
From MQ Require Import Proofs.Tactics Proofs.Parses Spec.SpecParse Model.Valid Proofs.Spec3Base.
Open Scope N_scope.

Definition lhs prof cb body := strict3 prof cb (len body) body.
Definition rhs cb body := SP.parse3 true (cb :: write_var_int (len body) ++ body).
Definition both cb body := (lhs Debug cb body, lhs Release cb body, rhs cb body).

Ltac agree := vm_compute; split; reflexivity.
Definition tag cb body : N := match lhs Debug cb body, lhs Release cb body, rhs cb body with Some _, Some _, Some _ => 1 | None, None, None => 0 | _, _, _ => 99 end.
Notation AG cb body := (lhs Debug cb body = rhs cb body /\ lhs Release cb body = rhs cb body).

(* --- pingreq & co --- *)
Example t1 : AG 192 []. Proof. agree. Qed.
Eval vm_compute in tag 192 [].
Example t2 : AG 192 [0]. Proof. agree. Qed.
Eval vm_compute in tag 192 [0].
Example t3 : AG 193 []. Proof. agree. Qed.
Eval vm_compute in tag 193 [].
Example t4 : AG 224 []. Proof. agree. Qed.
Eval vm_compute in tag 224 [].
Example t5 : AG 0 []. Proof. agree. Qed.
Eval vm_compute in tag 0 [].
Example t6 : AG 240 []. Proof. agree. Qed.
Eval vm_compute in tag 240 [].
Example t7 : AG 240 [0]. Proof. agree. Qed.
Eval vm_compute in tag 240 [0].
(* pid packets *)
Example t8 : AG 64 [0;1]. Proof. agree. Qed.
Eval vm_compute in tag 64 [0;1].
Example t9 : AG 64 [0;0]. Proof. agree. Qed.
Eval vm_compute in tag 64 [0;0].
Example t10 : AG 64 [0;1;2]. Proof. agree. Qed.
Eval vm_compute in tag 64 [0;1;2].
Example t11 : AG 64 [0]. Proof. agree. Qed.
Eval vm_compute in tag 64 [0].
Example t12 : AG 64 []. Proof. agree. Qed.
Eval vm_compute in tag 64 [].
Example t13 : AG 96 [0;1]. Proof. agree. Qed.
Eval vm_compute in tag 96 [0;1].
Example t14 : AG 98 [0;1]. Proof. agree. Qed.
Eval vm_compute in tag 98 [0;1].
Example t15 : AG 66 [0;1]. Proof. agree. Qed.
Eval vm_compute in tag 66 [0;1].
Example t16 : AG 176 [1;1]. Proof. agree. Qed.
Eval vm_compute in tag 176 [1;1].
(* connack *)
Example t17 : AG 32 [0;0]. Proof. agree. Qed.
Eval vm_compute in tag 32 [0;0].
Example t18 : AG 32 [1;5]. Proof. agree. Qed.
Eval vm_compute in tag 32 [1;5].
Example t19 : AG 32 [2;0]. Proof. agree. Qed.
Eval vm_compute in tag 32 [2;0].
Example t20 : AG 32 [1;6]. Proof. agree. Qed.
Eval vm_compute in tag 32 [1;6].
Example t21 : AG 32 [1]. Proof. agree. Qed.
Eval vm_compute in tag 32 [1].
Example t22 : AG 32 [1;0;0]. Proof. agree. Qed.
Eval vm_compute in tag 32 [1;0;0].
Example t23 : AG 33 [1;0]. Proof. agree. Qed.
Eval vm_compute in tag 33 [1;0].
(* publish *)
Example t24 : AG 48 [0;1;97]. Proof. agree. Qed.
Eval vm_compute in tag 48 [0;1;97].
Example t25 : AG 48 [0;1;97;1;2;3]. Proof. agree. Qed.
Eval vm_compute in tag 48 [0;1;97;1;2;3].
Example t26 : AG 48 [0;0]. Proof. agree. Qed.
Eval vm_compute in tag 48 [0;0].
Example t27 : AG 48 [0;1;43]. Proof. agree. Qed.
Eval vm_compute in tag 48 [0;1;43].
Example t28 : AG 48 [0;1;0]. Proof. agree. Qed.
Eval vm_compute in tag 48 [0;1;0].
Example t29 : AG 48 [0;2;97]. Proof. agree. Qed.
Eval vm_compute in tag 48 [0;2;97].
Example t30 : AG 48 [0]. Proof. agree. Qed.
Eval vm_compute in tag 48 [0].
Example t31 : AG 48 []. Proof. agree. Qed.
Eval vm_compute in tag 48 [].
Example t32 : AG 50 [0;1;97;0;1]. Proof. agree. Qed.
Eval vm_compute in tag 50 [0;1;97;0;1].
Example t33 : AG 50 [0;1;97;0;0]. Proof. agree. Qed.
Eval vm_compute in tag 50 [0;1;97;0;0].
Example t34 : AG 50 [0;1;97;0]. Proof. agree. Qed.
Eval vm_compute in tag 50 [0;1;97;0].
Example t35 : AG 50 [0;1;97]. Proof. agree. Qed.
Eval vm_compute in tag 50 [0;1;97].
Example t36 : AG 50 [0;1;97;0;7;9;9]. Proof. agree. Qed.
Eval vm_compute in tag 50 [0;1;97;0;7;9;9].
Example t37 : AG 52 [0;1;97;0;7;9;9]. Proof. agree. Qed.
Eval vm_compute in tag 52 [0;1;97;0;7;9;9].
Example t38 : AG 54 [0;1;97;0;7;9;9]. Proof. agree. Qed.
Eval vm_compute in tag 54 [0;1;97;0;7;9;9].
Example t39 : AG 61 [0;1;97;0;7;9;9]. Proof. agree. Qed.
Eval vm_compute in tag 61 [0;1;97;0;7;9;9].
Example t40 : AG 59 [0;1;97;0;7;9;9]. Proof. agree. Qed.
Eval vm_compute in tag 59 [0;1;97;0;7;9;9].
Example t41 : AG 48 [0;2;195;40]. Proof. agree. Qed.
Eval vm_compute in tag 48 [0;2;195;40].
Example t42 : AG 48 [0;2;195;169]. Proof. agree. Qed.
Eval vm_compute in tag 48 [0;2;195;169].
(* subscribe *)
Example t43 : AG 130 [0;1;0;1;97;0]. Proof. agree. Qed.
Eval vm_compute in tag 130 [0;1;0;1;97;0].
Example t44 : AG 130 [0;1;0;1;97;3]. Proof. agree. Qed.
Eval vm_compute in tag 130 [0;1;0;1;97;3].
Example t45 : AG 130 [0;1;0;1;97]. Proof. agree. Qed.
Eval vm_compute in tag 130 [0;1;0;1;97].
Example t46 : AG 130 [0;1]. Proof. agree. Qed.
Eval vm_compute in tag 130 [0;1].
Example t47 : AG 130 [0;0;0;1;97;0]. Proof. agree. Qed.
Eval vm_compute in tag 130 [0;0;0;1;97;0].
Example t48 : AG 128 [0;1;0;1;97;0]. Proof. agree. Qed.
Eval vm_compute in tag 128 [0;1;0;1;97;0].
Example t49 : AG 130 [0;1;0;1;97;0;0;3;97;47;35;2]. Proof. agree. Qed.
Eval vm_compute in tag 130 [0;1;0;1;97;0;0;3;97;47;35;2].
Example t50 : AG 130 [0;1;0;1;97;0;0;3;97;47;35]. Proof. agree. Qed.
Eval vm_compute in tag 130 [0;1;0;1;97;0;0;3;97;47;35].
Example t51 : AG 130 [0;1;0;1;97;0;0]. Proof. agree. Qed.
Eval vm_compute in tag 130 [0;1;0;1;97;0;0].
Example t52 : AG 130 [0;1;0;2;97;35;0]. Proof. agree. Qed.
Eval vm_compute in tag 130 [0;1;0;2;97;35;0].
Example t53 : AG 130 [0;1;0;0;0]. Proof. agree. Qed.
Eval vm_compute in tag 130 [0;1;0;0;0].
Example t54 : AG 130 [0;1;0;10;36;115;104;97;114;101;47;103;47;116;1]. Proof. agree. Qed.
Eval vm_compute in tag 130 [0;1;0;10;36;115;104;97;114;101;47;103;47;116;1].
Example t55 : AG 130 [0;1;0;9;36;115;104;97;114;101;47;103;47;1]. Proof. agree. Qed.
Eval vm_compute in tag 130 [0;1;0;9;36;115;104;97;114;101;47;103;47;1].
Example t56 : AG 130 [0;1;0;2;43;120;1]. Proof. agree. Qed.
Eval vm_compute in tag 130 [0;1;0;2;43;120;1].
(* suback *)
Example t57 : AG 144 [0;1]. Proof. agree. Qed.
Eval vm_compute in tag 144 [0;1].
Example t58 : AG 144 [0;1;0;1;2;128]. Proof. agree. Qed.
Eval vm_compute in tag 144 [0;1;0;1;2;128].
Example t59 : AG 144 [0;1;3]. Proof. agree. Qed.
Eval vm_compute in tag 144 [0;1;3].
Example t60 : AG 144 [0;0;1]. Proof. agree. Qed.
Eval vm_compute in tag 144 [0;0;1].
Example t61 : AG 144 [0]. Proof. agree. Qed.
Eval vm_compute in tag 144 [0].
Example t62 : AG 144 []. Proof. agree. Qed.
Eval vm_compute in tag 144 [].
(* unsubscribe *)
Example t63 : AG 162 [0;1;0;1;97]. Proof. agree. Qed.
Eval vm_compute in tag 162 [0;1;0;1;97].
Example t64 : AG 162 [0;1;0;1;97;0;1;98]. Proof. agree. Qed.
Eval vm_compute in tag 162 [0;1;0;1;97;0;1;98].
Example t65 : AG 162 [0;1;0;1;97;0]. Proof. agree. Qed.
Eval vm_compute in tag 162 [0;1;0;1;97;0].
Example t66 : AG 162 [0;1]. Proof. agree. Qed.
Eval vm_compute in tag 162 [0;1].
Example t67 : AG 162 [0;1;0;1;0]. Proof. agree. Qed.
Eval vm_compute in tag 162 [0;1;0;1;0].
Example t68 : AG 160 [0;1;0;1;97]. Proof. agree. Qed.
Eval vm_compute in tag 160 [0;1;0;1;97].
(* connect *)
Definition cbody (level flags : N) (rest : bytes) : bytes := [0;4;77;81;84;84;level;flags;0;60] ++ rest.
Example t69 : AG 16 (cbody 4 2 [0;1;97]). Proof. agree. Qed.
Eval vm_compute in tag 16 (cbody 4 2 [0;1;97]).
Example t70 : AG 16 (cbody 4 2 [0;0]). Proof. agree. Qed.
Eval vm_compute in tag 16 (cbody 4 2 [0;0]).
Example t71 : AG 16 (cbody 4 3 [0;1;97]). Proof. agree. Qed.
Eval vm_compute in tag 16 (cbody 4 3 [0;1;97]).
Example t72 : AG 16 (cbody 5 2 [0;1;97]). Proof. agree. Qed.
Eval vm_compute in tag 16 (cbody 5 2 [0;1;97]).
Example t73 : AG 16 (cbody 3 2 [0;1;97]). Proof. agree. Qed.
Eval vm_compute in tag 16 (cbody 3 2 [0;1;97]).
Example t74 : AG 16 ([0;6;77;81;73;115;100;112;3;2;0;60] ++ [0;1;97]). Proof. agree. Qed.
Eval vm_compute in tag 16 ([0;6;77;81;73;115;100;112;3;2;0;60] ++ [0;1;97]).
Example t75 : AG 16 ([0;6;77;81;73;115;100;112;4;2;0;60] ++ [0;1;97]). Proof. agree. Qed.
Eval vm_compute in tag 16 ([0;6;77;81;73;115;100;112;4;2;0;60] ++ [0;1;97]).
Example t76 : AG 16 (cbody 4 2 [0;1;97;0]). Proof. agree. Qed.
Eval vm_compute in tag 16 (cbody 4 2 [0;1;97;0]).
Example t77 : AG 16 (cbody 4 2 [0;1]). Proof. agree. Qed.
Eval vm_compute in tag 16 (cbody 4 2 [0;1]).
Example t78 : AG 16 (cbody 4 34 [0;1;97]). Proof. agree. Qed.            (* will retain without will: L2 *)
Eval vm_compute in tag 16 (cbody 4 34 [0;1;97]).
Example t79 : AG 16 (cbody 4 10 [0;1;97]). Proof. agree. Qed.            (* will qos without will *)
Eval vm_compute in tag 16 (cbody 4 10 [0;1;97]).
Example t80 : AG 16 (cbody 4 24 [0;1;97]). Proof. agree. Qed.            (* will qos 3 without will *)
Eval vm_compute in tag 16 (cbody 4 24 [0;1;97]).
Example t81 : AG 16 (cbody 4 (4+8+32) [0;1;97;0;1;116;0;2;1;2]). Proof. agree. Qed.
Eval vm_compute in tag 16 (cbody 4 (4+8+32) [0;1;97;0;1;116;0;2;1;2]).
Example t82 : AG 16 (cbody 4 (4+24) [0;1;97;0;1;116;0;2;1;2]). Proof. agree. Qed.   (* will qos 3 *)
Eval vm_compute in tag 16 (cbody 4 (4+24) [0;1;97;0;1;116;0;2;1;2]).
Example t83 : AG 16 (cbody 4 (4+8) [0;1;97;0;1;43;0;2;1;2]). Proof. agree. Qed.     (* will topic with + *)
Eval vm_compute in tag 16 (cbody 4 (4+8) [0;1;97;0;1;43;0;2;1;2]).
Example t84 : AG 16 (cbody 4 (4+8) [0;1;97;0;1;116;0;2;1]). Proof. agree. Qed.      (* truncated will message *)
Eval vm_compute in tag 16 (cbody 4 (4+8) [0;1;97;0;1;116;0;2;1]).
Example t85 : AG 16 (cbody 4 (128+64) [0;1;97;0;1;117;0;1;112]). Proof. agree. Qed.
Eval vm_compute in tag 16 (cbody 4 (128+64) [0;1;97;0;1;117;0;1;112]).
Example t86 : AG 16 (cbody 4 64 [0;1;97;0;1;112]). Proof. agree. Qed.               (* password without user: L3 *)
Eval vm_compute in tag 16 (cbody 4 64 [0;1;97;0;1;112]).
Example t87 : AG 16 (cbody 4 128 [0;1;97;0;1;255]). Proof. agree. Qed.              (* bad utf8 user *)
Eval vm_compute in tag 16 (cbody 4 128 [0;1;97;0;1;255]).
Example t88 : AG 16 (cbody 4 64 [0;1;97;0;1;255]). Proof. agree. Qed.
Eval vm_compute in tag 16 (cbody 4 64 [0;1;97;0;1;255]).
Example t89 : AG 16 (cbody 4 128 [0;1;97]). Proof. agree. Qed.
Eval vm_compute in tag 16 (cbody 4 128 [0;1;97]).
Example t90 : AG 16 (cbody 4 0 [0;1;255]). Proof. agree. Qed.
Eval vm_compute in tag 16 (cbody 4 0 [0;1;255]).
Example t91 : AG 16 [0;4;77;81;84;84]. Proof. agree. Qed.
Eval vm_compute in tag 16 [0;4;77;81;84;84].
Example t92 : AG 16 []. Proof. agree. Qed.
Eval vm_compute in tag 16 [].
Example t93 : AG 17 (cbody 4 2 [0;1;97]). Proof. agree. Qed.
Eval vm_compute in tag 17 (cbody 4 2 [0;1;97]).
Example t94 : AG 16 (cbody 4 (4+8+32+128+64+2) [0;1;97;0;1;116;0;2;1;2;0;1;117;0;1;112]). Proof. agree. Qed.
Eval vm_compute in tag 16 (cbody 4 (4+8+32+128+64+2) [0;1;97;0;1;116;0;2;1;2;0;1;117;0;1;112]).
Example t95 : AG 16 (cbody 4 (4+8+32+128+64+2) [0;1;97;0;1;116;0;2;1;2;0;1;117;0;1;112;0]). Proof. agree. Qed.
Eval vm_compute in tag 16 (cbody 4 (4+8+32+128+64+2) [0;1;97;0;1;116;0;2;1;2;0;1;117;0;1;112;0]).
(* long body: 200 bytes payload => two-byte remaining length *)
Eval vm_compute in (let b := [0;1;97] ++ repeat 7 200 in
   match lhs Debug 48 b, rhs 48 b with Some _, Some _ => 1 | None, None => 0 | _, _ => 99 end).
