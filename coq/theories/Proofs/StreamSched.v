(* Proofs/StreamSched.v — C08 for the poll front-end over ARBITRARY CHUNKED DELIVERY.

   Model/Stream.v's stream_poll decodes packet after packet from a byte list (one always-ready
   read per packet).  Here the caller keeps ONE scripted transport (a list of atoms: bytes,
   cuts that end a read, Pendings) for the whole stream: after a packet, the next PollPacket
   (fresh default state) continues on the atoms that are left, which may begin in the middle of
   what was a single read, exactly as on a real socket.

     stream_poll_atoms_bytes   generic: for a poll implementation that is "the same as one
                               read", the packet-by-packet loop over any atom list equals
                               stream_poll over the bytes of the list: the result depends only
                               on the bytes, for EVERY delivery schedule;
     stream_poll_atoms_schedule_independent   two schedules of the same bytes give the same list;
     C08_v3_poll_any_schedule / C08_v5_poll_any_schedule
                               closed: the concatenated encodings of valid packets, delivered
                               under any schedule, come out one by one with their sizes, and the
                               loop ends with the transport's end-of-stream error.

   No hypotheses remain. *)
From MQ Require Import Proofs.Tactics Model.Valid Model.Stream.
From MQ Require Proofs.PollSched Proofs.FrontAgree Proofs.FrontRT3 Proofs.FrontRT5.
Open Scope N_scope.

(* ------------------------------------------------------------------------------------------ *)
(* the packet-by-packet loop on one scripted transport                                        *)
(* ------------------------------------------------------------------------------------------ *)
Section StreamAtoms.
Variable P : Type.
Variable drive : list atom -> tail -> runres P.      (* PollPacket with a fresh default state, under the schedule *)

Fixpoint stream_poll_atoms (fuel : nat) (t : tail) (l : list atom) (acc : list (P * N)) : list (P * N) * final :=
  match fuel with
  | O => (rev' acc, FPanic SiteFuel)
  | S f => let r := drive l t in
           match rr_res P r with
           | None => (rev' acc, FPanic SiteFuel)
           | Some (Ok (total, _, p)) => stream_poll_atoms f t (rr_rest P r) ((p, total) :: acc)
           | Some (Err e) => (rev' acc, FErr e)
           | Some (Panic s) => (rev' acc, FPanic s)
           end
  end.
End StreamAtoms.

(* ------------------------------------------------------------------------------------------ *)
(* generic theorem                                                                            *)
(* ------------------------------------------------------------------------------------------ *)
Section StreamSchedGen.
Variable P : Type.
Variable drive : list atom -> tail -> runres P.

(* one always-ready reader offering the whole slice *)
Definition one_read (d : bytes) (t : tail) : runres P := drive (map AB d) t.

(* "same as one read": the result and the bytes left depend only on the bytes of the schedule *)
Hypothesis same_res : forall (l : list atom) (t : tail),
  rr_res P (drive l t) = rr_res P (one_read (bytes_of l) t).
Hypothesis same_rest : forall (l : list atom) (t : tail),
  bytes_of (rr_rest P (drive l t)) = bytes_of (rr_rest P (one_read (bytes_of l) t)).

Theorem stream_poll_atoms_bytes : forall (fuel : nat) (t : tail) (l : list atom) (acc : list (P * N)),
  stream_poll_atoms P drive fuel t l acc = stream_poll P one_read fuel t (bytes_of l) acc.
Proof.
  induction fuel as [|f IH]; intros t l acc.
  - reflexivity.
  - cbn [stream_poll_atoms stream_poll].
    rewrite (same_res l t).
    destruct (rr_res P (one_read (bytes_of l) t)) as [[[[total body] p]|e|s]|]; try reflexivity.
    rewrite (IH t (rr_rest P (drive l t)) ((p, total) :: acc)).
    rewrite (same_rest l t). reflexivity.
Qed.

(* the loop's result depends only on the byte stream, not on how it is chunked or delayed *)
Corollary stream_poll_atoms_schedule_independent :
  forall (fuel : nat) (t : tail) (l1 l2 : list atom) (acc : list (P * N)),
  bytes_of l1 = bytes_of l2 ->
  stream_poll_atoms P drive fuel t l1 acc = stream_poll_atoms P drive fuel t l2 acc.
Proof.
  intros fuel t l1 l2 acc Hb.
  rewrite (stream_poll_atoms_bytes fuel t l1 acc), (stream_poll_atoms_bytes fuel t l2 acc), Hb.
  reflexivity.
Qed.
End StreamSchedGen.

(* ------------------------------------------------------------------------------------------ *)
(* v3                                                                                         *)
(* ------------------------------------------------------------------------------------------ *)
Lemma one_read3 (prof : profile) (d : bytes) (t : tail) :
  one_read V3.packet (F3.poll_drive prof) d t = F3.poll1 prof d t.
Proof. reflexivity. Qed.

Theorem C08_v3_stream_atoms_bytes : forall (prof : profile) (fuel : nat) (t : tail) (l : list atom)
                                           (acc : list (V3.packet * N)),
  stream_poll_atoms V3.packet (F3.poll_drive prof) fuel t l acc
  = stream_poll V3.packet (F3.poll1 prof) fuel t (bytes_of l) acc.
Proof.
  intros prof fuel t l acc.
  exact (stream_poll_atoms_bytes V3.packet (F3.poll_drive prof)
           (fun l0 t0 => proj1 (FrontAgree.C05_v3_same_as_one_read prof l0 t0))
           (fun l0 t0 => proj2 (FrontAgree.C05_v3_same_as_one_read prof l0 t0))
           fuel t l acc).
Qed.

Theorem C08_v3_stream_schedule_independent : forall (prof : profile) (fuel : nat) (t : tail)
                                                    (l1 l2 : list atom) (acc : list (V3.packet * N)),
  bytes_of l1 = bytes_of l2 ->
  stream_poll_atoms V3.packet (F3.poll_drive prof) fuel t l1 acc
  = stream_poll_atoms V3.packet (F3.poll_drive prof) fuel t l2 acc.
Proof.
  intros prof fuel t l1 l2 acc Hb.
  rewrite (C08_v3_stream_atoms_bytes prof fuel t l1 acc), (C08_v3_stream_atoms_bytes prof fuel t l2 acc), Hb.
  reflexivity.
Qed.

Theorem C08_v3_poll_any_schedule : forall prof ps bs, FrontRT3.encs3 prof ps bs ->
  forall fuel t l, (length ps < fuel)%nat ->
  bytes_of l = concat bs ->
  stream_poll_atoms V3.packet (F3.poll_drive prof) fuel t l [] = (combine ps (map len bs), FErr (io_err t)).
Proof.
  intros prof ps bs Henc fuel t l Hfuel Hbytes.
  rewrite (C08_v3_stream_atoms_bytes prof fuel t l []), Hbytes.
  exact (FrontRT3.C08_v3_poll_fuel prof ps bs Henc fuel t Hfuel).
Qed.

(* ------------------------------------------------------------------------------------------ *)
(* v5                                                                                         *)
(* ------------------------------------------------------------------------------------------ *)
Lemma one_read5 (prof : profile) (d : bytes) (t : tail) :
  one_read V5.packet (F5.poll_drive prof) d t = F5.poll1 prof d t.
Proof. reflexivity. Qed.

Theorem C08_v5_stream_atoms_bytes : forall (prof : profile) (fuel : nat) (t : tail) (l : list atom)
                                           (acc : list (V5.packet * N)),
  stream_poll_atoms V5.packet (F5.poll_drive prof) fuel t l acc
  = stream_poll V5.packet (F5.poll1 prof) fuel t (bytes_of l) acc.
Proof.
  intros prof fuel t l acc.
  exact (stream_poll_atoms_bytes V5.packet (F5.poll_drive prof)
           (fun l0 t0 => proj1 (FrontAgree.C05_v5_same_as_one_read prof l0 t0))
           (fun l0 t0 => proj2 (FrontAgree.C05_v5_same_as_one_read prof l0 t0))
           fuel t l acc).
Qed.

Theorem C08_v5_stream_schedule_independent : forall (prof : profile) (fuel : nat) (t : tail)
                                                    (l1 l2 : list atom) (acc : list (V5.packet * N)),
  bytes_of l1 = bytes_of l2 ->
  stream_poll_atoms V5.packet (F5.poll_drive prof) fuel t l1 acc
  = stream_poll_atoms V5.packet (F5.poll_drive prof) fuel t l2 acc.
Proof.
  intros prof fuel t l1 l2 acc Hb.
  rewrite (C08_v5_stream_atoms_bytes prof fuel t l1 acc), (C08_v5_stream_atoms_bytes prof fuel t l2 acc), Hb.
  reflexivity.
Qed.

Theorem C08_v5_poll_any_schedule : forall prof ps bs, FrontRT5.encs5 prof ps bs ->
  forall fuel t l, (length ps < fuel)%nat ->
  bytes_of l = concat bs ->
  stream_poll_atoms V5.packet (F5.poll_drive prof) fuel t l [] = (combine ps (map len bs), FErr (io_err t)).
Proof.
  intros prof ps bs Henc fuel t l Hfuel Hbytes.
  rewrite (C08_v5_stream_atoms_bytes prof fuel t l []), Hbytes.
  exact (FrontRT5.C08_v5_poll_fuel prof ps bs Henc fuel t Hfuel).
Qed.

(* ------------------------------------------------------------------------------------------ *)
(* worked examples                                                                            *)
(* ------------------------------------------------------------------------------------------ *)
(* PUBACK pid 7 = [64;2;0;7] then PINGREQ = [192;0].  The schedule cuts inside the first packet
   (after the control byte, and between the two pid bytes), delays with Pendings, and the run
   "AB 7; AB 192" is ONE read on the transport that spans the boundary between the packets:
   the first PollPacket takes only the 7 (its capacity is the one byte still missing) and the
   second starts on what is left of that read. *)
Definition ex_sched3 : list atom :=
  [APend; AB 64; ACut; AB 2; AB 0; ACut; APend; AB 7; AB 192; APend; ACut; AB 0].

Example ex_sched3_bytes : bytes_of ex_sched3 = concat [[64; 2; 0; 7]; [192; 0]].
Proof. vm_compute. reflexivity. Qed.

Example ex_sched3_encs : FrontRT3.encs3 Debug [V3.Puback 7; V3.Pingreq] [[64; 2; 0; 7]; [192; 0]].
Proof.
  repeat constructor; try (vm_compute; reflexivity);
    eexists; (split; [vm_compute; reflexivity|reflexivity]).
Qed.

(* the first packet alone: what is left begins in the middle of the read "7, 192" *)
Example ex_sched3_first :
  let r := F3.poll_drive Debug ex_sched3 TEof in
  rr_res _ r = Some (Ok (4, [0; 7], V3.Puback 7))
  /\ rr_rest _ r = [AB 192; APend; ACut; AB 0] /\ rr_pend _ r = 2.
Proof. vm_compute. repeat split. Qed.

Example ex_sched3_run :
  stream_poll_atoms V3.packet (F3.poll_drive Debug) 3 TEof ex_sched3 []
  = ([(V3.Puback 7, 4); (V3.Pingreq, 2)], FErr (IoError KUnexpectedEof)).
Proof. vm_compute. reflexivity. Qed.

(* the same, obtained from the theorem (any fuel above 2, any tail) *)
Example ex_sched3_thm : forall fuel t, (2 < fuel)%nat ->
  stream_poll_atoms V3.packet (F3.poll_drive Debug) fuel t ex_sched3 []
  = ([(V3.Puback 7, 4); (V3.Pingreq, 2)], FErr (io_err t)).
Proof.
  intros fuel t Hf.
  exact (C08_v3_poll_any_schedule Debug [V3.Puback 7; V3.Pingreq] [[64; 2; 0; 7]; [192; 0]]
           ex_sched3_encs fuel t ex_sched3 Hf ex_sched3_bytes).
Qed.

(* a v5 stream: PINGRESP [208;0] then DISCONNECT with remaining length 0 [224;0], one read
   "0, 224" spanning the boundary *)
Definition ex_sched5 : list atom := [AB 208; APend; AB 0; AB 224; ACut; APend; AB 0].

Example ex_sched5_run :
  stream_poll_atoms V5.packet (F5.poll_drive Release) 3 (TFail KInterrupted) ex_sched5 []
  = stream_poll V5.packet (F5.poll1 Release) 3 (TFail KInterrupted) [208; 0; 224; 0] []
  /\ map snd (fst (stream_poll_atoms V5.packet (F5.poll_drive Release) 3 (TFail KInterrupted) ex_sched5 [])) = [2; 2]
  /\ snd (stream_poll_atoms V5.packet (F5.poll_drive Release) 3 (TFail KInterrupted) ex_sched5 [])
     = FErr (IoError KInterrupted).
Proof. vm_compute. repeat split. Qed.

Print Assumptions stream_poll_atoms_bytes.
Print Assumptions stream_poll_atoms_schedule_independent.
Print Assumptions C08_v3_stream_atoms_bytes.
Print Assumptions C08_v3_stream_schedule_independent.
Print Assumptions C08_v3_poll_any_schedule.
Print Assumptions C08_v5_stream_atoms_bytes.
Print Assumptions C08_v5_stream_schedule_independent.
Print Assumptions C08_v5_poll_any_schedule.
